//@@ unit props=C16,C18,C14,C06 rlimit=80
// Unit names: the defined names of an xls workbook (C16: "defined_names lists every defined name with its text or decoded reference, in
// order") and the reference list of a VBA project (C18: "the project references are listed with their names"). Verbatim text of
//   src/xls.rs  parse_defined_names                      (mod dn)      first token of a name's formula -> (XTI index, reference text)
//   src/xls.rs  Xls::parse_workbook                      (mod dn::wb)  Lbl (0x0018) / ExternSheet (0x0017) arms + the `defined_names` closure chain
//   src/vba.rs  skip, read_variable_record, check_record, check_variable_record, Reference::from_stream   (mod vb)
//
// Specifications (from the formats):
//   [MS-XLS] 2.5.198.84/.29/.83/.30 PtgRef3d / PtgArea3d / PtgRefErr3d / PtgAreaErr3d, 2.5.198.111 RgceLocRel (column = 14 bits + colRelative
//     + rowRelative): `cell_text` = [$] letters(col) [$] decimal(row + 1) with `$` in front of absolute coordinates; `col_letters` = bijective
//     base-26 (linked to push_column's proved contract by lemma_letters_unique), `dec_str` = decimal numeral (trusted `format!("{}", u32)`).
//   [MS-XLS] 2.4.150 Lbl, 2.4.105 ExternSheet, 2.5.277 XTI, 2.4.271 SupBook: `lbls_of` (one entry per Lbl record, name of cch characters
//     decoded with the code page in force, formula = the cce bytes behind the name), `xtis_of` (first cXTI entries of every ExternSheet
//     record), `final_text` ("<BoundSheet8 name of XTI[ixti].itabFirst>!<text>" for an XTI entry of the self-referencing SupBook, "#REF"
//     when out of range or when the entry designates another SupBook), `xti_internal` (iSupBook designates the self-referencing SupBook).
//   [MS-OVBA] 2.3.4.2.2 PROJECTREFERENCES: `ref_walk` = grammar of the reference array (REFERENCENAME 0x0016 + 0x003E, REFERENCEORIGINAL 0x0033,
//     REFERENCECONTROL 0x002F .. 0x0030 .., REFERENCEREGISTERED 0x000D, REFERENCEPROJECT 0x000E, ended by PROJECTMODULES 0x000F) yielding the
//     events Name / Libid in stream order; `ev_names`; `refs_fold` (a Name starts a reference, a libid with a description re-describes the
//     reference under way; 2.1.1.8: the description is the last '#'-separated field).
//
// Clauses: C16.empty_rgce, ref3d_text, area3d_text (relative and absolute coordinates), referr3d_text, areaerr3d_text,
//   other_tokens_name_no_sheet, defined_name_err_iff_first_token_truncated, truncated_token_is_len_error;
//   C16.xls_defined_names_one_per_lbl_in_order (+ lbl_records_collected_in_order, xti_table_collected_in_order,
//   defined_name_prefixed_with_its_sheet); C18.reference_names_in_order, reference_descriptions_from_their_libids,
//   reference_array_wellformed_if_ok, reference_array_consumed (+ skip_*, var_record*, check_*record* of the cursor helpers).
// No registered finding. Fixed: C06 first token sliced without length check; C16 relative flags of the column field not decoded;
//   C16 XTI.iSupBook ignored (external references were listed under an own sheet).
// parse_workbook is verified without hypothesis (its former `requires wb_hyp` is gone: truncated CodePage / Date1904 / ExternSheet / Lbl
//   records and sheet positions beyond the stream are rejected with Err by the current text); the name / reference of an Lbl record is
//   pinned down for records that are exactly their fields (`lbl_wf`). Reference::from_stream needs no hypothesis either.
// Declared rewrites of real code: see the `replace` directives (format! -> trusted wrappers with the same expression as body; or_else with
//   `&mut` captures; map/collect chains inside the generic impl -> explicit loops with the closure bodies re-inserted verbatim;
//   chunks_exact/take/map -> explicit loop over the same ChunksExact iterator).
// Not pinned down: `Reference::path` (PathBuf is outside the verifier), set_libid itself (trusted contract from its text), the reference
//   text of names whose formula starts with any other token ("Unsupported ptg" message), BIFF5 NAME records.
#![feature(allocator_api)]
#![feature(pattern)]
#![allow(unused_imports, dead_code, unused_variables, unused_mut, unused_assignments, unexpected_cfgs, deprecated)]
use vstd::prelude::*;
use std::io::{Read, Seek};
use std::marker::PhantomData;
use std::collections::BTreeMap;
use std::slice::ChunksExact;
use std::cmp::min;

verus! {

global size_of usize == 8;   // checked by rustc against the target (x86_64); used for `negative i16 as usize` only

#[verifier::external_type_specification] #[verifier::external_body] pub struct ExIoError(std::io::Error);
// TRUSTED: std::io::ErrorKind is a plain enum; `io::Error::from(kind)` builds an error value and never panics
#[verifier::external_type_specification] pub struct ExErrorKind(std::io::ErrorKind);
pub assume_specification [<std::io::Error as From<std::io::ErrorKind>>::from] (k: std::io::ErrorKind) -> std::io::Error;
//@@ item src/cfb.rs enum CfbError
//@@ item src/vba.rs enum VbaError
pub mod cfb { pub use super::CfbError; pub use super::vb::XlsEncoding; }
pub mod vba { pub use super::{VbaError}; }
//@@ item src/xls.rs enum XlsError cfg_off=picture

//@@ include common/bytes.rs

pub mod dn {
use super::*;
// =====================================================================================================================
// PART 1 (a): parse_defined_names -- the reference a defined name (Lbl record) stands for
// =====================================================================================================================
// ---- spreadsheet column letters: bijective base-26 numeral of (0-based column + 1), digits A=1 .. Z=26 (same oracle as unit colname)
pub open spec fn is_upper_c(c: char) -> bool { 'A' <= c && c <= 'Z' }
pub open spec fn letter_val_c(c: char) -> nat { (c as u32 - 0x41 + 1) as nat }
pub open spec fn b26c(s: Seq<char>) -> nat
    decreases s.len()
{
    if s.len() == 0 { 0 } else { b26c(s.drop_last()) * 26 + letter_val_c(s.last()) }
}
pub open spec fn all_upper_c(s: Seq<char>) -> bool { forall|i: int| 0 <= i < s.len() ==> is_upper_c(#[trigger] s[i]) }
pub open spec fn appended(old: Seq<char>, new: Seq<char>) -> Seq<char> { new.subrange(old.len() as int, new.len() as int) }
/// the letter with value v (1..=26)
pub open spec fn letter_of(v: int) -> char { ((0x40 + v) as u8) as char }
/// the column name with bijective base-26 value n (n = 0-based column + 1): A, B, .., Z, AA, AB, ..
pub open spec fn col_letters(n: nat) -> Seq<char>
    decreases n
{
    if n == 0 { Seq::empty() } else { col_letters(((n - 1) / 26) as nat).push(letter_of((n - 1) % 26 + 1)) }
}
/// spec sanity: the names everybody knows
proof fn lemma_col_letters_examples()
    ensures
        col_letters(1) == seq!['A'], col_letters(26) == seq!['Z'], col_letters(27) == seq!['A', 'A'], col_letters(256) == seq!['I', 'V'],
        col_letters(16384) == seq!['X', 'F', 'D'],
{
    reveal_with_fuel(col_letters, 5);
    assert(col_letters(1) =~= seq!['A']);
    assert(col_letters(26) =~= seq!['Z']);
    assert(col_letters(27) =~= seq!['A', 'A']);
    assert(col_letters(256) =~= seq!['I', 'V']);
    assert(col_letters(16384) =~= seq!['X', 'F', 'D']);
}
/// a string of capital letters is determined by its bijective base-26 value (so push_column's contract "the appended letters have value
/// col + 1" pins the letters down)
proof fn lemma_letters_unique(s: Seq<char>, n: nat)
    requires all_upper_c(s), b26c(s) == n,
    ensures s == col_letters(n),
    decreases s.len(),
{
    if s.len() == 0 {
        assert(s =~= Seq::<char>::empty());
    } else {
        let t = s.drop_last();
        let c = s.last();
        assert(is_upper_c(s[s.len() - 1]));
        assert forall|i: int| 0 <= i < t.len() implies is_upper_c(#[trigger] t[i]) by { assert(t[i] == s[i]); }
        let m = b26c(t);
        let lv = letter_val_c(c);
        assert(1 <= lv <= 26);
        assert(n == m * 26 + lv);
        lemma_letters_unique(t, m);
        assert((n - 1) / 26 == m && (n - 1) % 26 == lv - 1) by (nonlinear_arith) requires n == m * 26 + lv, 1 <= lv <= 26, m >= 0;
        assert(letter_of(lv as int) == c);
        assert(s =~= t.push(c));
    }
}

// TRUSTED: proved in unit colname on the real text (C14.column_letters_frame, column_letters_uppercase, column_letters): the buffer's old
// contents stay, capital letters are appended, their bijective base-26 value is col + 1 -- for every u32
pub mod utils_stub {
    use super::*;
    #[verifier::external_body]
    pub fn push_column(col: u32, buf: &mut String)
        ensures
            final(buf)@.len() >= old(buf)@.len() && final(buf)@.subrange(0, old(buf)@.len() as int) == old(buf)@,
            all_upper_c(appended(old(buf)@, final(buf)@)),
            b26c(appended(old(buf)@, final(buf)@)) == col + 1,
    { unimplemented!() }
}
use utils_stub::push_column;
proof fn lemma_pushed_column(b0: Seq<char>, b1: Seq<char>, col: u32)
    requires b1.len() >= b0.len(), b1.subrange(0, b0.len() as int) == b0, all_upper_c(appended(b0, b1)), b26c(appended(b0, b1)) == col + 1,
    ensures b1 == b0 + col_letters((col + 1) as nat),
{
    lemma_letters_unique(appended(b0, b1), (col + 1) as nat);
    assert(b1 =~= b1.subrange(0, b0.len() as int) + appended(b0, b1));
}

// ---- decimal numerals
pub open spec fn digit_of(d: int) -> char { ((0x30 + d) as u8) as char }
/// the decimal numeral of n: no sign, no leading zeros, no separators
pub open spec fn dec_str(n: nat) -> Seq<char>
    decreases n
{
    if n < 10 { seq![digit_of(n as int)] } else { dec_str(n / 10).push(digit_of((n % 10) as int)) }
}
proof fn lemma_dec_str_examples()
    ensures dec_str(0) == seq!['0'], dec_str(7) == seq!['7'], dec_str(10) == seq!['1', '0'], dec_str(65536) == seq!['6', '5', '5', '3', '6'],
{
    reveal_with_fuel(dec_str, 6);
    assert(dec_str(10) =~= seq!['1', '0']);
    assert(dec_str(65536) =~= seq!['6', '5', '5', '3', '6']);
}
// TRUSTED: `format!("{}", n)` for n: u32 goes through `impl Display for u32` (core::fmt::num): the decimal numeral without sign, padding,
// leading zeros or separators. The body is the real expression.
#[verifier::external_body]
fn verif_dec_u32(n: u32) -> (r: String)
    ensures r@ == dec_str(n as nat),
{ format!("{}", n) }
// R4-like: opaque stand-in for the text of the "Unsupported ptg" message (nothing is claimed about it)
#[verifier::external_body] fn verif_opaque_string() -> String { String::new() }

// ---- [MS-XLS] 2.5.198.84 PtgRef3d, 2.5.198.29 PtgArea3d, 2.5.198.83 PtgRefErr3d, 2.5.198.30 PtgAreaErr3d
/// first byte of a Ptg: bits 0-4 ptg, bits 5-6 type (1 = reference, 2 = value, 3 = array), bit 7 reserved (0)
pub open spec fn is_ref3d(p: u8) -> bool { p == 0x3A || p == 0x5A || p == 0x7A }      // ptg 0x1A
pub open spec fn is_area3d(p: u8) -> bool { p == 0x3B || p == 0x5B || p == 0x7B }     // ptg 0x1B
pub open spec fn is_referr3d(p: u8) -> bool { p == 0x3C || p == 0x5C || p == 0x7C }   // ptg 0x1C
pub open spec fn is_areaerr3d(p: u8) -> bool { p == 0x3D || p == 0x5D || p == 0x7D }  // ptg 0x1D
/// u16 little endian at offset o
pub open spec fn u16_at(r: Seq<u8>, o: int) -> int { r[o] as int + 256 * (r[o + 1] as int) }
/// [MS-XLS] 2.5.198.109 RgceLoc / 2.5.198.111 RgceLocRel: row (2 bytes), column (2 bytes): bits 0-13 col, bit 14 colRelative, bit 15 rowRelative
pub open spec fn col_of(f: int) -> int { f % 16384 }
pub open spec fn col_relative(f: int) -> bool { (f / 16384) % 2 == 1 }
pub open spec fn row_relative(f: int) -> bool { f / 32768 == 1 }
pub open spec fn dollar(absolute: bool) -> Seq<char> { if absolute { seq!['$'] } else { Seq::empty() } }
/// A1-style text of one cell of a reference: `$` marks an absolute coordinate; column letters of the 14-bit column; 1-based row number.
/// `cf` = the column field that carries this corner's column, `rel` = the column field that carries the flags (for an area each corner's
/// own column field carries its own flags)
pub open spec fn cell_text(cf: int, row: int) -> Seq<char> {
    dollar(!col_relative(cf)) + col_letters((col_of(cf) + 1) as nat) + dollar(!row_relative(cf)) + dec_str((row + 1) as nat)
}
/// PtgRef3d: ptg (1 byte), ixti (2), loc = row (2), column (2)   -- 7 bytes
pub open spec fn ref3d_text(r: Seq<u8>) -> Seq<char> { cell_text(u16_at(r, 5), u16_at(r, 3)) }
/// PtgArea3d: ptg (1 byte), ixti (2), area = rowFirst (2), rowLast (2), columnFirst (2), columnLast (2)   -- 11 bytes
pub open spec fn area3d_text(r: Seq<u8>) -> Seq<char> { cell_text(u16_at(r, 7), u16_at(r, 3)) + seq![':'] + cell_text(u16_at(r, 9), u16_at(r, 5)) }
/// the result of parse_defined_names: Ok, with this sheet-table index and this text
pub open spec fn dn_is(res: Result<(Option<usize>, String), XlsError>, ixti: Option<usize>, text: Seq<char>) -> bool {
    res matches Ok(p) && p.0 == ixti && p.1@ == text
}
/// the first token is cut off before the fields that are read from it (PtgRef3d: 7 bytes, PtgArea3d: 11; of the error tokens only ixti)
pub open spec fn dn_truncated(r: Seq<u8>) -> bool {
    r.len() >= 1 && ((is_ref3d(r[0]) && r.len() < 7) || (is_area3d(r[0]) && r.len() < 11) || ((is_referr3d(r[0]) || is_areaerr3d(r[0])) && r.len() < 3))
}

proof fn lemma_u16_at(g: Seq<u8>, a: int)
    requires 0 <= a, a + 2 <= g.len(),
    ensures le16(g.subrange(a, a + 2)) == u16_at(g, a), 0 <= u16_at(g, a) < 65536,
{}
/// the masks of the column field are its three parts
proof fn lemma_flag_bits(f: u16)
    ensures
        (f & 0x4000 == 0) == !col_relative(f as int),
        (f & 0x8000 == 0) == !row_relative(f as int),
        (f & 0x3FFF) as int == col_of(f as int),
{
    assert((f & 0x4000 == 0) == ((f / 16384) % 2 != 1)) by (bit_vector);
    assert((f & 0x8000 == 0) == (f / 32768 != 1)) by (bit_vector);
    assert((f & 0x3FFF) == f % 16384) by (bit_vector);
}

//@@ fn src/xls.rs parse_defined_names props=C16 entry ret=res
//@@ replace /format!\("\{\}", (.*?)\)\);/#0of3 `format!("{}", n)` is outside Verus: the expression is moved into a trusted wrapper whose body is the same expression (argument verbatim)
verif_dec_u32(\g<1>));
//@@ replace /format!\("\{\}", (.*?)\)\);/#1of3 same
verif_dec_u32(\g<1>));
//@@ replace /format!\("\{\}", (.*?)\)\);/#2of3 same
verif_dec_u32(\g<1>));
//@@ replace /format!\("Unsupported ptg[^)]*\)/ text of a diagnostic message: opaque string (rule R4 applied by hand because the three rewrites above overlap R4's)
verif_opaque_string()
//@@ sig
    ensures
        //# C16.defined_name_err_iff_first_token_truncated
        res is Err <==> dn_truncated(rgce@),
        //# C16.truncated_token_is_len_error
        res is Err ==> (res matches Err(XlsError::Len { expected, found, typ }) && found == rgce@.len()),
        //# C16.empty_rgce
        rgce@.len() == 0 ==> dn_is(res, None, "empty rgce"@),
        //# C16.ref3d_text
        rgce@.len() >= 7 && is_ref3d(rgce@[0]) ==> dn_is(res, Some(u16_at(rgce@, 1) as usize), ref3d_text(rgce@)),
        //# C16.area3d_text
        rgce@.len() >= 11 && is_area3d(rgce@[0]) ==> dn_is(res, Some(u16_at(rgce@, 1) as usize), area3d_text(rgce@)),
        //# C16.referr3d_text
        rgce@.len() >= 7 && is_referr3d(rgce@[0]) ==> dn_is(res, Some(u16_at(rgce@, 1) as usize), "#REF!"@),
        //# C16.areaerr3d_text
        rgce@.len() >= 11 && is_areaerr3d(rgce@[0]) ==> dn_is(res, Some(u16_at(rgce@, 1) as usize), "#REF!"@),
        //# C16.other_tokens_name_no_sheet
        rgce@.len() >= 1 && !is_ref3d(rgce@[0]) && !is_area3d(rgce@[0]) && !is_referr3d(rgce@[0]) && !is_areaerr3d(rgce@[0]) ==> (res matches Ok(p) && p.0 is None),
//@@ body
    let ghost g = rgce@;
    proof {
        if g.len() >= 7 { lemma_u16_at(g, 1); lemma_u16_at(g, 3); lemma_u16_at(g, 5); lemma_flag_bits(u16_at(g, 5) as u16); }
        if g.len() >= 11 { lemma_u16_at(g, 7); lemma_u16_at(g, 9); lemma_flag_bits(u16_at(g, 7) as u16); lemma_flag_bits(u16_at(g, 9) as u16); }
    }
//@@ before /push_column\(/#0of3
            let ghost c0 = f@;
//@@ after /push_column\([^;]*;/#0of3
            proof { lemma_pushed_column(c0, f@, col_of(u16_at(g, 5)) as u32); }
//@@ before /\(Some\(ixti\), f\)/#0of2
            proof {
                //# C16.ref3d_text
                assert(f@ =~= ref3d_text(g));
            }
//@@ before /push_column\(/#1of3
            let ghost c0 = f@;
//@@ after /push_column\([^;]*;/#1of3
            proof { lemma_pushed_column(c0, f@, col_of(u16_at(g, 7)) as u32); }
//@@ before /push_column\(/#2of3
            let ghost c2 = f@;
//@@ after /push_column\([^;]*;/#2of3
            proof { lemma_pushed_column(c2, f@, col_of(u16_at(g, 9)) as u32); }
//@@ before /f\.push\(':'\);/
            let ghost p1 = f@;
            proof {
                //# C16.area3d_text
                assert(p1 =~= cell_text(u16_at(g, 7), u16_at(g, 3)));
            }
//@@ before /\(Some\(ixti\), f\)/#1of2
            proof {
                //# C16.area3d_text
                assert(f@ =~= p1.push(':') + cell_text(u16_at(g, 9), u16_at(g, 5)));
                assert(p1.push(':') =~= p1 + seq![':']);
            }
//@@ before /\(Some\(ixti\), "/
            proof { lemma_u16_at(g, 1); }
//@@ end


// (child module of dn: the Lbl arm calls the private fn parse_defined_names verified above, by its contract)
pub mod wb {
use super::*;
//@@ include names/wb.rs
} // mod wb
} // mod dn

pub mod vb {
use super::*;
// =====================================================================================================================
// PART 2 (C18): the reference list of a VBA project -- [MS-OVBA] 2.3.4.2.2 PROJECTREFERENCES, src/vba.rs Reference::from_stream
// =====================================================================================================================
// TRUSTED: (A-io) `byteorder::ReadBytesExt::read_u16/read_u32::<LittleEndian>` on the reader `&[u8]` (std `impl Read for &[u8]`):
// with >= N bytes left it returns their little-endian value and advances the slice by N; otherwise it returns Err(UnexpectedEof).
// (same stand-in as unit vbadec)
pub mod byteorder {
    use vstd::prelude::*;
    use super::{le16, le32};
    pub struct LittleEndian;
    pub trait ReadBytesExt {
        spec fn rem(&self) -> Seq<u8>;
        fn read_u16<T>(&mut self) -> (r: Result<u16, std::io::Error>)
            ensures match r {
                Ok(v) => old(self).rem().len() >= 2 && v as int == le16(old(self).rem()) && final(self).rem() == old(self).rem().skip(2),
                Err(_) => old(self).rem().len() < 2,
            };
        fn read_u32<T>(&mut self) -> (r: Result<u32, std::io::Error>)
            ensures match r {
                Ok(v) => old(self).rem().len() >= 4 && v as int == le32(old(self).rem()) && final(self).rem() == old(self).rem().skip(4),
                Err(_) => old(self).rem().len() < 4,
            };
    }
    impl<'a> ReadBytesExt for &'a [u8] {
        open spec fn rem(&self) -> Seq<u8> { (*self)@ }
        #[verifier::external_body]
        fn read_u16<T>(&mut self) -> (r: Result<u16, std::io::Error>) { unimplemented!() }
        #[verifier::external_body]
        fn read_u32<T>(&mut self) -> (r: Result<u32, std::io::Error>) { unimplemented!() }
    }
}
use byteorder::{LittleEndian, ReadBytesExt};

// TRUSTED: (A-enc) stand-in for cfb::XlsEncoding (wraps an encoding_rs `&'static Encoding`): `decode_all` decodes a byte string with the
// code page (total, never panics). The decoded text is an uninterpreted function of (code page, bytes). (same stand-in as unit vbadec)
pub struct XlsEncoding { pub cp: u16 }
pub uninterp spec fn decoded(cp: u16, bytes: Seq<u8>) -> Seq<char>;
impl XlsEncoding {
    #[verifier::external_body]
    pub fn decode_all(&self, stream: &[u8]) -> (r: String)
        ensures r@ == decoded(self.cp, stream@),
    { unimplemented!() }
}
// expansion of `from_err!(crate::cfb::CfbError, VbaError, Cfb)` / `from_err!(std::io::Error, VbaError, Io)` (macro in src/utils.rs)
impl vstd::std_specs::convert::FromSpecImpl<std::io::Error> for VbaError {
    open spec fn obeys_from_spec() -> bool { true }
    open spec fn from_spec(e: std::io::Error) -> Self { VbaError::Io(e) }
}
impl From<std::io::Error> for VbaError {
    fn from(e: std::io::Error) -> (r: VbaError) { VbaError::Io(e) }
}

// ---- the record grammar, written over the suffix of the dir stream that starts at the item in question (None: malformed / truncated)
/// n bytes of fixed-size fields
pub open spec fn skip_n(t: Seq<u8>, n: int) -> Option<Seq<u8>> { if t.len() >= n { Some(t.skip(n)) } else { None } }
/// a size-prefixed field: u32 size, then `size` bytes: (payload, rest)
pub open spec fn var_fld(t: Seq<u8>) -> Option<(Seq<u8>, Seq<u8>)> {
    if t.len() >= 4 && t.len() >= 4 + le32(t) { Some((t.subrange(4, 4 + le32(t)), t.skip(4 + le32(t)))) } else { None }
}
/// a 2-byte id / reserved field with a fixed value
pub open spec fn expect_id(t: Seq<u8>, id: int) -> Option<Seq<u8>> { if t.len() >= 2 && le16(t) == id { Some(t.skip(2)) } else { None } }
/// 2.3.4.2.2.2 REFERENCENAME after its Id 0x0016: SizeOfName, Name, Reserved 0x003E, SizeOfNameUnicode, NameUnicode: (Name, rest)
#[verifier::opaque]
pub open spec fn name_rec(b: Seq<u8>) -> Option<(Seq<u8>, Seq<u8>)> {
    match var_fld(b) {
        Some((n, r1)) => match expect_id(r1, 0x003E) {
            Some(r2) => match var_fld(r2) { Some((_, r3)) => Some((n, r3)), None => None },
            None => None,
        },
        None => None,
    }
}
/// 2.3.4.2.2.4 REFERENCEORIGINAL after its Id 0x0033: SizeOfLibidOriginal, LibidOriginal: (LibidOriginal, rest)
#[verifier::opaque]
pub open spec fn original_rec(b: Seq<u8>) -> Option<(Seq<u8>, Seq<u8>)> { var_fld(b) }
/// 2.3.4.2.2.5 REFERENCEREGISTERED after its Id 0x000D: Size (4), SizeOfLibid, Libid, Reserved1 (4), Reserved2 (2): (Libid, rest)
#[verifier::opaque]
pub open spec fn registered_rec(b: Seq<u8>) -> Option<(Seq<u8>, Seq<u8>)> {
    match skip_n(b, 4) { Some(r1) => match var_fld(r1) { Some((l, r2)) => match skip_n(r2, 6) { Some(r3) => Some((l, r3)), None => None }, None => None }, None => None }
}
/// 2.3.4.2.2.6 REFERENCEPROJECT after its Id 0x000E: Size (4), SizeOfLibidAbsolute, LibidAbsolute, SizeOfLibidRelative, LibidRelative,
/// MajorVersion (4), MinorVersion (2)
#[verifier::opaque]
pub open spec fn project_rest(b: Seq<u8>) -> Option<Seq<u8>> {
    match skip_n(b, 4) {
        Some(r1) => match var_fld(r1) { Some((_, r2)) => match var_fld(r2) { Some((_, r3)) => skip_n(r3, 6), None => None }, None => None },
        None => None,
    }
}
/// 2.3.4.2.2.3 REFERENCECONTROL after its Id 0x002F: SizeTwiddled (4), SizeOfLibidTwiddled, LibidTwiddled, Reserved1 (4), Reserved2 (2),
/// [NameRecordExtended = REFERENCENAME], Reserved3 0x0030: (LibidTwiddled, rest)
#[verifier::opaque]
pub open spec fn control_head(b: Seq<u8>) -> Option<(Seq<u8>, Seq<u8>)> {
    match skip_n(b, 4) {
        Some(r1) => match var_fld(r1) {
            Some((l, r2)) => match skip_n(r2, 6) {
                Some(r3) => if r3.len() < 2 { None } else if le16(r3) == 0x0016 {
                    match name_rec(r3.skip(2)) { Some((_, r4)) => match expect_id(r4, 0x0030) { Some(r5) => Some((l, r5)), None => None }, None => None }
                } else if le16(r3) == 0x0030 { Some((l, r3.skip(2))) } else { None },
                None => None,
            },
            None => None,
        },
        None => None,
    }
}
/// .. SizeExtended (4), SizeOfLibidExtended, LibidExtended, Reserved4 (4), Reserved5 (2), OriginalTypeLib (16), Cookie (4):
/// (LibidTwiddled, LibidExtended, rest)
#[verifier::opaque]
pub open spec fn control_rec(b: Seq<u8>) -> Option<(Seq<u8>, Seq<u8>, Seq<u8>)> {
    match control_head(b) {
        Some((l1, r5)) => match skip_n(r5, 4) {
            Some(r6) => match var_fld(r6) { Some((l2, r7)) => match skip_n(r7, 26) { Some(r8) => Some((l1, l2, r8)), None => None }, None => None },
            None => None,
        },
        None => None,
    }
}
/// what a reference array says, in stream order: a REFERENCENAME record starts a reference; a libid of a REFERENCEORIGINAL /
/// REFERENCECONTROL (twiddled, extended) / REFERENCEREGISTERED record describes the reference under way
pub enum Ev { Name(Seq<u8>), Libid(Seq<u8>) }
/// what the item at the head of t is: None = malformed; Some((events, rest)); rest = None for the PROJECTMODULES record (Id 0x000F) that
/// ends the array
#[verifier::opaque]
pub open spec fn ref_item(t: Seq<u8>) -> Option<(Seq<Ev>, Option<Seq<u8>>)> {
    if t.len() < 2 { None } else {
        let id = le16(t);
        let b = t.skip(2);
        if id == 0x000F { Some((Seq::empty(), None)) }
        else if id == 0x0016 { match name_rec(b) { Some((n, r)) => Some((seq![Ev::Name(n)], Some(r))), None => None } }
        else if id == 0x0033 { match original_rec(b) { Some((l, r)) => Some((seq![Ev::Libid(l)], Some(r))), None => None } }
        else if id == 0x002F { match control_rec(b) { Some((l1, l2, r)) => Some((seq![Ev::Libid(l1), Ev::Libid(l2)], Some(r))), None => None } }
        else if id == 0x000D { match registered_rec(b) { Some((l, r)) => Some((seq![Ev::Libid(l)], Some(r))), None => None } }
        else if id == 0x000E { match project_rest(b) { Some(r) => Some((Seq::empty(), Some(r))), None => None } }
        else { None }
    }
}
pub open spec fn prepend(done: Seq<Ev>, w: Option<(Seq<Ev>, Seq<u8>)>) -> Option<(Seq<Ev>, Seq<u8>)> {
    match w { Some(x) => Some((done + x.0, x.1)), None => None }
}
/// the reference array that starts at t: (its events in stream order, the stream suffix behind the Id 0x000F of the PROJECTMODULES record
/// that ends it); None: the array is malformed or truncated
#[verifier::opaque]
pub open spec fn ref_walk(t: Seq<u8>) -> Option<(Seq<Ev>, Seq<u8>)>
    decreases t.len()
{
    match ref_item(t) {
        None => None,
        Some((e, None)) => Some((Seq::empty(), t.skip(2))),
        Some((e, Some(r))) => if r.len() < t.len() { prepend(e, ref_walk(r)) } else { None },
    }
}
/// the Name payloads of the REFERENCENAME records, in order
pub open spec fn ev_names(evs: Seq<Ev>) -> Seq<Seq<u8>>
    decreases evs.len()
{
    if evs.len() == 0 { Seq::empty() } else { match evs.last() { Ev::Name(n) => ev_names(evs.drop_last()).push(n), Ev::Libid(_) => ev_names(evs.drop_last()) } }
}
/// [MS-OVBA] 2.3.4.2.2.2: Name "MUST conform to VBA identifier naming rules" -- in particular it is not empty
pub open spec fn names_nonempty(ns: Seq<Seq<u8>>, cp: u16) -> bool { forall|j: int| 0 <= j < ns.len() ==> decoded(cp, #[trigger] ns[j]).len() > 0 }

// ---- libids ([MS-OVBA] 2.1.1.8 LibidReference: "*\" kind guid "#" version "#" lcid "#" LibidPath "#" LibidRegName): fields separated by
// '#'; the last one (LibidRegName) is the description of the library
pub open spec fn last_hash(s: Seq<char>) -> int
    decreases s.len()
{
    if s.len() == 0 { -1 } else if s.last() == '#' { s.len() - 1 } else { last_hash(s.drop_last()) }
}
/// the libid says nothing: empty, or its last two fields are empty (ends with "##")
pub open spec fn libid_silent(l: Seq<u8>) -> bool { l.len() == 0 || (l.len() >= 2 && l[l.len() - 2] == 0x23 && l[l.len() - 1] == 0x23) }
/// None: not a libid (no '#'); Some(None): silent; Some(Some(d)): d = its last field
pub open spec fn libid_desc(cp: u16, l: Seq<u8>) -> Option<Option<Seq<char>>> {
    if libid_silent(l) { Some(None) } else {
        let s = decoded(cp, l);
        if last_hash(s) < 0 { None } else { Some(Some(s.subrange(last_hash(s) + 1, s.len() as int))) }
    }
}
/// a reference as far as this unit pins it down: name and description (the path is not: PathBuf is outside the verifier)
pub struct RefV { pub name: Seq<char>, pub desc: Seq<char> }
/// the references an event sequence describes: a Name starts one (its description is the name until a libid says otherwise), a libid
/// with a description re-describes the reference under way (libids in front of the first Name describe nothing)
pub open spec fn refs_fold(evs: Seq<Ev>, cp: u16) -> Seq<RefV>
    decreases evs.len()
{
    if evs.len() == 0 { Seq::empty() } else {
        let p = refs_fold(evs.drop_last(), cp);
        match evs.last() {
            Ev::Name(n) => p.push(RefV { name: decoded(cp, n), desc: decoded(cp, n) }),
            Ev::Libid(l) => if p.len() == 0 { p } else {
                match libid_desc(cp, l) { Some(Some(d)) => p.update(p.len() - 1, RefV { name: p.last().name, desc: d }), _ => p }
            },
        }
    }
}
spec fn refv(r: Reference) -> RefV { RefV { name: r.name@, desc: r.description@ } }
spec fn names_match(refs: Seq<Reference>, ns: Seq<Seq<u8>>, cp: u16) -> bool {
    refs.len() == ns.len() && forall|j: int| 0 <= j < refs.len() ==> (#[trigger] refs[j]).name@ == decoded(cp, ns[j])
}
spec fn refs_match(refs: Seq<Reference>, f: Seq<RefV>) -> bool {
    refs.len() == f.len() && forall|j: int| 0 <= j < refs.len() ==> refv(#[trigger] refs[j]) == f[j]
}
/// loop bookkeeping of from_stream: `refs` = the references already pushed, `cur` = the one under construction, `f` = refs_fold of the
/// events read so far
spec fn cur_ok(refs: Seq<Reference>, cur: Reference, f: Seq<RefV>) -> bool {
    (f.len() == 0 ==> refs.len() == 0 && cur.name@.len() == 0)
    && (f.len() > 0 ==> refs.len() == f.len() - 1 && refv(cur) == f.last() && forall|j: int| 0 <= j < refs.len() ==> refv(#[trigger] refs[j]) == f[j])
}
proof fn lemma_ev_names_add(a: Seq<Ev>, b: Seq<Ev>)
    ensures ev_names(a + b) == ev_names(a) + ev_names(b),
    decreases b.len(),
{
    if b.len() == 0 {
        assert(a + b =~= a);
        assert(ev_names(a) + ev_names(b) =~= ev_names(a));
    } else {
        assert((a + b).drop_last() =~= a + b.drop_last());
        assert((a + b).last() == b.last());
        lemma_ev_names_add(a, b.drop_last());
        match b.last() {
            Ev::Name(n) => { assert(ev_names(a + b) =~= ev_names(a) + ev_names(b)); }
            Ev::Libid(_) => {}
        }
    }
}
/// the references of refs_fold are the REFERENCENAME records, in order, under their decoded names
proof fn lemma_fold_names(evs: Seq<Ev>, cp: u16)
    ensures
        refs_fold(evs, cp).len() == ev_names(evs).len(),
        forall|j: int| 0 <= j < ev_names(evs).len() ==> (#[trigger] refs_fold(evs, cp)[j]).name == decoded(cp, ev_names(evs)[j]),
    decreases evs.len(),
{
    if evs.len() > 0 { lemma_fold_names(evs.drop_last(), cp); }
}
proof fn lemma_fold_push(evs: Seq<Ev>, e: Ev, cp: u16)
    ensures
        e matches Ev::Name(n) ==> refs_fold(evs.push(e), cp) == refs_fold(evs, cp).push(RefV { name: decoded(cp, n), desc: decoded(cp, n) }),
        e matches Ev::Libid(l) ==> refs_fold(evs.push(e), cp) == (if refs_fold(evs, cp).len() == 0 { refs_fold(evs, cp) } else {
            match libid_desc(cp, l) {
                Some(Some(d)) => refs_fold(evs, cp).update(refs_fold(evs, cp).len() - 1, RefV { name: refs_fold(evs, cp).last().name, desc: d }),
                _ => refs_fold(evs, cp),
            }
        }),
{
    assert(evs.push(e).drop_last() =~= evs);
}
/// one unfolding of ref_walk at an item that is not the end of the array
proof fn lemma_walk_step(t: Seq<u8>, e: Seq<Ev>, r: Seq<u8>, done: Seq<Ev>)
    requires ref_item(t) == Some((e, Some(r))), r.len() < t.len(),
    ensures prepend(done, ref_walk(t)) == prepend(done + e, ref_walk(r)),
{
    reveal(ref_walk);
    match ref_walk(r) {
        Some(x) => { assert(done + (e + x.0) =~= (done + e) + x.0); }
        None => {}
    }
}
proof fn lemma_walk_end(t: Seq<u8>, done: Seq<Ev>)
    requires t.len() >= 2, le16(t) == 0x000F,
    ensures prepend(done, ref_walk(t)) == Some((done, t.skip(2))),
{
    reveal(ref_walk); reveal(ref_item);
    assert(done + Seq::<Ev>::empty() =~= done);
}
// ---- what the successful reads of one arm of from_stream say about the item at t (q1, q2, ..: the cursor after each read)
proof fn lemma_item_name(t: Seq<u8>, r1: Seq<u8>, fin: Seq<u8>)
    requires
        t.len() >= 2, le16(t) == 0x0016,
        t.skip(2).len() >= 4 + le32(t.skip(2)), r1 == t.skip(2).skip(4 + le32(t.skip(2))),
        r1.len() >= 6, le16(r1) == 0x003E, r1.len() >= 6 + le32(r1.skip(2)), fin == r1.skip(6 + le32(r1.skip(2))),
    ensures ref_item(t) == Some((seq![Ev::Name(t.skip(2).subrange(4, 4 + le32(t.skip(2))))], Some(fin))), fin.len() < t.len(),
{
    reveal(ref_item); reveal(name_rec);
    lemma_var_after_id(r1, 0x003E);
}
proof fn lemma_item_original(t: Seq<u8>, fin: Seq<u8>)
    requires t.len() >= 2, le16(t) == 0x0033, t.skip(2).len() >= 4 + le32(t.skip(2)), fin == t.skip(2).skip(4 + le32(t.skip(2))),
    ensures ref_item(t) == Some((seq![Ev::Libid(t.skip(2).subrange(4, 4 + le32(t.skip(2))))], Some(fin))), fin.len() < t.len(),
{
    reveal(ref_item); reveal(original_rec);
}
proof fn lemma_item_registered(t: Seq<u8>, q1: Seq<u8>, q2: Seq<u8>, fin: Seq<u8>)
    requires
        t.len() >= 2, le16(t) == 0x000D, t.skip(2).len() >= 4, q1 == t.skip(2).skip(4),
        q1.len() >= 4 + le32(q1), q2 == q1.skip(4 + le32(q1)), q2.len() >= 6, fin == q2.skip(6),
    ensures ref_item(t) == Some((seq![Ev::Libid(q1.subrange(4, 4 + le32(q1)))], Some(fin))), fin.len() < t.len(),
{
    reveal(ref_item); reveal(registered_rec);
}
proof fn lemma_item_project(t: Seq<u8>, q1: Seq<u8>, q2: Seq<u8>, q3: Seq<u8>, fin: Seq<u8>)
    requires
        t.len() >= 2, le16(t) == 0x000E, t.skip(2).len() >= 4, q1 == t.skip(2).skip(4),
        q1.len() >= 4 + le32(q1), q2 == q1.skip(4 + le32(q1)), q2.len() >= 4 + le32(q2), q3 == q2.skip(4 + le32(q2)), q3.len() >= 6, fin == q3.skip(6),
    ensures ref_item(t) == Some((Seq::<Ev>::empty(), Some(fin))), fin.len() < t.len(),
{
    reveal(ref_item); reveal(project_rest);
}
/// REFERENCECONTROL up to Reserved3, without / with the optional NameRecordExtended
proof fn lemma_control_head_plain(b: Seq<u8>, q1: Seq<u8>, q2: Seq<u8>, q3: Seq<u8>, q5: Seq<u8>)
    requires
        b.len() >= 4, q1 == b.skip(4), q1.len() >= 4 + le32(q1), q2 == q1.skip(4 + le32(q1)), q2.len() >= 6, q3 == q2.skip(6),
        q3.len() >= 2, le16(q3) == 0x0030, q5 == q3.skip(2),
    ensures control_head(b) == Some((q1.subrange(4, 4 + le32(q1)), q5)), q5.len() < b.len(),
{
    reveal(control_head);
}
proof fn lemma_control_head_named(b: Seq<u8>, q1: Seq<u8>, q2: Seq<u8>, q3: Seq<u8>, x1: Seq<u8>, x2: Seq<u8>, q5: Seq<u8>)
    requires
        b.len() >= 4, q1 == b.skip(4), q1.len() >= 4 + le32(q1), q2 == q1.skip(4 + le32(q1)), q2.len() >= 6, q3 == q2.skip(6),
        q3.len() >= 2, le16(q3) == 0x0016,
        q3.skip(2).len() >= 4 + le32(q3.skip(2)), x1 == q3.skip(2).skip(4 + le32(q3.skip(2))),
        x1.len() >= 6, le16(x1) == 0x003E, x1.len() >= 6 + le32(x1.skip(2)), x2 == x1.skip(6 + le32(x1.skip(2))),
        x2.len() >= 2, le16(x2) == 0x0030, q5 == x2.skip(2),
    ensures control_head(b) == Some((q1.subrange(4, 4 + le32(q1)), q5)), q5.len() < b.len(),
{
    reveal(control_head); reveal(name_rec);
    lemma_var_after_id(x1, 0x003E);
}
proof fn lemma_item_control(t: Seq<u8>, l1: Seq<u8>, q5: Seq<u8>, q6: Seq<u8>, q7: Seq<u8>, fin: Seq<u8>)
    requires
        t.len() >= 2, le16(t) == 0x002F, control_head(t.skip(2)) == Some((l1, q5)), q5.len() < t.skip(2).len(),
        q5.len() >= 4, q6 == q5.skip(4), q6.len() >= 4 + le32(q6), q7 == q6.skip(4 + le32(q6)), q7.len() >= 26, fin == q7.skip(26),
    ensures ref_item(t) == Some((seq![Ev::Libid(l1), Ev::Libid(q6.subrange(4, 4 + le32(q6)))], Some(fin))), fin.len() < t.len(),
{
    reveal(ref_item); reveal(control_rec);
}
/// a size-prefixed field behind a 2-byte id, as check_variable_record reads it
proof fn lemma_var_after_id(r1: Seq<u8>, id: int)
    requires r1.len() >= 6, le16(r1) == id, r1.len() >= 6 + le32(r1.skip(2)),
    ensures
        expect_id(r1, id) == Some(r1.skip(2)),
        var_fld(r1.skip(2)) == Some((r1.subrange(6, 6 + le32(r1.skip(2))), r1.skip(6 + le32(r1.skip(2))))),
{
    let n = le32(r1.skip(2));
    assert(r1.skip(2).subrange(4, 4 + n) =~= r1.subrange(6, 6 + n));
    assert(r1.skip(2).skip(4 + n) =~= r1.skip(6 + n));
}
/// bookkeeping steps of the loop of from_stream
proof fn lemma_cur_libid(refs: Seq<Reference>, cur0: Reference, cur1: Reference, done: Seq<Ev>, l: Seq<u8>, cp: u16)
    requires
        cur_ok(refs, cur0, refs_fold(done, cp)), cur1.name == cur0.name,
        libid_desc(cp, l) is Some, cur1.description@ == (match libid_desc(cp, l) { Some(Some(d)) => d, _ => cur0.description@ }),
    ensures cur_ok(refs, cur1, refs_fold(done.push(Ev::Libid(l)), cp)),
{
    lemma_fold_push(done, Ev::Libid(l), cp);
    let f0 = refs_fold(done, cp);
    let f1 = refs_fold(done.push(Ev::Libid(l)), cp);
    if f0.len() > 0 {
        assert forall|j: int| 0 <= j < refs.len() implies refv(#[trigger] refs[j]) == f1[j] by { assert(refv(refs[j]) == f0[j]); }
    }
}

// TRUSTED: `log_enabled!(Level::Warn)` is an opaque boolean (state of the global logger); only guards a `warn!` statement
#[verifier::external_body]
fn verif_log_enabled() -> bool { false }

// ---- the cursor helpers of src/vba.rs, verbatim (the same text is under contract in unit vbadec; extracted again because from_stream's
// contract needs them as callees)
//@@ fn src/vba.rs skip props=C18 ret=res
//@@ sig
    ensures
        //# C18.skip_ok
        res is Ok ==> old(stream)@.len() >= n && final(stream)@ == old(stream)@.skip(n as int),
        //# C18.skip_err_iff_short
        res is Err <==> old(stream)@.len() < n,
//@@ end
//@@ fn src/vba.rs read_variable_record props=C18 ret=res
//@@ sig
    // every call site in src/vba.rs passes mult == 1
    requires mult == 1,
    ensures
        //# C18.var_record
        res matches Ok(rec) ==> (old(r)@.len() >= 4 + le32(old(r)@) && rec@ == old(r)@.subrange(4, 4 + le32(old(r)@)) && final(r)@ == old(r)@.skip(4 + le32(old(r)@))),
        //# C18.var_record_err_iff_short
        res is Err <==> (old(r)@.len() < 4 || old(r)@.len() < 4 + le32(old(r)@)),
//@@ end
proof fn witness_read_variable_record() ensures 1usize == 1 {}
//@@ fn src/vba.rs check_record props=C18 ret=res
//@@ sig
    ensures
        //# C18.check_record_ok
        res is Ok ==> old(r)@.len() >= 2 && le16(old(r)@) == id && final(r)@ == old(r)@.skip(2),
        //# C18.check_record_err
        res is Err ==> old(r)@.len() < 2 || le16(old(r)@) != id,
//@@ end
//@@ fn src/vba.rs check_variable_record props=C18 ret=res
//@@ replace /log_enabled!\(Level::Warn\)/ opaque boolean, guards only a dropped warn! statement
verif_log_enabled()
//@@ sig
    ensures
        //# C18.check_var_record_ok
        res matches Ok(rec) ==> (old(r)@.len() >= 6 && le16(old(r)@) == id
            && old(r)@.len() >= 6 + le32(old(r)@.skip(2))
            && rec@ == old(r)@.subrange(6, 6 + le32(old(r)@.skip(2)))
            && final(r)@ == old(r)@.skip(6 + le32(old(r)@.skip(2)))),
        //# C18.check_var_record_err
        res is Err ==> (old(r)@.len() < 6 || le16(old(r)@) != id || old(r)@.len() < 6 + le32(old(r)@.skip(2))),
//@@ body
    let ghost r0 = r@;
//@@ before /let record = /
    proof { assert(r@ == r0.skip(2)); }
//@@ before /Ok\(record\)/
    proof {
        let n = le32(r0.skip(2));
        assert(r0.skip(2).subrange(4, 4 + n) =~= r0.subrange(6, 6 + n));
        assert(r0.skip(2).skip(4 + n) =~= r0.skip(6 + n));
    }
//@@ end

#[verifier::external_type_specification] #[verifier::external_body] pub struct ExPathBuf(std::path::PathBuf);
use std::path::PathBuf;
// TRUSTED: str::strip_prefix never panics (no clause depends on its result)
pub assume_specification<P: std::str::pattern::Pattern> [str::strip_prefix::<P>] (_0: &str, _1: P) -> std::option::Option<&str>;
//@@ item src/vba.rs struct Reference
//@@ impl src/vba.rs "Reference"
// TRUSTED: Reference::set_libid is NOT verified (String::rsplit / PathBuf are outside vstd). Assumed from its text: it reads one
// size-prefixed field (`read_variable_record(stream, 1)?`, its only access to the stream); an empty libid or one ending in "##" changes
// nothing; otherwise the libid is decoded and split at '#' from the right: without any '#' the result is Err(LibId), else the last field
// becomes `self.description` (and the one before it `self.path`, if that is still empty); `self.name` is never assigned.
//@@ fn src/vba.rs Reference::set_libid external_body ret=res
//@@ sig
    ensures
        res is Ok ==> (old(stream)@.len() >= 4 + le32(old(stream)@) && final(stream)@ == old(stream)@.skip(4 + le32(old(stream)@))
            && libid_desc(encoding.cp, old(stream)@.subrange(4, 4 + le32(old(stream)@))) is Some
            && final(self).description@ == (match libid_desc(encoding.cp, old(stream)@.subrange(4, 4 + le32(old(stream)@))) { Some(Some(d)) => d, _ => old(self).description@ })),
        final(self).name == old(self).name,
//@@ end
//@@ fn src/vba.rs Reference::from_stream props=C18 ret=res
//@@ sig
    ensures
        //# C18.reference_array_wellformed_if_ok
        res is Ok ==> ref_walk(old(stream)@) is Some,
        //# C18.reference_names_in_order
        res matches Ok(refs) ==> (names_nonempty(ev_names(ref_walk(old(stream)@)->Some_0.0), encoding.cp)
            ==> names_match(refs@, ev_names(ref_walk(old(stream)@)->Some_0.0), encoding.cp)),
        //# C18.reference_descriptions_from_their_libids
        res matches Ok(refs) ==> (names_nonempty(ev_names(ref_walk(old(stream)@)->Some_0.0), encoding.cp)
            ==> refs_match(refs@, refs_fold(ref_walk(old(stream)@)->Some_0.0, encoding.cp))),
        //# C18.reference_array_consumed
        res is Ok ==> final(stream)@ == ref_walk(old(stream)@)->Some_0.1,
//@@ body
    let ghost s0 = stream@;
    let ghost w0 = ref_walk(s0);
    let ghost cp = encoding.cp;
    let ghost h = w0 is Some && names_nonempty(ev_names(w0->Some_0.0), cp);
    let ghost mut done: Seq<Ev> = Seq::empty();
//@@ before /loop \{/
        proof {
            reveal_strlit("");
            match w0 { Some(x) => { assert(done + x.0 =~= x.0); } None => {} }
            assert(w0 == prepend(done, ref_walk(stream@)));
        }
//@@ loop 0
            invariant_except_break
                w0 == prepend(done, ref_walk(stream@)),
                h ==> cur_ok(references@, reference, refs_fold(done, cp)),
            invariant
                cp == encoding.cp, h == (w0 is Some && names_nonempty(ev_names(w0->Some_0.0), cp)),
            ensures
                w0 == Some((done, stream@)),
                h ==> refs_match(references@, refs_fold(done, cp)),
            decreases stream@.len(),
//@@ after /loop \{/
            let ghost t = stream@;
            let ghost b = t.skip(2);
            let ghost done_in = done;
            let ghost cur_in = reference;
            proof {
                // the Name read last belongs to the array: it is not empty under the hypothesis of the clauses
                lemma_fold_names(done, cp);
                if h && refs_fold(done, cp).len() > 0 {
                    let x = ref_walk(t)->Some_0;
                    lemma_ev_names_add(done, x.0);
                    let k = ev_names(done).len() - 1;
                    assert(ev_names(w0->Some_0.0)[k] == ev_names(done)[k]);
                    assert(refs_fold(done, cp)[k].name == decoded(cp, ev_names(done)[k]));
                    assert(reference.name@.len() > 0);
                }
            }
//@@ before /break;/
                    proof {
                        // Id 0x000F: the PROJECTMODULES record ends the reference array
                        lemma_walk_end(t, done);
                        //# C18.reference_descriptions_from_their_libids
                        assert(h ==> refs_match(references@, refs_fold(done, cp)));
                    }
//@@ after /read_variable_record\(stream, [^;]*;/#0of4
                    let ghost r1 = stream@;
//@@ after /check_variable_record\([^;]*;/#0of2
                    proof {
                        let n = b.subrange(4, 4 + le32(b));
                        lemma_item_name(t, r1, stream@);
                        lemma_walk_step(t, seq![Ev::Name(n)], stream@, done);
                        done = done.push(Ev::Name(n));
                        assert(done =~= done_in + seq![Ev::Name(n)]);
                        lemma_fold_push(done_in, Ev::Name(n), cp);
                        if h {
                            let f0 = refs_fold(done_in, cp);
                            let f1 = refs_fold(done, cp);
                            assert(f1.last() == refv(reference));
                            assert forall|j: int| 0 <= j < references@.len() implies refv(#[trigger] references@[j]) == f1[j] by {
                                if j < f0.len() - 1 { assert(f1[j] == f0[j]); } else { assert(f1[j] == f0[j]); }
                            }
                        }
                    }
//@@ after /reference\.set_libid\([^;]*;/#0of4
                    proof {
                        // REFERENCEORIGINAL
                        let l = b.subrange(4, 4 + le32(b));
                        lemma_item_original(t, stream@);
                        lemma_walk_step(t, seq![Ev::Libid(l)], stream@, done);
                        done = done.push(Ev::Libid(l));
                        assert(done =~= done_in + seq![Ev::Libid(l)]);
                        if h { lemma_cur_libid(references@, cur_in, reference, done_in, l, cp); }
                    }
//@@ after /skip\(stream, [^;]*;/#0of8
                    let ghost q1 = stream@;
//@@ after /reference\.set_libid\([^;]*;/#1of4
                    let ghost q2 = stream@;
                    let ghost cur_1 = reference;
//@@ after /skip\(stream, [^;]*;/#1of8
                    let ghost q3 = stream@;
//@@ after /read_variable_record\(stream, [^;]*;/#1of4
                            let ghost x1 = stream@;
//@@ after /check_variable_record\([^;]*;/#1of2
                            let ghost x2 = stream@;
//@@ after /check_record\([^;]*;/
                            proof { lemma_control_head_named(b, q1, q2, q3, x1, x2, stream@); }
//@@ before /skip\(stream, /#2of8
                    let ghost q5 = stream@;
                    let ghost l1 = q1.subrange(4, 4 + le32(q1));
                    proof {
                        if le16(q3) != 0x0016 { lemma_control_head_plain(b, q1, q2, q3, q5); }
                        assert(control_head(b) == Some((l1, q5)) && q5.len() < b.len());
                    }
//@@ after /skip\(stream, [^;]*;/#2of8
                    let ghost q6 = stream@;
//@@ after /reference\.set_libid\([^;]*;/#2of4
                    let ghost q7 = stream@;
//@@ after /skip\(stream, [^;]*;/#3of8
                    proof {
                        // REFERENCECONTROL: LibidTwiddled, then LibidExtended
                        let l2 = q6.subrange(4, 4 + le32(q6));
                        lemma_item_control(t, l1, q5, q6, q7, stream@);
                        lemma_walk_step(t, seq![Ev::Libid(l1), Ev::Libid(l2)], stream@, done);
                        done = done.push(Ev::Libid(l1)).push(Ev::Libid(l2));
                        assert(done =~= done_in + seq![Ev::Libid(l1), Ev::Libid(l2)]);
                        if h {
                            lemma_cur_libid(references@, cur_in, cur_1, done_in, l1, cp);
                            lemma_cur_libid(references@, cur_1, reference, done_in.push(Ev::Libid(l1)), l2, cp);
                        }
                    }
//@@ after /skip\(stream, [^;]*;/#4of8
                    let ghost q1 = stream@;
//@@ after /reference\.set_libid\([^;]*;/#3of4
                    let ghost q2 = stream@;
//@@ after /skip\(stream, [^;]*;/#5of8
                    proof {
                        // REFERENCEREGISTERED
                        let l = q1.subrange(4, 4 + le32(q1));
                        lemma_item_registered(t, q1, q2, stream@);
                        lemma_walk_step(t, seq![Ev::Libid(l)], stream@, done);
                        done = done.push(Ev::Libid(l));
                        assert(done =~= done_in + seq![Ev::Libid(l)]);
                        if h { lemma_cur_libid(references@, cur_in, reference, done_in, l, cp); }
                    }
//@@ after /skip\(stream, [^;]*;/#6of8
                    let ghost q1 = stream@;
//@@ after /read_variable_record\(stream, [^;]*;/#2of4
                    let ghost q2 = stream@;
//@@ after /read_variable_record\(stream, [^;]*;/#3of4
                    let ghost q3 = stream@;
//@@ after /skip\(stream, [^;]*;/#7of8
                    proof {
                        // REFERENCEPROJECT (its libids are paths, assigned to `path` only: name and description stay)
                        lemma_item_project(t, q1, q2, q3, stream@);
                        lemma_walk_step(t, Seq::<Ev>::empty(), stream@, done);
                        assert(done + Seq::<Ev>::empty() =~= done);
                        assert(refv(reference) == refv(cur_in));
                    }
//@@ before /Ok\(references\)/
        proof {
            //# C18.reference_names_in_order
            assert(h ==> names_match(references@, ev_names(done), cp)) by {
                lemma_fold_names(done, cp);
                if h {
                    assert forall|j: int| 0 <= j < references@.len() implies (#[trigger] references@[j]).name@ == decoded(cp, ev_names(done)[j]) by {
                        assert(refv(references@[j]) == refs_fold(done, cp)[j]);
                    }
                }
            }
        }
//@@ end
//@@ endimpl

proof fn witness_from_stream()
    ensures ref_walk(seq![0x0Fu8, 0x00]) is Some,
{
    reveal(ref_walk); reveal(ref_item);
}

} // mod vb

} // verus!
fn main() {}
