// ---- common/bytes.rs: little-endian readers of src/utils.rs (A-bytes).
// The real signatures are extracted; the bodies (`from_le_bytes(s[..N].try_into().unwrap())`) are outside vstd,
// so the contracts below are *assumed in Verus* and *discharged by Kani* on the real functions
// (kani/utils.rs: read_*_spec harnesses, symbolic buffer and length, panic iff len < N, value == shift/or formula).
pub open spec fn le16(s: Seq<u8>) -> int { s[0] as int + 256 * (s[1] as int) }
pub open spec fn le32(s: Seq<u8>) -> int { s[0] as int + 256 * (s[1] as int) + 65536 * (s[2] as int) + 16777216 * (s[3] as int) }
pub open spec fn le64(s: Seq<u8>) -> int { le32(s) + 4294967296 * le32(s.subrange(4, 8)) }
/// two's-complement reading of an unsigned value of `bits` bits
pub open spec fn signed(v: int, bits: nat) -> int { if v >= vstd::arithmetic::power2::pow2((bits - 1) as nat) { v - vstd::arithmetic::power2::pow2(bits) } else { v } }
pub uninterp spec fn f64_of_bits(bits: int) -> f64;

//@@ fn src/utils.rs read_u16 external_body by=read_u16_spec ret=r
//@@ sig
    requires s@.len() >= 2,
    ensures r as int == le16(s@),
//@@ end
//@@ fn src/utils.rs read_i16 external_body by=read_i16_spec ret=r
//@@ sig
    requires s@.len() >= 2,
    ensures r as int == (if le16(s@) >= 32768 { le16(s@) - 65536 } else { le16(s@) }),
//@@ end
//@@ fn src/utils.rs read_u32 external_body by=read_u32_spec ret=r
//@@ sig
    requires s@.len() >= 4,
    ensures r as int == le32(s@),
//@@ end
//@@ fn src/utils.rs read_i32 external_body by=read_i32_spec ret=r
//@@ sig
    requires s@.len() >= 4,
    ensures r as int == (if le32(s@) >= 2147483648 { le32(s@) - 4294967296 } else { le32(s@) }),
//@@ end
//@@ fn src/utils.rs read_u64 external_body by=read_u64_spec ret=r
//@@ sig
    requires s@.len() >= 8,
    ensures r as int == le64(s@),
//@@ end
//@@ fn src/utils.rs read_usize external_body by=read_usize_spec ret=r
//@@ sig
    requires s@.len() >= 4,
    ensures r as int == le32(s@),
//@@ end
//@@ fn src/utils.rs read_f64 external_body by=read_f64_spec ret=r
//@@ sig
    requires s@.len() >= 8,
    ensures r == f64_of_bits(le64(s@)),
//@@ end
