//@@ unit props=C14,C06 rlimit=200
// Unit xlsfml: the BIFF8 token renderer `parse_formula` of src/xls.rs (verbatim text, one 320-line function: Ptg tokens -> A1 text).
//
// WHAT IS UNDER CONTRACT
//   * entry copy (module m_entry, `parse_formula`, no hypotheses): every implicit obligation of the function (slice bounds, index, overflow,
//     unwrap, termination) -> C06; and the structural invariant (S) "the offsets on `stack` are ascending char boundaries of `formula`", which
//     discharges every byte-offset String operation (`insert`, `split_off`, `&fargs[a..b]`) for ALL inputs, malformed ones included.
//   * functional copies (modules m_wf0 .. m_wf7, `parse_formula@wf0` .. `@wf7`, hypothesis: the oracle accepts the token stream):
//         C14.formula_text_is_a1_rendering:   res == Ok(text)  with  Some(text) == render(rgce, sheets, names, xtis, encoding)
//     proved by the loop invariant `inv` (F): the oracle's run over the remaining bytes from the operand stack `ops` is the formula's rendering,
//     `formula` is the concatenation of the rendered operands and `stack` holds their start offsets.  One iteration = one oracle step:
//     every arm calls its `step_*` lemma, whose labelled `requires` are the named obligations on what the code did (token length, operand text,
//     offset bookkeeping, operator position, argument order ..).
//   * the same real function text is verified in 8 functional copies (rule R16 `case_split`): copy k keeps a few arms of `match ptg`, the other
//     arms are cut there and verified in their own copy; splice checks that the kept sets cover all 27 arms.  Reason: one SMT query holding the
//     terms of all 27 arms did not finish in 15 minutes, the 8 queries take 1 - 3 s each.
//   * the helpers `check_ptg_len` and `push_cell_ref` (RgceArea corner -> A1 text) are extracted and verified as well.
//
// ORACLE (written from [MS-XLS] 2.5.198 and the property text, independent of the code): `decode` (token at the head of a byte string: its
//   effect `Tok` on the stack of rendered operands and its size), `apply`, `step`, `run`, `render`; texts `cell_text` (RgceLoc: `$` exactly on the
//   absolute components, bijective base-26 column letters, row + 1 in decimal), `area_text`, `sheet_name` (ixti -> XTI -> sheet), `binop`,
//   `err_text`, `join`.  Outside its scope (nothing claimed): PtgExp, PtgTbl, PtgArray, PtgNameX, PtgMem*, PtgRefN/AreaN, PtgElf*, PtgAttrSpace,
//   3-D references to a range of sheets or another workbook, user-defined (iftab 255) and command-equivalent functions; quoting of sheet names.
//
// STRING MODEL (assumed, one line each, `TRUSTED`): a String is its `Seq<char>` (vstd's view); `String::len` is `blen` = the sum of the UTF-8
//   widths of its chars, so byte offsets are exact for non-ASCII text too; `insert` / `split_off` / `&s[a..b]` require char boundaries (`is_bnd`)
//   and act at the char index `cidx`; `write!` / `format!` with plain `{}` strings are expanded by rule R13 into literal pieces and `Display`
//   texts (`display::<u16 / u32>` = decimal digits `dec`, `&str` / `String` = the text, `f64` uninterpreted).
//
// Callees assumed: read_u16/u32/f64 (common/bytes.rs, Kani), push_column (unit colname; lemma_colname_contract derives the equation used here
//   from colname's three clauses), read_unicode_string_no_cch (unit xlsstr C19.nocch_text), the tables FTAB / FTAB_ARGC (values hidden: only
//   their length is used; the oracle takes names and fixed parameter counts from them).
#![feature(allocator_api)]
#![allow(unused_imports, dead_code, unused_variables, unused_mut, unused_assignments, unexpected_cfgs, deprecated)]
use vstd::prelude::*;
use std::slice::Windows;
use std::ops::{Index, Range};
use std::slice::SliceIndex;
use vstd::std_specs::iter::IteratorSpec;
use vstd::std_specs::core::IndexSpec;

verus! {

// ---- stand-ins for foreign types (opaque plumbing; never inspected by the verified code)
pub mod vba { pub struct VbaError; }
#[verifier::external_type_specification] #[verifier::external_body] pub struct ExIoError(std::io::Error);
pub mod cfb { pub struct CfbError { _opaque: u8 } }
use cfb::CfbError;
/// stand-in for cfb::XlsEncoding (wraps an encoding_rs table; only handed through to the string decoder)
pub struct XlsEncoding { _opaque: u8 }

//@@ item src/xls.rs enum XlsError cfg_off=picture
//@@ item src/xls.rs struct Xti keep_attrs
pub mod utils {
use vstd::prelude::*;
//@@ item src/utils.rs const FTAB_LEN
//@@ item src/utils.rs const FTAB static_refs hide_value
//@@ item src/utils.rs const FTAB_ARGC hide_value
}

//@@ include common/bytes.rs

// =====================================================================================================================
// String model: a String is its sequence of chars (vstd's view); byte offsets are related to it by the UTF-8 width of each char
// =====================================================================================================================
/// UTF-8 width of a char ([RFC 3629] / core::char::len_utf8)
pub open spec fn cw(c: char) -> nat { if (c as u32) < 0x80 { 1 } else if (c as u32) < 0x800 { 2 } else if (c as u32) < 0x10000 { 3 } else { 4 } }
/// length in bytes of the UTF-8 encoding of s
pub open spec fn blen(s: Seq<char>) -> nat decreases s.len() { if s.len() == 0 { 0 } else { blen(s.drop_last()) + cw(s.last()) } }
/// byte offset b is a char boundary of s (0, len, or the start of a char)
pub open spec fn is_bnd(s: Seq<char>, b: int) -> bool { exists|k: int| 0 <= k <= s.len() && blen(s.take(k)) == b }
/// the number of chars in front of byte offset b
pub open spec fn cidx(s: Seq<char>, b: int) -> int { choose|k: int| 0 <= k <= s.len() && blen(s.take(k)) == b }

// TRUSTED: String::with_capacity(n): "Creates a new empty String with at least the specified capacity"
pub assume_specification[ String::with_capacity ](n: usize) -> (r: String)
    ensures r@ == Seq::<char>::empty();
// TRUSTED: String::len: "Returns the length of this String, in bytes, not chars"
pub assume_specification[ String::len ](s: &String) -> (r: usize)
    ensures r == blen(s@);
// TRUSTED: String::insert(idx, ch): "Inserts a character into this String at byte position idx. Panics if idx is larger than the String's length, or if it does not lie on a char boundary"
pub assume_specification[ String::insert ](s: &mut String, idx: usize, ch: char)
    requires is_bnd(old(s)@, idx as int),
    ensures final(s)@ == old(s)@.take(cidx(old(s)@, idx as int)).push(ch) + old(s)@.skip(cidx(old(s)@, idx as int));
// TRUSTED: String::split_off(at): "Splits the string into two at the given byte index. Returns a newly allocated String. self contains bytes [0, at), and the returned String contains bytes [at, len). Panics if at is not on a UTF-8 code point boundary, or if it is beyond the last code point of the string"
pub assume_specification[ String::split_off ](s: &mut String, at: usize) -> (r: String)
    requires is_bnd(old(s)@, at as int),
    ensures final(s)@ == old(s)@.take(cidx(old(s)@, at as int)), r@ == old(s)@.skip(cidx(old(s)@, at as int));
// TRUSTED: `&s[a..b]` on a String (str::index, Range<usize>): "Returns a slice of the given string from the byte range [begin, end). Panics if begin or end does not point to the starting byte offset of a character, if begin > end, or if end > len"
pub uninterp spec fn str_index_post<I: SliceIndex<str>>(s: Seq<char>, i: I, x: &<I as SliceIndex<str>>::Output) -> bool;
pub assume_specification<I: SliceIndex<str>>[ <String as Index<I>>::index ](s: &String, i: I) -> (x: &<I as SliceIndex<str>>::Output)
    ensures str_index_post(s@, i, x);
pub broadcast axiom fn axiom_str_index_range(s: Seq<char>, r: Range<usize>, x: &str)
    ensures #[trigger] str_index_post::<Range<usize>>(s, r, x) ==> x@ == s.subrange(cidx(s, r.start as int), cidx(s, r.end as int));
pub broadcast axiom fn axiom_string_index_req_range(s: &String, r: Range<usize>)
    ensures r.start <= r.end && is_bnd(s@, r.start as int) && is_bnd(s@, r.end as int) ==> #[trigger] <String as IndexSpec<Range<usize>>>::index_req(s, &r);

// TRUSTED: Option::map_or (core::option documentation): the default for None, f(value) for Some
pub assume_specification<T, U, F: FnOnce(T) -> U>[ Option::<T>::map_or ](o: Option<T>, d: U, f: F) -> (r: U)
    requires o matches Some(v) ==> call_requires(f, (v,)),
    ensures o is None ==> r == d, o matches Some(v) ==> call_ensures(f, (v,), r);
// TRUSTED: core::slice::windows doc: "Returns an iterator over all contiguous windows of length size. The windows overlap. If the slice is
// shorter than size, the iterator returns no values. Panics if size is zero."  (`win_from(s, n, k, r)`: r = the windows from window k on)
#[verifier::external_type_specification] #[verifier::external_body] #[verifier::reject_recursive_types(T)]
pub struct ExWindows<'a, T: 'a>(Windows<'a, T>);
pub open spec fn win_from<T>(s: Seq<T>, n: int, k: int, r: Seq<&[T]>) -> bool {
    r.len() == (if s.len() >= n { s.len() - n + 1 } else { 0 }) - k
    && forall|i: int| 0 <= i < r.len() ==> (#[trigger] r[i])@ == s.subrange(k + i, k + i + n)
}
pub assume_specification<'a, T>[ <[T]>::windows ](s: &'a [T], n: usize) -> (r: Windows<'a, T>)
    requires n != 0,
    ensures r.obeys_prophetic_iter_laws(), win_from(s@, n as int, 0, r.remaining());
// TRUSTED: `for x in &mut vec` is `vec.iter_mut()` (impl IntoIterator for &mut Vec): yields a mutable reference to every element in order;
// same shape as vstd's specification of <[T]>::iter_mut (current values = old vector, final values = final vector)
pub assume_specification<'a, T, A: std::alloc::Allocator>[ <&'a mut Vec<T, A> as IntoIterator>::into_iter ](v: &'a mut Vec<T, A>) -> (r: <&'a mut Vec<T, A> as IntoIterator>::IntoIter)
    ensures
        r.obeys_prophetic_iter_laws(), r.decrease() is Some, r.remaining().len() == old(v)@.len(), final(v)@.len() == old(v)@.len(),
        forall|i: int| 0 <= i < old(v)@.len() ==> *(#[trigger] r.remaining()[i]) == old(v)@[i],
        forall|i: int| #![trigger r.remaining()[i]] #![trigger final(v)@[i]] 0 <= i < old(v)@.len() ==> *final(r.remaining()[i]) == final(v)@[i];

// ---- formatting (rule R13 expands `write!(&mut s, "..{}..", a).unwrap()` / `format!` into these two)
/// the text `Display` produces for a value
pub uninterp spec fn display<T>(x: T) -> Seq<char>;
// TRUSTED: the literal pieces of a format string are written as they are
#[verifier::external_body] fn verif_fmt_lit(dst: &mut String, lit: &str)
    ensures final(dst)@ == old(dst)@ + lit@,
{ unimplemented!() }
// TRUSTED: a `{}` placeholder writes the `Display` text of its argument
#[verifier::external_body] fn verif_fmt_arg<T>(dst: &mut String, a: &T)
    ensures final(dst)@ == old(dst)@ + display::<T>(*a),
{ unimplemented!() }
// TRUSTED: Display for u16 / u32: decimal digits without sign or leading zeros; for &str / String: the text itself
pub broadcast axiom fn axiom_display_u16(x: u16) ensures #[trigger] display::<u16>(x) == dec(x as nat);
pub broadcast axiom fn axiom_display_u32(x: u32) ensures #[trigger] display::<u32>(x) == dec(x as nat);
pub broadcast axiom fn axiom_display_str(x: &str) ensures #[trigger] display::<&str>(x) == x@;
pub broadcast axiom fn axiom_display_string(x: String) ensures #[trigger] display::<String>(x) == x@;

// ---- callees (contracts proved elsewhere)
/// the characters of an XLUnicodeStringNoCch body: `bytes` as 16-bit code units (fHighByte = 1) or zero-extended bytes (fHighByte = 0), decoded
// TRUSTED: unit xlsstr, C19.nocch_text: read_unicode_string_no_cch appends `str_text(enc, Some(buf[0] & 1 != 0), buf.skip(1), len)` when the
// buffer holds the flag byte and `len` characters of that width; xl_chars(e, hb, b) stands for xlsstr's `decode(e, if hb { b } else { zext(b) })`;
// in every case the old content stays in front (decode_to only appends)
pub uninterp spec fn xl_chars(e: XlsEncoding, hb: bool, bytes: Seq<u8>) -> Seq<char>;
pub open spec fn xl_width(hb: bool) -> int { if hb { 2 } else { 1 } }
#[verifier::external_body] fn read_unicode_string_no_cch(encoding: &XlsEncoding, buf: &[u8], len: &usize, s: &mut String)
    ensures
        buf@.len() >= 1 && buf@.len() - 1 >= *len * xl_width(buf@[0] & 0x1 != 0)
            ==> final(s)@ == old(s)@ + xl_chars(*encoding, buf@[0] & 0x1 != 0, buf@.subrange(1, 1 + *len * xl_width(buf@[0] & 0x1 != 0))),
        ext(old(s)@, final(s)@),
{ unimplemented!() }

// the contract of utils::push_column, in the words of unit colname (same spec text)
pub open spec fn is_upper_c(c: char) -> bool { 'A' <= c && c <= 'Z' }
pub open spec fn letter_val_c(c: char) -> nat { (c as u32 - 0x41 + 1) as nat }
pub open spec fn b26c(s: Seq<char>) -> nat decreases s.len() { if s.len() == 0 { 0 } else { b26c(s.drop_last()) * 26 + letter_val_c(s.last()) } }
pub open spec fn all_upper_c(s: Seq<char>) -> bool { forall|i: int| 0 <= i < s.len() ==> is_upper_c(#[trigger] s[i]) }
pub open spec fn appended(old: Seq<char>, new: Seq<char>) -> Seq<char> { new.subrange(old.len() as int, new.len() as int) }
// TRUSTED: proved in unit colname (C14.column_letters_frame, column_letters_uppercase, column_letters): the appended text is the string of
// uppercase letters whose bijective base-26 value is col + 1.  lemma_colname_contract (below, verified) shows that these three clauses
// determine the text: it is col_name(col).
#[verifier::external_body] pub fn push_column(col: u32, buf: &mut String)
    ensures final(buf)@ == old(buf)@ + col_name(col as int),
{ unimplemented!() }

// the two helpers of parse_formula (verbatim, verified here; the copies of parse_formula below use these contracts)
//@@ fn src/xls.rs check_ptg_len props=C06 ret=r
//@@ sig
    ensures
        //# C06.token_length_checked
        (r is Ok) == (len >= min),
//@@ end
//@@ fn src/xls.rs push_cell_ref props=C14 r13
//@@ sig
    ensures
        //# C14.area_corner_text
        final(buf)@ == old(buf)@ + cell_text(row as int, col as int),
//@@ body
    broadcast use axiom_display_u32;
    let ghost b0 = buf@;
    proof { lemma_u16_masks(); lemma_cell_text(row as int, col as int); }
//@@ after /write!\(buf, "\{\}", row as u32 \+ 1\)\.unwrap\(\);/
    proof { assert(buf@ =~= b0 + cell_text(row as int, col as int)); }
//@@ end

//@@ props C14
// =====================================================================================================================
// ORACLE, written from [MS-XLS] 2.5.198 (formula tokens, BIFF8) and the property text -- independent of the code
// =====================================================================================================================
pub open spec fn digit(d: int) -> char {
    if d == 0 { '0' } else if d == 1 { '1' } else if d == 2 { '2' } else if d == 3 { '3' } else if d == 4 { '4' }
    else if d == 5 { '5' } else if d == 6 { '6' } else if d == 7 { '7' } else if d == 8 { '8' } else { '9' }
}
/// decimal numeral of n, no leading zeros
#[verifier::opaque]
pub open spec fn dec(n: nat) -> Seq<char> decreases n { if n < 10 { seq![digit(n as int)] } else { dec(n / 10).push(digit((n % 10) as int)) } }
pub open spec fn letter(d: int) -> char { ((0x41 + d) as u8) as char }
/// bijective base-26 numeral of n >= 1 over A..Z (A = 1 .. Z = 26, AA = 27 ..): spreadsheet column letters of column n - 1
#[verifier::opaque]
pub open spec fn b26(n: nat) -> Seq<char> decreases n { if n == 0 { Seq::empty() } else { b26(((n - 1) / 26) as nat).push(letter((n - 1) % 26)) } }
/// letters of the 0-based column
pub open spec fn col_name(col: int) -> Seq<char> { b26((col + 1) as nat) }

/// [MS-XLS] 2.5.198.108 RgceLoc / 2.5.51 ColRelU: 16-bit field = col (bits 0-13), colRelative (bit 14), rowRelative (bit 15)
pub open spec fn f_col(f: int) -> int { f % 16384 }
pub open spec fn f_col_rel(f: int) -> bool { (f / 16384) % 2 == 1 }
pub open spec fn f_row_rel(f: int) -> bool { (f / 32768) % 2 == 1 }
/// a `$` exactly on the absolute components
pub open spec fn dollar(absolute: bool) -> Seq<char> { if absolute { seq!['$'] } else { Seq::empty() } }
/// A1 text of a cell reference: rw = 0-based row, f = column field with its two flag bits
#[verifier::opaque]
pub open spec fn cell_text(rw: int, f: int) -> Seq<char> { dollar(!f_col_rel(f)) + col_name(f_col(f)) + dollar(!f_row_rel(f)) + dec((rw + 1) as nat) }
/// [MS-XLS] 2.5.198.107 RgceArea: rowFirst, rowLast, columnFirst, columnLast -- each column field carries the flags of its own corner
#[verifier::opaque]
pub open spec fn area_text(rw1: int, rw2: int, f1: int, f2: int) -> Seq<char> { cell_text(rw1, f1) + seq![':'] + cell_text(rw2, f2) }

/// what the renderer is given: sheet names (BoundSheet8 order), defined names (Lbl order), the XTI table of ExternSheet, the code page
struct Ctx { pub sheets: Seq<Seq<char>>, pub names: Seq<Seq<char>>, pub xtis: Seq<Xti>, pub enc: XlsEncoding }
spec fn mk_ctx(sheets: Seq<String>, names: Seq<(String, String)>, xtis: Seq<Xti>, enc: XlsEncoding) -> Ctx {
    Ctx { sheets: Seq::new(sheets.len(), |i: int| sheets[i]@), names: Seq::new(names.len(), |i: int| names[i].0@), xtis: xtis, enc: enc }
}
/// [MS-XLS] 2.5.198.85 PtgRef3d: "ixti: An unsigned integer that specifies an XTI structure ... in the ExternSheet record"; 2.5.345 XTI:
/// itabFirst / itabLast = first / last sheet of the reference.  In the oracle's scope: an existing XTI naming ONE existing sheet.
spec fn sheet_name(ixti: int, c: Ctx) -> Option<Seq<char>> {
    if 0 <= ixti < c.xtis.len() && c.xtis[ixti].itab_first == c.xtis[ixti]._itab_last && 0 <= c.xtis[ixti].itab_first < c.sheets.len() {
        Some(c.sheets[c.xtis[ixti].itab_first as int])
    } else { None }
}
/// what a token does to the stack of rendered operands
pub enum Tok {
    Operand(Seq<char>),      // pushes its text
    Binary(Seq<char>),       // a b -> a OP b
    Prefix(char),            // a -> OP a
    Percent,                 // a -> a%
    Paren,                   // a -> (a)
    Func(Seq<char>, int),    // a1 .. an -> NAME(a1,..,an)
    Sum,                     // a -> SUM(a)     (PtgAttrSum)
    Skip,                    // no display effect
}
/// [MS-XLS] 2.5.198.25 Ptg table, binary operators 0x03 - 0x11
pub open spec fn binop(p: int) -> Seq<char> {
    if p == 0x03 { "+"@ } else if p == 0x04 { "-"@ } else if p == 0x05 { "*"@ } else if p == 0x06 { "/"@ } else if p == 0x07 { "^"@ }
    else if p == 0x08 { "&"@ } else if p == 0x09 { "<"@ } else if p == 0x0A { "<="@ } else if p == 0x0B { "="@ } else if p == 0x0C { ">="@ }
    else if p == 0x0D { ">"@ } else if p == 0x0E { "<>"@ } else if p == 0x0F { " "@ } else if p == 0x10 { ","@ } else { ":"@ }
}
/// [MS-XLS] 2.5.10 BErr
pub open spec fn err_text(e: int) -> Option<Seq<char>> {
    if e == 0x00 { Some("#NULL!"@) } else if e == 0x07 { Some("#DIV/0!"@) } else if e == 0x0F { Some("#VALUE!"@) } else if e == 0x17 { Some("#REF!"@) }
    else if e == 0x1D { Some("#NAME?"@) } else if e == 0x24 { Some("#NUM!"@) } else if e == 0x2A { Some("#N/A"@) } else if e == 0x2B { Some("#GETTING_DATA"@) }
    else { None }
}
/// operand-class tokens exist in three data classes (bits 5-6 of the ptg: reference 0x20 / value 0x40 / array 0x60) with the same layout
pub open spec fn ptg_base(p: int) -> int { if p >= 0x20 { p % 32 + 32 } else { p } }
// the function table [MS-XLS] 2.5.198.17 Ftab is data of the crate (utils::FTAB / FTAB_ARGC); it cannot be checked against the document here
pub open spec fn ftab_name(i: int) -> Seq<char> { crate::utils::FTAB@[i]@ }
pub open spec fn ftab_argc(i: int) -> int { crate::utils::FTAB_ARGC@[i] as int }

// ---- the tokens, one spec function per kind: d = the bytes after the ptg byte; result = (effect on the operand stack, size of the whole token)
/// [MS-XLS] 2.5.198.89 PtgStr: ShortXLUnicodeString = cch (1 byte), fHighByte (bit 0 of 1 byte), rgb (cch characters of 1 or 2 bytes)
spec fn t_str(d: Seq<u8>, c: Ctx) -> Option<(Tok, int)> {
    if d.len() >= 2 && d.len() >= 2 + d[0] as int * xl_width(d[1] & 0x1 != 0) {
        let n = d[0] as int * xl_width(d[1] & 0x1 != 0);
        Some((Tok::Operand(seq!['"'] + xl_chars(c.enc, d[1] & 0x1 != 0, d.subrange(2, 2 + n)) + seq!['"']), 3 + n))
    } else { None }
}
/// [MS-XLS] 2.5.198.4 .. PtgAttr*: flag byte (1), data (2): Semi 0x01, If 0x02, Choose 0x04 (+ cOffset + 1 offsets), Goto 0x08, Sum 0x10, Baxcel 0x20 / 0x21;
/// PtgAttrSpace 0x40 / 0x41 (display spacing) is outside the oracle
spec fn t_attr(d: Seq<u8>) -> Option<(Tok, int)> {
    if d.len() >= 3 {
        let e = d[0] as int;
        if e == 0x01 || e == 0x02 || e == 0x08 || e == 0x20 || e == 0x21 { Some((Tok::Skip, 4)) }
        else if e == 0x04 { Some((Tok::Skip, 4 + 2 * (le16(d.skip(1)) + 1))) }
        else if e == 0x10 { Some((Tok::Sum, 4)) }
        else { None }
    } else { None }
}
/// PtgErr: BErr (1)
spec fn t_err(d: Seq<u8>) -> Option<(Tok, int)> { if d.len() >= 1 && err_text(d[0] as int) is Some { Some((Tok::Operand(err_text(d[0] as int)->Some_0), 2)) } else { None } }
/// PtgBool: 0 / 1
spec fn t_bool(d: Seq<u8>) -> Option<(Tok, int)> { if d.len() >= 1 && d[0] <= 1 { Some((Tok::Operand(if d[0] == 0 { "FALSE"@ } else { "TRUE"@ }), 2)) } else { None } }
/// PtgInt: unsigned 16-bit integer
spec fn t_int(d: Seq<u8>) -> Option<(Tok, int)> { if d.len() >= 2 { Some((Tok::Operand(dec(le16(d) as nat)), 3)) } else { None } }
/// PtgNum: Xnum (the text of a double is left uninterpreted: `Display` of the f64 with these bits)
spec fn t_num(d: Seq<u8>) -> Option<(Tok, int)> { if d.len() >= 8 { Some((Tok::Operand(display::<f64>(f64_of_bits(le64(d)))), 9)) } else { None } }
/// PtgFunc: iftab (2); fixed parameter count from the table
spec fn t_func(d: Seq<u8>) -> Option<(Tok, int)> {
    if d.len() >= 2 && le16(d) < crate::utils::FTAB_LEN { Some((Tok::Func(ftab_name(le16(d)), ftab_argc(le16(d))), 3)) } else { None }
}
/// PtgFuncVar: cparams (7 bits) fPrompt (1 bit), tab (15 bits) fCeFunc (1 bit); iftab 255 = user-defined function (name is an operand): outside
spec fn t_funcvar(d: Seq<u8>) -> Option<(Tok, int)> {
    if d.len() >= 3 && d[0] < 128 && le16(d.skip(1)) < crate::utils::FTAB_LEN && le16(d.skip(1)) != 255 {
        Some((Tok::Func(ftab_name(le16(d.skip(1))), d[0] as int), 4))
    } else { None }
}
/// PtgName: nameindex (4), one-based index of a Lbl record
spec fn t_name(d: Seq<u8>, c: Ctx) -> Option<(Tok, int)> { if d.len() >= 4 && 1 <= le32(d) <= c.names.len() { Some((Tok::Operand(c.names[le32(d) - 1]), 5)) } else { None } }
/// PtgRef: RgceLoc = row (2), column field (2)
spec fn t_ref(d: Seq<u8>) -> Option<(Tok, int)> { if d.len() >= 4 { Some((Tok::Operand(cell_text(le16(d), le16(d.skip(2)))), 5)) } else { None } }
/// PtgArea: RgceArea = rowFirst (2), rowLast (2), columnFirst (2), columnLast (2)
spec fn t_area(d: Seq<u8>) -> Option<(Tok, int)> {
    if d.len() >= 8 { Some((Tok::Operand(area_text(le16(d), le16(d.skip(2)), le16(d.skip(4)), le16(d.skip(6)))), 9)) } else { None }
}
/// PtgRefErr (4 unused bytes) / PtgAreaErr (8 unused bytes)
spec fn t_referr(d: Seq<u8>, unused: int) -> Option<(Tok, int)> { if d.len() >= unused { Some((Tok::Operand("#REF!"@), 1 + unused)) } else { None } }
/// PtgRef3d: ixti (2), RgceLoc
spec fn t_ref3d(d: Seq<u8>, c: Ctx) -> Option<(Tok, int)> {
    if d.len() >= 6 && sheet_name(le16(d), c) is Some {
        Some((Tok::Operand(sheet_name(le16(d), c)->Some_0 + seq!['!'] + cell_text(le16(d.skip(2)), le16(d.skip(4)))), 7))
    } else { None }
}
/// PtgArea3d: ixti (2), RgceArea
spec fn t_area3d(d: Seq<u8>, c: Ctx) -> Option<(Tok, int)> {
    if d.len() >= 10 && sheet_name(le16(d), c) is Some {
        Some((Tok::Operand(sheet_name(le16(d), c)->Some_0 + seq!['!'] + area_text(le16(d.skip(2)), le16(d.skip(4)), le16(d.skip(6)), le16(d.skip(8)))), 11))
    } else { None }
}
/// PtgRefErr3d: ixti (2), 4 unused bytes / PtgAreaErr3d: ixti (2), 8 unused bytes
spec fn t_referr3d(d: Seq<u8>, c: Ctx, unused: int) -> Option<(Tok, int)> {
    if d.len() >= 2 + unused && sheet_name(le16(d), c) is Some { Some((Tok::Operand(sheet_name(le16(d), c)->Some_0 + seq!['!'] + "#REF!"@), 3 + unused)) } else { None }
}

/// the token at the head of rg and its size in bytes ([MS-XLS] 2.5.198.25 Ptg table).  None: truncated, undefined, or outside the oracle's scope
/// (PtgExp, PtgTbl, PtgArray, PtgNameX, PtgMem*, PtgRefN/AreaN, PtgElf*, PtgAttrSpace, multi-sheet / external 3-D references, user-defined /
/// command-equivalent functions)
#[verifier::opaque]
spec fn decode(rg: Seq<u8>, c: Ctx) -> Option<(Tok, int)> {
    if rg.len() == 0 { None } else {
        let p = rg[0] as int;
        let d = rg.skip(1);
        let b = ptg_base(p);
        if p >= 0x80 { None }
        else if 0x03 <= p <= 0x11 { Some((Tok::Binary(binop(p)), 1)) }
        else if p == 0x12 { Some((Tok::Prefix('+'), 1)) }                                   // PtgUplus
        else if p == 0x13 { Some((Tok::Prefix('-'), 1)) }                                   // PtgUminus
        else if p == 0x14 { Some((Tok::Percent, 1)) }                                       // PtgPercent
        else if p == 0x15 { Some((Tok::Paren, 1)) }                                         // PtgParen
        else if p == 0x16 { Some((Tok::Operand(Seq::empty()), 1)) }                         // PtgMissArg
        else if p == 0x17 { t_str(d, c) }
        else if p == 0x19 { t_attr(d) }
        else if p == 0x1C { t_err(d) }
        else if p == 0x1D { t_bool(d) }
        else if p == 0x1E { t_int(d) }
        else if p == 0x1F { t_num(d) }
        else if b == 0x21 { t_func(d) }
        else if b == 0x22 { t_funcvar(d) }
        else if b == 0x23 { t_name(d, c) }
        else if b == 0x24 { t_ref(d) }
        else if b == 0x25 { t_area(d) }
        else if b == 0x2A { t_referr(d, 4) }
        else if b == 0x2B { t_referr(d, 8) }
        else if b == 0x3A { t_ref3d(d, c) }
        else if b == 0x3B { t_area3d(d, c) }
        else if b == 0x3C { t_referr3d(d, c, 4) }
        else if b == 0x3D { t_referr3d(d, c, 8) }
        else { None }
    }
}
/// the dispatch table of `decode`, one line per ptg value (proved from the definition; used so that each arm of the code sees only its own line)
proof fn lemma_dispatch(rg: Seq<u8>, c: Ctx)
    requires rg.len() >= 1,
    ensures ({
        let p = rg[0] as int;
        let d = rg.skip(1);
        &&& (0x03 <= p <= 0x11 ==> decode(rg, c) == Some((Tok::Binary(binop(p)), 1int)))
        &&& (p == 0x12 ==> decode(rg, c) == Some((Tok::Prefix('+'), 1int)))
        &&& (p == 0x13 ==> decode(rg, c) == Some((Tok::Prefix('-'), 1int)))
        &&& (p == 0x14 ==> decode(rg, c) == Some((Tok::Percent, 1int)))
        &&& (p == 0x15 ==> decode(rg, c) == Some((Tok::Paren, 1int)))
        &&& (p == 0x16 ==> decode(rg, c) == Some((Tok::Operand(Seq::empty()), 1int)))
        &&& (p == 0x17 ==> decode(rg, c) == t_str(d, c))
        &&& (p == 0x19 ==> decode(rg, c) == t_attr(d))
        &&& (p == 0x1C ==> decode(rg, c) == t_err(d))
        &&& (p == 0x1D ==> decode(rg, c) == t_bool(d))
        &&& (p == 0x1E ==> decode(rg, c) == t_int(d))
        &&& (p == 0x1F ==> decode(rg, c) == t_num(d))
        &&& (p == 0x21 || p == 0x41 || p == 0x61 ==> decode(rg, c) == t_func(d))
        &&& (p == 0x22 || p == 0x42 || p == 0x62 ==> decode(rg, c) == t_funcvar(d))
        &&& (p == 0x23 || p == 0x43 || p == 0x63 ==> decode(rg, c) == t_name(d, c))
        &&& (p == 0x24 || p == 0x44 || p == 0x64 ==> decode(rg, c) == t_ref(d))
        &&& (p == 0x25 || p == 0x45 || p == 0x65 ==> decode(rg, c) == t_area(d))
        &&& (p == 0x2A || p == 0x4A || p == 0x6A ==> decode(rg, c) == t_referr(d, 4))
        &&& (p == 0x2B || p == 0x4B || p == 0x6B ==> decode(rg, c) == t_referr(d, 8))
        &&& (p == 0x3A || p == 0x5A || p == 0x7A ==> decode(rg, c) == t_ref3d(d, c))
        &&& (p == 0x3B || p == 0x5B || p == 0x7B ==> decode(rg, c) == t_area3d(d, c))
        &&& (p == 0x3C || p == 0x5C || p == 0x7C ==> decode(rg, c) == t_referr3d(d, c, 4))
        &&& (p == 0x3D || p == 0x5D || p == 0x7D ==> decode(rg, c) == t_referr3d(d, c, 8))
        &&& (p >= 0x80 ==> decode(rg, c) is None)
        &&& (p == 0x01 || p == 0x02 || p == 0x18 || p == 0x20 || p == 0x40 || p == 0x60 || p == 0x39 || p == 0x59 || p == 0x79 ==> decode(rg, c) is None)
        &&& (!(0x03 <= p <= 0x17) && p != 0x19 && !(0x1C <= p <= 0x1F) && !(0x21 <= ptg_base(p) <= 0x25) && ptg_base(p) != 0x2A && ptg_base(p) != 0x2B
                && !(0x3A <= ptg_base(p) <= 0x3D) ==> decode(rg, c) is None)
    }),
{
    reveal(decode);
}

/// arguments in order, separated by commas
pub open spec fn join(a: Seq<Seq<char>>) -> Seq<char> decreases a.len() {
    if a.len() == 0 { Seq::empty() } else if a.len() == 1 { a[0] } else { join(a.drop_last()) + seq![','] + a.last() }
}
/// the operand stack after the token (None: not enough operands)
pub open spec fn apply(t: Tok, ops: Seq<Seq<char>>) -> Option<Seq<Seq<char>>> {
    let n = ops.len() as int;
    match t {
        Tok::Operand(x) => Some(ops.push(x)),
        Tok::Binary(op) => if n >= 2 { Some(ops.take(n - 2).push(ops[n - 2] + op + ops[n - 1])) } else { None },
        Tok::Prefix(ch) => if n >= 1 { Some(ops.take(n - 1).push(seq![ch] + ops[n - 1])) } else { None },
        Tok::Percent => if n >= 1 { Some(ops.take(n - 1).push(ops[n - 1] + seq!['%'])) } else { None },
        Tok::Paren => if n >= 1 { Some(ops.take(n - 1).push(seq!['('] + ops[n - 1] + seq![')'])) } else { None },
        Tok::Sum => if n >= 1 { Some(ops.take(n - 1).push("SUM("@ + ops[n - 1] + seq![')'])) } else { None },
        Tok::Func(name, argc) => if 0 <= argc <= n { Some(ops.take(n - argc).push(name + seq!['('] + join(ops.skip(n - argc)) + seq![')'])) } else { None },
        Tok::Skip => Some(ops),
    }
}
/// one token: bytes consumed and the new operand stack
spec fn step(rg: Seq<u8>, ops: Seq<Seq<char>>, c: Ctx) -> Option<(int, Seq<Seq<char>>)> {
    match decode(rg, c) {
        Some((t, n)) => if 0 < n <= rg.len() { match apply(t, ops) { Some(o2) => Some((n, o2)), None => None } } else { None },
        None => None,
    }
}
/// the whole token stream, in evaluation order
spec fn run(rg: Seq<u8>, ops: Seq<Seq<char>>, c: Ctx) -> Option<Seq<Seq<char>>>
    decreases rg.len()
{
    if rg.len() == 0 { Some(ops) } else {
        match step(rg, ops, c) { Some((n, o2)) => run(rg.skip(n), o2, c), None => None }
    }
}
pub open spec fn fin(o: Option<Seq<Seq<char>>>) -> Option<Seq<char>> {
    match o { Some(ops) => if ops.len() == 1 { Some(ops[0]) } else { None }, None => None }
}
/// [MS-XLS] 2.5.198.3 CellParsedFormula: cce (2 bytes), rgce (cce bytes of tokens), rgcb.  The formula's text is the one operand left at the end.
spec fn render(all: Seq<u8>, c: Ctx) -> Option<Seq<char>> {
    if all.len() >= 2 && all.len() >= 2 + le16(all) { fin(run(all.subrange(2, 2 + le16(all)), Seq::empty(), c)) } else { None }
}

// ---- oracle sanity: the column letters everybody knows; decimal numerals; a rendered reference
proof fn lemma_oracle_examples()
    ensures
        col_name(0) == seq!['A'], col_name(25) == seq!['Z'], col_name(26) == seq!['A', 'A'], col_name(255) == seq!['I', 'V'], col_name(16383) == seq!['X', 'F', 'D'],
        dec(0) == seq!['0'], dec(7) == seq!['7'], dec(10) == seq!['1', '0'], dec(65536) == seq!['6', '5', '5', '3', '6'],
        cell_text(2, 0x8001) == seq!['$', 'B', '3'], cell_text(2, 0x4001) == seq!['B', '$', '3'],
        cell_text(0, 0xC000) == seq!['A', '1'], cell_text(0, 0) == seq!['$', 'A', '$', '1'],
{
    reveal_with_fuel(b26, 4);
    reveal_with_fuel(dec, 6);
    reveal(cell_text);
    assert(col_name(0) =~= seq!['A']);
    assert(col_name(25) =~= seq!['Z']);
    assert(col_name(26) =~= seq!['A', 'A']);
    assert(col_name(255) =~= seq!['I', 'V']);
    assert(col_name(16383) =~= seq!['X', 'F', 'D']);
    assert(dec(10) =~= seq!['1', '0']);
    assert(dec(65536) =~= seq!['6', '5', '5', '3', '6']);
    assert(col_name(1) =~= seq!['B']);
    assert(dec(3) =~= seq!['3']);
    assert(dec(1) =~= seq!['1']);
    assert(cell_text(2, 0x8001) =~= seq!['$', 'B', '3']);
    assert(cell_text(2, 0x4001) =~= seq!['B', '$', '3']);
    assert(cell_text(0, 0xC000) =~= seq!['A', '1']);
    assert(cell_text(0, 0) =~= seq!['$', 'A', '$', '1']);
}

// ---- the contract of push_column proved in unit colname determines the text: it is col_name(col)
proof fn lemma_letter(d: int)
    requires 0 <= d < 26,
    ensures is_upper_c(letter(d)), letter_val_c(letter(d)) == d + 1,
{}
proof fn lemma_b26_unique(a: Seq<char>)
    requires all_upper_c(a),
    ensures a == b26(b26c(a)),
    decreases a.len(),
{
    reveal_with_fuel(b26, 2);
    if a.len() == 0 {
        assert(a =~= Seq::<char>::empty());
    } else {
        let t = a.drop_last();
        assert forall|i: int| 0 <= i < t.len() implies is_upper_c(#[trigger] t[i]) by { assert(t[i] == a[i]); }
        lemma_b26_unique(t);
        let c = a.last();
        assert(is_upper_c(a[a.len() - 1]));
        let v = letter_val_c(c);
        assert(1 <= v <= 26);
        let n = b26c(a);
        assert(n == b26c(t) * 26 + v);
        assert((n - 1) / 26 == b26c(t) && (n - 1) % 26 == v - 1) by (nonlinear_arith) requires n == b26c(t) * 26 + v, 1 <= v <= 26, b26c(t) >= 0;
        assert(letter((v - 1) as int) == c);
        assert(b26(n) == b26(((n - 1) / 26) as nat).push(letter((n - 1) % 26)));
        assert(a =~= t.push(c));
    }
}
/// the three clauses of colname's contract (C14.column_letters_frame, _uppercase, column_letters) imply the equation assumed for the stub above
proof fn lemma_colname_contract(o: Seq<char>, n: Seq<char>, col: u32)
    requires
        n.len() >= o.len() && n.subrange(0, o.len() as int) == o,
        all_upper_c(appended(o, n)),
        b26c(appended(o, n)) == col + 1,
    ensures n == o + col_name(col as int),
{
    lemma_b26_unique(appended(o, n));
    assert(n =~= n.subrange(0, o.len() as int) + appended(o, n));
}

// =====================================================================================================================
// Lemmas about the String model
// =====================================================================================================================
proof fn lemma_blen_add(a: Seq<char>, b: Seq<char>)
    ensures blen(a + b) == blen(a) + blen(b),
    decreases b.len(),
{
    if b.len() == 0 { assert(a + b =~= a); }
    else {
        assert((a + b).drop_last() =~= a + b.drop_last());
        assert((a + b).last() == b.last());
        lemma_blen_add(a, b.drop_last());
    }
}
proof fn lemma_blen_ge(a: Seq<char>)
    ensures blen(a) >= a.len(),
    decreases a.len(),
{
    if a.len() > 0 { lemma_blen_ge(a.drop_last()); }
}
proof fn lemma_blen_take_mono(s: Seq<char>, j: int, k: int)
    requires 0 <= j <= k <= s.len(),
    ensures blen(s.take(j)) + (k - j) <= blen(s.take(k)),
{
    assert(s.take(k) =~= s.take(j) + s.subrange(j, k));
    lemma_blen_add(s.take(j), s.subrange(j, k));
    lemma_blen_ge(s.subrange(j, k));
}
/// a boundary determines its char index
proof fn lemma_cidx(s: Seq<char>, k: int)
    requires 0 <= k <= s.len(),
    ensures is_bnd(s, blen(s.take(k)) as int), cidx(s, blen(s.take(k)) as int) == k,
{
    let b = blen(s.take(k)) as int;
    assert(is_bnd(s, b));
    let c = cidx(s, b);
    assert(0 <= c <= s.len() && blen(s.take(c)) == b);
    if c < k { lemma_blen_take_mono(s, c, k); }
    if c > k { lemma_blen_take_mono(s, k, c); }
}
proof fn lemma_split(a: Seq<char>, b: Seq<char>)
    ensures
        is_bnd(a + b, blen(a) as int), cidx(a + b, blen(a) as int) == a.len(),
        (a + b).take(a.len() as int) == a, (a + b).skip(a.len() as int) == b,
{
    assert((a + b).take(a.len() as int) =~= a);
    assert((a + b).skip(a.len() as int) =~= b);
    lemma_cidx(a + b, a.len() as int);
}
/// is_bnd(s, b) with its witness
proof fn lemma_bnd_idx(s: Seq<char>, b: int)
    requires is_bnd(s, b),
    ensures 0 <= cidx(s, b) <= s.len(), blen(s.take(cidx(s, b))) == b, 0 <= b <= blen(s),
{
    let k = cidx(s, b);
    lemma_blen_take_mono(s, k, s.len() as int);
    assert(s.take(s.len() as int) =~= s);
}

//@@ props C06
// =====================================================================================================================
// (S) structural invariant of the renderer's state: the stack holds ascending char boundaries of the text  (no String panic: C06)
// =====================================================================================================================
#[verifier::opaque]
pub open spec fn sorted_bnds(f: Seq<char>, st: Seq<usize>) -> bool {
    &&& forall|i: int| 0 <= i < st.len() ==> is_bnd(f, #[trigger] st[i] as int)
    &&& forall|i: int, j: int| 0 <= i <= j < st.len() ==> st[i] <= st[j]
}
proof fn lemma_sb_last(f: Seq<char>, st: Seq<usize>)
    ensures
        sorted_bnds(f, st) && st.len() > 0 ==> is_bnd(f, st.last() as int),
        sorted_bnds(Seq::<char>::empty(), Seq::<usize>::empty()),
{
    reveal(sorted_bnds);
}
proof fn lemma_cell_text(rw: int, f: int)
    ensures cell_text(rw, f) == dollar(!f_col_rel(f)) + col_name(f_col(f)) + dollar(!f_row_rel(f)) + dec((rw + 1) as nat),
{
    reveal(cell_text);
}
proof fn lemma_area_text(rw1: int, rw2: int, f1: int, f2: int)
    ensures area_text(rw1, rw2, f1, f2) == cell_text(rw1, f1) + seq![':'] + cell_text(rw2, f2),
{
    reveal(area_text);
}
/// every arm keeps the text in front of some stack entry (or the whole text), cuts the stack there, and may push that offset again
proof fn lemma_struct(f: Seq<char>, st: Seq<usize>, j: int, f_out: Seq<char>, st_out: Seq<usize>)
    ensures
        ({
            let b = if 0 <= j < st.len() { st[j] as int } else { blen(f) as int };
            let k = cidx(f, b);
            sorted_bnds(f, st) && 0 <= j <= st.len() && f_out.len() >= k && f_out.take(k) =~= f.take(k)
                && (st_out =~= st.take(j) || (b <= usize::MAX && st_out =~= st.take(j).push(b as usize)))
        }) ==> sorted_bnds(f_out, st_out),
{
    reveal(sorted_bnds);
    let b = if 0 <= j < st.len() { st[j] as int } else { blen(f) as int };
    let k = cidx(f, b);
    if sorted_bnds(f, st) && 0 <= j <= st.len() && f_out.len() >= k && f_out.take(k) =~= f.take(k)
        && (st_out =~= st.take(j) || (b <= usize::MAX && st_out =~= st.take(j).push(b as usize))) {
        if j < st.len() { assert(is_bnd(f, st[j] as int)); } else { assert(f.take(f.len() as int) =~= f); assert(is_bnd(f, b)); }
        lemma_bnd_idx(f, b);
        // b is a boundary of f_out
        assert(f_out.take(k) == f.take(k));
        assert(is_bnd(f_out, b));
        assert forall|i: int| 0 <= i < st_out.len() implies is_bnd(f_out, #[trigger] st_out[i] as int) by {
            if i < j {
                assert(st_out[i] == st[i]);
                assert(is_bnd(f, st[i] as int));
                lemma_bnd_idx(f, st[i] as int);
                let ki = cidx(f, st[i] as int);
                // st[i] <= b, so its index is <= k and the prefix is shared
                if j < st.len() { assert(st[i] <= st[j]); } else { }
                if ki > k { lemma_blen_take_mono(f, k, ki); }
                assert(f_out.take(ki) =~= f.take(k).take(ki));
                assert(f.take(ki) =~= f.take(k).take(ki));
            }
        }
        assert forall|i: int, l: int| 0 <= i <= l < st_out.len() implies st_out[i] <= st_out[l] by {
            if l < j { assert(st_out[i] == st[i] && st_out[l] == st[l]); }
            else if i < j {
                assert(st_out[i] == st[i]);
                if j < st.len() { assert(st[i] <= st[j]); } else { assert(is_bnd(f, st[i] as int)); lemma_bnd_idx(f, st[i] as int); }
            }
        }
    }
}

//@@ props C14
// =====================================================================================================================
// (F) functional invariant: the text is the concatenation of the rendered operands, the stack holds their start offsets
// =====================================================================================================================
pub open spec fn cat(ops: Seq<Seq<char>>) -> Seq<char> decreases ops.len() { if ops.len() == 0 { Seq::empty() } else { cat(ops.drop_last()) + ops.last() } }
#[verifier::opaque]
pub open spec fn repr(f: Seq<char>, st: Seq<usize>, ops: Seq<Seq<char>>) -> bool {
    &&& st.len() == ops.len()
    &&& f == cat(ops)
    &&& forall|i: int| 0 <= i < ops.len() ==> (#[trigger] st[i]) as int == blen(cat(ops.take(i)))
}
proof fn lemma_cat_push(ops: Seq<Seq<char>>, t: Seq<char>)
    ensures cat(ops.push(t)) == cat(ops) + t,
{
    assert(ops.push(t).drop_last() =~= ops);
}
proof fn lemma_cat_split(ops: Seq<Seq<char>>, i: int)
    requires 0 <= i <= ops.len(),
    ensures cat(ops) == cat(ops.take(i)) + cat(ops.skip(i)),
    decreases ops.len(),
{
    if i == ops.len() {
        assert(ops.take(i) =~= ops);
        assert(ops.skip(i) =~= Seq::<Seq<char>>::empty());
        assert(cat(ops) =~= cat(ops) + Seq::<char>::empty());
    } else {
        lemma_cat_split(ops.drop_last(), i);
        assert(ops.drop_last().take(i) =~= ops.take(i));
        assert(ops.skip(i).drop_last() =~= ops.drop_last().skip(i));
        assert(ops.skip(i).last() == ops.last());
        assert(cat(ops) =~= cat(ops.take(i)) + (cat(ops.drop_last().skip(i)) + ops.last()));
    }
}
proof fn lemma_repr_push(f: Seq<char>, st: Seq<usize>, ops: Seq<Seq<char>>, t: Seq<char>)
    requires repr(f, st, ops), blen(f) <= usize::MAX,
    ensures repr(f + t, st.push(blen(f) as usize), ops.push(t)),
{
    reveal(repr);
    lemma_cat_push(ops, t);
    let o2 = ops.push(t);
    let s2 = st.push(blen(f) as usize);
    assert forall|i: int| 0 <= i < o2.len() implies (#[trigger] s2[i]) as int == blen(cat(o2.take(i))) by {
        if i < ops.len() { assert(o2.take(i) =~= ops.take(i)); assert(s2[i] == st[i]); }
        else { assert(o2.take(i) =~= ops); }
    }
}
/// the text in front of operand k, the text from operand k on, and the offset stored for k
proof fn lemma_repr_at(f: Seq<char>, st: Seq<usize>, ops: Seq<Seq<char>>, k: int)
    requires repr(f, st, ops), 0 <= k < ops.len(),
    ensures ({
        let p = cat(ops.take(k));
        let q = cat(ops.skip(k));
        &&& f == p + q && st[k] as int == blen(p) && is_bnd(f, st[k] as int) && cidx(f, st[k] as int) == p.len()
        &&& f.take(p.len() as int) == p && f.skip(p.len() as int) == q
        &&& repr(p, st.take(k), ops.take(k))
    }),
{
    reveal(repr);
    let p = cat(ops.take(k));
    let q = cat(ops.skip(k));
    lemma_cat_split(ops, k);
    lemma_split(p, q);
    let o1 = ops.take(k);
    let s1 = st.take(k);
    assert forall|i: int| 0 <= i < o1.len() implies (#[trigger] s1[i]) as int == blen(cat(o1.take(i))) by {
        assert(o1.take(i) =~= ops.take(i));
        assert(s1[i] == st[i]);
    }
}
proof fn lemma_cat_last(ops: Seq<Seq<char>>)
    requires ops.len() >= 1,
    ensures cat(ops.skip(ops.len() - 1)) == ops.last(), ops.take(ops.len() - 1) == ops.drop_last(),
{
    let s = ops.skip(ops.len() - 1);
    assert(s.drop_last() =~= Seq::<Seq<char>>::empty());
    assert(s.last() == ops.last());
    assert(cat(s.drop_last()) =~= Seq::<char>::empty());
    assert(cat(s) == cat(s.drop_last()) + s.last());
    assert(cat(s) =~= ops.last());
    assert(ops.take(ops.len() - 1) =~= ops.drop_last());
}
proof fn lemma_cat_last2(ops: Seq<Seq<char>>)
    requires ops.len() >= 2,
    ensures cat(ops.skip(ops.len() - 2)) == ops[ops.len() - 2] + ops[ops.len() - 1],
{
    let s = ops.skip(ops.len() - 2);
    assert(s.drop_last().drop_last() =~= Seq::<Seq<char>>::empty());
    assert(s.drop_last().last() == ops[ops.len() - 2]);
    assert(s.last() == ops[ops.len() - 1]);
    assert(cat(s.drop_last().drop_last()) =~= Seq::<char>::empty());
    assert(cat(s.drop_last()) == cat(s.drop_last().drop_last()) + s.drop_last().last());
    assert(cat(s.drop_last()) =~= ops[ops.len() - 2]);
    assert(cat(s) == cat(s.drop_last()) + s.last());
}

/// what a loop iteration must establish: the code consumed exactly the token's bytes and its state is the oracle's next stack
#[verifier::opaque]
spec fn arm_ok(rg: Seq<u8>, ops: Seq<Seq<char>>, c: Ctx, f: Seq<char>, st: Seq<usize>, rg_out: Seq<u8>, f_out: Seq<char>, st_out: Seq<usize>) -> bool {
    repr(f, st, ops) ==> match step(rg, ops, c) { Some((n, o2)) => rg_out == rg.skip(n) && repr(f_out, st_out, o2), None => true }
}
spec fn tok_of(rg: Seq<u8>, c: Ctx) -> Tok { decode(rg, c)->Some_0.0 }
spec fn len_of(rg: Seq<u8>, c: Ctx) -> int { decode(rg, c)->Some_0.1 }

proof fn lemma_run_step(rg: Seq<u8>, ops: Seq<Seq<char>>, c: Ctx)
    ensures run(rg, ops, c) == (if rg.len() == 0 { Some(ops) } else { match step(rg, ops, c) { Some((n, o2)) => run(rg.skip(n), o2, c), None => None } }),
{}

proof fn lemma_decode_len(rg: Seq<u8>, c: Ctx)
    ensures decode(rg, c) is Some ==> rg.len() >= 1,
{
    reveal(decode);
}
/// how `arm_ok` is established: the oracle's step and the code's new state
proof fn lemma_arm_ok_intro(rg: Seq<u8>, ops: Seq<Seq<char>>, c: Ctx, f: Seq<char>, st: Seq<usize>, rg_out: Seq<u8>, f_out: Seq<char>, st_out: Seq<usize>, n: int, o2: Seq<Seq<char>>)
    requires step(rg, ops, c) == Some((n, o2)), rg_out == rg.skip(n), repr(f_out, st_out, o2),
    ensures arm_ok(rg, ops, c, f, st, rg_out, f_out, st_out),
{
    reveal(arm_ok);
}
/// operand tokens: the offset is pushed, the operand's text is appended
proof fn lemma_arm_operand(rg: Seq<u8>, ops: Seq<Seq<char>>, c: Ctx, f: Seq<char>, st: Seq<usize>, rg_out: Seq<u8>, f_out: Seq<char>, st_out: Seq<usize>, t: Seq<char>, n: int)
    requires
        repr(f, st, ops), decode(rg, c) == Some((Tok::Operand(t), n)), 0 < n <= rg.len(), blen(f) <= usize::MAX,
        f_out == f + t, st_out == st.push(blen(f) as usize), rg_out == rg.skip(n),
    ensures arm_ok(rg, ops, c, f, st, rg_out, f_out, st_out),
{
    lemma_repr_push(f, st, ops, t);
    lemma_arm_ok_intro(rg, ops, c, f, st, rg_out, f_out, st_out, n, ops.push(t));
}
/// tokens that rewrite the top operand x into pre + x + post (text in front of it kept, stack unchanged)
proof fn lemma_arm_top(rg: Seq<u8>, ops: Seq<Seq<char>>, c: Ctx, f: Seq<char>, st: Seq<usize>, rg_out: Seq<u8>, f_out: Seq<char>, st_out: Seq<usize>, pre: Seq<char>, post: Seq<char>, n: int)
    requires
        repr(f, st, ops), ops.len() >= 1, st.len() == ops.len(),
        step(rg, ops, c) == Some((n, ops.take(ops.len() - 1).push(pre + ops[ops.len() - 1] + post))),
        f_out == f.take(cidx(f, st.last() as int)) + pre + f.skip(cidx(f, st.last() as int)) + post, st_out == st, rg_out == rg.skip(n),
    ensures arm_ok(rg, ops, c, f, st, rg_out, f_out, st_out),
{
    let k = ops.len() - 1;
    lemma_repr_at(f, st, ops, k);
    lemma_cat_last(ops);
    let p = cat(ops.take(k));
    let nt = pre + ops[k] + post;
    lemma_repr_push(p, st.take(k), ops.take(k), nt);
    assert(st.take(k).push(st[k]) =~= st);
    assert(f_out =~= p + nt);
    lemma_arm_ok_intro(rg, ops, c, f, st, rg_out, f_out, st_out, n, ops.take(k).push(nt));
}
/// binary operators: the top operand is cut off, the operator and the operand are appended; one offset is dropped
proof fn lemma_arm_binary(rg: Seq<u8>, ops: Seq<Seq<char>>, c: Ctx, f: Seq<char>, st: Seq<usize>, rg_out: Seq<u8>, f_out: Seq<char>, st_out: Seq<usize>, op: Seq<char>)
    requires
        repr(f, st, ops), ops.len() >= 2, st.len() == ops.len(),
        step(rg, ops, c) == Some((1int, ops.take(ops.len() - 2).push(ops[ops.len() - 2] + op + ops[ops.len() - 1]))),
        f_out == f.take(cidx(f, st.last() as int)) + op + f.skip(cidx(f, st.last() as int)), st_out == st.drop_last(), rg_out == rg.skip(1),
    ensures arm_ok(rg, ops, c, f, st, rg_out, f_out, st_out),
{
    let n = ops.len() as int;
    lemma_repr_at(f, st, ops, n - 1);
    lemma_cat_last(ops);
    lemma_repr_at(f, st, ops, n - 2);
    let p = cat(ops.take(n - 2));
    let p1 = cat(ops.take(n - 1));
    assert(ops.take(n - 1).drop_last() =~= ops.take(n - 2));
    assert(ops.take(n - 1).last() == ops[n - 2]);
    assert(p1 == p + ops[n - 2]);
    let nt = ops[n - 2] + op + ops[n - 1];
    lemma_repr_push(p, st.take(n - 2), ops.take(n - 2), nt);
    assert(st.take(n - 2).push(st[n - 2]) =~= st.drop_last());
    assert(f_out =~= p + nt);
    lemma_arm_ok_intro(rg, ops, c, f, st, rg_out, f_out, st_out, 1, ops.take(n - 2).push(nt));
}
/// tokens without display effect
proof fn lemma_arm_skip(rg: Seq<u8>, ops: Seq<Seq<char>>, c: Ctx, f: Seq<char>, st: Seq<usize>, rg_out: Seq<u8>, f_out: Seq<char>, st_out: Seq<usize>, n: int)
    requires repr(f, st, ops), step(rg, ops, c) == Some((n, ops)), f_out == f, st_out == st, rg_out == rg.skip(n),
    ensures arm_ok(rg, ops, c, f, st, rg_out, f_out, st_out),
{
    lemma_arm_ok_intro(rg, ops, c, f, st, rg_out, f_out, st_out, n, ops);
}
/// bit masks of the code, in the arithmetic of the oracle
proof fn lemma_u16_masks()
    ensures
        forall|x: u16| #![trigger x & 0x3FFF] (x & 0x3FFF) as int == (x as int) % 16384,
        forall|x: u16| #![trigger x & 0x4000] (x & 0x4000 == 0) == (((x as int) / 16384) % 2 == 0),
        forall|x: u16| #![trigger x & 0x8000] (x & 0x8000 == 0) == (((x as int) / 32768) % 2 == 0),
{
    assert forall|x: u16| #![trigger x & 0x3FFF] (x & 0x3FFF) as int == (x as int) % 16384 by { assert(x & 0x3FFF == x % 16384) by (bit_vector); }
    assert forall|x: u16| #![trigger x & 0x4000] (x & 0x4000 == 0) == (((x as int) / 16384) % 2 == 0) by { assert((x & 0x4000 == 0) == ((x / 16384) % 2 == 0)) by (bit_vector); }
    assert forall|x: u16| #![trigger x & 0x8000] (x & 0x8000 == 0) == (((x as int) / 32768) % 2 == 0) by { assert((x & 0x8000 == 0) == ((x / 32768) % 2 == 0)) by (bit_vector); }
}
proof fn lemma_byte_masks()
    ensures
        forall|b: u8| #![trigger b & 0x3F] (b & 0x3F) as int == (b as int) % 64,
        forall|b: u8| #![trigger b & 0x80] (b & 0x80 != 0x80) == ((b as int) / 128 == 0),
        forall|b: u8| #![trigger b & 0x40] (b & 0x40 != 0x40) == (((b as int) / 64) % 2 == 0),
{
    assert forall|b: u8| #![trigger b & 0x3F] (b & 0x3F) as int == (b as int) % 64 by { assert(b & 0x3F == b % 64) by (bit_vector); }
    assert forall|b: u8| #![trigger b & 0x80] (b & 0x80 != 0x80) == ((b as int) / 128 == 0) by { assert((b & 0x80 != 0x80) == (b / 128 == 0)) by (bit_vector); }
    assert forall|b: u8| #![trigger b & 0x40] (b & 0x40 != 0x40) == (((b as int) / 64) % 2 == 0) by { assert((b & 0x40 != 0x40) == ((b / 64) % 2 == 0)) by (bit_vector); }
}
/// a token outside the oracle: nothing is claimed
proof fn lemma_arm_none(rg: Seq<u8>, ops: Seq<Seq<char>>, c: Ctx, f: Seq<char>, st: Seq<usize>, rg_out: Seq<u8>, f_out: Seq<char>, st_out: Seq<usize>)
    ensures step(rg, ops, c) is None ==> arm_ok(rg, ops, c, f, st, rg_out, f_out, st_out),
{
    reveal(arm_ok);
}
proof fn lemma_repr_basics(f: Seq<char>, st: Seq<usize>, ops: Seq<Seq<char>>)
    ensures
        repr(f, st, ops) ==> st.len() == ops.len(),
        repr(f, st, ops) && ops.len() == 1 ==> f == ops[0],
        repr(Seq::<char>::empty(), Seq::<usize>::empty(), Seq::<Seq<char>>::empty()),
{
    reveal(repr);
    if repr(f, st, ops) && ops.len() == 1 { lemma_cat_last(ops); assert(ops.skip(0) =~= ops); }
    assert(cat(Seq::<Seq<char>>::empty()) =~= Seq::<char>::empty());
}


// ---- function calls: the arguments are cut out of the text one by one and written back with commas
/// the first k arguments, each followed by a comma
pub open spec fn joinc(a: Seq<Seq<char>>, k: int) -> Seq<char> decreases k { if k <= 0 { Seq::empty() } else { joinc(a, k - 1) + a[k - 1] + seq![','] } }
proof fn lemma_joinc_join(a: Seq<Seq<char>>, k: int)
    requires 1 <= k <= a.len(),
    ensures joinc(a, k).len() >= 1, joinc(a, k).drop_last() == join(a.take(k)), joinc(a, k).last() == ',',
    decreases k,
{
    let jk = joinc(a, k);
    assert(jk == joinc(a, k - 1) + a[k - 1] + seq![',']);
    assert(jk.drop_last() =~= joinc(a, k - 1) + a[k - 1]);
    if k == 1 {
        assert(joinc(a, 0) =~= Seq::<char>::empty());
        assert(a.take(1)[0] == a[0]);
        assert(jk.drop_last() =~= a[0]);
    } else {
        lemma_joinc_join(a, k - 1);
        let j1 = joinc(a, k - 1);
        assert(j1 =~= j1.drop_last().push(','));
        assert(a.take(k).drop_last() =~= a.take(k - 1));
        assert(a.take(k).last() == a[k - 1]);
        assert(join(a.take(k)) == join(a.take(k - 1)) + seq![','] + a[k - 1]);
        assert(jk.drop_last() =~= join(a.take(k - 1)) + seq![','] + a[k - 1]);
    }
}
/// the stored offsets ascend
proof fn lemma_repr_mono(f: Seq<char>, st: Seq<usize>, ops: Seq<Seq<char>>, k: int)
    requires repr(f, st, ops), 0 <= k < ops.len(),
    ensures forall|i: int| 0 <= i < ops.len() - k ==> st[k] <= #[trigger] st[k + i],
{
    reveal(repr);
    let a = ops.skip(k);
    assert forall|i: int| 0 <= i < ops.len() - k implies st[k] <= #[trigger] st[k + i] by {
        lemma_cat_split(ops.take(k + i), k);
        assert(ops.take(k + i).take(k) =~= ops.take(k));
        assert(ops.take(k + i).skip(k) =~= a.take(i));
        lemma_blen_add(cat(ops.take(k)), cat(a.take(i)));
        assert(st[k + i] as int == blen(cat(ops.take(k + i))));
        assert(st[k] as int == blen(cat(ops.take(k))));
    }
}
/// offsets of the operands from operand k on, relative to operand k, are the offsets of the operands of the cut-off text
proof fn lemma_repr_suffix(f: Seq<char>, st: Seq<usize>, ops: Seq<Seq<char>>, k: int, offs: Seq<usize>)
    requires
        repr(f, st, ops), 0 <= k < ops.len(), offs.len() == ops.len() - k,
        forall|i: int| 0 <= i < offs.len() ==> (#[trigger] offs[i]) as int == st[k + i] - st[k],
    ensures
        repr(cat(ops.skip(k)), offs, ops.skip(k)),
        forall|i: int| 0 <= i < ops.len() - k ==> st[k] <= #[trigger] st[k + i],
{
    reveal(repr);
    let a = ops.skip(k);
    assert forall|i: int| 0 <= i < ops.len() - k implies st[k + i] as int == st[k] + blen(cat(a.take(i))) by {
        lemma_cat_split(ops.take(k + i), k);
        assert(ops.take(k + i).take(k) =~= ops.take(k));
        assert(ops.take(k + i).skip(k) =~= a.take(i));
        lemma_blen_add(cat(ops.take(k)), cat(a.take(i)));
        assert(st[k + i] as int == blen(cat(ops.take(k + i))));
        assert(st[k] as int == blen(cat(ops.take(k))));
    }
    assert forall|i: int| 0 <= i < a.len() implies (#[trigger] offs[i]) as int == blen(cat(a.take(i))) by {
        assert(st[k + i] as int == st[k] + blen(cat(a.take(i))));
    }
    assert forall|i: int| 0 <= i < ops.len() - k implies st[k] <= #[trigger] st[k + i] by {
        assert(st[k + i] as int == st[k] + blen(cat(a.take(i))));
    }
}
/// argument k of the cut-off text lies between offsets k and k + 1 (the last offset is the length of the text)
proof fn lemma_arg_slice(q: Seq<char>, offs: Seq<usize>, a: Seq<Seq<char>>, k: int)
    requires offs.len() == a.len() + 1, repr(q, offs.take(a.len() as int), a), offs[a.len() as int] as int == blen(q), 0 <= k < a.len(),
    ensures
        is_bnd(q, offs[k] as int), is_bnd(q, offs[k + 1] as int), offs[k] <= offs[k + 1],
        q.subrange(cidx(q, offs[k] as int), cidx(q, offs[k + 1] as int)) == a[k],
{
    reveal(repr);
    let n = a.len() as int;
    let o = offs.take(n);
    lemma_repr_at(q, o, a, k);
    let pk = cat(a.take(k));
    assert(o[k] == offs[k]);
    assert(a.take(k + 1).drop_last() =~= a.take(k));
    assert(a.take(k + 1).last() == a[k]);
    let pk1 = cat(a.take(k + 1));
    assert(pk1 == pk + a[k]);
    lemma_blen_add(pk, a[k]);
    if k + 1 < n {
        lemma_repr_at(q, o, a, k + 1);
        assert(o[k + 1] == offs[k + 1]);
    } else {
        assert(a.take(n) =~= a);
        assert(q == pk1);
        lemma_cidx(q, q.len() as int);
        assert(q.take(q.len() as int) =~= q);
    }
    assert(cidx(q, offs[k] as int) == pk.len());
    assert(cidx(q, offs[k + 1] as int) == pk1.len());
    lemma_cat_split(a, k + 1);
    assert(q == pk1 + cat(a.skip(k + 1)));
    assert(q.subrange(pk.len() as int, pk1.len() as int) =~= a[k]);
}
/// a function call with arguments: the last argc operands are replaced by NAME(arg,..,arg)
proof fn lemma_arm_func(rg: Seq<u8>, ops: Seq<Seq<char>>, c: Ctx, f: Seq<char>, st: Seq<usize>, rg_out: Seq<u8>, f_out: Seq<char>, st_out: Seq<usize>, name: Seq<char>, argc: int, n: int)
    requires
        repr(f, st, ops), 0 < argc <= ops.len(), st.len() == ops.len(),
        step(rg, ops, c) == Some((n, ops.take(ops.len() - argc).push(name + seq!['('] + join(ops.skip(ops.len() - argc)) + seq![')']))),
        f_out == cat(ops.take(ops.len() - argc)) + name + seq!['('] + join(ops.skip(ops.len() - argc)) + seq![')'],
        st_out == st.take(ops.len() - argc).push(st[ops.len() - argc]), rg_out == rg.skip(n),
    ensures arm_ok(rg, ops, c, f, st, rg_out, f_out, st_out),
{
    let k = ops.len() - argc;
    lemma_repr_at(f, st, ops, k);
    let p = cat(ops.take(k));
    let nt = name + seq!['('] + join(ops.skip(k)) + seq![')'];
    lemma_repr_push(p, st.take(k), ops.take(k), nt);
    assert(f_out =~= p + nt);
    lemma_arm_ok_intro(rg, ops, c, f, st, rg_out, f_out, st_out, n, ops.take(k).push(nt));
}
/// a function call without arguments: NAME() is pushed
proof fn lemma_arm_func0(rg: Seq<u8>, ops: Seq<Seq<char>>, c: Ctx, f: Seq<char>, st: Seq<usize>, rg_out: Seq<u8>, f_out: Seq<char>, st_out: Seq<usize>, name: Seq<char>, n: int)
    requires
        repr(f, st, ops), blen(f) <= usize::MAX,
        step(rg, ops, c) == Some((n, ops.take(ops.len() as int).push(name + seq!['('] + join(ops.skip(ops.len() as int)) + seq![')']))),
        f_out == f + name + seq!['(', ')'], st_out == st.push(blen(f) as usize), rg_out == rg.skip(n),
    ensures arm_ok(rg, ops, c, f, st, rg_out, f_out, st_out),
{
    let m = ops.len() as int;
    assert(ops.skip(m) =~= Seq::<Seq<char>>::empty());
    assert(ops.take(m) =~= ops);
    let nt = name + seq!['('] + join(ops.skip(m)) + seq![')'];
    assert(nt =~= name + seq!['(', ')']);
    lemma_repr_push(f, st, ops, nt);
    assert(f_out =~= f + nt);
    lemma_arm_ok_intro(rg, ops, c, f, st, rg_out, f_out, st_out, n, ops.push(nt));
}

// =====================================================================================================================
// The obligations of one loop iteration, by token kind.  Each lemma's `requires` are the NAMED obligations on the code's state
// change (the first argument only names the arm in the obligation's report); its conclusion is `arm_ok`.
// =====================================================================================================================
#[allow(non_camel_case_types)]
pub enum A {
    ptgref3d, ptgarea3d, ptgreferr3d, ptgareaerr3d, ptgexp, binary, unary_plus, unary_minus, percent, paren, ptgmissarg, ptgstr, ptg18, ptgattr,
    ptgerr, ptgbool, ptgint, ptgnum, ptgarray, ptgfunc, ptgname, ptgref, ptgarea, ptgreferr, ptgareaerr, ptgnamex,
}
/// an operand token: the token is consumed, the start offset is pushed, the operand's A1 text is appended
proof fn step_operand(a: A, rg: Seq<u8>, ops: Seq<Seq<char>>, c: Ctx, f: Seq<char>, st: Seq<usize>, rg_out: Seq<u8>, f_out: Seq<char>, st_out: Seq<usize>, t: Seq<char>, n: int)
    requires
        repr(f, st, ops),
        //# C14.oracle_token
        decode(rg, c) == Some((Tok::Operand(t), n)) && 0 < n <= rg.len(),
        //# C14.token_length
        rg_out == rg.skip(n),
        //# C14.operand_text
        f_out == f + t,
        //# C14.operand_start_offset_pushed
        blen(f) <= usize::MAX && st_out == st.push(blen(f) as usize),
    ensures arm_ok(rg, ops, c, f, st, rg_out, f_out, st_out),
{
    lemma_arm_operand(rg, ops, c, f, st, rg_out, f_out, st_out, t, n);
}
/// PtgUplus / PtgUminus: the sign goes in front of the top operand
proof fn step_prefix(a: A, rg: Seq<u8>, ops: Seq<Seq<char>>, c: Ctx, f: Seq<char>, st: Seq<usize>, rg_out: Seq<u8>, f_out: Seq<char>, st_out: Seq<usize>, ch: char)
    requires
        repr(f, st, ops), ops.len() >= 1,
        //# C14.oracle_token
        decode(rg, c) == Some((Tok::Prefix(ch), 1int)),
        //# C14.token_length
        rg_out == rg.skip(1),
        //# C14.unary_operator_in_front_of_its_operand
        f_out == f.take(cidx(f, st.last() as int)).push(ch) + f.skip(cidx(f, st.last() as int)),
        //# C14.stack_unchanged
        st_out == st,
    ensures arm_ok(rg, ops, c, f, st, rg_out, f_out, st_out),
{
    lemma_repr_basics(f, st, ops);
    lemma_decode_len(rg, c);
    let ci = cidx(f, st.last() as int);
    let x = ops[ops.len() - 1];
    assert(seq![ch] + x + Seq::<char>::empty() =~= seq![ch] + x);
    assert(f_out =~= f.take(ci) + seq![ch] + f.skip(ci) + Seq::<char>::empty());
    lemma_arm_top(rg, ops, c, f, st, rg_out, f_out, st_out, seq![ch], Seq::empty(), 1);
}
/// PtgPercent: `%` behind the top operand
proof fn step_percent(a: A, rg: Seq<u8>, ops: Seq<Seq<char>>, c: Ctx, f: Seq<char>, st: Seq<usize>, rg_out: Seq<u8>, f_out: Seq<char>, st_out: Seq<usize>)
    requires
        repr(f, st, ops), ops.len() >= 1,
        //# C14.oracle_token
        decode(rg, c) == Some((Tok::Percent, 1int)),
        //# C14.token_length
        rg_out == rg.skip(1),
        //# C14.percent_behind_its_operand
        f_out == f.push('%'),
        //# C14.stack_unchanged
        st_out == st,
    ensures arm_ok(rg, ops, c, f, st, rg_out, f_out, st_out),
{
    lemma_repr_basics(f, st, ops);
    lemma_decode_len(rg, c);
    lemma_repr_at(f, st, ops, ops.len() - 1);
    let ci = cidx(f, st.last() as int);
    assert(f =~= f.take(ci) + f.skip(ci));
    let x = ops[ops.len() - 1];
    assert(Seq::<char>::empty() + x + seq!['%'] =~= x + seq!['%']);
    assert(f_out =~= f.take(ci) + Seq::<char>::empty() + f.skip(ci) + seq!['%']);
    lemma_arm_top(rg, ops, c, f, st, rg_out, f_out, st_out, Seq::empty(), seq!['%'], 1);
}
/// PtgParen: parentheses around the top operand
proof fn step_paren(a: A, rg: Seq<u8>, ops: Seq<Seq<char>>, c: Ctx, f: Seq<char>, st: Seq<usize>, rg_out: Seq<u8>, f_out: Seq<char>, st_out: Seq<usize>)
    requires
        repr(f, st, ops), ops.len() >= 1,
        //# C14.oracle_token
        decode(rg, c) == Some((Tok::Paren, 1int)),
        //# C14.token_length
        rg_out == rg.skip(1),
        //# C14.parentheses_around_the_operand
        f_out == (f.take(cidx(f, st.last() as int)).push('(') + f.skip(cidx(f, st.last() as int))).push(')'),
        //# C14.stack_unchanged
        st_out == st,
    ensures arm_ok(rg, ops, c, f, st, rg_out, f_out, st_out),
{
    lemma_repr_basics(f, st, ops);
    lemma_decode_len(rg, c);
    let ci = cidx(f, st.last() as int);
    assert(f_out =~= f.take(ci) + seq!['('] + f.skip(ci) + seq![')']);
    lemma_arm_top(rg, ops, c, f, st, rg_out, f_out, st_out, seq!['('], seq![')'], 1);
}
/// PtgAttrSum: SUM( ) around the top operand
proof fn step_sum(a: A, rg: Seq<u8>, ops: Seq<Seq<char>>, c: Ctx, f: Seq<char>, st: Seq<usize>, rg_out: Seq<u8>, f_out: Seq<char>, st_out: Seq<usize>)
    requires
        repr(f, st, ops), ops.len() >= 1,
        //# C14.oracle_token
        decode(rg, c) == Some((Tok::Sum, 4int)) && rg.len() >= 4,
        //# C14.token_length
        rg_out == rg.skip(4),
        //# C14.sum_around_the_operand
        f_out == f.take(cidx(f, st.last() as int)) + "SUM("@ + f.skip(cidx(f, st.last() as int)) + ")"@,
        //# C14.stack_unchanged
        st_out == st,
    ensures arm_ok(rg, ops, c, f, st, rg_out, f_out, st_out),
{
    lemma_repr_basics(f, st, ops);
    reveal_strlit(")");
    assert(")"@ =~= seq![')']);
    lemma_arm_top(rg, ops, c, f, st, rg_out, f_out, st_out, "SUM("@, seq![')'], 4);
}
/// binary operators: a b -> a OP b (the operator goes between the two topmost operands, in evaluation order)
proof fn step_binary(a: A, rg: Seq<u8>, ops: Seq<Seq<char>>, c: Ctx, f: Seq<char>, st: Seq<usize>, rg_out: Seq<u8>, f_out: Seq<char>, st_out: Seq<usize>, op: Seq<char>)
    requires
        repr(f, st, ops), ops.len() >= 2,
        //# C14.binary_operator_symbol
        decode(rg, c) == Some((Tok::Binary(op), 1int)),
        //# C14.token_length
        rg_out == rg.skip(1),
        //# C14.binary_operator_between_its_operands
        f_out == f.take(cidx(f, st.last() as int)) + op + f.skip(cidx(f, st.last() as int)),
        //# C14.one_offset_dropped
        st_out == st.drop_last(),
    ensures arm_ok(rg, ops, c, f, st, rg_out, f_out, st_out),
{
    lemma_repr_basics(f, st, ops);
    lemma_decode_len(rg, c);
    lemma_arm_binary(rg, ops, c, f, st, rg_out, f_out, st_out, op);
}
/// tokens without display effect (PtgAttrSemi / If / Choose / Goto / Baxcel)
proof fn step_skip(a: A, rg: Seq<u8>, ops: Seq<Seq<char>>, c: Ctx, f: Seq<char>, st: Seq<usize>, rg_out: Seq<u8>, f_out: Seq<char>, st_out: Seq<usize>, n: int)
    requires
        repr(f, st, ops),
        //# C14.oracle_token
        decode(rg, c) == Some((Tok::Skip, n)) && 0 < n <= rg.len(),
        //# C14.token_length
        rg_out == rg.skip(n),
        //# C14.no_display_effect
        f_out == f && st_out == st,
    ensures arm_ok(rg, ops, c, f, st, rg_out, f_out, st_out),
{
    lemma_arm_skip(rg, ops, c, f, st, rg_out, f_out, st_out, n);
}
/// tokens outside the oracle's scope: nothing is claimed
proof fn step_none(a: A, rg: Seq<u8>, ops: Seq<Seq<char>>, c: Ctx, f: Seq<char>, st: Seq<usize>, rg_out: Seq<u8>, f_out: Seq<char>, st_out: Seq<usize>)
    requires step(rg, ops, c) is None,
    ensures arm_ok(rg, ops, c, f, st, rg_out, f_out, st_out),
{
    lemma_arm_none(rg, ops, c, f, st, rg_out, f_out, st_out);
}
/// PtgFunc / PtgFuncVar with arguments: the last argc operands become NAME(a1,..,an), arguments in order
proof fn step_func(a: A, rg: Seq<u8>, ops: Seq<Seq<char>>, c: Ctx, f: Seq<char>, st: Seq<usize>, rg_out: Seq<u8>, f_out: Seq<char>, st_out: Seq<usize>, name: Seq<char>, argc: int, n: int)
    requires
        repr(f, st, ops), 0 < argc <= ops.len(),
        //# C14.function_name_and_parameter_count
        decode(rg, c) == Some((Tok::Func(name, argc), n)) && 0 < n <= rg.len(),
        //# C14.token_length
        rg_out == rg.skip(n),
        //# C14.function_call_arguments_in_order
        f_out == cat(ops.take(ops.len() - argc)) + name + seq!['('] + join(ops.skip(ops.len() - argc)) + seq![')'],
        //# C14.argument_offsets_replaced_by_the_call
        st_out == st.take(ops.len() - argc).push(st[ops.len() - argc]),
    ensures arm_ok(rg, ops, c, f, st, rg_out, f_out, st_out),
{
    lemma_repr_basics(f, st, ops);
    lemma_arm_func(rg, ops, c, f, st, rg_out, f_out, st_out, name, argc, n);
}
/// PtgFunc / PtgFuncVar without arguments: NAME() is a new operand
proof fn step_func0(a: A, rg: Seq<u8>, ops: Seq<Seq<char>>, c: Ctx, f: Seq<char>, st: Seq<usize>, rg_out: Seq<u8>, f_out: Seq<char>, st_out: Seq<usize>, name: Seq<char>, n: int)
    requires
        repr(f, st, ops),
        //# C14.function_name_and_parameter_count
        decode(rg, c) == Some((Tok::Func(name, 0int), n)) && 0 < n <= rg.len(),
        //# C14.token_length
        rg_out == rg.skip(n),
        //# C14.function_call_without_arguments
        f_out == f + name + "()"@,
        //# C14.operand_start_offset_pushed
        blen(f) <= usize::MAX && st_out == st.push(blen(f) as usize),
    ensures arm_ok(rg, ops, c, f, st, rg_out, f_out, st_out),
{
    reveal_strlit("()");
    assert("()"@ =~= seq!['(', ')']);
    assert(f_out =~= f + name + seq!['(', ')']);
    lemma_arm_func0(rg, ops, c, f, st, rg_out, f_out, st_out, name, n);
}
/// the text of the call as the pieces are written: NAME ( a1, a2, .. an, <- last comma removed, )
proof fn lemma_func_text(pp: Seq<char>, nm: Seq<char>, aa: Seq<Seq<char>>, hd: Seq<char>, fl: Seq<char>, fp: Seq<char>, ff: Seq<char>)
    requires aa.len() >= 1, hd == (pp + nm).push('('), fl == hd + joinc(aa, aa.len() as int), fp == fl.drop_last(), ff == fp.push(')'),
    ensures ff == pp + nm + seq!['('] + join(aa) + seq![')'],
{
    lemma_joinc_join(aa, aa.len() as int);
    assert(aa.take(aa.len() as int) =~= aa);
    let j = joinc(aa, aa.len() as int);
    assert(fl.drop_last() =~= hd + j.drop_last());
    assert(ff =~= pp + nm + seq!['('] + join(aa) + seq![')']);
}
/// texts in the nesting in which a writer appends them piece by piece
proof fn lemma_cell_text_pieces(f: Seq<char>, rw: int, cf: int)
    ensures f + cell_text(rw, cf) == f + dollar(!f_col_rel(cf)) + col_name(f_col(cf)) + dollar(!f_row_rel(cf)) + dec((rw + 1) as nat),
{
    reveal(cell_text);
    assert(f + cell_text(rw, cf) =~= f + dollar(!f_col_rel(cf)) + col_name(f_col(cf)) + dollar(!f_row_rel(cf)) + dec((rw + 1) as nat));
}
proof fn lemma_assoc(a: Seq<char>, b: Seq<char>, c: Seq<char>)
    ensures a + b + c == a + (b + c),
{
    assert(a + b + c =~= a + (b + c));
}
proof fn lemma_push_add(a: Seq<char>, ch: char)
    ensures a.push(ch) == a + seq![ch], a + Seq::<char>::empty() == a,
{
    assert(a.push(ch) =~= a + seq![ch]);
    assert(a + Seq::<char>::empty() =~= a);
}
proof fn lemma_skip_skip(s: Seq<u8>, a: int, b: int)
    requires 0 <= a, 0 <= b, a + b <= s.len(),
    ensures s.skip(a).skip(b) == s.skip(a + b), s.subrange(a, s.len() as int).subrange(b, s.len() - a) == s.skip(a + b),
{
    assert(s.skip(a).skip(b) =~= s.skip(a + b));
    assert(s.subrange(a, s.len() as int).subrange(b, s.len() - a) =~= s.skip(a + b));
}

//@@ props C06
// =====================================================================================================================
// (S) in the entry copy: every arm leaves the stack holding ascending char boundaries of the text
// =====================================================================================================================
/// g starts with f
#[verifier::opaque]
pub open spec fn ext(f: Seq<char>, g: Seq<char>) -> bool { g.len() >= f.len() && g.take(f.len() as int) == f }
pub broadcast proof fn ext_refl(f: Seq<char>)
    ensures #[trigger] ext(f, f),
{ reveal(ext); assert(f.take(f.len() as int) =~= f); }
pub broadcast proof fn ext_push(f: Seq<char>, g: Seq<char>, c: char)
    requires ext(f, g),
    ensures #[trigger] ext(f, g.push(c)),
{ reveal(ext); assert(g.push(c).take(f.len() as int) =~= g.take(f.len() as int)); }
pub broadcast proof fn ext_add(f: Seq<char>, g: Seq<char>, t: Seq<char>)
    requires ext(f, g),
    ensures #[trigger] ext(f, g + t),
{ reveal(ext); assert((g + t).take(f.len() as int) =~= g.take(f.len() as int)); }
pub broadcast group group_ext { ext_refl, ext_push, ext_add }
proof fn ext_drop_last(f: Seq<char>, g: Seq<char>)
    requires ext(f, g), g.len() > f.len(),
    ensures ext(f, g.drop_last()),
{ reveal(ext); assert(g.drop_last().take(f.len() as int) =~= g.take(f.len() as int)); }
proof fn ext_len(f: Seq<char>, g: Seq<char>)
    requires ext(f, g),
    ensures g.len() >= f.len(),
{ reveal(ext); }
proof fn ext_trans(f: Seq<char>, g: Seq<char>, h: Seq<char>)
    requires ext(f, g), ext(g, h),
    ensures ext(f, h),
{ reveal(ext); assert(h.take(f.len() as int) =~= h.take(g.len() as int).take(f.len() as int)); }
/// text appended (offset of the old end pushed or not)
proof fn lemma_s_append(f: Seq<char>, st: Seq<usize>, f_out: Seq<char>, st_out: Seq<usize>)
    requires sorted_bnds(f, st), ext(f, f_out), st_out == st || (blen(f) <= usize::MAX && st_out == st.push(blen(f) as usize)),
    ensures sorted_bnds(f_out, st_out),
{
    reveal(ext);
    lemma_cidx(f, f.len() as int);
    assert(f.take(f.len() as int) =~= f);
    assert(st.take(st.len() as int) =~= st);
    lemma_struct(f, st, st.len() as int, f_out, st_out);
}
/// text in front of stack entry j kept, the stack cut there (entry j kept or dropped)
proof fn lemma_s_cut(f: Seq<char>, st: Seq<usize>, j: int, f_out: Seq<char>, st_out: Seq<usize>)
    requires sorted_bnds(f, st), 0 <= j < st.len(), ext(f.take(cidx(f, st[j] as int)), f_out), st_out == st.take(j) || st_out == st.take(j).push(st[j]),
    ensures sorted_bnds(f_out, st_out), is_bnd(f, st[j] as int),
{
    reveal(ext);
    reveal(sorted_bnds);
    assert(is_bnd(f, st[j] as int));
    lemma_bnd_idx(f, st[j] as int);
    lemma_struct(f, st, j, f_out, st_out);
}
proof fn lemma_s_top(f: Seq<char>, st: Seq<usize>)
    requires sorted_bnds(f, st), st.len() >= 1,
    ensures st.take(st.len() - 1).push(st[st.len() - 1]) == st, st.drop_last() == st.take(st.len() - 1), is_bnd(f, st.last() as int),
{
    reveal(sorted_bnds);
    assert(st.take(st.len() - 1).push(st[st.len() - 1]) =~= st);
    assert(st.drop_last() =~= st.take(st.len() - 1));
}
/// the offsets from entry k on, relative to entry k (plus the length of the cut-off text), are ascending boundaries of the cut-off text
proof fn lemma_s_suffix(f: Seq<char>, st: Seq<usize>, k: int, offs: Seq<usize>)
    requires
        sorted_bnds(f, st), 0 <= k < st.len(), offs.len() == st.len() - k + 1,
        forall|i: int| 0 <= i < st.len() - k ==> (#[trigger] offs[i]) as int == st[k + i] - st[k],
        offs[st.len() - k] as int == blen(f.skip(cidx(f, st[k] as int))),
    ensures sorted_bnds(f.skip(cidx(f, st[k] as int)), offs),
{
    reveal(sorted_bnds);
    let ck = cidx(f, st[k] as int);
    let q = f.skip(ck);
    assert(is_bnd(f, st[k] as int));
    lemma_bnd_idx(f, st[k] as int);
    let n = st.len() - k;
    assert forall|i: int| 0 <= i < offs.len() implies is_bnd(q, #[trigger] offs[i] as int) by {
        if i < n {
            assert(is_bnd(f, st[k + i] as int));
            lemma_bnd_idx(f, st[k + i] as int);
            let ci = cidx(f, st[k + i] as int);
            assert(st[k] <= st[k + i]);
            if ci < ck { lemma_blen_take_mono(f, ci, ck); }
            assert(f.take(ci) =~= f.take(ck) + q.take(ci - ck));
            lemma_blen_add(f.take(ck), q.take(ci - ck));
        } else {
            assert(q.take(q.len() as int) =~= q);
        }
    }
    assert forall|i: int, l: int| 0 <= i <= l < offs.len() implies offs[i] <= offs[l] by {
        if l < n { assert(st[k + i] <= st[k + l]); }
        else if i < n {
            assert(is_bnd(f, st[k + i] as int));
            lemma_bnd_idx(f, st[k + i] as int);
            assert(f =~= f.take(ck) + q);
            lemma_blen_add(f.take(ck), q);
        }
    }
}
proof fn lemma_s_mono(f: Seq<char>, st: Seq<usize>, k: int)
    requires sorted_bnds(f, st), 0 <= k < st.len(),
    ensures forall|i: int| 0 <= i < st.len() - k ==> st[k] <= #[trigger] st[k + i],
{
    reveal(sorted_bnds);
}
proof fn lemma_s_window(q: Seq<char>, offs: Seq<usize>, k: int)
    requires sorted_bnds(q, offs), 0 <= k, k + 1 < offs.len(),
    ensures is_bnd(q, offs[k] as int), is_bnd(q, offs[k + 1] as int), offs[k] <= offs[k + 1],
{
    reveal(sorted_bnds);
}

//@@ props C14
// =====================================================================================================================
// The loop invariant of the functional copy, as one opaque predicate (so that re-establishing it after the `match` is a look-up)
// =====================================================================================================================
/// the oracle renders the whole formula, the rest of its run starts from the code's state (remaining bytes rg, operands ops),
/// and the code's text / offsets represent these operands
#[verifier::opaque]
spec fn inv(all: Seq<u8>, c: Ctx, rg: Seq<u8>, ops: Seq<Seq<char>>, f: Seq<char>, st: Seq<usize>) -> bool {
    render(all, c) is Some && render(all, c) == fin(run(rg, ops, c)) && repr(f, st, ops)
}
spec fn next_ops(rg: Seq<u8>, ops: Seq<Seq<char>>, c: Ctx) -> Seq<Seq<char>> { step(rg, ops, c)->Some_0.1 }
proof fn lemma_inv_init(all: Seq<u8>, c: Ctx, f: Seq<char>, st: Seq<usize>)
    requires render(all, c) is Some, f == Seq::<char>::empty(), st == Seq::<usize>::empty(),
    ensures inv(all, c, all.subrange(2, 2 + le16(all)), Seq::empty(), f, st), all.len() >= 2 + le16(all),
{
    reveal(inv);
    lemma_repr_basics(f, st, Seq::empty());
}
proof fn lemma_inv_use(all: Seq<u8>, c: Ctx, rg: Seq<u8>, ops: Seq<Seq<char>>, f: Seq<char>, st: Seq<usize>)
    requires inv(all, c, rg, ops, f, st),
    ensures
        repr(f, st, ops), st.len() == ops.len(), render(all, c) is Some,
        rg.len() > 0 ==> step(rg, ops, c) is Some,
        rg.len() == 0 ==> ops.len() == 1 && Some(f) == render(all, c),
{
    reveal(inv);
    lemma_repr_basics(f, st, ops);
}
proof fn lemma_advance(all: Seq<u8>, c: Ctx, rg: Seq<u8>, ops: Seq<Seq<char>>, f: Seq<char>, st: Seq<usize>, rg_out: Seq<u8>, f_out: Seq<char>, st_out: Seq<usize>)
    requires inv(all, c, rg, ops, f, st), rg.len() > 0, arm_ok(rg, ops, c, f, st, rg_out, f_out, st_out),
    ensures inv(all, c, rg_out, next_ops(rg, ops, c), f_out, st_out), rg_out.len() < rg.len(),
{
    reveal(inv);
    reveal(arm_ok);
}

//@@ props C14
/// function arm, step 1: the offsets of the last `ops.len() - k` operands were split off the stack
proof fn lemma_func_prep(f: Seq<char>, st: Seq<usize>, ops: Seq<Seq<char>>, k: int, a0: Seq<usize>)
    requires repr(f, st, ops), 0 <= k < ops.len(), a0 == st.subrange(k, st.len() as int),
    ensures
        a0.len() == ops.len() - k, a0[0] == st[k],
        forall|i: int| 0 <= i < a0.len() ==> (#[trigger] a0[i]) >= a0[0],
        ({
            let p = cat(ops.take(k));
            let q = cat(ops.skip(k));
            &&& a0[0] as int == blen(p) && is_bnd(f, a0[0] as int) && cidx(f, a0[0] as int) == p.len()
            &&& f.take(p.len() as int) == p && f.skip(p.len() as int) == q
            &&& st.subrange(0, k) == st.take(k)
            &&& repr(p, st.take(k), ops.take(k))
        }),
{
    lemma_repr_basics(f, st, ops);
    lemma_repr_mono(f, st, ops, k);
    lemma_repr_at(f, st, ops, k);
    assert(st.subrange(0, k) =~= st.take(k));
    assert forall|i: int| 0 <= i < a0.len() implies (#[trigger] a0[i]) >= a0[0] by { assert(a0[i] == st[k + i]); assert(st[k] <= st[k + i]); }
}
/// function arm, step 2: after the start offset was subtracted, the offsets are those of the operands of the cut-off text
proof fn lemma_func_offs(f: Seq<char>, st: Seq<usize>, ops: Seq<Seq<char>>, k: int, a0: Seq<usize>, a1: Seq<usize>)
    requires
        repr(f, st, ops), 0 <= k < ops.len(), a0 == st.subrange(k, st.len() as int), a1.len() == a0.len(),
        forall|i: int| 0 <= i < a0.len() ==> (#[trigger] a1[i]) as int == a0[i] - a0[0],
    ensures repr(cat(ops.skip(k)), a1, ops.skip(k)),
{
    lemma_repr_basics(f, st, ops);
    lemma_repr_mono(f, st, ops, k);
    assert forall|i: int| 0 <= i < a1.len() implies (#[trigger] a1[i]) as int == st[k + i] - st[k] by { assert(a0[i] == st[k + i]); assert(a0[0] == st[k]); }
    lemma_repr_suffix(f, st, ops, k, a1);
}
/// function arm, step 3: the length of the cut-off text is pushed behind the offsets
proof fn lemma_func_offs_push(q: Seq<char>, a1: Seq<usize>, aa: Seq<Seq<char>>, a2: Seq<usize>)
    requires repr(q, a1, aa), blen(q) <= usize::MAX, a2 == a1.push(blen(q) as usize),
    ensures a2.len() == aa.len() + 1, repr(q, a2.take(aa.len() as int), aa), a2[aa.len() as int] as int == blen(q),
{
    lemma_repr_basics(q, a1, aa);
    assert(a2.take(aa.len() as int) =~= a1);
}

pub mod m_wf0 {
use super::*;
verus! {
//@@ fn src/xls.rs parse_formula props=C14 ret=res r13 mutparams alias=wf0
//@@ r6 3
//@@ sig
    requires
        // the oracle accepts the token stream (complete, defined tokens within its scope; operands present for every operator)
        render(__p_rgce@, mk_ctx(sheets@, names@, xtis@, *encoding)) is Some,
    ensures
        //# C14.formula_text_is_a1_rendering
        res matches Ok(s) && Some(s@) == render(__p_rgce@, mk_ctx(sheets@, names@, xtis@, *encoding)),
//@@ body
    broadcast use axiom_display_u16, axiom_display_u32, axiom_display_str, axiom_display_string, axiom_str_index_range, axiom_string_index_req_range;
    let ghost ctx = mk_ctx(sheets@, names@, xtis@, *encoding);
    let ghost mut ops: Seq<Seq<char>> = Seq::empty();
//@@ before /while !rgce\.is_empty\(\)/
    proof {
        lemma_inv_init(__p_rgce@, ctx, formula@, stack@);
    }
//@@ loop 0
        invariant
            ctx == mk_ctx(sheets@, names@, xtis@, *encoding),
            //# C14.token_step
            inv(__p_rgce@, ctx, rgce@, ops, formula@, stack@),
        decreases rgce@.len(),
//@@ before /let ptg = rgce\[0\];/
        broadcast use axiom_display_u16, axiom_display_u32, axiom_display_str, axiom_display_string, axiom_str_index_range, axiom_string_index_req_range;
        let ghost rg_in = rgce@;
        let ghost f_in = formula@;
        let ghost st_in = stack@;
        let ghost ops_in = ops;
        proof {
            lemma_inv_use(__p_rgce@, ctx, rg_in, ops_in, f_in, st_in);
            lemma_dispatch(rg_in, ctx);
            lemma_byte_masks();
            if ops_in.len() > 0 { lemma_repr_at(f_in, st_in, ops_in, ops_in.len() - 1); }
        }
//@@ before /\}\s*0x3b \| 0x5b \| 0x7b =>/
                proof {
                    let sh = sheet_name(le16(rg_in.skip(1)), ctx)->Some_0;
                    let rw = le16(rg_in.skip(1).skip(2));
                    let cf = le16(rg_in.skip(1).skip(4));
                    lemma_cell_text_pieces(f_in + sh + seq!['!'], rw, cf);
                    lemma_assoc(f_in, sh + seq!['!'], cell_text(rw, cf)); lemma_assoc(f_in, sh, seq!['!']);
                    assert(rgce@ =~= rg_in.skip(7));
                    step_operand(A::ptgref3d, rg_in, ops_in, ctx, f_in, st_in, rgce@, formula@, stack@, sh + seq!['!'] + cell_text(rw, cf), 7);
                    lemma_advance(__p_rgce@, ctx, rg_in, ops_in, f_in, st_in, rgce@, formula@, stack@);
                }
//@@ before /\}\s*0x3c \| 0x5c \| 0x7c =>/
                proof {
                    let sh = sheet_name(le16(rg_in.skip(1)), ctx)->Some_0;
                    let ixti = le16(rg_in.skip(1));
                    let r1 = le16(rg_in.skip(1).skip(2)); let r2 = le16(rg_in.skip(1).skip(4)); let cf1 = le16(rg_in.skip(1).skip(6)); let cf2 = le16(rg_in.skip(1).skip(8));
                    let t = sh + seq!['!'] + area_text(r1, r2, cf1, cf2);
                    lemma_area_text(r1, r2, cf1, cf2);
                    //# C14.ptgarea3d_sheet_through_xti_and_text
                    assert(formula@ =~= f_in + t);
                    assert(rgce@ =~= rg_in.skip(11));
                    step_operand(A::ptgarea3d, rg_in, ops_in, ctx, f_in, st_in, rgce@, formula@, stack@, t, 11);
                    lemma_advance(__p_rgce@, ctx, rg_in, ops_in, f_in, st_in, rgce@, formula@, stack@);
                }
//@@ before /\}\s*0x3d \| 0x5d \| 0x7d =>/
                proof {
                    let sh = sheet_name(le16(rg_in.skip(1)), ctx)->Some_0;
                    let ixti = le16(rg_in.skip(1));
                    let t = sh + seq!['!'] + "#REF!"@;
                    //# C14.ptgreferr3d_sheet_through_xti
                    assert(formula@ =~= f_in + t);
                    assert(rgce@ =~= rg_in.skip(7));
                    step_operand(A::ptgreferr3d, rg_in, ops_in, ctx, f_in, st_in, rgce@, formula@, stack@, t, 7);
                    lemma_advance(__p_rgce@, ctx, rg_in, ops_in, f_in, st_in, rgce@, formula@, stack@);
                }
//@@ before /\}\s*0x01 =>/
                proof {
                    let sh = sheet_name(le16(rg_in.skip(1)), ctx)->Some_0;
                    let ixti = le16(rg_in.skip(1));
                    let t = sh + seq!['!'] + "#REF!"@;
                    //# C14.ptgareaerr3d_sheet_through_xti
                    assert(formula@ =~= f_in + t);
                    assert(rgce@ =~= rg_in.skip(11));
                    step_operand(A::ptgareaerr3d, rg_in, ops_in, ctx, f_in, st_in, rgce@, formula@, stack@, t, 11);
                    lemma_advance(__p_rgce@, ctx, rg_in, ops_in, f_in, st_in, rgce@, formula@, stack@);
                }
//@@ before /\}\s*0x03\.\.=0x11 =>/
                proof {
                    step_none(A::ptgexp, rg_in, ops_in, ctx, f_in, st_in, rgce@, formula@, stack@);
                    lemma_advance(__p_rgce@, ctx, rg_in, ops_in, f_in, st_in, rgce@, formula@, stack@);
                }
//@@ before /\}\s*0x12 =>/
                proof {
                    assert(stack@ =~= st_in.drop_last());
                    assert(rgce@ =~= rg_in.skip(1));
                    step_binary(A::binary, rg_in, ops_in, ctx, f_in, st_in, rgce@, formula@, stack@, op@);
                    lemma_advance(__p_rgce@, ctx, rg_in, ops_in, f_in, st_in, rgce@, formula@, stack@);
                }
//@@ before /\}\s*0x13 =>/
                proof {
                    assert(rgce@ =~= rg_in.skip(1));
                    step_prefix(A::unary_plus, rg_in, ops_in, ctx, f_in, st_in, rgce@, formula@, stack@, '+');
                    lemma_advance(__p_rgce@, ctx, rg_in, ops_in, f_in, st_in, rgce@, formula@, stack@);
                }
//@@ before /\}\s*0x14 =>/
                proof {
                    assert(rgce@ =~= rg_in.skip(1));
                    step_prefix(A::unary_minus, rg_in, ops_in, ctx, f_in, st_in, rgce@, formula@, stack@, '-');
                    lemma_advance(__p_rgce@, ctx, rg_in, ops_in, f_in, st_in, rgce@, formula@, stack@);
                }
//@@ before /\}\s*0x15 =>/
                proof {
                    assert(rgce@ =~= rg_in.skip(1));
                    step_percent(A::percent, rg_in, ops_in, ctx, f_in, st_in, rgce@, formula@, stack@);
                    lemma_advance(__p_rgce@, ctx, rg_in, ops_in, f_in, st_in, rgce@, formula@, stack@);
                }
//@@ before /\}\s*0x16 =>/
                proof {
                    assert(rgce@ =~= rg_in.skip(1));
                    step_paren(A::paren, rg_in, ops_in, ctx, f_in, st_in, rgce@, formula@, stack@);
                    lemma_advance(__p_rgce@, ctx, rg_in, ops_in, f_in, st_in, rgce@, formula@, stack@);
                }
//@@ before /\}\s*0x17 =>/
                proof {
                    lemma_push_add(f_in, 'x');
                    assert(rgce@ =~= rg_in.skip(1));
                    step_operand(A::ptgmissarg, rg_in, ops_in, ctx, f_in, st_in, rgce@, formula@, stack@, Seq::empty(), 1);
                    lemma_advance(__p_rgce@, ctx, rg_in, ops_in, f_in, st_in, rgce@, formula@, stack@);
                }
//@@ before /\}\s*0x18 =>/
                proof {
                    let d = rg_in.skip(1);
                    let hb = d[1] & 0x1 != 0;
                    let n = d[0] as int * xl_width(hb);
                    let t = seq!['"'] + xl_chars(ctx.enc, hb, d.subrange(2, 2 + n)) + seq!['"'];
                    assert(d.skip(1).subrange(1, 1 + n) =~= d.subrange(2, 2 + n));
                    //# C14.ptgstr_text_in_quotes
                    assert(formula@ =~= f_in + t);
                    //# C14.ptgstr_token_length_one_or_two_bytes_per_character
                    assert(rgce@ =~= rg_in.skip(3 + n));
                    step_operand(A::ptgstr, rg_in, ops_in, ctx, f_in, st_in, rgce@, formula@, stack@, t, 3 + n);
                    lemma_advance(__p_rgce@, ctx, rg_in, ops_in, f_in, st_in, rgce@, formula@, stack@);
                }
//@@ before /\}\s*0x19 =>/
                proof {
                    step_none(A::ptg18, rg_in, ops_in, ctx, f_in, st_in, rgce@, formula@, stack@);
                    lemma_advance(__p_rgce@, ctx, rg_in, ops_in, f_in, st_in, rgce@, formula@, stack@);
                }
//@@ before /\}\s*0x1C =>/
                proof {
                    let n = len_of(rg_in, ctx);
                    assert(rgce@ =~= rg_in.skip(n));
                    if etpg == 0x10 { step_sum(A::ptgattr, rg_in, ops_in, ctx, f_in, st_in, rgce@, formula@, stack@); } else { step_skip(A::ptgattr, rg_in, ops_in, ctx, f_in, st_in, rgce@, formula@, stack@, n); }
                    lemma_advance(__p_rgce@, ctx, rg_in, ops_in, f_in, st_in, rgce@, formula@, stack@);
                }
//@@ before /\}\s*0x1D =>/
                proof {
                    assert(rgce@ =~= rg_in.skip(2));
                    step_operand(A::ptgerr, rg_in, ops_in, ctx, f_in, st_in, rgce@, formula@, stack@, err_text(rg_in.skip(1)[0] as int)->Some_0, 2);
                    lemma_advance(__p_rgce@, ctx, rg_in, ops_in, f_in, st_in, rgce@, formula@, stack@);
                }
//@@ before /\}\s*0x1E =>/
                proof {
                    assert(rgce@ =~= rg_in.skip(2));
                    step_operand(A::ptgbool, rg_in, ops_in, ctx, f_in, st_in, rgce@, formula@, stack@, (if rg_in.skip(1)[0] == 0 { "FALSE"@ } else { "TRUE"@ }), 2);
                    lemma_advance(__p_rgce@, ctx, rg_in, ops_in, f_in, st_in, rgce@, formula@, stack@);
                }
//@@ before /\}\s*0x1F =>/
                proof {
                    assert(rgce@ =~= rg_in.skip(3));
                    step_operand(A::ptgint, rg_in, ops_in, ctx, f_in, st_in, rgce@, formula@, stack@, dec(le16(rg_in.skip(1)) as nat), 3);
                    lemma_advance(__p_rgce@, ctx, rg_in, ops_in, f_in, st_in, rgce@, formula@, stack@);
                }
//@@ before /\}\s*0x20 \| 0x40 \| 0x60 =>/
                proof {
                    assert(rgce@ =~= rg_in.skip(9));
                    step_operand(A::ptgnum, rg_in, ops_in, ctx, f_in, st_in, rgce@, formula@, stack@, display::<f64>(f64_of_bits(le64(rg_in.skip(1)))), 9);
                    lemma_advance(__p_rgce@, ctx, rg_in, ops_in, f_in, st_in, rgce@, formula@, stack@);
                }
//@@ before /\}\s*0x21 \| 0x22 \| 0x41/
                proof {
                    step_none(A::ptgarray, rg_in, ops_in, ctx, f_in, st_in, rgce@, formula@, stack@);
                    lemma_advance(__p_rgce@, ctx, rg_in, ops_in, f_in, st_in, rgce@, formula@, stack@);
                }
//@@ before /\}\s*0x24 \| 0x44 \| 0x64 =>/
                proof {
                    assert(rgce@ =~= rg_in.skip(5));
                    step_operand(A::ptgname, rg_in, ops_in, ctx, f_in, st_in, rgce@, formula@, stack@, ctx.names[le32(rg_in.skip(1)) - 1], 5);
                    lemma_advance(__p_rgce@, ctx, rg_in, ops_in, f_in, st_in, rgce@, formula@, stack@);
                }
//@@ before /\}\s*0x25 \| 0x45 \| 0x65 =>/
                proof {
                    let rw = le16(rg_in.skip(1));
                    let cf = le16(rg_in.skip(1).skip(2));
                    lemma_cell_text_pieces(f_in, rw, cf);
                    assert(rgce@ =~= rg_in.skip(5));
                    step_operand(A::ptgref, rg_in, ops_in, ctx, f_in, st_in, rgce@, formula@, stack@, cell_text(rw, cf), 5);
                    lemma_advance(__p_rgce@, ctx, rg_in, ops_in, f_in, st_in, rgce@, formula@, stack@);
                }
//@@ before /\}\s*0x2A \| 0x4A \| 0x6A =>/
                proof {
                    let r1 = le16(rg_in.skip(1)); let r2 = le16(rg_in.skip(1).skip(2)); let cf1 = le16(rg_in.skip(1).skip(4)); let cf2 = le16(rg_in.skip(1).skip(6));
                    lemma_area_text(r1, r2, cf1, cf2);
                    //# C14.ptgarea_text
                    assert(formula@ =~= f_in + area_text(r1, r2, cf1, cf2));
                    assert(rgce@ =~= rg_in.skip(9));
                    step_operand(A::ptgarea, rg_in, ops_in, ctx, f_in, st_in, rgce@, formula@, stack@, area_text(r1, r2, cf1, cf2), 9);
                    lemma_advance(__p_rgce@, ctx, rg_in, ops_in, f_in, st_in, rgce@, formula@, stack@);
                }
//@@ before /\}\s*0x2B \| 0x4B \| 0x6B =>/
                proof {
                    assert(rgce@ =~= rg_in.skip(5));
                    step_operand(A::ptgreferr, rg_in, ops_in, ctx, f_in, st_in, rgce@, formula@, stack@, "#REF!"@, 5);
                    lemma_advance(__p_rgce@, ctx, rg_in, ops_in, f_in, st_in, rgce@, formula@, stack@);
                }
//@@ before /\}\s*0x39 \| 0x59 =>/
                proof {
                    assert(rgce@ =~= rg_in.skip(9));
                    step_operand(A::ptgareaerr, rg_in, ops_in, ctx, f_in, st_in, rgce@, formula@, stack@, "#REF!"@, 9);
                    lemma_advance(__p_rgce@, ctx, rg_in, ops_in, f_in, st_in, rgce@, formula@, stack@);
                }
//@@ before /\}\s*_ => \{\s*return Err\(XlsError::Unrecognized \{\s*typ: \"ptg\"/
                proof {
                    step_none(A::ptgnamex, rg_in, ops_in, ctx, f_in, st_in, rgce@, formula@, stack@);
                    lemma_advance(__p_rgce@, ctx, rg_in, ops_in, f_in, st_in, rgce@, formula@, stack@);
                }
//@@ before /push_column\(col as u32, &mut formula\);\s*if rgce\[3\]/
                let ghost rw = le16(rg_in.skip(1));
                let ghost cf = le16(rg_in.skip(1).skip(2));
                let ghost g1 = formula@;
                proof {
                    //# C14.ptgref_column_dollar_iff_absolute
                    assert(g1 =~= f_in + dollar(!f_col_rel(cf)));
                }
//@@ after /push_column\(col as u32, &mut formula\);(?=\s*if rgce\[3\])/
                let ghost g2 = formula@;
                proof {
                    //# C14.ptgref_column_letters
                    assert(g2 =~= g1 + col_name(f_col(cf)));
                }
//@@ before /formula\.push_str\(&format!/
                let ghost g3 = formula@;
                proof {
                    //# C14.ptgref_row_dollar_iff_absolute
                    assert(g3 =~= g2 + dollar(!f_row_rel(cf)));
                }
//@@ after /formula\.push_str\(&format!\([^;]*;/
                proof {
                    //# C14.ptgref_row_number
                    assert(formula@ =~= g3 + dec((rw + 1) as nat));
                }
//@@ after /formula\.push_str\(sh\);/
                let ghost rw3 = le16(rg_in.skip(1).skip(2));
                let ghost cf3 = le16(rg_in.skip(1).skip(4));
                let ghost h1 = formula@;
                proof {
                    //# C14.ptgref3d_sheet_through_xti
                    assert(h1 =~= f_in + sheet_name(le16(rg_in.skip(1)), ctx)->Some_0);
                }
//@@ before /push_column\(col as u32, &mut formula\);\s*if colu/
                let ghost h2 = formula@;
                proof {
                    lemma_u16_masks();
                    //# C14.ptgref3d_column_dollar_iff_absolute
                    assert(h2 =~= h1 + seq!['!'] + dollar(!f_col_rel(cf3)));
                }
//@@ after /push_column\(col as u32, &mut formula\);(?=\s*if colu)/
                let ghost h3 = formula@;
                proof {
                    //# C14.ptgref3d_column_letters
                    assert(h3 =~= h2 + col_name(f_col(cf3)));
                }
//@@ before /write!\(&mut formula, "\{\}", rowu/
                let ghost h4 = formula@;
                proof {
                    //# C14.ptgref3d_row_dollar_iff_absolute
                    assert(h4 =~= h3 + dollar(!f_row_rel(cf3)));
                }
//@@ after /write!\(&mut formula, "\{\}", rowu[^;]*;/
                proof {
                    //# C14.ptgref3d_row_number
                    assert(formula@ =~= h4 + dec((rw3 + 1) as nat));
                }
//@@ loop 1
                            // PtgAttrSpace is outside the oracle: under the hypothesis of this copy the arm is not reached
                            invariant false,
//@@ closure 0
-> (r: Option<&String>)
    ensures
        (xti.itab_first as usize) < sheets@.len() ==> r == Some(&sheets@[(xti.itab_first as usize) as int]),
        (xti.itab_first as usize) >= sheets@.len() ==> r is None,
//@@ closure 1
-> (r: &str) ensures r@ == sh@
//@@ closure 2
-> (r: Option<&String>)
    ensures
        (xti.itab_first as usize) < sheets@.len() ==> r == Some(&sheets@[(xti.itab_first as usize) as int]),
        (xti.itab_first as usize) >= sheets@.len() ==> r is None,
//@@ closure 3
-> (r: &str) ensures r@ == s@
//@@ closure 4
-> (r: Option<&String>)
    ensures
        (xti.itab_first as usize) < sheets@.len() ==> r == Some(&sheets@[(xti.itab_first as usize) as int]),
        (xti.itab_first as usize) >= sheets@.len() ==> r is None,
//@@ closure 5
-> (r: &str) ensures r@ == s@
//@@ closure 6
-> (r: Option<&String>)
    ensures
        (xti.itab_first as usize) < sheets@.len() ==> r == Some(&sheets@[(xti.itab_first as usize) as int]),
        (xti.itab_first as usize) >= sheets@.len() ==> r is None,
//@@ closure 7
-> (r: &str) ensures r@ == s@
//@@ closure 8
-> (r: Option<&(String, String)>)
    ensures
        i < names@.len() ==> r == Some(&names@[i as int]),
        i >= names@.len() ==> r is None,
//@@ closure 9
-> (r: &str) ensures r@ == n.0@
//@@ after /let mut args = stack\.split_off\(args_start\);/
                    let ghost k0 = args_start as int;
                    let ghost a0 = args@;
                    let ghost aa = ops_in.skip(k0);
                    let ghost pp = cat(ops_in.take(k0));
                    let ghost qq = cat(aa);
                    proof { lemma_func_prep(f_in, st_in, ops_in, k0, a0); }
//@@ loop 2 it2
                        invariant
                            it2.seq().len() == a0.len(), a0.len() == argc, argc > 0,
                            forall|i: int| 0 <= i < a0.len() ==> *(#[trigger] it2.seq()[i]) == a0[i],
                            forall|i: int| 0 <= i < a0.len() ==> (#[trigger] a0[i]) >= start,
                            forall|i: int| 0 <= i < it2.index@ ==> *final(#[trigger] it2.seq()[i]) == a0[i] - start,
//@@ before /\*s -= start;/
                        proof { assert(*s == a0[it2.index@ as int]); }
//@@ before /let fargs = formula\.split_off\(start\);/
                    let ghost a1 = args@;
                    proof {
                        assert forall|i: int| 0 <= i < a0.len() implies (#[trigger] a1[i]) as int == a0[i] - a0[0] by { }
                        lemma_func_offs(f_in, st_in, ops_in, k0, a0, a1);
                    }
//@@ before /for w in args\.windows\(2\)/
                    let ghost mut k3: int = 0;
                    let ghost hd = formula@;
                    let ghost nm = ftab_name(iftab as int);
                    proof {
                        lemma_func_offs_push(qq, a1, aa, args@);
                        assert(joinc(aa, 0) =~= Seq::<char>::empty());
                        lemma_push_add(hd, 'x');
                        assert(args@.len() == args.len());
                    }
//@@ loop 3
                        invariant
                            __it3.obeys_prophetic_iter_laws(), win_from(args@, 2, k3, __it3.remaining()),
                            0 <= k3 <= argc, args@.len() == argc + 1, aa.len() == argc, argc > 0,
                            repr(qq, args@.take(argc as int), aa), args@[argc as int] as int == blen(qq), fargs@ == qq,
                            formula@ == hd + joinc(aa, k3),
                        ensures
                            k3 == argc,
                        decreases argc - k3,
//@@ before /formula\.push_str\(&fargs\[w\[0\]\.\.w\[1\]\]\);/
                        broadcast use axiom_str_index_range, axiom_string_index_req_range;
                        proof {
                            assert(w@ =~= args@.subrange(k3, k3 + 2));
                            assert(w@[0] == args@[k3] && w@[1] == args@[k3 + 1]);
                            lemma_arg_slice(qq, args@, aa, k3);
                        }
//@@ before /\}\s*formula\.pop\(\);/
                        proof {
                            assert(formula@ =~= hd + joinc(aa, k3 + 1));
                            k3 = k3 + 1;
                        }
//@@ before /formula\.pop\(\);/
                    let ghost fl = formula@;
                    proof { lemma_joinc_join(aa, argc as int); }
//@@ after /formula\.pop\(\);/
                    let ghost fp = formula@;
//@@ before /\}\s*else\s*\{\s*stack\.push\(formula\.len\(\)\);\s*formula\.push_str\(\s*crate::utils::FTAB/
                    proof {
                        lemma_func_text(pp, nm, aa, hd, fl, fp, formula@);
                        assert(rgce@ =~= rg_in.skip(len_of(rg_in, ctx)));
                        step_func(A::ptgfunc, rg_in, ops_in, ctx, f_in, st_in, rgce@, formula@, stack@, nm, argc as int, len_of(rg_in, ctx));
                        lemma_advance(__p_rgce@, ctx, rg_in, ops_in, f_in, st_in, rgce@, formula@, stack@);
                    }
//@@ after /formula\.push_str\("\(\)"\);/
                    proof {
                        assert(rgce@ =~= rg_in.skip(len_of(rg_in, ctx)));
                        step_func0(A::ptgfunc, rg_in, ops_in, ctx, f_in, st_in, rgce@, formula@, stack@, ftab_name(iftab as int), len_of(rg_in, ctx));
                        lemma_advance(__p_rgce@, ctx, rg_in, ops_in, f_in, st_in, rgce@, formula@, stack@);
                    }
//@@ before /\}\s*if stack\.len\(\)/
        proof {
            ops = next_ops(rg_in, ops_in, ctx);
        }
//@@ before /(?<=\})\s*if stack\.len\(\)/
    proof {
        lemma_inv_use(__p_rgce@, ctx, rgce@, ops, formula@, stack@);
    }
//@@ case_split /rgce = &rgce\[1\.\.\];\s*match ptg \{/ keep=0,1
//@@ end
}
}

pub mod m_wf1 {
use super::*;
verus! {
//@@ fn src/xls.rs parse_formula props=C14 ret=res r13 mutparams alias=wf1 same_as=wf0
//@@ case_split /rgce = &rgce\[1\.\.\];\s*match ptg \{/ keep=2,3,4,25,26
//@@ end
}
}

pub mod m_wf2 {
use super::*;
verus! {
//@@ fn src/xls.rs parse_formula props=C14 ret=res r13 mutparams alias=wf2 same_as=wf0
//@@ case_split /rgce = &rgce\[1\.\.\];\s*match ptg \{/ keep=5,6,7,8,9,10
//@@ end
}
}

pub mod m_wf3 {
use super::*;
verus! {
//@@ fn src/xls.rs parse_formula props=C14 ret=res r13 mutparams alias=wf3 same_as=wf0
//@@ case_split /rgce = &rgce\[1\.\.\];\s*match ptg \{/ keep=11,12,13
//@@ end
}
}

pub mod m_wf4 {
use super::*;
verus! {
//@@ fn src/xls.rs parse_formula props=C14 ret=res r13 mutparams alias=wf4 same_as=wf0
//@@ case_split /rgce = &rgce\[1\.\.\];\s*match ptg \{/ keep=14,15,16,17,18
//@@ end
}
}

pub mod m_wf5 {
use super::*;
verus! {
//@@ fn src/xls.rs parse_formula props=C14 ret=res r13 mutparams alias=wf5 same_as=wf0
//@@ case_split /rgce = &rgce\[1\.\.\];\s*match ptg \{/ keep=19
//@@ end
}
}

pub mod m_wf6 {
use super::*;
verus! {
//@@ fn src/xls.rs parse_formula props=C14 ret=res r13 mutparams alias=wf6 same_as=wf0
//@@ case_split /rgce = &rgce\[1\.\.\];\s*match ptg \{/ keep=20,21
//@@ end
}
}

pub mod m_wf7 {
use super::*;
verus! {
//@@ fn src/xls.rs parse_formula props=C14 ret=res r13 mutparams alias=wf7 same_as=wf0
//@@ case_split /rgce = &rgce\[1\.\.\];\s*match ptg \{/ keep=22,23,24
//@@ end
}
}

pub mod m_entry {
use super::*;
verus! {
//@@ fn src/xls.rs parse_formula props=C06 entry ret=res r13 mutparams
//@@ r6 3
//@@ body
    broadcast use group_ext, axiom_str_index_range, axiom_string_index_req_range;
//@@ before /while !rgce\.is_empty\(\)/
    proof { lemma_sb_last(formula@, stack@); }
//@@ loop 0
        invariant
            //# C06.stack_offsets_are_ascending_char_boundaries
            sorted_bnds(formula@, stack@),
        decreases rgce@.len(),
//@@ before /let ptg = rgce\[0\];/
        broadcast use group_ext, axiom_str_index_range, axiom_string_index_req_range;
        let ghost f_in = formula@;
        let ghost st_in = stack@;
        proof {
            lemma_sb_last(f_in, st_in);
            if st_in.len() > 0 { lemma_s_top(f_in, st_in); }
        }
//@@ before /\}\s*0x3b \| 0x5b \| 0x7b =>/
                proof {
                    lemma_s_append(f_in, st_in, formula@, stack@);
                }
//@@ before /\}\s*0x3c \| 0x5c \| 0x7c =>/
                proof {
                    lemma_s_append(f_in, st_in, formula@, stack@);
                }
//@@ before /\}\s*0x3d \| 0x5d \| 0x7d =>/
                proof {
                    lemma_s_append(f_in, st_in, formula@, stack@);
                }
//@@ before /\}\s*0x01 =>/
                proof {
                    lemma_s_append(f_in, st_in, formula@, stack@);
                }
//@@ before /\}\s*0x03\.\.=0x11 =>/
                proof {
                    lemma_s_append(f_in, st_in, formula@, stack@);
                }
//@@ before /\}\s*0x12 =>/
                proof {
                    if st_in.len() > 0 { lemma_s_cut(f_in, st_in, st_in.len() - 1, formula@, stack@); }
                }
//@@ before /\}\s*0x13 =>/
                proof {
                    if st_in.len() > 0 { lemma_s_cut(f_in, st_in, st_in.len() - 1, formula@, stack@); }
                }
//@@ before /\}\s*0x14 =>/
                proof {
                    if st_in.len() > 0 { lemma_s_cut(f_in, st_in, st_in.len() - 1, formula@, stack@); }
                }
//@@ before /\}\s*0x15 =>/
                proof {
                    lemma_s_append(f_in, st_in, formula@, stack@);
                }
//@@ before /\}\s*0x16 =>/
                proof {
                    if st_in.len() > 0 { lemma_s_cut(f_in, st_in, st_in.len() - 1, formula@, stack@); }
                }
//@@ before /\}\s*0x17 =>/
                proof {
                    lemma_s_append(f_in, st_in, formula@, stack@);
                }
//@@ before /\}\s*0x18 =>/
                proof {
                    lemma_s_append(f_in, st_in, formula@, stack@);
                }
//@@ before /\}\s*0x1C =>/
                proof {
                    if etpg == 0x10 { lemma_s_cut(f_in, st_in, st_in.len() - 1, formula@, stack@); }
                }
//@@ before /\}\s*0x1D =>/
                proof {
                    lemma_s_append(f_in, st_in, formula@, stack@);
                }
//@@ before /\}\s*0x1E =>/
                proof {
                    lemma_s_append(f_in, st_in, formula@, stack@);
                }
//@@ before /\}\s*0x1F =>/
                proof {
                    lemma_s_append(f_in, st_in, formula@, stack@);
                }
//@@ before /\}\s*0x20 \| 0x40 \| 0x60 =>/
                proof {
                    lemma_s_append(f_in, st_in, formula@, stack@);
                }
//@@ before /\}\s*0x21 \| 0x22 \| 0x41/
                proof {
                    lemma_s_append(f_in, st_in, formula@, stack@);
                }
//@@ before /\}\s*0x24 \| 0x44 \| 0x64 =>/
                proof {
                    lemma_s_append(f_in, st_in, formula@, stack@);
                }
//@@ before /\}\s*0x25 \| 0x45 \| 0x65 =>/
                proof {
                    lemma_s_append(f_in, st_in, formula@, stack@);
                }
//@@ before /\}\s*0x2A \| 0x4A \| 0x6A =>/
                proof {
                    lemma_s_append(f_in, st_in, formula@, stack@);
                }
//@@ before /\}\s*0x2B \| 0x4B \| 0x6B =>/
                proof {
                    lemma_s_append(f_in, st_in, formula@, stack@);
                }
//@@ before /\}\s*0x39 \| 0x59 =>/
                proof {
                    lemma_s_append(f_in, st_in, formula@, stack@);
                }
//@@ before /\}\s*_ => \{\s*return Err\(XlsError::Unrecognized \{\s*typ: \"ptg\"/
                proof {
                    lemma_s_append(f_in, st_in, formula@, stack@);
                }
//@@ after /read_unicode_string_no_cch\([^;]*;/
                proof { ext_trans(f_in, f_in.push('"'), formula@); }
//@@ before /formula\.insert\(e, space\);/
                            broadcast use group_ext;
                            let ghost fb = formula@;
                            proof { lemma_s_top(fb, stack@); }
//@@ after /formula\.insert\(e, space\);/
                            proof { lemma_s_cut(fb, stack@, stack@.len() - 1, formula@, stack@); }
//@@ loop 1
                            invariant
                                sorted_bnds(formula@, stack@), stack@.len() > 0, e == stack@.last(),
//@@ after /let mut args = stack\.split_off\(args_start\);/
                    let ghost k0 = args_start as int;
                    let ghost a0 = args@;
                    proof { lemma_s_mono(f_in, st_in, k0); assert(a0 =~= st_in.skip(k0)); }
//@@ after /let start = args\[0\];/
                    proof {
                        assert forall|i: int| 0 <= i < a0.len() implies (#[trigger] a0[i]) >= start by { assert(a0[i] == st_in[k0 + i]); assert(st_in[k0] <= st_in[k0 + i]); }
                        lemma_s_cut(f_in, st_in, k0, f_in.take(cidx(f_in, st_in[k0] as int)), st_in.take(k0));
                    }
//@@ loop 2 it2
                        invariant
                            it2.seq().len() == a0.len(), a0.len() == argc, argc > 0,
                            forall|i: int| 0 <= i < a0.len() ==> *(#[trigger] it2.seq()[i]) == a0[i],
                            forall|i: int| 0 <= i < a0.len() ==> (#[trigger] a0[i]) >= start,
                            forall|i: int| 0 <= i < it2.index@ ==> *final(#[trigger] it2.seq()[i]) == a0[i] - start,
//@@ before /\*s -= start;/
                        proof { assert(*s == a0[it2.index@ as int]); }
//@@ before /for w in args\.windows\(2\)/
                    let ghost mut k3: int = 0;
                    let ghost base = f_in.take(cidx(f_in, st_in[k0] as int));
                    let ghost hd = formula@;
                    proof {
                        assert(args@.len() == args.len());
                        assert forall|i: int| 0 <= i < st_in.len() - k0 implies (#[trigger] args@[i]) as int == st_in[k0 + i] - st_in[k0] by { assert(a0[i] == st_in[k0 + i]); }
                        lemma_s_suffix(f_in, st_in, k0, args@);
                        ext_len(base, hd);
                    }
//@@ loop 3
                        invariant
                            __it3.obeys_prophetic_iter_laws(), win_from(args@, 2, k3, __it3.remaining()),
                            0 <= k3 <= argc, args@.len() == argc + 1, argc > 0,
                            sorted_bnds(fargs@, args@),
                            ext(hd, formula@), stack@ == st_in.take(k0).push(st_in[k0]),
                        ensures
                            k3 == argc,
                        decreases argc - k3,
//@@ before /formula\.push_str\(&fargs\[w\[0\]\.\.w\[1\]\]\);/
                        broadcast use group_ext, axiom_str_index_range, axiom_string_index_req_range;
                        proof {
                            assert(w@ =~= args@.subrange(k3, k3 + 2));
                            assert(w@[0] == args@[k3] && w@[1] == args@[k3 + 1]);
                            lemma_s_window(fargs@, args@, k3);
                        }
//@@ before /\}\s*formula\.pop\(\);/
                        proof { k3 = k3 + 1; }
//@@ before /formula\.pop\(\);/
                    proof { ext_len(hd, formula@); ext_trans(base, hd, formula@); ext_drop_last(base, formula@); }
//@@ before /\}\s*0x23 \| 0x43 \| 0x63 =>/
                proof {
                    if argc > 0 {
                        lemma_s_cut(f_in, st_in, stack@.len() - 1, formula@, stack@);
                    } else {
                        lemma_s_append(f_in, st_in, formula@, stack@);
                    }
                }
//@@ end
}
}

// ---- witnesses: the hypothesis of the functional copies (`render(..) is Some`) is satisfiable, e.g. by the formula `=1` (PtgInt 1)
proof fn witness_requires(c: Ctx) {
    let all = seq![3u8, 0u8, 0x1Eu8, 1u8, 0u8];
    let rg = all.subrange(2, 5);
    assert(le16(all) == 3);
    assert(rg =~= seq![0x1Eu8, 1u8, 0u8]);
    reveal(decode);
    assert(decode(rg, c) == t_int(rg.skip(1)));
    assert(rg.skip(1).len() == 2);
    let t = dec(le16(rg.skip(1)) as nat);
    assert(step(rg, Seq::empty(), c) == Some((3int, Seq::<Seq<char>>::empty().push(t))));
    assert(rg.skip(3) =~= Seq::<u8>::empty());
    lemma_run_step(rg, Seq::empty(), c);
    lemma_run_step(rg.skip(3), Seq::<Seq<char>>::empty().push(t), c);
    assert(render(all, c) == Some(t));
    // lemma hypotheses of the shape `repr(f, st, ops)`: the empty state
    lemma_repr_basics(Seq::empty(), Seq::empty(), Seq::empty());
    // sorted_bnds: the empty state
    lemma_sb_last(Seq::empty(), Seq::empty());
}

} // verus!
fn main() {}
