//@@ unit props=C14,C06
// Unit xlsfml: the BIFF8 token renderer `parse_formula` of src/xls.rs (verbatim text), step 1 skeleton.
#![feature(allocator_api)]
#![allow(unused_imports, dead_code, unused_variables, unused_mut, unused_assignments, unexpected_cfgs, deprecated)]
use vstd::prelude::*;
use std::slice::Windows;
use vstd::std_specs::iter::IteratorSpec;

verus! {

pub mod vba { pub struct VbaError; }
#[verifier::external_type_specification] #[verifier::external_body] pub struct ExIoError(std::io::Error);
pub mod cfb { pub struct CfbError { _opaque: u8 } }
use cfb::CfbError;
pub struct XlsEncoding { _opaque: u8 }

//@@ item src/xls.rs enum XlsError cfg_off=picture
//@@ item src/xls.rs struct Xti keep_attrs
pub mod utils {
use vstd::prelude::*;
//@@ item src/utils.rs const FTAB_LEN
//@@ item src/utils.rs const FTAB static_refs
//@@ item src/utils.rs const FTAB_ARGC
}

//@@ include common/bytes.rs

// ---- String model
pub open spec fn cw(c: char) -> nat { if (c as u32) < 0x80 { 1 } else if (c as u32) < 0x800 { 2 } else if (c as u32) < 0x10000 { 3 } else { 4 } }
pub open spec fn blen(s: Seq<char>) -> nat decreases s.len() { if s.len() == 0 { 0 } else { blen(s.drop_last()) + cw(s.last()) } }
pub open spec fn is_bnd(s: Seq<char>, b: int) -> bool { exists|k: int| 0 <= k <= s.len() && blen(s.take(k)) == b }
pub open spec fn cidx(s: Seq<char>, b: int) -> int { choose|k: int| 0 <= k <= s.len() && blen(s.take(k)) == b }

pub assume_specification[ String::with_capacity ](n: usize) -> (r: String)
    ensures r@ == Seq::<char>::empty();
pub assume_specification[ String::len ](s: &String) -> (r: usize)
    ensures r == blen(s@);
pub assume_specification[ String::insert ](s: &mut String, idx: usize, ch: char)
    requires is_bnd(old(s)@, idx as int),
    ensures final(s)@ == old(s)@.take(cidx(old(s)@, idx as int)).push(ch) + old(s)@.skip(cidx(old(s)@, idx as int));
pub assume_specification[ String::split_off ](s: &mut String, at: usize) -> (r: String)
    requires is_bnd(old(s)@, at as int),
    ensures final(s)@ == old(s)@.take(cidx(old(s)@, at as int)), r@ == old(s)@.skip(cidx(old(s)@, at as int));

// TRUSTED: Option::map_or (core::option documentation): the default for None, f(value) for Some
pub assume_specification<T, U, F: FnOnce(T) -> U>[ Option::<T>::map_or ](o: Option<T>, d: U, f: F) -> (r: U)
    requires o matches Some(v) ==> call_requires(f, (v,)),
    ensures o is None ==> r == d, o matches Some(v) ==> call_ensures(f, (v,), r);
#[verifier::external_type_specification] #[verifier::external_body] #[verifier::reject_recursive_types(T)]
pub struct ExWindows<'a, T: 'a>(Windows<'a, T>);
pub open spec fn win_ok<T>(s: Seq<T>, n: int, r: Seq<&[T]>) -> bool {
    r.len() == (if s.len() >= n { s.len() - n + 1 } else { 0 })
    && forall|i: int| 0 <= i < r.len() ==> (#[trigger] r[i])@ == s.subrange(i, i + n)
}
pub assume_specification<'a, T>[ <[T]>::windows ](s: &'a [T], n: usize) -> (r: Windows<'a, T>)
    requires n != 0,
    ensures r.obeys_prophetic_iter_laws(), win_ok(s@, n as int, r.remaining());

pub uninterp spec fn display<T>(x: T) -> Seq<char>;
#[verifier::external_body] fn verif_fmt_lit(dst: &mut String, lit: &str)
    ensures final(dst)@ == old(dst)@ + lit@,
{ unimplemented!() }
#[verifier::external_body] fn verif_fmt_arg<T>(dst: &mut String, a: &T)
    ensures final(dst)@ == old(dst)@ + display::<T>(*a),
{ unimplemented!() }

pub uninterp spec fn ustr_text(e: XlsEncoding, buf: Seq<u8>, len: int) -> Seq<char>;
#[verifier::external_body] fn read_unicode_string_no_cch(encoding: &XlsEncoding, buf: &[u8], len: &usize, s: &mut String)
    ensures final(s)@ == old(s)@ + ustr_text(*encoding, buf@, *len as int),
{ unimplemented!() }

pub uninterp spec fn col_letters(col: int) -> Seq<char>;
#[verifier::external_body] pub fn push_column(col: u32, buf: &mut String)
    ensures final(buf)@ == old(buf)@ + col_letters(col as int),
{ unimplemented!() }

//@@ fn src/xls.rs parse_formula props=C14 entry ret=res r13 mutparams
//@@ loop 0
        decreases rgce@.len(),
//@@ end

} // verus!
fn main() {}
