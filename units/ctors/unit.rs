//@@ unit props=C01,C07,C13,C14,C16,C17,C20,C06
// Unit ctors: the constructors of the xlsx / xls / ods readers, the prologue reader of an xlsx sheet part, and the thin accessors of the
// eager readers that no other unit has under contract.
//
// Real text under contract (verbatim, extracted by byte span):
//   src/xlsx/cells_reader.rs  XlsxCellReader::new            C01 the cells start right after the FIRST `sheetData` start tag, whatever precedes it
//                                                            (`sheetdata_at`: kinds and local names only -- no attribute, so `<dimension ref>` is a hint);
//                                                            cursor (0,0); context = the arguments (C16: is_1904); schema walk `pro_scan` (ECMA-376
//                                                            CT_Worksheet): declared dimension = the hint, missing dimension is fine; C07 a part without
//                                                            sheetData is NotAWorksheet(first element name) / XmlEof.  Establishes exactly the start state
//                                                            (`g_events, g_pos, g_cur, g_cx`) `next_cell` is specified from in unit xlsxxml.
//   src/xlsx/mod.rs           Reader::new for Xlsx           C20/C16/C07 `xlsx_new_run`: password check on the raw reader FIRST (its error is the result),
//                                                            ZipArchive::new, then from a FRESH reader (nothing read, caches None, options default)
//                                                            read_shared_strings -> read_styles -> read_relationships -> read_workbook(those relationships);
//                                                            first error returned as it is, else the state the last reader left.  + C20 facet.
//   src/xls.rs                Xls::new_with_options, Reader::new   C20/C16/C07 `xls_new_run`: seek End / Start, Cfb::new(len), eager VBA read iff `_VBA_PROJECT_CUR`,
//                                                            parse_workbook from a fresh reader WITH THE GIVEN OPTIONS (new: the defaults); errors of the workbook
//                                                            stream (FILEPASS => Password) come before a VBA error; lemmas derive C20 in the property's words.
//   src/ods.rs                Reader::new for Ods            C20/C16/C07 `ods_new_run`: zip directory, `mimetype` entry (absent / other / I/O), manifest password
//                                                            check BEFORE content.xml, reader == exactly what parse_content returned, options default.
//   src/xls.rs, src/ods.rs    Reader::{metadata, vba_project, worksheet_formula, worksheets}   C16 metadata() is the stored metadata; C14 the stored formula
//                                                            range of EXACTLY the named sheet; C07 unknown name => WorksheetNotFound, reads are pure (`*final(self) ==
//                                                            *old(self)`), worksheets() = one entry (name, stored range) per stored sheet.
//   src/xls.rs                Xls::{worksheet_merge_cells, worksheet_merge_cells_at}   C17 the stored merged regions of EXACTLY the named sheet (None for an
//                                                            unknown name: C07); `_at(n)` is sheet n OF THE WORKBOOK (`metadata().sheets[n]`, BoundSheet order), NOT
//                                                            the n-th key of the name-ordered map; None beyond the list.  (`&self`: nothing can change.)  The Xlsx
//                                                            twins are under contract in unit xlsxparts; Ods / Xlsb have no such accessor.
// TRUSTED (all marked below): A-io (Read / Seek ghost model, text of unit cfb), A-xml (quick-xml ghost model, text of unit xlsxxml), A-zip
// (ZipArchive / ZipFile opaque), A-std (Cow deref, to_string, to_owned, to_vec, String-keyed BTreeMap lookup, derives Default / Clone expansions,
// `?` = From::from), byte-literal contents (axiom_bytelits, exec const MIMETYPE), and the CALLEE CONTRACTS: every part reader is a stand-in
// (signature copied) whose contract is an uninterpreted relation `x_call(before, after, result)` standing for the clauses proved in the unit
// named at its declaration (cfb, vbaproj, xlswb, xlsxxml, xlsxparts, xlsxwb, ods, odsxml); the clause text is copied where this unit uses it
// (`xlsx_pw_rel`, `xls_wb_rel`, `ods_pw_rel`, `has_directory`, `get_dimension`).
// Declared rewrites (logged): `map_err(Variant)` eta-expanded; byte-string literal patterns -> binding + guard / verified helper
// `verif_attr_value_if_key` (Verus crashes on them); the `for a in e.attributes()` loop containing `continue 'xml` desugared (R6); `mutparams`;
// optional (`replace?`, absent from the real text): `<iterator>.nth(n)` -> trusted helper verif_iter_nth (Verus cannot call provided trait methods).
// R-mono (rule of units apiglue / lazyrange) for `worksheets()` of Xls / Ods.  Manual copy: `const MIMETYPE` (elided lifetime written out).
// Not reached: `Xlsx::worksheets` (closure capturing `&mut self`: rejected by Verus), `pictures` (feature gated).
// Finding (fixed, findings/ctors.json): the eager VBA read of Xls::new_with_options returned its error before FILEPASS was looked at.
#![allow(unused_imports, dead_code, unused_variables, unused_mut, unused_assignments, unexpected_cfgs)]
use vstd::prelude::*;
use std::borrow::Cow;
use std::marker::PhantomData;
use std::collections::BTreeMap;
use std::io::SeekFrom;
use std::ops::Deref;
use std::collections::HashMap;
use vstd::std_specs::cmp::PartialEqSpec;
use vstd::std_specs::iter::IteratorSpec;
use vstd::std_specs::btree::{maps_borrowed_key_to_value, contains_borrowed_key, borrowed_key_ordering_matches};

verus! {

// ---- stand-ins for foreign error payload types (opaque plumbing; never inspected by the verified code)
pub mod quick_xml {
    pub struct Error;
    pub mod events { pub mod attributes { pub struct AttrError; } }
    pub mod encoding { pub struct EncodingError; }
}
pub mod zip { pub mod result {
    // TRUSTED: A-zip -- zip::result::ZipError; the verified code names the variant FileNotFound only
    pub enum ZipError { FileNotFound, Other(u8) }
} }
pub mod vba {
    pub struct VbaError { _opaque: u8 }
}
use zip::result::ZipError;
#[verifier::external_type_specification] #[verifier::external_body] pub struct ExIoError(std::io::Error);
#[verifier::external_type_specification] pub struct ExSeekFrom(std::io::SeekFrom);
#[verifier::external_type_specification] #[verifier::external_body] pub struct ExParseFloatError(std::num::ParseFloatError);
#[verifier::external_type_specification] #[verifier::external_body] pub struct ExParseIntError(std::num::ParseIntError);
#[verifier::external_type_specification] #[verifier::external_body] pub struct ExParseBoolError(std::str::ParseBoolError);

//@@ item src/lib.rs enum CellErrorType keep_attrs
//@@ item src/lib.rs struct Dimensions keep_attrs
//@@ item src/lib.rs enum SheetType
//@@ item src/lib.rs enum SheetVisible
//@@ item src/lib.rs struct Sheet
//@@ item src/lib.rs struct Metadata
//@@ item src/lib.rs enum HeaderRow keep_attrs
//@@ item src/datatype.rs enum ExcelDateTimeType keep_attrs
//@@ item src/datatype.rs struct ExcelDateTime keep_attrs
//@@ item src/datatype.rs enum Data keep_attrs
//@@ item src/formats.rs enum CellFormat
//@@ item src/lib.rs trait "trait CellType"
//@@ item src/lib.rs struct Range
//@@ item src/cfb.rs enum CfbError
//@@ item src/xls.rs enum XlsError cfg_off=picture
//@@ item src/xls.rs struct XlsOptions
//@@ item src/xls.rs struct SheetData
//@@ item src/xls.rs struct Xls cfg_off=picture
//@@ item src/ods.rs enum OdsError
//@@ item src/ods.rs struct OdsOptions
//@@ item src/ods.rs struct Ods cfg_off=picture
impl CellType for String {}
impl CellType for Data {}
pub mod cfb { pub use super::CfbError; }

// TRUSTED: stand-in for crate::vba::VbaProject (an opaque value here: stored in `Xls::vba`, handed out inside `Cow<'_, VbaProject>`, which
// needs `Clone`; what it holds is the subject of unit vbaproj)
#[verifier::external_body] pub struct VbaProject { _opaque: u8 }
impl Clone for VbaProject { #[verifier::external_body] fn clone(&self) -> Self { unimplemented!() } }

// TRUSTED: `#[derive(Clone)]` on `struct Range<T>` is a field-wise clone; the copy equals the original (same text as in unit lazyrange)
impl<T: Clone> Clone for Range<T> {
    #[verifier::external_body]
    fn clone(&self) -> (r: Self)
        ensures r == *self,
    {
        Range { start: self.start, end: self.end, inner: self.inner.clone() }
    }
}
// TRUSTED: blanket `impl<T: Clone> ToOwned for T` -- "to_owned() is clone()" (same text as in units apiglue / lazyrange)
pub assume_specification<T: Clone>[ <T as std::borrow::ToOwned>::to_owned ](s: &T) -> (r: T)
    ensures call_ensures(T::clone, (s,), r);

// =====================================================================================================================
// A-io: ghost model of std::io::{Read, Seek} (same text as in unit cfb).  TRUSTED.
// =====================================================================================================================
pub trait Read {
    spec fn rem(&self) -> Seq<u8>;
    /// ghost flag: some read/seek on this reader has returned an I/O error
    spec fn io_failed(&self) -> bool;
    // (clause text of unit cfb)
    fn read_exact(&mut self, buf: &mut [u8]) -> (r: Result<(), std::io::Error>)
        ensures
            final(buf)@.len() == old(buf)@.len(),
            match r {
                Ok(_) => old(buf)@.len() <= old(self).rem().len()
                    && final(self).rem() == old(self).rem().skip(old(buf)@.len() as int)
                    && final(buf)@ == old(self).rem().take(old(buf)@.len() as int)
                    && final(self).io_failed() == old(self).io_failed(),
                // nothing else is assumed about Err: any read may fail with an I/O error (UnexpectedEof when the stream is too short)
                Err(_) => final(self).io_failed(),
            };
}
pub trait Seek: Read + Sized {
    spec fn content(&self) -> Seq<u8>;
    // TRUSTED: (A-io) std::io::Seek on a reader: the reader has an immutable content; a successful seek to Start(0) makes
    // the whole content readable again; End(0) returns the content length.  (Clause text of unit cfb; `seek_call` is the atom the
    // compositions below are stated over.)
    fn seek(&mut self, pos: std::io::SeekFrom) -> (r: Result<u64, std::io::Error>)
        ensures
            seek_call(*old(self), pos, *final(self), r),
            final(self).content() == old(self).content(),
            r is Err ==> final(self).io_failed(),
            r is Ok ==> final(self).io_failed() == old(self).io_failed(),
            match r {
                Ok(n) => match pos {
                    std::io::SeekFrom::Start(k) => n == k && (k == 0 ==> final(self).rem() == old(self).content()),
                    std::io::SeekFrom::End(k) => k == 0 ==> n as int == old(self).content().len(),
                    std::io::SeekFrom::Current(_) => true,
                },
                Err(_) => true,
            };
}
/// one `seek(pos)` call can take the reader from o to n with result r
pub uninterp spec fn seek_call<RS>(o: RS, pos: std::io::SeekFrom, n: RS, r: Result<u64, std::io::Error>) -> bool;

// =====================================================================================================================
// Part 3 -- eager readers (xls, ods): the accessors hand out what the constructor stored.
// C14 "worksheet_formula returns ... [the formulas of] the named sheet": the stored formula range of EXACTLY the named sheet
// (what that range holds is the subject of units xlswb / odsxml); C07 "an unknown sheet name is an error rather than some other sheet",
// "read calls are pure"; C16 `metadata()` is the stored metadata (sheet_names / sheets_metadata / defined_names are derived from it in
// unit apiglue).
// =====================================================================================================================
// TRUSTED: `String` keys looked up by `&str` (std: "`Borrow<str> for String`: Eq, Ord and Hash are equivalent for borrowed and owned
// values"; String's Ord is the lawful lexicographic order) -- vstd leaves both predicates uninterpreted for String/str -- and a map holds
// at most one value per key, which it does contain.  (Same text as in unit lazyrange.)
#[verifier::external_body]
pub proof fn axiom_string_keyed_map<V>(m: Map<String, V>, k: &str)
    ensures
        vstd::laws_cmp::obeys_cmp::<String>(),
        borrowed_key_ordering_matches::<String, str>(),
        forall|v1: V, v2: V| maps_borrowed_key_to_value(m, k, v1) && maps_borrowed_key_to_value(m, k, v2) ==> v1 == v2,
        forall|v: V| maps_borrowed_key_to_value(m, k, v) ==> contains_borrowed_key(m, k),
{}
/// the value stored under `name`, if any (same definition as in unit lazyrange)
pub open spec fn named<V>(m: Map<String, V>, name: &str) -> Option<V> {
    if exists|v: V| maps_borrowed_key_to_value(m, name, v) { Some(choose|v: V| maps_borrowed_key_to_value(m, name, v)) } else { None }
}

impl<RS> Xls<RS> {
    pub closed spec fn g_meta(&self) -> Metadata { self.metadata }
    pub closed spec fn g_vba(&self) -> Option<VbaProject> { self.vba }
    /// the stored formula range of the sheet called `name`
    pub closed spec fn sheet_formula(&self, name: &str) -> Option<Range<String>> {
        match named(self.sheets@, name) { Some(sd) => Some(sd.formula), None => None }
    }
    /// the stored value range of the sheet called `name` (as in unit lazyrange)
    pub closed spec fn sheet_range(&self, name: &str) -> Option<Range<Data>> {
        match named(self.sheets@, name) { Some(sd) => Some(sd.range), None => None }
    }
    /// C17: the stored merged regions ([MS-XLS] 2.4.168 MergeCells records of that sheet's substream, in record order: unit xlswb
    /// C17.merge_regions_per_sheet) of the sheet called exactly `name`; None: no sheet of that name
    pub closed spec fn sheet_merge(&self, name: &str) -> Option<Seq<Dimensions>> {
        match named(self.sheets@, name) { Some(sd) => Some(sd.merge_cells@), None => None }
    }
}
// TRUSTED: A-std -- `Iterator::nth` ("Returns the nth element of the iterator ... nth(0) returns the first value ... None if n is greater
// than or equal to the length of the iterator"), over vstd's prophetic iterator model.  Not called by the real text (see the `replace?` at
// Xls::worksheet_merge_cells_at).
#[verifier::external_body]
pub fn verif_iter_nth<I: Iterator>(it: I, n: usize) -> (r: Option<I::Item>)
    ensures
        it.obeys_prophetic_iter_laws() && n < it.remaining().len() ==> r == Some(it.remaining()[n as int]),
        it.obeys_prophetic_iter_laws() && it.will_return_none() && n >= it.remaining().len() ==> r is None,
{ let mut it = it; it.nth(n) }
/// what a merged-regions accessor hands out, as a value
pub open spec fn merge_view(r: Option<Vec<Dimensions>>) -> Option<Seq<Dimensions>> { match r { Some(v) => Some(v@), None => None } }
impl Metadata {
    /// the sheet descriptors, in WORKBOOK order (xls: BoundSheet8 order, unit xlswb C16.sheets_in_boundsheet_order)
    pub closed spec fn m_sheets(&self) -> Seq<Sheet> { self.sheets@ }
}
impl<RS> Xls<RS> {
    /// `r` lists the stored sheets: as many entries as sheets, each entry = (name of a stored sheet, ITS stored value range)
    /// (that no name comes twice -- BTreeMap iteration yields each key once -- is not stated: vstd's fact is not reachable from here)
    pub closed spec fn ws_ok(&self, r: Seq<(String, Range<Data>)>) -> bool {
        &&& r.len() == self.sheets@.dom().len()
        &&& forall|i: int| 0 <= i < r.len() ==> self.sheets@.contains_key((#[trigger] r[i]).0) && r[i].1 == self.sheets@[r[i].0].range
    }
}
impl<RS> Ods<RS> {
    pub closed spec fn ws_ok(&self, r: Seq<(String, Range<Data>)>) -> bool {
        &&& r.len() == self.sheets@.dom().len()
        &&& forall|i: int| 0 <= i < r.len() ==> self.sheets@.contains_key((#[trigger] r[i]).0) && r[i].1 == self.sheets@[r[i].0].0
    }
}
impl<RS> Ods<RS> {
    pub closed spec fn g_meta(&self) -> Metadata { self.metadata }
    pub closed spec fn sheet_formula(&self, name: &str) -> Option<Range<String>> {
        match named(self.sheets@, name) { Some(sd) => Some(sd.1), None => None }
    }
    pub closed spec fn sheet_range(&self, name: &str) -> Option<Range<Data>> {
        match named(self.sheets@, name) { Some(sd) => Some(sd.0), None => None }
    }
}

// Stand-in for the trait `Reader` of src/lib.rs, restricted to the methods under contract in this unit (signatures copied)
pub trait Reader<RS>: Sized
where
    RS: Read + Seek,
{
    type Error;
    fn new(reader: RS) -> Result<Self, Self::Error>;
    fn vba_project(&mut self) -> Option<Result<Cow<'_, VbaProject>, Self::Error>>;
    fn metadata(&self) -> &Metadata;
    fn worksheet_formula(&mut self, name: &str) -> Result<Range<String>, Self::Error>;
}

//@@ impl src/xls.rs "Reader<RS> for Xls<RS>"
//@@ item src/xls.rs impl_type "Reader<RS> for Xls<RS>::type Error"
//@@ fn src/xls.rs "Reader<RS> for Xls<RS>::new" props=C20,C16,C07 entry ret=r
//@@ sig
    ensures
        //# C07.xls_new_uses_default_options
        xls_new_run(reader, xls_default_options(), r),
//@@ end
//@@ fn src/xls.rs "Reader<RS> for Xls<RS>::vba_project" props=C07 ret=r
//@@ sig
    ensures
        //# C07.xls_vba_read_is_pure
        *final(self) == *old(self),
        //# C07.xls_vba_is_the_project_read_at_construction
        match old(self).g_vba() {
            None => r is None,
            Some(p) => r matches Some(Ok(Cow::Borrowed(b))) && *b == p,
        },
//@@ closure 0
    -> (res: Result<Cow<'_, VbaProject>, XlsError>) ensures
        //# C07.xls_vba_borrowed
        res matches Ok(Cow::Borrowed(b)) && b == vba
//@@ end
//@@ fn src/xls.rs "Reader<RS> for Xls<RS>::metadata" props=C16,C07 ret=r
//@@ sig
    ensures
        //# C16,C07.xls_metadata_is_stored_metadata
        *r == self.g_meta(),
//@@ end
//@@ fn src/xls.rs "Reader<RS> for Xls<RS>::worksheet_formula" props=C14,C07 ret=r
//@@ sig
    ensures
        //# C07.xls_formula_read_is_pure
        *final(self) == *old(self),
        //# C07,C14.xls_formula_unknown_sheet_is_error
        old(self).sheet_formula(name) is None ==> r is Err && r->Err_0 is WorksheetNotFound,
        //# C14.xls_formula_is_the_stored_range_of_that_sheet
        old(self).sheet_formula(name) is Some ==> r == Ok::<Range<String>, XlsError>(old(self).sheet_formula(name)->Some_0),
//@@ body
        proof { axiom_string_keyed_map(self.sheets@, name); }
//@@ closure 0
    -> (res: XlsError) ensures
        //# C07.xls_formula_unknown_sheet_error_kind
        res is WorksheetNotFound
//@@ closure 1
    -> (res: Range<String>) ensures
        //# C14.xls_formula_takes_the_formula_range
        res == r.formula
//@@ end
//@@ endimpl

// (the Reader impl of Ods is in `mod ods_reader` below: src/ods.rs has its own free fn check_for_password_protected)

// =====================================================================================================================
// Part 1 -- XlsxCellReader::new (src/xlsx/cells_reader.rs): the prologue of a sheet part.
// A-xml: GHOST MODEL OF quick-xml 0.37 (same text as in unit xlsxxml, reduced to what `new` touches).  Everything in this section is
// TRUSTED.  A reader owns the ghost sequence `events()` of the results its successive `read_event_into` calls deliver and a position
// `pos()`.  ASSUMED AND NOT VERIFIED: that quick-xml turns the bytes of the zip part into this sequence.
// =====================================================================================================================
pub enum EvKind { Start, End, Text, CData, Other, Error }
pub ghost struct Attr {
    pub key: Seq<u8>,     // qualified attribute name
    pub raw: Seq<u8>,     // value bytes as written between the quotes (what `Attribute::value` holds)
    pub val: Seq<char>,   // value with entity / character references resolved
    pub val_ok: bool,     // `decode_and_unescape_value` succeeds
    pub err: bool,        // malformed attribute: the `Attributes` iterator yields Err(AttrError) for it
}
pub ghost struct Ev {
    pub kind: EvKind,
    pub name: Seq<u8>,     // qualified tag name, e.g. `x:row` (Start / End)
    pub attrs: Seq<Attr>,  // attributes in document order (Start)
    pub raw: Seq<u8>,
    pub text: Seq<char>,
    pub text_ok: bool,
}
/// index of the first ':' of s at or after i, s.len() if none
pub open spec fn colon_at(s: Seq<u8>, i: int) -> int
    decreases s.len() - i
{
    if i < 0 || i >= s.len() { s.len() as int } else if s[i] == 0x3au8 { i } else { colon_at(s, i + 1) }
}
/// XML Namespaces: QName = (Prefix ':')? LocalPart -- the local part of a qualified name (quick-xml `QName::local_name`)
pub open spec fn local_of(name: Seq<u8>) -> Seq<u8> {
    let c = colon_at(name, 0);
    if c >= name.len() { name } else { name.subrange(c + 1, name.len() as int) }
}
impl Ev {
    pub open spec fn local(self) -> Seq<u8> { local_of(self.name) }
}
// TRUSTED: A-xml -- quick_xml::name::QName (a tuple struct over the qualified-name bytes)
pub struct QName<'a>(pub &'a [u8]);
// TRUSTED: A-xml -- quick_xml::name::LocalName
#[verifier::external_body]
pub struct LocalName<'a> { _p: core::marker::PhantomData<&'a ()> }
impl<'a> LocalName<'a> {
    pub uninterp spec fn bytes(&self) -> Seq<u8>;
    // TRUSTED: A-xml
    #[verifier::external_body]
    pub fn as_ref(&self) -> (r: &[u8]) ensures r@ == self.bytes() { unimplemented!() }
}
#[verifier::external_body]
pub struct BytesStart<'a> { _p: core::marker::PhantomData<&'a ()> }
#[verifier::external_body]
pub struct BytesEnd<'a> { _p: core::marker::PhantomData<&'a ()> }
#[verifier::external_body]
pub struct BytesText<'a> { _p: core::marker::PhantomData<&'a ()> }
#[verifier::external_body]
pub struct BytesCData<'a> { _p: core::marker::PhantomData<&'a ()> }
// TRUSTED: A-xml -- quick_xml::events::Event; `Other` stands for Comment / PI / Decl / DocType (never named by the verified code;
// `Empty` cannot occur with expand_empty_elements = true)
pub enum Event<'a> {
    Start(BytesStart<'a>),
    End(BytesEnd<'a>),
    Text(BytesText<'a>),
    CData(BytesCData<'a>),
    Other,
    Eof,
}
impl<'a> BytesStart<'a> {
    pub uninterp spec fn ev(&self) -> Ev;
    // TRUSTED: A-xml
    #[verifier::external_body]
    pub fn local_name(&self) -> (r: LocalName<'_>) ensures r.bytes() == self.ev().local() { unimplemented!() }
    // TRUSTED: A-xml
    #[verifier::external_body]
    pub fn attributes(&self) -> (r: Attributes<'_>) ensures r.rem() == self.ev().attrs { unimplemented!() }
}
impl<'a> BytesEnd<'a> { pub uninterp spec fn ev(&self) -> Ev; }
impl<'a> BytesText<'a> { pub uninterp spec fn ev(&self) -> Ev; }
impl<'a> BytesCData<'a> { pub uninterp spec fn ev(&self) -> Ev; }
// TRUSTED: A-std -- `Cow::deref` yields the borrowed or owned content; `cow_ref` names it
pub uninterp spec fn cow_ref<'a, 'b, B: ?Sized + ToOwned>(c: &'b Cow<'a, B>) -> &'b B;
pub assume_specification<'a, 'b, B: ?Sized + ToOwned>[ <Cow<'a, B> as Deref>::deref ](c: &'b Cow<'a, B>) -> (r: &'b B)
    ensures r == cow_ref(c), (*c matches Cow::Borrowed(b) ==> r == b);
// TRUSTED: A-std -- `to_string()` of a Cow<str> (through Display) is its content
pub broadcast axiom fn axiom_cow_to_string<'a>(t: &Cow<'a, str>, s: String)
    ensures #[trigger] vstd::string::to_string_from_display_ensures::<Cow<'a, str>>(t, s) <==> s@ == cow_ref(t)@;
// TRUSTED: A-xml -- quick_xml::encoding::Decoder: `decode` converts bytes to text in the document encoding and does nothing else
pub struct Decoder { _p: u8 }
/// text of a byte string in the document encoding; None: not decodable
pub uninterp spec fn decoded(bytes: Seq<u8>) -> Option<Seq<char>>;
impl Decoder {
    #[verifier::external_body]
    pub fn decode<'b>(&self, bytes: &'b [u8]) -> (r: Result<Cow<'b, str>, quick_xml::encoding::EncodingError>)
        ensures match decoded(bytes@) { Some(t) => r is Ok && cow_ref(&r->Ok_0)@ == t, None => r is Err },
    { unimplemented!() }
}
// TRUSTED: A-xml -- quick_xml::events::attributes::{Attribute, Attributes}: `BytesStart::attributes()` iterates over the attributes of
// the start tag in document order; each item is Ok(Attribute { key, value }) with the qualified attribute name and the RAW value bytes
// borrowed from the tag, or Err(AttrError) for a malformed attribute.
pub struct Attribute<'a> { pub key: QName<'a>, pub value: Cow<'a, [u8]> }
#[verifier::external_body]
pub struct Attributes<'a> { _p: core::marker::PhantomData<&'a ()> }
impl<'a> Attributes<'a> {
    /// attributes not yet handed out
    pub uninterp spec fn rem(&self) -> Seq<Attr>;
}
impl<'a> Iterator for Attributes<'a> {
    type Item = Result<Attribute<'a>, quick_xml::events::attributes::AttrError>;
    // TRUSTED: A-xml
    #[verifier::external_body]
    fn next(&mut self) -> (r: Option<Result<Attribute<'a>, quick_xml::events::attributes::AttrError>>)
        ensures
            old(self).rem().len() == 0 ==> r is None && final(self).rem() == old(self).rem(),
            old(self).rem().len() > 0 ==> r is Some && final(self).rem() == old(self).rem().skip(1)
                && (old(self).rem()[0].err ==> r->Some_0 is Err)
                && (!old(self).rem()[0].err ==> r->Some_0 is Ok && (r->Some_0->Ok_0).key.0@ == old(self).rem()[0].key
                     && ((r->Some_0->Ok_0).value matches Cow::Borrowed(v) && v@ == old(self).rem()[0].raw)),
    { unimplemented!() }
}
impl<'a> vstd::std_specs::iter::IteratorSpecImpl for Attributes<'a> {
    open spec fn obeys_prophetic_iter_laws(&self) -> bool { false }
    uninterp spec fn remaining(&self) -> Seq<Result<Attribute<'a>, quick_xml::events::attributes::AttrError>>;
    uninterp spec fn will_return_none(&self) -> bool;
    uninterp spec fn decrease(&self) -> Option<nat>;
    uninterp spec fn peek(&self, i: int) -> Option<Result<Attribute<'a>, quick_xml::events::attributes::AttrError>>;
}
pub enum AttrLookup { Malformed, Found(Seq<u8>), Absent }
/// XML: the value of the attribute named `key` in an attribute list (names are unique in a well-formed start tag, so the first
/// match is the match); Malformed if a syntactically broken attribute precedes it
pub open spec fn attr_scan(attrs: Seq<Attr>, key: Seq<u8>) -> AttrLookup
    decreases attrs.len()
{
    if attrs.len() == 0 { AttrLookup::Absent }
    else if attrs[0].err { AttrLookup::Malformed }
    else if attrs[0].key =~= key { AttrLookup::Found(attrs[0].raw) }
    else { attr_scan(attrs.skip(1), key) }
}
/// the result `read_event_into` delivers for the ghost event e
pub open spec fn ev_result<'b>(r: Result<Event<'b>, quick_xml::Error>, e: Ev) -> bool {
    match e.kind {
        EvKind::Start => r matches Ok(Event::Start(b)) && b.ev() == e,
        EvKind::End => r matches Ok(Event::End(b)) && b.ev() == e,
        EvKind::Text => r matches Ok(Event::Text(b)) && b.ev() == e,
        EvKind::CData => r matches Ok(Event::CData(b)) && b.ev() == e,
        EvKind::Other => r matches Ok(Event::Other),
        EvKind::Error => r is Err,
    }
}
// TRUSTED: A-xml -- quick_xml::Reader<BufReader<ZipFile>> (type alias XlReader of src/xlsx/mod.rs)
#[verifier::external_body]
pub struct XlReader<'a> { _p: core::marker::PhantomData<&'a ()> }
impl<'a> XlReader<'a> {
    pub uninterp spec fn events(&self) -> Seq<Ev>;
    pub uninterp spec fn pos(&self) -> nat;
    pub open spec fn left(&self) -> int { if self.pos() >= self.events().len() { 0 } else { self.events().len() - self.pos() } }
    // TRUSTED: A-xml -- Reader::decoder(): does not touch the reader
    #[verifier::external_body]
    pub fn decoder(&self) -> (r: Decoder) { unimplemented!() }
    // TRUSTED: A-xml -- returns events[pos] and advances; at the end of input returns Eof for ever
    #[verifier::external_body]
    pub fn read_event_into<'b>(&mut self, buf: &'b mut Vec<u8>) -> (r: Result<Event<'b>, quick_xml::Error>)
        ensures
            final(self).events() == old(self).events(),
            old(self).pos() >= old(self).events().len() ==> (r matches Ok(Event::Eof)) && final(self).pos() == old(self).pos(),
            old(self).pos() < old(self).events().len() ==>
                final(self).pos() == old(self).pos() + 1 && ev_result(r, old(self).events()[old(self).pos() as int]),
    { unimplemented!() }
}
// TRUSTED: A-lit -- Verus keeps the contents of byte-string literals uninterpreted (only their length is known); the bytes of the
// literals the verified code compares names with are stated here (ASCII)
#[verifier::external_body]
pub proof fn axiom_bytelits()
    ensures b"dimension"@ == n_dimension(), b"sheetData"@ == n_sheetdata(), b"ref"@ == n_ref(),
{}
pub open spec fn n_dimension() -> Seq<u8> { seq![0x64u8, 0x69u8, 0x6du8, 0x65u8, 0x6eu8, 0x73u8, 0x69u8, 0x6fu8, 0x6eu8] }
pub open spec fn n_sheetdata() -> Seq<u8> { seq![0x73u8, 0x68u8, 0x65u8, 0x65u8, 0x74u8, 0x44u8, 0x61u8, 0x74u8, 0x61u8] }
pub open spec fn n_ref() -> Seq<u8> { seq![0x72u8, 0x65u8, 0x66u8] }
/// (proved) `slice == byte-string literal` (vstd: same length and pointwise equal) is equality of the byte sequences
pub broadcast proof fn lemma_bytes_eq_array<const N: usize>(a: &[u8], b: &[u8; N])
    ensures #[trigger] <[u8] as PartialEqSpec<[u8; N]>>::eq_spec(a, b) <==> a@ == b@
{
    if <[u8] as PartialEqSpec<[u8; N]>>::eq_spec(a, b) { assert(a@ =~= b@); }
}

//@@ item src/xlsx/mod.rs enum XlsxError
// what `from_err!(quick_xml::encoding::EncodingError, XlsxError, Encoding)` (macro of src/utils.rs) expands to
impl From<quick_xml::encoding::EncodingError> for XlsxError { fn from(e: quick_xml::encoding::EncodingError) -> (r: XlsxError) { XlsxError::Encoding(e) } }
impl vstd::std_specs::convert::FromSpecImpl<quick_xml::encoding::EncodingError> for XlsxError {
    open spec fn obeys_from_spec() -> bool { true }
    open spec fn from_spec(e: quick_xml::encoding::EncodingError) -> Self { XlsxError::Encoding(e) }
}
// TRUSTED: `#[derive(Default)]` on `struct Dimensions` (both corners (0, 0))
pub assume_specification[ <Dimensions as Default>::default ]() -> (r: Dimensions)
    ensures r == (Dimensions { start: (0u32, 0u32), end: (0u32, 0u32) });

/// ST_Ref (ECMA-376 18.18.62) `A1` or `A1:B2` -> corners; None: not a reference.  Abstract here: DEFINED in unit xlsxxml (`dim_of`).
pub uninterp spec fn dim_of(s: Seq<u8>) -> Option<Dimensions>;
// TRUSTED: contract of unit xlsxxml (there itself assumed: iterator adapters outside Verus' reach; the A1 decoding below it is proved in
// units a1 / xlsxxml) -- clause text copied
#[verifier::external_body]
pub fn get_dimension(dimension: &[u8]) -> (r: Result<Dimensions, XlsxError>)
    ensures
        dim_of(dimension@) is Some ==> r == Ok::<Dimensions, XlsxError>(dim_of(dimension@)->Some_0),
{ unimplemented!() }

//@@ item src/xlsx/cells_reader.rs type FormulaMap
//@@ item src/xlsx/cells_reader.rs struct XlsxCellReader

/// the shared context a cell reader decodes values with, and its implicit position cursor (same ghost views as in unit xlsxxml, where
/// `next_cell` is under contract: `next_scan(g_events, g_pos, g_cur, g_cx)`)
pub ghost struct ShCtx { pub strings: Seq<String>, pub formats: Seq<CellFormat>, pub is_1904: bool }
pub ghost struct Cur { pub row: int, pub col: int }
impl<'a> XlsxCellReader<'a> {
    pub closed spec fn g_events(&self) -> Seq<Ev> { self.xml.events() }
    pub closed spec fn g_pos(&self) -> nat { self.xml.pos() }
    pub closed spec fn g_cur(&self) -> Cur { Cur { row: self.row_index as int, col: self.col_index as int } }
    pub closed spec fn g_cx(&self) -> ShCtx { ShCtx { strings: self.strings@, formats: self.formats@, is_1904: self.is_1904 } }
    pub closed spec fn g_dims(&self) -> Dimensions { self.dimensions }
}

// ---- Specification (ECMA-376 18.3.1.99 worksheet, CT_Worksheet: sheetPr?, dimension?, sheetViews?, sheetFormatPr?, cols*, sheetData, ...;
// 18.3.1.35 dimension: "This element specifies the used range of the worksheet ... optional and is not required"; 18.3.1.80 sheetData:
// "the cell table").  The cells of a sheet part are the content of its sheetData element, whatever precedes it.
/// index of the first `sheetData` start tag at or after i that the reader reaches without error; ev.len() if there is none.
/// By definition this looks at event kinds and local names only: NOT at any attribute (in particular not at `<dimension ref>`).
pub open spec fn sheetdata_at(ev: Seq<Ev>, i: int) -> int
    decreases ev.len() - i
{
    if i < 0 || i >= ev.len() { ev.len() as int }
    else if ev[i].kind is Error { ev.len() as int }
    else if ev[i].kind is Start && ev[i].local() =~= n_sheetdata() { i }
    else { sheetdata_at(ev, i + 1) }
}
pub enum Prologue {
    /// a worksheet: the `sheetData` start tag is event `at`; `dims`: the declared used range (the hint), (0,0)-(0,0) if none is declared
    Cells { at: int, dims: Dimensions },
    /// the part ends without a sheetData element: some other kind of sheet (chartsheet, dialogsheet): name of its first element
    NotWorksheet { first: Seq<char> },
    /// the part has no element at all
    NoElement,
    /// reader error / malformed `dimension` element / undecodable element name: outside the domain of the functional clauses
    Bad,
}
/// the prologue of a sheet part read from event i on; `dims`: last declared dimension so far, `first`: first element name seen so far
pub open spec fn pro_scan(ev: Seq<Ev>, i: int, dims: Dimensions, first: Option<Seq<char>>) -> Prologue
    decreases ev.len() - i
{
    if i < 0 || i >= ev.len() { match first { Some(t) => Prologue::NotWorksheet { first: t }, None => Prologue::NoElement } }
    else {
        let e = ev[i];
        if e.kind is Error { Prologue::Bad }
        else if e.kind is Start {
            if e.local() =~= n_dimension() {
                match attr_scan(e.attrs, n_ref()) {
                    AttrLookup::Found(raw) => match dim_of(raw) { Some(d) => pro_scan(ev, i + 1, d, first), None => Prologue::Bad },
                    _ => Prologue::Bad,     // ref is a required attribute (CT_SheetDimension)
                }
            } else if e.local() =~= n_sheetdata() { Prologue::Cells { at: i, dims: dims } }
            else if first is None { match decoded(e.local()) { Some(t) => pro_scan(ev, i + 1, dims, Some(t)), None => Prologue::Bad } }
            else { pro_scan(ev, i + 1, dims, first) }
        } else { pro_scan(ev, i + 1, dims, first) }
    }
}
pub open spec fn sview(s: Option<String>) -> Option<Seq<char>> { match s { Some(t) => Some(t@), None => None } }
pub open spec fn dims0() -> Dimensions { Dimensions { start: (0u32, 0u32), end: (0u32, 0u32) } }

/// the start position does not depend on the declared dimension (nor on any attribute): two event sequences with the same kinds and
/// names have their cells at the same place
proof fn lemma_dimension_is_only_a_hint(a: Seq<Ev>, b: Seq<Ev>, i: int)
    requires a.len() == b.len(), forall|k: int| 0 <= k < a.len() ==> (#[trigger] a[k]).kind == b[k].kind && a[k].name == b[k].name,
    ensures
        //# C01.cells_start_independent_of_attributes
        sheetdata_at(a, i) == sheetdata_at(b, i),
    decreases a.len() - i,
{
    if 0 <= i < a.len() { lemma_dimension_is_only_a_hint(a, b, i + 1); }
}
/// a part without dimension element is fine: <worksheet><sheetData> opens with the default hint, cells after event 1
proof fn witness_pro_scan(w: Ev, sd: Ev)
    requires w.kind is Start, sd.kind is Start, sd.local() == n_sheetdata(), w.local() != n_sheetdata(), w.local() != n_dimension(), decoded(w.local()) is Some,
    ensures
        //# C01.missing_dimension_is_fine
        pro_scan(seq![w, sd], 0, dims0(), None) == (Prologue::Cells { at: 1, dims: dims0() }),
        sheetdata_at(seq![w, sd], 0) == 1,
{
    reveal_with_fuel(pro_scan, 3);
    reveal_with_fuel(sheetdata_at, 3);
    assert(n_sheetdata().len() == n_dimension().len());
    assert(n_sheetdata()[0] != n_dimension()[0]);
}
proof fn lemma_sheetdata_at_bounds(ev: Seq<Ev>, i: int)
    requires 0 <= i,
    ensures i <= sheetdata_at(ev, i) || sheetdata_at(ev, i) == ev.len(), sheetdata_at(ev, i) <= ev.len(),
        sheetdata_at(ev, i) < ev.len() ==> ev[sheetdata_at(ev, i)].kind is Start && ev[sheetdata_at(ev, i)].local() =~= n_sheetdata(),
    decreases ev.len() - i,
{
    if i < ev.len() { lemma_sheetdata_at_bounds(ev, i + 1); }
}

// (verified helper) the pattern `Attribute { key: QName(b"..."), value: v }` matches exactly when the key bytes equal the literal, and
// then binds the value
fn verif_attr_value_if_key<'a>(a: Attribute<'a>, k: &[u8]) -> (r: Option<Cow<'a, [u8]>>)
    ensures r == (if a.key.0@ == k@ { Some(a.value) } else { None::<Cow<'a, [u8]>> }),
{
    broadcast use lemma_bytes_eq_slice;
    if a.key.0 == k { Some(a.value) } else { None }
}
/// (proved) `&a[..]` is the whole array
pub broadcast proof fn lemma_subrange_full(s: Seq<u8>)
    ensures #[trigger] s.subrange(0, s.len() as int) == s
{
    assert(s.subrange(0, s.len() as int) =~= s);
}
pub broadcast proof fn lemma_bytes_eq_slice(a: &[u8], b: &[u8])
    ensures #[trigger] <[u8] as PartialEqSpec<[u8]>>::eq_spec(a, b) <==> a@ == b@
{
    if <[u8] as PartialEqSpec<[u8]>>::eq_spec(a, b) { assert(a@ =~= b@); }
}

//@@ impl src/xlsx/cells_reader.rs XlsxCellReader
#[verifier::loop_isolation(false)]
#[verifier::allow_complex_invariants]
//@@ fn src/xlsx/cells_reader.rs XlsxCellReader::new props=C01 entry ret=r mutparams
//@@ r6 1
//@@ replace /\.map_err\((XlsxError::Xml)\)\?/ Verus: "using a datatype constructor as a function value" unsupported; eta-expanded, same function
.map_err(|e| -> (x: XlsxError) ensures x == \g<1>(e) { \g<1>(e) })?
//@@ replace /if let Attribute \{\s*key: QName\((b"[^"]*")\),\s*value: (\w+),?\s*\} = a\.map_err\((XlsxError::XmlAttr)\)\?/ Verus crashes on byte-string literal patterns: the pattern test (key bytes equal the literal; binds the value) is moved into the verified helper verif_attr_value_if_key with the literal kept verbatim; `map_err(Variant)` eta-expanded
if let Some(\g<2>) = verif_attr_value_if_key(a.map_err(|e| -> (x: XlsxError) ensures x == \g<3>(e) { \g<3>(e) })?, \g<1>)
//@@ replace /(b"\w+") =>/#0of2 Verus crashes on byte-string literal patterns: the slice is bound and compared in a guard (same test, same arm order); the literal is kept verbatim
__n if __n == \g<1> =>
//@@ replace /(b"\w+") =>/#1of2 (same)
__n if __n == \g<1> =>
//@@ sig
    ensures
        //# C01.cells_start_right_after_the_sheetdata_tag
        r is Ok ==> sheetdata_at(__p_xml.events(), __p_xml.pos() as int) < __p_xml.events().len()
            && (r->Ok_0).g_pos() == sheetdata_at(__p_xml.events(), __p_xml.pos() as int) + 1,
        //# C01.cells_reader_reads_that_part
        r is Ok ==> (r->Ok_0).g_events() == __p_xml.events(),
        //# C01.cursor_starts_at_origin
        r is Ok ==> (r->Ok_0).g_cur() == (Cur { row: 0, col: 0 }),
        //# C01,C16.cells_reader_context_is_the_arguments
        r is Ok ==> (r->Ok_0).g_cx() == (ShCtx { strings: strings@, formats: formats@, is_1904: is_1904 }),
        //# C01.no_sheetdata_is_error
        sheetdata_at(__p_xml.events(), __p_xml.pos() as int) >= __p_xml.events().len() ==> r is Err,
        //# C01.wellformed_prologue_opens
        pro_scan(__p_xml.events(), __p_xml.pos() as int, dims0(), None) matches Prologue::Cells { at, dims } ==> r is Ok && (r->Ok_0).g_dims() == dims,
        //# C07.part_without_sheetdata_is_not_a_worksheet
        pro_scan(__p_xml.events(), __p_xml.pos() as int, dims0(), None) matches Prologue::NotWorksheet { first } ==>
            (r matches Err(XlsxError::NotAWorksheet(t)) && t@ == first),
        //# C07.part_without_elements_is_eof_error
        pro_scan(__p_xml.events(), __p_xml.pos() as int, dims0(), None) is NoElement ==> r is Err && r->Err_0 is XmlEof,
//@@ body
        broadcast use {lemma_bytes_eq_array, axiom_cow_to_string};
        let ghost ev = xml.events();
        let ghost p0 = xml.pos() as int;
        let ghost tot = pro_scan(ev, p0, dims0(), None);
        let ghost good = !(tot is Bad);
        proof {
            axiom_bytelits();
            assert(n_sheetdata()[0] != n_dimension()[0]);
            lemma_sheetdata_at_bounds(ev, p0);
        }
//@@ loop 0
            invariant_except_break
                //# C01,C07.prologue_walk_follows_the_schema
                good ==> pro_scan(ev, xml.pos() as int, dimensions, sview(sh_type)) == tot,
                //# C01.no_sheetdata_tag_passed_over
                sheetdata_at(ev, xml.pos() as int) == sheetdata_at(ev, p0),
            invariant
                ev == __p_xml.events(), p0 == __p_xml.pos(), xml.events() == ev, xml.pos() >= p0,
                tot == pro_scan(ev, p0, dims0(), None), good == !(tot is Bad),
                b"dimension"@ == n_dimension(), b"sheetData"@ == n_sheetdata(), b"ref"@ == n_ref(), !(n_sheetdata() =~= n_dimension()),
            ensures
                //# C01.loop_stops_at_the_first_sheetdata_tag
                xml.pos() >= 1 && xml.pos() - 1 < ev.len() && sheetdata_at(ev, p0) == xml.pos() - 1,
                //# C01.dimension_hint_is_the_declared_one
                good ==> tot == (Prologue::Cells { at: xml.pos() - 1, dims: dimensions }),
            decreases xml.left(),
//@@ before /match xml\.read_event_into\(&mut buf\)/
            let ghost gp = xml.pos() as int;
            let ghost dims_in = dimensions;
//@@ loop 1
                            invariant_except_break
                                //# C01.dimension_ref_attribute_lookup
                                attr_scan(__it1.rem(), n_ref()) == attr_scan(ev[gp].attrs, n_ref()),
                            invariant
                                b"dimension"@ == n_dimension(), b"sheetData"@ == n_sheetdata(), b"ref"@ == n_ref(), !(n_sheetdata() =~= n_dimension()),
                                ev == __p_xml.events(), p0 == __p_xml.pos(), xml.events() == ev, xml.pos() == gp + 1, gp >= p0, gp < ev.len(),
                                tot == pro_scan(ev, p0, dims0(), None), good == !(tot is Bad),
                                ev[gp].kind is Start && ev[gp].local() =~= n_dimension(),
                                dimensions == dims_in,
                                good ==> pro_scan(ev, gp, dims_in, sview(sh_type)) == tot,
                                sheetdata_at(ev, gp + 1) == sheetdata_at(ev, p0),
                            ensures
                                attr_scan(ev[gp].attrs, n_ref()) is Absent,
                            decreases __it1.rem().len(),
//@@ before /for a in e\.attributes/
                        proof { assert(gp < ev.len() && ev[gp].kind is Start && e.ev() == ev[gp]); }
//@@ end
//@@ endimpl

// =====================================================================================================================
// Part 2 -- the constructors.  Every callee is a TRUSTED stand-in (signature copied from the source) whose contract is a RELATION
// `x_rel(state before, state after, result)`: "one call can take the state from .. to .. with this result".  The relation is the
// conjunction of the clauses PROVED on the callee's real text in the unit named next to it (clause text copied where this unit uses it,
// the remainder left uninterpreted = nothing assumed).  A constructor's postcondition is the COMPOSITION of these relations in the order
// the properties require: C20 the password check decides before any other part can fail differently; C16 the metadata / strings / formats
// of the constructed reader are what the part readers returned, starting from an empty reader; C07 the options are the defaults (or the
// ones handed in) and a failing part reader makes the constructor fail with that very error -- never a half-initialised reader.
// =====================================================================================================================
// TRUSTED: the `?` operator converts the error with `From::from` (Rust reference, `FromResidual for Result`); vstd leaves
// this link (`spec_from`) uninterpreted. The `From` impls below are verified against their expansion.  (Same text as in unit cfb.)
#[verifier::external_body]
pub broadcast proof fn axiom_question_mark_from<S: From<T>, T>(e: T, r: S)
    ensures #[trigger] vstd::std_specs::control_flow::spec_from::<S, T>(e, r) ==> call_ensures(<S as From<T>>::from, (e,), r) {}

// TRUSTED: A-std -- `Result::unwrap_or_default` ("Returns the contained Ok value or a default"; vstd has the Option twin): not called
// by the verified text; present so that an edit replacing a `?` by them is verified against the contracts, not rejected
pub assume_specification<T: Default, E>[ Result::<T, E>::unwrap_or_default ](r: Result<T, E>) -> (o: T)
    ensures r matches Ok(v) ==> o == v;

// TRUSTED: A-std -- Option::transpose: "None -> Ok(None), Some(Ok(x)) -> Ok(Some(x)), Some(Err(e)) -> Err(e)" (same text as in unit odsxml):
// not called by the verified text; present so that an edit using it is verified against the contracts, not rejected
pub assume_specification<T, E>[ Option::<Result<T, E>>::transpose ](o: Option<Result<T, E>>) -> (r: Result<Option<T>, E>)
    ensures
        o is None ==> r == Ok::<Option<T>, E>(None),
        o matches Some(Ok(x)) ==> r == Ok::<Option<T>, E>(Some(x)),
        o matches Some(Err(e)) ==> r == Err::<Option<T>, E>(e);

// ---- A-zip: the zip container.  TRUSTED: `ZipArchive` is a stand-in for zip::read::ZipArchive (opaque).
#[verifier::external_body]
#[verifier::accept_recursive_types(RS)]
pub struct ZipArchive<RS> { _p: core::marker::PhantomData<RS> }
/// `ZipArchive::new(reader)` can return r (central directory parsing: not modelled)
pub uninterp spec fn zip_new_rel<RS>(reader: RS, r: Result<ZipArchive<RS>, ZipError>) -> bool;
impl<RS: Read + Seek> ZipArchive<RS> {
    // TRUSTED: A-zip -- signature of zip::read::ZipArchive::new
    #[verifier::external_body]
    pub fn new(reader: RS) -> (r: Result<ZipArchive<RS>, ZipError>)
        ensures zip_new_rel(reader, r),
    { unimplemented!() }
}

// ---- xlsx
//@@ item src/xlsx/mod.rs type Tables
//@@ item src/xlsx/mod.rs struct Xlsx cfg_off=picture
//@@ item src/xlsx/mod.rs struct XlsxOptions
// what `from_err!(zip::result::ZipError, XlsxError, Zip)` (macro of src/utils.rs) expands to
impl From<ZipError> for XlsxError { fn from(e: ZipError) -> (r: XlsxError) ensures r == XlsxError::Zip(e) { XlsxError::Zip(e) } }
impl vstd::std_specs::convert::FromSpecImpl<ZipError> for XlsxError {
    open spec fn obeys_from_spec() -> bool { true }
    open spec fn from_spec(e: ZipError) -> Self { XlsxError::Zip(e) }
}
// TRUSTED: expansion of `#[derive(Default)]` on XlsxOptions / Metadata (`#[default] FirstNonEmptyRow` on HeaderRow; empty Vecs)
impl Default for XlsxOptions {
    fn default() -> (r: Self) ensures r.is_default() { XlsxOptions { header_row: HeaderRow::FirstNonEmptyRow } }
}
impl XlsxOptions {
    pub closed spec fn is_default(&self) -> bool { self.header_row == HeaderRow::FirstNonEmptyRow }
}
impl Default for Metadata {
    fn default() -> (r: Self) ensures r.is_empty() { Metadata { sheets: Vec::new(), names: Vec::new() } }
}
impl Metadata {
    pub closed spec fn is_empty(&self) -> bool { self.sheets@.len() == 0 && self.names@.len() == 0 }
}

// [MS-CFB] vocabulary of unit cfb (DEFINED there; abstract here except `has_name`)
pub ghost struct DirEnt { pub name: Seq<char>, pub start: u32, pub len: nat }
pub ghost struct Parsed { pub dirs: Seq<DirEnt> }
/// the compound-file header is acceptable (signature, sector shifts)
pub uninterp spec fn hdr_valid(h: Seq<u8>) -> bool;
pub uninterp spec fn hdr_signature_ok(h: Seq<u8>) -> bool;
/// the container [MS-CFB] describes (directory entries ...), None: not a well-formed compound file (for this fuel)
pub uninterp spec fn cfb_parse(inp: Seq<u8>, fuel: nat) -> Option<Parsed>;
pub open spec fn has_name(ds: Seq<DirEnt>, n: Seq<char>) -> bool { exists|i: int| 0 <= i < ds.len() && (#[trigger] ds[i]).name == n }

/// TRUSTED: contract PROVED in unit cfb on the real text of src/xlsx/mod.rs check_for_password_protected (clauses C20.non_cfb_never_password,
/// C20.password_iff_encrypted_package, C20.password_only_for_cfb: text copied; `old(reader)` = o, `final(reader)` = n)
pub open spec fn xlsx_pw_rel<RS: Read + Seek>(o: RS, n: RS, res: Result<(), XlsxError>) -> bool {
    &&& !hdr_signature_ok(o.content()) ==> (match res { Ok(_) => true, Err(e) => e is Io })
    &&& forall|fuel: nat| #[trigger] cfb_parse(o.content(), fuel) is Some ==> (match res {
            Ok(_) => !has_name(cfb_parse(o.content(), fuel).unwrap().dirs, "EncryptedPackage"@) || n.io_failed(),
            Err(e) => e is Io || (e is Password && has_name(cfb_parse(o.content(), fuel).unwrap().dirs, "EncryptedPackage"@)),
        })
    &&& (res matches Err(e) && e is Password ==> hdr_valid(o.content()))
}
/// the atom the composition is stated over (carries `xlsx_pw_rel`)
pub uninterp spec fn xlsx_pw_call<RS>(o: RS, n: RS, res: Result<(), XlsxError>) -> bool;
#[verifier::external_body]
fn check_for_password_protected<RS: Read + Seek>(reader: &mut RS) -> (res: Result<(), XlsxError>)
    ensures xlsx_pw_call(*old(reader), *final(reader), res), xlsx_pw_rel(*old(reader), *final(reader), res),
{ unimplemented!() }

/// TRUSTED: one call of Xlsx::read_shared_strings (contract PROVED in unit xlsxxml: C19.sst_absent_part, C01,C19.sst_items_in_order,
/// C01,C19.sst_index_alignment), Xlsx::read_styles (unit xlsxparts: C10.read_styles_frame, C10.absent_styles_part, C10.xlsx_style_table),
/// Xlsx::read_relationships (unit xlsxparts: C01.read_relationships_frame, C01,C07.missing_relationships_part_is_an_error,
/// C01.relationship_targets_by_id), Xlsx::read_workbook (unit xlsxwb: C07.read_workbook_frame, C16.sheets_and_metadata_aligned,
/// C16.absent_workbook_part, C16.wellformed_workbook_is_read, C16.sheets_in_document_order, C16.defined_names_in_order,
/// C16.date1904_from_workbookPr) can take the reader from o to n with result r.  This unit composes the calls and looks at none of the clauses.
pub uninterp spec fn xlsx_sst_rel<RS>(o: Xlsx<RS>, n: Xlsx<RS>, r: Result<(), XlsxError>) -> bool;
pub uninterp spec fn xlsx_styles_rel<RS>(o: Xlsx<RS>, n: Xlsx<RS>, r: Result<(), XlsxError>) -> bool;
pub uninterp spec fn xlsx_rels_rel<RS>(o: Xlsx<RS>, n: Xlsx<RS>, r: Result<BTreeMap<Vec<u8>, String>, XlsxError>) -> bool;
pub uninterp spec fn xlsx_wb_rel<RS>(o: Xlsx<RS>, rels: BTreeMap<Vec<u8>, String>, n: Xlsx<RS>, r: Result<(), XlsxError>) -> bool;
impl<RS: Read + Seek> Xlsx<RS> {
    #[verifier::external_body]
    fn read_shared_strings(&mut self) -> (r: Result<(), XlsxError>)
        ensures xlsx_sst_rel(*old(self), *final(self), r),
    { unimplemented!() }
    #[verifier::external_body]
    fn read_styles(&mut self) -> (r: Result<(), XlsxError>)
        ensures xlsx_styles_rel(*old(self), *final(self), r),
    { unimplemented!() }
    #[verifier::external_body]
    fn read_relationships(&mut self) -> (r: Result<BTreeMap<Vec<u8>, String>, XlsxError>)
        ensures xlsx_rels_rel(*old(self), *final(self), r),
    { unimplemented!() }
    #[verifier::external_body]
    fn read_workbook(&mut self, relationships: &BTreeMap<Vec<u8>, String>) -> (r: Result<(), XlsxError>)
        ensures xlsx_wb_rel(*old(self), *relationships, *final(self), r),
    { unimplemented!() }
}
impl<RS> Xlsx<RS> {
    /// a reader over `zip` that has read nothing yet: no strings, formats, sheets, metadata; 1900 date system; lazy caches (tables, merged
    /// regions) not loaded; header-row option at its default
    pub closed spec fn fresh(&self, zip: ZipArchive<RS>) -> bool {
        &&& self.zip == zip
        &&& self.strings@.len() == 0 && self.formats@.len() == 0 && self.sheets@.len() == 0
        &&& !self.is_1904
        &&& self.tables is None && self.merged_regions is None
        &&& self.metadata.is_empty()
        &&& self.options.is_default()
    }
}
/// C20 / C16 / C07: `Xlsx::new(reader)` returns r -- the password check on the raw reader first (its error is THE result), then the zip
/// directory, then from a fresh reader: shared strings, styles, relationships, workbook (over exactly these relationships); the first
/// error ends the construction and is returned as it is; otherwise the reader is the state the last part reader left
pub open spec fn xlsx_new_run<RS: Read + Seek>(reader: RS, r: Result<Xlsx<RS>, XlsxError>) -> bool {
    exists|r1: RS, pw: Result<(), XlsxError>| #[trigger] xlsx_pw_call(reader, r1, pw) && match pw {
        Err(e) => r == Err::<Xlsx<RS>, XlsxError>(e),
        Ok(_) => xlsx_run_zip(r1, r),
    }
}
pub open spec fn xlsx_run_zip<RS: Read + Seek>(r1: RS, r: Result<Xlsx<RS>, XlsxError>) -> bool {
    exists|zr: Result<ZipArchive<RS>, ZipError>| #[trigger] zip_new_rel(r1, zr) && match zr {
        Err(e) => r == Err::<Xlsx<RS>, XlsxError>(XlsxError::Zip(e)),
        Ok(zip) => xlsx_run_sst(zip, r),
    }
}
pub open spec fn xlsx_run_sst<RS: Read + Seek>(zip: ZipArchive<RS>, r: Result<Xlsx<RS>, XlsxError>) -> bool {
    exists|x0: Xlsx<RS>, x1: Xlsx<RS>, ss: Result<(), XlsxError>| x0.fresh(zip) && #[trigger] xlsx_sst_rel(x0, x1, ss) && match ss {
        Err(e) => r == Err::<Xlsx<RS>, XlsxError>(e),
        Ok(_) => xlsx_run_styles(x1, r),
    }
}
pub open spec fn xlsx_run_styles<RS: Read + Seek>(x1: Xlsx<RS>, r: Result<Xlsx<RS>, XlsxError>) -> bool {
    exists|x2: Xlsx<RS>, st: Result<(), XlsxError>| #[trigger] xlsx_styles_rel(x1, x2, st) && match st {
        Err(e) => r == Err::<Xlsx<RS>, XlsxError>(e),
        Ok(_) => xlsx_run_rels(x2, r),
    }
}
pub open spec fn xlsx_run_rels<RS: Read + Seek>(x2: Xlsx<RS>, r: Result<Xlsx<RS>, XlsxError>) -> bool {
    exists|x3: Xlsx<RS>, rl: Result<BTreeMap<Vec<u8>, String>, XlsxError>| #[trigger] xlsx_rels_rel(x2, x3, rl) && match rl {
        Err(e) => r == Err::<Xlsx<RS>, XlsxError>(e),
        Ok(m) => xlsx_run_wb(x3, m, r),
    }
}
pub open spec fn xlsx_run_wb<RS: Read + Seek>(x3: Xlsx<RS>, m: BTreeMap<Vec<u8>, String>, r: Result<Xlsx<RS>, XlsxError>) -> bool {
    exists|x4: Xlsx<RS>, wb: Result<(), XlsxError>| #[trigger] xlsx_wb_rel(x3, m, x4, wb) && match wb {
        Err(e) => r == Err::<Xlsx<RS>, XlsxError>(e),
        Ok(_) => r == Ok::<Xlsx<RS>, XlsxError>(x4),
    }
}

// ---- xls
// TRUSTED: 64-bit target (usize is 8 bytes): `seek(..)? as usize` keeps the stream length
global size_of usize == 8;
// what `from_err!(std::io::Error, XlsError, Io)` / `from_err!(crate::cfb::CfbError, XlsError, Cfb)` / `from_err!(crate::vba::VbaError, XlsError, Vba)` expand to
impl From<std::io::Error> for XlsError { fn from(e: std::io::Error) -> (r: XlsError) ensures r == XlsError::Io(e) { XlsError::Io(e) } }
impl vstd::std_specs::convert::FromSpecImpl<std::io::Error> for XlsError {
    open spec fn obeys_from_spec() -> bool { true }
    open spec fn from_spec(e: std::io::Error) -> Self { XlsError::Io(e) }
}
impl From<CfbError> for XlsError { fn from(e: CfbError) -> (r: XlsError) ensures r == XlsError::Cfb(e) { XlsError::Cfb(e) } }
impl vstd::std_specs::convert::FromSpecImpl<CfbError> for XlsError {
    open spec fn obeys_from_spec() -> bool { true }
    open spec fn from_spec(e: CfbError) -> Self { XlsError::Cfb(e) }
}
impl From<vba::VbaError> for XlsError { fn from(e: vba::VbaError) -> (r: XlsError) ensures r == XlsError::Vba(e) { XlsError::Vba(e) } }
impl vstd::std_specs::convert::FromSpecImpl<vba::VbaError> for XlsError {
    open spec fn obeys_from_spec() -> bool { true }
    open spec fn from_spec(e: vba::VbaError) -> Self { XlsError::Vba(e) }
}
// TRUSTED: expansion of `#[derive(Default)]` on XlsOptions (no forced code page; `#[default] FirstNonEmptyRow`)
impl Default for XlsOptions {
    fn default() -> (r: Self) ensures r == xls_default_options() { XlsOptions { force_codepage: None, header_row: HeaderRow::FirstNonEmptyRow } }
}
pub open spec fn xls_default_options() -> XlsOptions { XlsOptions { force_codepage: None, header_row: HeaderRow::FirstNonEmptyRow } }

// TRUSTED: stand-in for crate::cfb::Cfb (opaque).  `dirs()`: its directory entries (unit cfb).
#[verifier::external_body] pub struct Cfb { _opaque: u8 }
// TRUSTED: `#[derive(Clone)]` on `struct Cfb` of src/cfb.rs (field-wise clone: the copy equals the original).  Not called by the real
// text of this unit; present so that an edit working on a COPY of the container is verified against the run contract, not rejected
impl Clone for Cfb { #[verifier::external_body] fn clone(&self) -> (r: Self) ensures r == *self { unimplemented!() } }
/// one `Cfb::new(reader, len)` call can take the reader from o to n with result res -- contract PROVED in unit cfb (C13,C20.new_rejects_invalid_header,
/// C13.new_parses_container); this unit looks at none of the clauses
pub uninterp spec fn cfb_new_call<R>(o: R, len: usize, n: R, res: Result<Cfb, CfbError>) -> bool;
/// one `VbaProject::from_cfb(r, cfb)` call -- contract PROVED in unit vbaproj (C18 clauses of VbaProject::from_cfb)
pub uninterp spec fn vba_call<R>(o: R, ocfb: Cfb, n: R, ncfb: Cfb, res: Result<VbaProject, vba::VbaError>) -> bool;
impl Cfb {
    pub uninterp spec fn dirs(&self) -> Seq<DirEnt>;
    // TRUSTED: signature of src/cfb.rs Cfb::new
    #[verifier::external_body]
    pub fn new<R: Read>(reader: &mut R, len: usize) -> (res: Result<Cfb, CfbError>)
        ensures cfb_new_call(*old(reader), len, *final(reader), res),
    { unimplemented!() }
    // TRUSTED: signature of src/cfb.rs Cfb::has_directory; clause C13,C20.has_directory_iff_entry PROVED in unit cfb (text copied)
    #[verifier::external_body]
    pub fn has_directory(&self, name: &str) -> (b: bool)
        ensures b == has_name(self.dirs(), name@),
    { unimplemented!() }
}
impl VbaProject {
    // TRUSTED: signature of src/vba.rs VbaProject::from_cfb
    #[verifier::external_body]
    pub fn from_cfb<R: Read>(r: &mut R, cfb: &mut Cfb) -> (res: Result<VbaProject, vba::VbaError>)
        ensures vba_call(*old(r), *old(cfb), *final(r), *final(cfb), res),
    { unimplemented!() }
}
// vocabulary of unit xlswb (DEFINED there; abstract here)
/// the stream [MS-XLS] 2.1.2 calls the Workbook stream: named "Workbook" (BIFF8), else "Book" (BIFF5)
pub uninterp spec fn wb_stream<R>(cfb: Cfb, reader: R) -> Option<Seq<u8>>;
/// `fp(recs(s))` of unit xlswb: the globals substream carries a FILEPASS record (0x002F) at a legal position
pub uninterp spec fn has_filepass(s: Seq<u8>) -> bool;
/// `any_fp(recs(s))` of unit xlswb: a FILEPASS record occurs somewhere in the globals substream
pub uninterp spec fn any_filepass(s: Seq<u8>) -> bool;
/// the code page the reader starts with (the `force_codepage` option, else 1200) is one the decoder knows
pub uninterp spec fn codepage_known(forced: Option<u16>) -> bool;
/// one `parse_workbook(reader, cfb)` call can take the Xls value from o to n with result res -- contract PROVED in unit xlswb (C20.filepass_is_password_error,
/// C20.password_only_if_filepass, C16.workbook_stream_missing_is_error, C16.sheets_in_boundsheet_order, C16.date1904_flag, C10,C16.xf_formats_resolved,
/// C16.one_entry_per_sheet_name, C17.merge_regions_per_sheet, C02,C10,C16.cells_per_sheet, C14.formulas_per_sheet)
pub uninterp spec fn xls_wb_call<RS>(o: Xls<RS>, reader: RS, cfb: Cfb, n: Xls<RS>, res: Result<(), XlsError>) -> bool;
/// the three clauses of that contract this unit uses (text copied; `__p_cfb`, `__p_reader` = the arguments, `old(self)` = o)
pub open spec fn xls_wb_rel<RS>(o: Xls<RS>, reader: RS, cfb: Cfb, res: Result<(), XlsError>) -> bool {
    &&& (wb_stream(cfb, reader) matches Some(s) && has_filepass(s) && codepage_known(o.g_forced()) ==> res matches Err(XlsError::Password))
    &&& (res matches Err(XlsError::Password) ==> wb_stream(cfb, reader) matches Some(s) && any_filepass(s))
    &&& (wb_stream(cfb, reader) is None ==> res is Err)
}
impl<RS: Read + Seek> Xls<RS> {
    // TRUSTED: signature of src/xls.rs Xls::parse_workbook
    #[verifier::external_body]
    fn parse_workbook(&mut self, reader: RS, cfb: Cfb) -> (res: Result<(), XlsError>)
        ensures xls_wb_call(*old(self), reader, cfb, *final(self), res), xls_wb_rel(*old(self), reader, cfb, res),
    { unimplemented!() }
}
impl<RS> Xls<RS> {
    pub closed spec fn g_forced(&self) -> Option<u16> { self.options.force_codepage }
    pub closed spec fn g_options(&self) -> XlsOptions { self.options }
    /// a reader that has parsed nothing yet: no sheets, no metadata, no formats, no VBA project, 1900 date system, these options
    pub closed spec fn fresh(&self, options: XlsOptions) -> bool {
        &&& self.sheets@ =~= Map::<String, SheetData>::empty()
        &&& self.vba is None
        &&& self.metadata.is_empty()
        &&& self.options == options
        &&& !self.is_1904 && self.formats@.len() == 0
    }
    /// everything but the VBA project
    pub closed spec fn but_vba(&self) -> (BTreeMap<String, SheetData>, Metadata, PhantomData<RS>, XlsOptions, Vec<CellFormat>, bool) {
        (self.sheets, self.metadata, self.marker, self.options, self.formats, self.is_1904)
    }
}
/// C20 / C16 / C07: `Xls::new_with_options(reader, options)` returns r -- stream length, rewind, compound file; the VBA project is read
/// eagerly when the container has a `_VBA_PROJECT_CUR` storage; the workbook stream is parsed from a fresh reader with these options, and ITS
/// outcome decides first (C20: a FILEPASS record is a password error "not an unrelated parse error" -- a broken VBA project is unrelated);
/// then a failed VBA read fails the construction; otherwise the reader is what parse_workbook left, holding that VBA project
pub open spec fn xls_new_run<RS: Read + Seek>(reader: RS, options: XlsOptions, r: Result<Xls<RS>, XlsError>) -> bool {
    exists|r1: RS, s1: Result<u64, std::io::Error>| #[trigger] seek_call(reader, SeekFrom::End(0), r1, s1) && match s1 {
        Err(e) => r == Err::<Xls<RS>, XlsError>(XlsError::Io(e)),
        Ok(n) => xls_run_rewind(r1, n as usize, options, r),
    }
}
pub open spec fn xls_run_rewind<RS: Read + Seek>(r1: RS, len: usize, options: XlsOptions, r: Result<Xls<RS>, XlsError>) -> bool {
    exists|r2: RS, s2: Result<u64, std::io::Error>| #[trigger] seek_call(r1, SeekFrom::Start(0), r2, s2) && match s2 {
        Err(e) => r == Err::<Xls<RS>, XlsError>(XlsError::Io(e)),
        Ok(_) => xls_run_cfb(r2, len, options, r),
    }
}
pub open spec fn xls_run_cfb<RS: Read + Seek>(r2: RS, len: usize, options: XlsOptions, r: Result<Xls<RS>, XlsError>) -> bool {
    exists|r3: RS, c: Result<Cfb, CfbError>| #[trigger] cfb_new_call(r2, len, r3, c) && match c {
        Err(e) => r == Err::<Xls<RS>, XlsError>(XlsError::Cfb(e)),
        Ok(cfb) => xls_run_vba(r3, cfb, options, r),
    }
}
pub open spec fn xls_run_vba<RS: Read + Seek>(r3: RS, cfb: Cfb, options: XlsOptions, r: Result<Xls<RS>, XlsError>) -> bool {
    if has_name(cfb.dirs(), "_VBA_PROJECT_CUR"@) {
        exists|r4: RS, cfb2: Cfb, v: Result<VbaProject, vba::VbaError>| #[trigger] vba_call(r3, cfb, r4, cfb2, v) && xls_run_wb(r4, cfb2, Some(v), options, r)
    } else {
        xls_run_wb(r3, cfb, None, options, r)
    }
}
pub open spec fn xls_run_wb<RS: Read + Seek>(r4: RS, cfb: Cfb, v: Option<Result<VbaProject, vba::VbaError>>, options: XlsOptions, r: Result<Xls<RS>, XlsError>) -> bool {
    exists|x0: Xls<RS>, x1: Xls<RS>, w: Result<(), XlsError>| x0.fresh(options) && #[trigger] xls_wb_call(x0, r4, cfb, x1, w) && xls_wb_rel(x0, r4, cfb, w) && match w {
        Err(e) => r == Err::<Xls<RS>, XlsError>(e),
        Ok(_) => match v {
            Some(Err(e)) => r == Err::<Xls<RS>, XlsError>(XlsError::Vba(e)),
            Some(Ok(p)) => r is Ok && (r->Ok_0).but_vba() == x1.but_vba() && (r->Ok_0).g_vba() == Some(p),
            None => r == Ok::<Xls<RS>, XlsError>(x1),
        },
    }
}
/// C20, in the words of the property: whatever the eager VBA read did, a workbook stream carrying a FILEPASS record makes the constructor fail
/// with the password error (`codepage_known`: the `force_codepage` option names a code page the decoder has -- checked before the records)
proof fn lemma_xls_filepass_wins<RS: Read + Seek>(r3: RS, cfb: Cfb, options: XlsOptions, r: Result<Xls<RS>, XlsError>)
    requires
        xls_run_vba(r3, cfb, options, r),
        // reading the VBA project leaves the workbook stream as it is (unit cfb: C13.get_stream_frame / get_stream_reads_logical_stream)
        forall|r4: RS, cfb2: Cfb, v: Result<VbaProject, vba::VbaError>| #[trigger] vba_call(r3, cfb, r4, cfb2, v) ==> wb_stream(cfb2, r4) == wb_stream(cfb, r3),
        wb_stream(cfb, r3) matches Some(s) && has_filepass(s),
        codepage_known(options.force_codepage),
    ensures
        //# C20.xls_filepass_is_password_error_whatever_the_vba_project
        r matches Err(XlsError::Password),
{
}
/// ... and only then
proof fn lemma_xls_password_only_if_filepass<RS: Read + Seek>(r4: RS, cfb: Cfb, v: Option<Result<VbaProject, vba::VbaError>>, options: XlsOptions, r: Result<Xls<RS>, XlsError>)
    requires xls_run_wb(r4, cfb, v, options, r), r matches Err(XlsError::Password),
    ensures
        //# C20.xls_password_only_if_filepass
        wb_stream(cfb, r4) matches Some(s) && any_filepass(s),
{
}

//@@ impl src/xls.rs Xls
//@@ fn src/xls.rs Xls::new_with_options props=C20,C16,C07,C13 entry ret=r mutparams
//@@ sig
    ensures
        // (C13: ONE container state is threaded through -- Cfb::new -> from_cfb -> parse_workbook: the workbook stream is read from the
        // container AS THE VBA READ LEFT IT (`cfb2`), the reader and the lazily buffered sector table advance together)
        //# C20,C16,C07,C13.xls_new_is_container_then_vba_then_workbook_with_workbook_errors_first
        xls_new_run(__p_reader, options, r),
//@@ body
        broadcast use axiom_question_mark_from;
//@@ end
// ---- the merged-region accessors of Xls (C17 "worksheet_merge_cells(name) returns the regions of the named sheet"; C07 "an unknown sheet
// name is [no answer] rather than some other sheet", "the n-th sheet is the n-th sheet OF THE WORKBOOK": `metadata().sheets[n]`, the order
// sheet_names() / worksheet_range_at(n) use -- NOT the order of the internal name-keyed map).  Both take `&self`: nothing can change.
//@@ fn src/xls.rs Xls::worksheet_merge_cells props=C17,C07 entry ret=r
//@@ sig
    ensures
        //# C17.xls_merge_cells_of_exactly_that_sheet
        self.sheet_merge(name) is Some ==> r is Some && (r->Some_0)@ == self.sheet_merge(name)->Some_0,
        //# C17,C07.xls_merge_cells_unknown_sheet_is_none
        self.sheet_merge(name) is None ==> r is None,
//@@ body
        proof { axiom_string_keyed_map(self.sheets@, name); }
//@@ closure 0
    -> (res: Vec<Dimensions>) ensures
        //# C17.xls_merge_cells_takes_the_stored_regions
        res@ == r.merge_cells@
//@@ end
//@@ fn src/xls.rs Xls::worksheet_merge_cells_at props=C17,C07 entry ret=r
//@@ replace? /([\w.]+\(\))\s*\.nth\(([^()]*)\)/ (not in the real text; applies only if an edit picks the sheet with `<iterator>.nth(n)`) Verus: "assume_specification for a provided trait method" unsupported, so `Iterator::nth` cannot be called; `IT.nth(N)` becomes the trusted helper verif_iter_nth(IT, N) (std: "Returns the nth element of the iterator") with both expressions re-inserted verbatim -- the edit is then VERIFIED against the contract instead of being rejected
verif_iter_nth(\g<1>, \g<2>)
//@@ sig
    ensures
        //# C17,C07.xls_merge_cells_at_beyond_the_last_sheet_is_none
        n >= self.g_meta().m_sheets().len() ==> r is None,
        //# C17,C07.xls_merge_cells_at_is_the_nth_sheet_of_the_workbook
        // (`nm`: the string slice `&sheet.name` derefs to -- vstd: same text; Verus has no text-extensionality for `&str`, hence the binder)
        n < self.g_meta().m_sheets().len() ==> exists|nm: &str| nm@ == self.g_meta().m_sheets()[n as int].name@
            && merge_view(r) == #[trigger] self.sheet_merge(nm),
//@@ end
//@@ endimpl

// ---- worksheets() of the eager readers.  R-mono (documented mechanical rule of units apiglue / lazyrange): Verus loses vstd's specification of
// `Iterator::map` + `collect` for a closure inside a function with type parameters, so the method text is verified, verbatim, as a
// method of `Xls<VerifRs>` / `Ods<VerifRs>` for an opaque reader type VerifRs; the method never touches RS, so by parametricity the
// instance stands for all RS.
pub struct VerifRs { _opaque: u8 }
impl Xls<VerifRs> {
//@@ fn src/xls.rs "Reader<RS> for Xls<RS>::worksheets" props=C07 ret=r
//@@ sig
    ensures
        //# C07.xls_worksheets_read_is_pure
        *final(self) == *old(self),
        //# C07.xls_worksheets_one_entry_per_stored_sheet
        old(self).ws_ok(r@),
//@@ body
        proof { axiom_string_keyed_map(self.sheets@, ""); }
//@@ closure 0
    -> (res: (String, Range<Data>)) ensures
        //# C07.xls_worksheets_entry_is_name_and_stored_range
        res.0 == *__c0_0.0 && res.1 == __c0_0.1.range
//@@ end
}
impl Ods<VerifRs> {
//@@ fn src/ods.rs "Reader<RS> for Ods<RS>::worksheets" props=C07 ret=r
//@@ sig
    ensures
        //# C07.ods_worksheets_read_is_pure
        *final(self) == *old(self),
        //# C07.ods_worksheets_one_entry_per_stored_sheet
        old(self).ws_ok(r@),
//@@ body
        proof { axiom_string_keyed_map(self.sheets@, ""); }
//@@ closure 0
    -> (res: (String, Range<Data>)) ensures
        //# C07.ods_worksheets_entry_is_name_and_stored_range
        res.0 == *__c0_0.0 && res.1 == __c0_0.1.0
//@@ end
}

// ---- ods
pub mod ods_reader {
use super::*;
// copy of `const MIMETYPE: &[u8]` of src/ods.rs with the elided lifetime written out (the verus! macro rejects the elision); Verus keeps
// the contents of byte-string literals uninterpreted, so only its NAME matters to the proof (`mimetype()` below)
// TRUSTED: `mimetype()` names the bytes of the literal
#[verifier::external_body]
exec const MIMETYPE: &'static [u8]
    ensures MIMETYPE@ == mimetype(),
{ b"application/vnd.oasis.opendocument.spreadsheet" }
//@@ item src/ods.rs struct Content
// what `from_err!(std::io::Error, OdsError, Io)` / `from_err!(zip::result::ZipError, OdsError, Zip)` expand to
impl From<std::io::Error> for OdsError { fn from(e: std::io::Error) -> (r: OdsError) ensures r == OdsError::Io(e) { OdsError::Io(e) } }
impl vstd::std_specs::convert::FromSpecImpl<std::io::Error> for OdsError {
    open spec fn obeys_from_spec() -> bool { true }
    open spec fn from_spec(e: std::io::Error) -> Self { OdsError::Io(e) }
}
impl From<ZipError> for OdsError { fn from(e: ZipError) -> (r: OdsError) ensures r == OdsError::Zip(e) { OdsError::Zip(e) } }
impl vstd::std_specs::convert::FromSpecImpl<ZipError> for OdsError {
    open spec fn obeys_from_spec() -> bool { true }
    open spec fn from_spec(e: ZipError) -> Self { OdsError::Zip(e) }
}
// TRUSTED: expansion of `#[derive(Default)]` on OdsOptions
impl Default for OdsOptions {
    fn default() -> (r: Self) ensures r.is_default() { OdsOptions { header_row: HeaderRow::FirstNonEmptyRow } }
}
impl OdsOptions {
    pub closed spec fn is_default(&self) -> bool { self.header_row == HeaderRow::FirstNonEmptyRow }
}
// TRUSTED: A-zip -- zip::read::ZipFile: a reader over the bytes of one entry
#[verifier::external_body]
pub struct ZipFile<'a> { _p: core::marker::PhantomData<&'a ()> }
pub uninterp spec fn zf_rem<'a>(f: ZipFile<'a>) -> Seq<u8>;
pub uninterp spec fn zf_failed<'a>(f: ZipFile<'a>) -> bool;
impl<'a> Read for ZipFile<'a> {
    open spec fn rem(&self) -> Seq<u8> { zf_rem(*self) }
    open spec fn io_failed(&self) -> bool { zf_failed(*self) }
    #[verifier::external_body]
    fn read_exact(&mut self, buf: &mut [u8]) -> (r: Result<(), std::io::Error>) { unimplemented!() }
}
/// the archive has an entry with exactly this name
pub uninterp spec fn has_entry<RS>(zip: ZipArchive<RS>, name: Seq<char>) -> bool;
/// one `by_name(name)` call on this archive can deliver: the (uncompressed) bytes of the entry, or an error
pub uninterp spec fn by_name_call<RS>(zip: ZipArchive<RS>, name: Seq<char>, r: Result<Seq<u8>, ZipError>) -> bool;
pub open spec fn zf_view<'a>(r: Result<ZipFile<'a>, ZipError>) -> Result<Seq<u8>, ZipError> {
    match r { Ok(f) => Ok(zf_rem(f)), Err(e) => Err(e) }
}
impl<RS: Read + Seek> ZipArchive<RS> {
    // TRUSTED: A-zip -- zip::read::ZipArchive::by_name ("Search for a file entry by name"): FileNotFound exactly when there is no such
    // entry; reading an entry never changes the archive (same statement as in unit ods)
    #[verifier::external_body]
    pub fn by_name<'a>(&'a mut self, name: &str) -> (r: Result<ZipFile<'a>, ZipError>)
        ensures
            *final(self) == *old(self),
            by_name_call(*old(self), name@, zf_view(r)),
            r matches Err(ZipError::FileNotFound) <==> !has_entry(*old(self), name@),
    { unimplemented!() }
}
// vocabulary of unit ods (DEFINED there; abstract here)
/// the XML events of META-INF/manifest.xml, None: no such (readable) entry
pub uninterp spec fn manifest<RS>(zip: ZipArchive<RS>) -> Option<Seq<Ev>>;
/// the manifest declares encryption data: an encryption-data element inside / after a file-entry element, read without error
pub uninterp spec fn declares_encryption(evs: Seq<Ev>) -> bool;
/// index of the first event at which the reader reports an error (len if none)
pub uninterp spec fn first_err(evs: Seq<Ev>, i: int) -> int;
/// one `check_for_password_protected(zip)` call of src/ods.rs can take the archive from o to n with result r
pub uninterp spec fn ods_pw_call<RS>(o: ZipArchive<RS>, n: ZipArchive<RS>, r: Result<(), OdsError>) -> bool;
/// TRUSTED: contract PROVED in unit ods on the real text (clauses C20.ods_manifest_missing, C20.ods_encrypted_reported,
/// C20.ods_unencrypted_not_reported, C20.ods_unencrypted_ok: text copied; `*old(zip)` = o)
pub open spec fn ods_pw_rel<RS>(o: ZipArchive<RS>, r: Result<(), OdsError>) -> bool {
    &&& (manifest(o) is None ==> r is Err && !(r->Err_0 is Password))
    &&& (manifest(o) is Some && declares_encryption(manifest(o)->Some_0) ==> r is Err && r->Err_0 is Password)
    &&& (manifest(o) is Some && !declares_encryption(manifest(o)->Some_0) ==> !(r is Err && r->Err_0 is Password))
    &&& (manifest(o) is Some && !declares_encryption(manifest(o)->Some_0)
            && first_err(manifest(o)->Some_0, 0) >= manifest(o)->Some_0.len() ==> r is Ok)
}
#[verifier::external_body]
fn check_for_password_protected<RS: Read + Seek>(zip: &mut ZipArchive<RS>) -> (r: Result<(), OdsError>)
    ensures ods_pw_call(*old(zip), *final(zip), r), ods_pw_rel(*old(zip), r),
{ unimplemented!() }
/// what parse_content hands back, field by field (struct Content is private to src/ods.rs)
pub type ContentV = (BTreeMap<String, (Range<Data>, Range<String>)>, Vec<Sheet>, Vec<(String, String)>);
/// one `parse_content(zip)` call can return r -- contract PROVED in unit odsxml (C16 / C04 clauses of parse_content)
pub uninterp spec fn ods_content_call<RS>(zip: ZipArchive<RS>, r: Result<ContentV, OdsError>) -> bool;
spec fn content_view(r: Result<Content, OdsError>) -> Result<ContentV, OdsError> {
    match r { Ok(c) => Ok((c.sheets, c.sheets_metadata, c.defined_names)), Err(e) => Err(e) }
}
#[verifier::external_body]
fn parse_content<RS: Read + Seek>(zip: ZipArchive<RS>) -> (r: Result<Content, OdsError>)
    ensures ods_content_call(zip, content_view(r)),
{ unimplemented!() }
impl Metadata {
    pub closed spec fn made_of(&self, sheets: Vec<Sheet>, names: Vec<(String, String)>) -> bool { self.sheets == sheets && self.names == names }
}
impl<RS> Ods<RS> {
    /// the reader holds exactly the parsed content: its sheets, metadata = (sheet list, defined names); options at their default
    pub closed spec fn built_from(&self, c: ContentV) -> bool {
        self.sheets == c.0 && self.metadata.made_of(c.1, c.2) && self.options.is_default()
    }
}
/// ODF 1.2 part 3, 3.3: the package's `mimetype` entry holds the MIME type of the document: for a spreadsheet these 46 bytes
pub uninterp spec fn mimetype() -> Seq<u8>;
// TRUSTED: A-std -- `<[T]>::to_vec` ("Copies self into a new Vec"), at u8
pub assume_specification<T: Clone>[ <[T]>::to_vec ](s: &[T]) -> (r: Vec<T>)
    ensures r@.len() == s@.len(), forall|i: int| 0 <= i < s@.len() ==> call_ensures(T::clone, (&s@[i],), #[trigger] r@[i]),
        (forall|a: T, b: T| call_ensures(T::clone, (&a,), b) ==> a == b) ==> r@ == s@;
/// C20 / C16 / C07: `Ods::new(reader)` returns r -- the zip directory; the `mimetype` entry identifies the format (absent: FileNotFound,
/// other content: InvalidMime with the bytes read); then the password check on the manifest decides (C20) before content.xml is parsed;
/// then the reader holds exactly what parse_content returned, options at their default (C16 / C07); the first error is returned as it is
pub open spec fn ods_new_run<RS: Read + Seek>(reader: RS, r: Result<Ods<RS>, OdsError>) -> bool {
    exists|zr: Result<ZipArchive<RS>, ZipError>| #[trigger] zip_new_rel(reader, zr) && match zr {
        Err(e) => r == Err::<Ods<RS>, OdsError>(OdsError::Zip(e)),
        Ok(zip) => ods_run_mime(zip, r),
    }
}
pub open spec fn ods_run_mime<RS: Read + Seek>(zip: ZipArchive<RS>, r: Result<Ods<RS>, OdsError>) -> bool {
    exists|br: Result<Seq<u8>, ZipError>| #[trigger] by_name_call(zip, "mimetype"@, br) && match br {
        Err(ZipError::FileNotFound) => r matches Err(OdsError::FileNotFound(s)) && s@ == "mimetype"@,
        Err(e) => r == Err::<Ods<RS>, OdsError>(OdsError::Zip(e)),
        Ok(bytes) =>
            // reading the entry may fail (A-io: any read may fail with an I/O error; too short an entry is UnexpectedEof)
            (r matches Err(OdsError::Io(_)))
            || (bytes.len() >= 46 && if bytes.take(46) == mimetype() { ods_run_pw(zip, r) }
                                     else { r matches Err(OdsError::InvalidMime(v)) && v@ == bytes.take(46) }),
    }
}
pub open spec fn ods_run_pw<RS: Read + Seek>(zip: ZipArchive<RS>, r: Result<Ods<RS>, OdsError>) -> bool {
    exists|z2: ZipArchive<RS>, pw: Result<(), OdsError>| #[trigger] ods_pw_call(zip, z2, pw) && ods_pw_rel(zip, pw) && match pw {
        Err(e) => r == Err::<Ods<RS>, OdsError>(e),
        Ok(_) => ods_run_content(z2, r),
    }
}
pub open spec fn ods_run_content<RS: Read + Seek>(z2: ZipArchive<RS>, r: Result<Ods<RS>, OdsError>) -> bool {
    exists|c: Result<ContentV, OdsError>| #[trigger] ods_content_call(z2, c) && match c {
        Err(e) => r == Err::<Ods<RS>, OdsError>(e),
        Ok(cv) => r is Ok && (r->Ok_0).built_from(cv),
    }
}
/// C20, in the words of the property: an ods "whose manifest declares encryption data" is reported as password protected -- before
/// content.xml (which is then cipher text) can fail differently
proof fn lemma_ods_encrypted_is_password_error<RS: Read + Seek>(zip: ZipArchive<RS>, r: Result<Ods<RS>, OdsError>)
    requires ods_run_pw(zip, r), manifest(zip) is Some && declares_encryption(manifest(zip)->Some_0),
    ensures
        //# C20.ods_encrypted_is_password_error_before_content_is_parsed
        r is Err && r->Err_0 is Password,
{
}

//@@ impl src/ods.rs "Reader<RS> for Ods<RS>"
//@@ item src/ods.rs impl_type "Reader<RS> for Ods<RS>::type Error"
//@@ fn src/ods.rs "Reader<RS> for Ods<RS>::new" props=C20,C16,C07 entry ret=r
//@@ sig
    ensures
        //# C20,C16,C07.ods_new_is_mimetype_then_password_check_then_content
        ods_new_run(reader, r),
//@@ body
        broadcast use {axiom_question_mark_from, lemma_bytes_eq_slice, lemma_subrange_full};
//@@ end
//@@ fn src/ods.rs "Reader<RS> for Ods<RS>::vba_project" props=C07 ret=r
//@@ sig
    ensures
        //# C07.ods_vba_read_is_pure
        *final(self) == *old(self),
        //# C07.ods_has_no_vba
        r is None,
//@@ end
//@@ fn src/ods.rs "Reader<RS> for Ods<RS>::metadata" props=C16,C07 ret=r
//@@ sig
    ensures
        //# C16,C07.ods_metadata_is_stored_metadata
        *r == self.g_meta(),
//@@ end
//@@ fn src/ods.rs "Reader<RS> for Ods<RS>::worksheet_formula" props=C14,C07 ret=r
//@@ sig
    ensures
        //# C07.ods_formula_read_is_pure
        *final(self) == *old(self),
        //# C07,C14.ods_formula_unknown_sheet_is_error
        old(self).sheet_formula(name) is None ==> r is Err && r->Err_0 is WorksheetNotFound,
        //# C14.ods_formula_is_the_stored_range_of_that_sheet
        old(self).sheet_formula(name) is Some ==> r == Ok::<Range<String>, OdsError>(old(self).sheet_formula(name)->Some_0),
//@@ body
        proof { axiom_string_keyed_map(self.sheets@, name); }
//@@ closure 0
    -> (res: OdsError) ensures
        //# C07.ods_formula_unknown_sheet_error_kind
        res is WorksheetNotFound
//@@ closure 1
    -> (res: Range<String>) ensures
        //# C14.ods_formula_takes_the_formula_range
        res == r.1
//@@ end
//@@ endimpl

} // mod ods_reader

//@@ impl src/xlsx/mod.rs "Reader<RS> for Xlsx<RS>"
//@@ item src/xlsx/mod.rs impl_type "Reader<RS> for Xlsx<RS>::type Error"
//@@ fn src/xlsx/mod.rs "Reader<RS> for Xlsx<RS>::new" props=C20,C16,C07 entry ret=r mutparams
//@@ sig
    ensures
        //# C20,C16,C07.xlsx_new_is_password_check_then_part_readers_in_order
        xlsx_new_run(__p_reader, r),
        //# C20.xlsx_encrypted_package_is_reported
        // (an encrypted OOXML package = a compound file with an EncryptedPackage entry; `io_failed`: the environment made a read of the
        // check fail -- the check then lets the file through, see C20.password_iff_encrypted_package of unit cfb)
        exists|r1: RS, pw: Result<(), XlsxError>| #[trigger] xlsx_pw_call(__p_reader, r1, pw) && (r1.io_failed() ||
            forall|fuel: nat| #[trigger] cfb_parse(__p_reader.content(), fuel) is Some
                && has_name(cfb_parse(__p_reader.content(), fuel).unwrap().dirs, "EncryptedPackage"@) ==> r is Err && (r->Err_0 is Password || r->Err_0 is Io)),
//@@ body
        broadcast use axiom_question_mark_from;
//@@ end
    // stand-ins so that the reduced trait is implemented (these methods of Xlsx are under contract in units xlsxwb / lazyrange / apiglue)
    #[verifier::external_body] fn vba_project(&mut self) -> Option<Result<Cow<'_, VbaProject>, XlsxError>> { unimplemented!() }
    #[verifier::external_body] fn metadata(&self) -> &Metadata { unimplemented!() }
    #[verifier::external_body] fn worksheet_formula(&mut self, name: &str) -> Result<Range<String>, XlsxError> { unimplemented!() }
//@@ endimpl

} // verus!
fn main() {}
