//@@ unit props=C10,C06,C01,C02,C03,C16,C11
// Unit formats: number-format classification (src/formats.rs), verbatim text.
//
// detect_custom_number_format (entry, unbounded in the length of the string):
//   layer (i)  `scan`/`step`: the scanner as an explicit automaton; loop invariant "result == scan of the rest from the
//              current ghost state"; clause C10.scan_automaton  r == scan(format@, init()).
//   layer (ii) what the PROPERTY says, proved about `scan` by induction on the string, with its own vocabulary (p_*):
//              (a) quoted literals / escape pairs / bracketed prefixes are skipped   lemma_quoted_*, lemma_escape_ignored, lemma_bracket
//              (b) nothing after the first section separator matters                  lemma_section_end, lemma_sections_after_first_ignored*
//              (c) first decisive token decides                                       lemma_date_letter, lemma_ampm, lemma_bracket,
//                  MAIN THEOREM lemma_scan_classify: wf(s) ==> scan(s) == classify(s), classify/tok = tokenizer written from
//                  the grammar; wf = explicit side conditions (see `tok`, every `Tok::Bad`); exported as C10.first_decisive_token.
//   Former findings, fixed in the code (findings/formats.json "fixed"): escape arm preceded the quote arms (lemma_quoted_body
//   now proved unconditionally); `brackets: u8` overflow (now usize, bounded by the number of characters read).
// format_excel_i64 / format_excel_f64_ref / format_excel_f64, ExcelDateTime::new, From<DataRef> for Data: shape, flavour,
//   date system (and the f64 value) here; value bits of the i64 variant and everything again bit-precisely in kani/formats.rs.
// builtin_format_by_id / builtin_format_by_code: complete Kani harnesses (kani/formats.rs), oracle ECMA-376 18.8.30.
// char::eq_ignore_ascii_case: assumed here, discharged against std by kani harness char_eq_ignore_ascii_case_spec.
#![allow(unused_imports, dead_code, unused_variables, unused_mut, unused_assignments)]
use vstd::prelude::*;

verus! {

//@@ item src/formats.rs enum CellFormat

// ---------------------------------------------------------------------------------------------
// Layer (i): the scanner as an explicit automaton over a ghost state.
// ---------------------------------------------------------------------------------------------
pub struct St {
    pub escaped: bool,   // previous character was an unconsumed `\` or `_`
    pub quoted: bool,    // inside a "..." literal
    pub brackets: int,   // bracket nesting depth (mathematical integer: the property knows no 255 limit)
    pub ap: bool,        // latch: an unquoted a/A has been seen
    pub hms: bool,       // the current bracket so far consists of repeats of one of h/m/s
    pub prev: char,
}
pub enum Step { Cont(St), Done(CellFormat) }

pub open spec fn init() -> St { St { escaped: false, quoted: false, brackets: 0, ap: false, hms: false, prev: ' ' } }

pub open spec fn ascii_lower(c: char) -> char {
    if 'A' <= c && c <= 'Z' { ((c as u8) + 32u8) as char } else { c }
}
pub open spec fn is_esc(c: char) -> bool { c == '_' || c == '\\' }
pub open spec fn is_a(c: char) -> bool { c == 'a' || c == 'A' }
pub open spec fn is_hms(c: char) -> bool { c == 'h' || c == 'm' || c == 's' || c == 'H' || c == 'M' || c == 'S' }
pub open spec fn is_date_letter(c: char) -> bool { is_hms(c) || c == 'd' || c == 'y' || c == 'D' || c == 'Y' }
pub open spec fn is_ampm_tail(c: char) -> bool { c == 'p' || c == 'm' || c == '/' || c == 'P' || c == 'M' }

pub open spec fn step(st: St, c: char) -> Step {
    if st.escaped { Step::Cont(St { escaped: false, prev: c, ..st }) }
    else if st.quoted { Step::Cont(St { quoted: c != '"', prev: c, ..st }) }
    else if c == '"' { Step::Cont(St { quoted: true, prev: c, ..st }) }
    else if is_esc(c) { Step::Cont(St { escaped: true, prev: c, ..st }) }
    else if c == ';' { Step::Done(CellFormat::Other) }
    else if c == '[' { Step::Cont(St { brackets: st.brackets + 1, prev: c, ..st }) }
    else if c == ']' {
        if st.brackets == 1 && st.hms { Step::Done(CellFormat::TimeDelta) }
        else { Step::Cont(St { brackets: if st.brackets > 0 { st.brackets - 1 } else { 0 }, prev: c, ..st }) }
    }
    else if st.brackets == 0 && !st.ap && is_a(c) { Step::Cont(St { ap: true, prev: c, ..st }) }
    else if st.brackets == 0 && st.ap && is_ampm_tail(c) { Step::Done(CellFormat::DateTime) }
    else if st.brackets == 0 && !st.ap && is_date_letter(c) { Step::Done(CellFormat::DateTime) }
    else {
        Step::Cont(St {
            hms: if st.hms && ascii_lower(c) == ascii_lower(st.prev) { true } else { st.prev == '[' && is_hms(c) },
            prev: c, ..st })
    }
}

pub open spec fn scan(s: Seq<char>, st: St) -> CellFormat
    decreases s.len()
{
    if s.len() == 0 { CellFormat::Other }
    else {
        match step(st, s[0]) {
            Step::Done(r) => r,
            Step::Cont(st2) => scan(s.drop_first(), st2),
        }
    }
}


// ---------------------------------------------------------------------------------------------
// Layer (ii): declarative characterisation, written from the property text / number-format grammar.
// Its vocabulary (p_*) is defined here independently of the automaton's (is_*): "d m h y s (any case)" etc.
// ---------------------------------------------------------------------------------------------
//@@ props C10

/// c is the letter l (given in lower case) in either case
pub open spec fn p_letter(c: char, l: char) -> bool { ascii_lower(c) == l }
/// escape introducers: backslash (next char literal) and underscore (space of the width of the next char)
pub open spec fn p_escape(c: char) -> bool { c == '\\' || c == '_' }
/// date/time letters of the property: d m h y s, any case
pub open spec fn p_date_letter(c: char) -> bool {
    p_letter(c, 'd') || p_letter(c, 'm') || p_letter(c, 'h') || p_letter(c, 'y') || p_letter(c, 's')
}
/// letters of an elapsed-time bracket: h m s, any case
pub open spec fn p_hms(c: char) -> bool { p_letter(c, 'h') || p_letter(c, 'm') || p_letter(c, 's') }
pub open spec fn p_a(c: char) -> bool { p_letter(c, 'a') }
/// what may not follow the keyword General unquoted (it would complete an A/P, AM/PM marker with General's `a`)
pub open spec fn p_ampm_tail(c: char) -> bool { p_letter(c, 'p') || p_letter(c, 'm') || c == '/' }

pub proof fn lemma_vocabulary(c: char)
    ensures
        //# C10.vocabulary_escape
        p_escape(c) == is_esc(c),
        //# C10.vocabulary_date_letters
        p_date_letter(c) == is_date_letter(c),
        //# C10.vocabulary_elapsed_letters
        p_hms(c) == is_hms(c),
        //# C10.vocabulary_ampm
        p_a(c) == is_a(c) && p_ampm_tail(c) == is_ampm_tail(c),
{
}

pub open spec fn sq(c: char) -> Seq<char> { seq![c] }

/// one unfolding of the automaton
pub proof fn lemma_scan_cons(c: char, rest: Seq<char>, st: St)
    ensures scan(sq(c) + rest, st) == (match step(st, c) { Step::Done(r) => r, Step::Cont(st2) => scan(rest, st2) }),
{
    let s = sq(c) + rest;
    assert(s[0] == c);
    assert(s.drop_first() =~= rest);
}

pub open spec fn no_char(s: Seq<char>, c: char) -> bool { forall|i: int| 0 <= i < s.len() ==> #[trigger] s[i] != c }
pub open spec fn last_or(s: Seq<char>, d: char) -> char { if s.len() == 0 { d } else { s.last() } }

// ---- (a) literals --------------------------------------------------------------------------

/// scanning the characters of a quoted literal changes nothing but `prev`
pub open spec fn quoted_body_ignored(lit: Seq<char>, rest: Seq<char>, st: St) -> bool {
    scan(lit + rest, st) == scan(rest, St { prev: last_or(lit, st.prev), ..st })
}

/// PROPERTY FORM: inside a quoted literal nothing but the closing quote matters -- whatever the literal contains
/// (in particular `\` and `_` are ordinary characters there).
pub proof fn lemma_quoted_body(lit: Seq<char>, rest: Seq<char>, st: St)
    requires st.quoted, !st.escaped, no_char(lit, '"'),
    ensures
        //# C10.quoted_ignored
        quoted_body_ignored(lit, rest, st),
    decreases lit.len(),
{
    if lit.len() == 0 {
        assert(lit + rest =~= rest);
    } else {
        let c = lit[0];
        assert(lit + rest =~= sq(c) + (lit.drop_first() + rest));
        lemma_scan_cons(c, lit.drop_first() + rest, st);
        assert(c != '"');
        let st2 = St { prev: c, ..st };
        assert forall|i: int| 0 <= i < lit.drop_first().len() implies #[trigger] lit.drop_first()[i] != '"' by {
            assert(lit.drop_first()[i] == lit[i + 1]);
        }
        lemma_quoted_body(lit.drop_first(), rest, st2);
        if lit.drop_first().len() > 0 { assert(lit.drop_first().last() == lit.last()); }
    }
}

/// scanning "lit" rest  from st  ==  scanning rest from st (only `prev` remembers the closing quote)
pub open spec fn quoted_literal_ignored(lit: Seq<char>, rest: Seq<char>, st: St) -> bool {
    scan(sq('"') + lit + sq('"') + rest, st) == scan(rest, St { prev: '"', ..st })
}

/// a complete quoted literal "lit" is skipped as a whole: only `prev` remembers it
pub proof fn lemma_quoted_ignored(lit: Seq<char>, rest: Seq<char>, st: St)
    requires !st.quoted, !st.escaped, no_char(lit, '"'),
    ensures
        //# C10.quoted_literal_ignored
        quoted_literal_ignored(lit, rest, st),
{
    let s = sq('"') + lit + sq('"') + rest;
    assert(s =~= sq('"') + (lit + (sq('"') + rest)));
    lemma_scan_cons('"', lit + (sq('"') + rest), st);
    let st1 = St { quoted: true, prev: '"', ..st };
    lemma_quoted_body(lit, sq('"') + rest, st1);
    let st2 = St { prev: last_or(lit, '"'), ..st1 };
    lemma_scan_cons('"', rest, st2);
}

/// an unterminated quoted literal swallows the rest of the string
pub proof fn lemma_quoted_unterminated(lit: Seq<char>, st: St)
    requires !st.quoted, !st.escaped, no_char(lit, '"'),
    ensures
        //# C10.quoted_unterminated
        scan(sq('"') + lit, st) == CellFormat::Other,
{
    lemma_scan_cons('"', lit, st);
    let st1 = St { quoted: true, prev: '"', ..st };
    lemma_quoted_body(lit, Seq::<char>::empty(), st1);
    assert(lit + Seq::<char>::empty() =~= lit);
}

/// the character after an unquoted `\` or `_` never counts
pub proof fn lemma_escape_ignored(e: char, c: char, rest: Seq<char>, st: St)
    requires !st.quoted, !st.escaped, p_escape(e),
    ensures
        //# C10.escape_ignored
        scan(sq(e) + sq(c) + rest, st) == scan(rest, St { prev: c, ..st }),
{
    assert(sq(e) + sq(c) + rest =~= sq(e) + (sq(c) + rest));
    lemma_scan_cons(e, sq(c) + rest, st);
    lemma_scan_cons(c, rest, St { escaped: true, prev: e, ..st });
}

// ---- brackets ------------------------------------------------------------------------------

pub open spec fn br_special(c: char) -> bool { c == '[' || c == ']' || c == '"' || p_escape(c) || c == ';' }
pub open spec fn clean(s: Seq<char>) -> bool { forall|i: int| 0 <= i < s.len() ==> !br_special(#[trigger] s[i]) }
/// content of an elapsed-time bracket: h+ | m+ | s+ (any case)
pub open spec fn elapsed(x: Seq<char>) -> bool {
    x.len() >= 1 && p_hms(x[0]) && forall|i: int| 0 <= i < x.len() ==> ascii_lower(#[trigger] x[i]) == ascii_lower(x[0])
}

pub proof fn lemma_bracket_body(done: Seq<char>, todo: Seq<char>, rest: Seq<char>, st: St)
    requires
        st.brackets == 1, !st.escaped, !st.quoted, clean(done), clean(todo),
        st.prev == last_or(done, '['),
        st.hms == elapsed(done),
    ensures
        scan(todo + sq(']') + rest, st) ==
            (if elapsed(done + todo) { CellFormat::TimeDelta } else { scan(rest, St { brackets: 0, hms: false, prev: ']', ..st }) }),
    decreases todo.len(),
{
    if todo.len() == 0 {
        assert(todo + sq(']') + rest =~= sq(']') + rest);
        assert(done + todo =~= done);
        lemma_scan_cons(']', rest, st);
    } else {
        let c = todo[0];
        let t2 = todo.drop_first();
        assert(todo + sq(']') + rest =~= sq(c) + (t2 + sq(']') + rest));
        lemma_scan_cons(c, t2 + sq(']') + rest, st);
        assert(!br_special(c));
        let h2 = if st.hms && ascii_lower(c) == ascii_lower(st.prev) { true } else { st.prev == '[' && p_hms(c) };
        let st2 = St { hms: h2, prev: c, ..st };
        assert(step(st, c) == Step::Cont(st2));
        let d2 = done.push(c);
        assert(done + todo =~= d2 + t2);
        assert forall|i: int| 0 <= i < d2.len() implies !br_special(#[trigger] d2[i]) by {
            if i < done.len() { assert(d2[i] == done[i]); }
        }
        assert forall|i: int| 0 <= i < t2.len() implies !br_special(#[trigger] t2[i]) by { assert(t2[i] == todo[i + 1]); }
        // the hms latch is exactly "everything so far is a repeat of one of h/m/s"
        assert(h2 == elapsed(d2)) by {
            if done.len() == 0 {
                assert(d2[0] == c);
            } else {
                assert(st.prev == done.last());
                assert(!br_special(done[done.len() - 1]));
                assert(d2[0] == done[0]);
                if elapsed(done) {
                    assert(ascii_lower(done[done.len() - 1]) == ascii_lower(done[0]));
                    if ascii_lower(c) == ascii_lower(st.prev) {
                        assert forall|i: int| 0 <= i < d2.len() implies ascii_lower(#[trigger] d2[i]) == ascii_lower(d2[0]) by {
                            if i < done.len() { assert(d2[i] == done[i]); }
                        }
                    } else {
                        assert(d2[d2.len() - 1] == c);
                    }
                } else {
                    if elapsed(d2) {
                        assert forall|i: int| 0 <= i < done.len() implies ascii_lower(#[trigger] done[i]) == ascii_lower(done[0]) by {
                            assert(d2[i] == done[i]);
                        }
                    }
                }
            }
        }
        lemma_bracket_body(d2, t2, rest, st2);
    }
}

/// a bracketed prefix [content] (colour, condition, locale ...): decisive exactly when it is an elapsed-time bracket,
/// otherwise skipped as a whole
pub proof fn lemma_bracket(content: Seq<char>, rest: Seq<char>, st: St)
    requires !st.escaped, !st.quoted, st.brackets == 0, !st.hms, clean(content),
    ensures
        //# C10.elapsed_bracket
        elapsed(content) ==> scan(sq('[') + content + sq(']') + rest, st) == CellFormat::TimeDelta,
        //# C10.bracket_prefix_ignored
        !elapsed(content) ==> scan(sq('[') + content + sq(']') + rest, st) == scan(rest, St { prev: ']', ..st }),
{
    assert(sq('[') + content + sq(']') + rest =~= sq('[') + (content + sq(']') + rest));
    lemma_scan_cons('[', content + sq(']') + rest, st);
    let st1 = St { brackets: 1, prev: '[', ..st };
    lemma_bracket_body(Seq::<char>::empty(), content, rest, st1);
    assert(Seq::<char>::empty() + content =~= content);
}

// ---- (b) sections / (c) decisive tokens ------------------------------------------------------

pub open spec fn neutral(st: St, g: bool) -> bool { !st.escaped && !st.quoted && st.brackets == 0 && !st.hms && st.ap == g }

/// everything after an unquoted, unescaped `;` is another section and never looked at
pub proof fn lemma_section_end(t1: Seq<char>, t2: Seq<char>, st: St)
    requires !st.escaped, !st.quoted,
    ensures
        //# C10.sections_after_first_ignored
        scan(sq(';') + t1, st) == scan(sq(';') + t2, st),
        //# C10.section_without_date_token_is_other
        scan(sq(';') + t1, st) == CellFormat::Other,
{
    lemma_scan_cons(';', t1, st);
    lemma_scan_cons(';', t2, st);
}

/// the automaton run over a whole prefix: the state afterwards, or the early result
pub open spec fn run(s: Seq<char>, st: St) -> Step
    decreases s.len()
{
    if s.len() == 0 { Step::Cont(st) } else {
        match step(st, s[0]) {
            Step::Done(r) => Step::Done(r),
            Step::Cont(st2) => run(s.drop_first(), st2),
        }
    }
}
pub proof fn lemma_scan_concat(a: Seq<char>, b: Seq<char>, st: St)
    ensures scan(a + b, st) == (match run(a, st) { Step::Done(r) => r, Step::Cont(st2) => scan(b, st2) }),
    decreases a.len(),
{
    if a.len() == 0 {
        assert(a + b =~= b);
    } else {
        assert(a + b =~= sq(a[0]) + (a.drop_first() + b));
        lemma_scan_cons(a[0], a.drop_first() + b, st);
        match step(st, a[0]) {
            Step::Done(r) => {},
            Step::Cont(st2) => { lemma_scan_concat(a.drop_first(), b, st2); },
        }
    }
}

/// the `;` that follows `pre` is a section separator: not inside a quoted literal and not escaped
/// (or the class has been decided before it)
pub open spec fn separator_follows(pre: Seq<char>) -> bool {
    match run(pre, init()) { Step::Done(_) => true, Step::Cont(st) => !st.escaped && !st.quoted }
}
/// (b) whatever follows the first section separator never changes the result
pub proof fn lemma_sections_after_first_ignored(pre: Seq<char>, t1: Seq<char>, t2: Seq<char>)
    requires separator_follows(pre),
    ensures
        //# C10.sections_after_first_ignored_global
        scan(pre + (sq(';') + t1), init()) == scan(pre + (sq(';') + t2), init()),
{
    lemma_scan_concat(pre, sq(';') + t1, init());
    lemma_scan_concat(pre, sq(';') + t2, init());
    match run(pre, init()) {
        Step::Done(_) => {},
        Step::Cont(st) => { lemma_section_end(t1, t2, st); },
    }
}
/// purely syntactic sufficient condition: a prefix without `"`, `\`, `_` cannot quote or escape what follows it
pub open spec fn no_literal_syntax(s: Seq<char>) -> bool {
    forall|i: int| 0 <= i < s.len() ==> #[trigger] s[i] != '"' && !p_escape(s[i])
}
pub proof fn lemma_plain_prefix_keeps_unquoted(pre: Seq<char>, st: St)
    requires no_literal_syntax(pre), !st.escaped, !st.quoted,
    ensures match run(pre, st) { Step::Done(_) => true, Step::Cont(st2) => !st2.escaped && !st2.quoted },
    decreases pre.len(),
{
    if pre.len() > 0 {
        let c = pre[0];
        assert(c != '"' && !p_escape(c));
        assert forall|i: int| 0 <= i < pre.drop_first().len() implies #[trigger] pre.drop_first()[i] != '"' && !p_escape(pre.drop_first()[i]) by {
            assert(pre.drop_first()[i] == pre[i + 1]);
        }
        match step(st, c) {
            Step::Done(_) => {},
            Step::Cont(st2) => { lemma_plain_prefix_keeps_unquoted(pre.drop_first(), st2); },
        }
    }
}
pub proof fn lemma_sections_after_first_ignored_plain(pre: Seq<char>, t1: Seq<char>, t2: Seq<char>)
    requires no_literal_syntax(pre),
    ensures
        //# C10.sections_after_first_ignored_plain_prefix
        scan(pre + (sq(';') + t1), init()) == scan(pre + (sq(';') + t2), init()),
{
    lemma_plain_prefix_keeps_unquoted(pre, init());
    lemma_sections_after_first_ignored(pre, t1, t2);
}

pub proof fn lemma_date_letter(c: char, rest: Seq<char>, st: St)
    requires neutral(st, false), p_date_letter(c),
    ensures
        //# C10.date_letter_is_datetime
        scan(sq(c) + rest, st) == CellFormat::DateTime,
{
    lemma_scan_cons(c, rest, st);
}


/// AM/PM or A/P marker (any case) at the head of s
pub open spec fn ampm_at(s: Seq<char>) -> bool {
    s.len() >= 1 && p_a(s[0]) && (
        (s.len() >= 5 && ascii_lower(s[1]) == 'm' && s[2] == '/' && ascii_lower(s[3]) == 'p' && ascii_lower(s[4]) == 'm')
        || (s.len() >= 3 && s[1] == '/' && ascii_lower(s[2]) == 'p'))
}
/// the keyword General (any case) at the head of s
pub open spec fn general_at(s: Seq<char>) -> bool {
    s.len() >= 7 && ascii_lower(s[0]) == 'g' && ascii_lower(s[1]) == 'e' && ascii_lower(s[2]) == 'n' && ascii_lower(s[3]) == 'e'
        && ascii_lower(s[4]) == 'r' && ascii_lower(s[5]) == 'a' && ascii_lower(s[6]) == 'l'
}

pub proof fn lemma_ampm(s: Seq<char>, st: St)
    requires neutral(st, false), ampm_at(s),
    ensures
        //# C10.ampm_marker_is_datetime
        scan(s, st) == CellFormat::DateTime,
{
    let r1 = s.drop_first();
    assert(s =~= sq(s[0]) + r1);
    lemma_scan_cons(s[0], r1, st);
    let st1 = St { ap: true, prev: s[0], ..st };
    assert(step(st, s[0]) == Step::Cont(st1));
    assert(r1 =~= sq(s[1]) + r1.drop_first());
    lemma_scan_cons(s[1], r1.drop_first(), st1);
    assert(is_ampm_tail(s[1]));
}

/// first index of c in s, or -1
pub open spec fn first_idx(s: Seq<char>, c: char) -> int
    decreases s.len()
{
    if s.len() == 0 { -1 } else if s[0] == c { 0 } else {
        let r = first_idx(s.drop_first(), c);
        if r < 0 { -1 } else { r + 1 }
    }
}
pub proof fn lemma_first_idx(s: Seq<char>, c: char)
    ensures
        first_idx(s, c) < 0 ==> no_char(s, c),
        first_idx(s, c) >= 0 ==> first_idx(s, c) < s.len() && s[first_idx(s, c)] == c && no_char(s.take(first_idx(s, c)), c),
        first_idx(s, c) >= -1,
    decreases s.len(),
{
    if s.len() == 0 {
    } else if s[0] == c {
    } else {
        let t = s.drop_first();
        lemma_first_idx(t, c);
        let r = first_idx(t, c);
        if r < 0 {
            assert forall|i: int| 0 <= i < s.len() implies #[trigger] s[i] != c by { if i > 0 { assert(s[i] == t[i - 1]); } }
        } else {
            let p = s.take(r + 1);
            assert forall|i: int| 0 <= i < p.len() implies #[trigger] p[i] != c by {
                if i > 0 { assert(p[i] == t.take(r)[i - 1]); }
            }
        }
    }
}

/// Tokens of the first section of a number format, as the property text describes them.
pub enum Tok {
    Skip(int),    // a token of n >= 1 characters that is not a date token: quoted literal, escape pair, non-elapsed bracket, other character
    General,      // the keyword General (7 characters); no date token may follow it in the section
    End,          // `;` (end of the first section), or a literal/escape that runs to the end of the string
    Date,         // d m h y s (any case), AM/PM, A/P
    Elapsed,      // [h+] [m+] [s+]
    Bad,          // outside the grammar side conditions (see wf)
}

/// g: the keyword General has been seen in this section
pub open spec fn tok(s: Seq<char>, g: bool) -> Tok
    recommends s.len() > 0
{
    let c = s[0];
    if c == '"' {
        let j = first_idx(s.skip(1), '"');
        if j < 0 { Tok::End }   // unterminated literal: runs to the end of the string
        else { Tok::Skip(j + 2) }
    } else if p_escape(c) {
        if s.len() >= 2 { Tok::Skip(2) } else { Tok::End }
    } else if c == ';' {
        Tok::End
    } else if c == '[' {
        let j = first_idx(s.skip(1), ']');
        if j < 0 { Tok::Bad }   // unterminated bracket: not in the grammar
        else if !clean(s.subrange(1, 1 + j)) { Tok::Bad }   // nested bracket / quote / escape / `;` inside a bracket: not in the grammar
        else if elapsed(s.subrange(1, 1 + j)) { Tok::Elapsed }
        else { Tok::Skip(j + 2) }
    } else if p_a(c) {
        if !g && ampm_at(s) { Tok::Date } else { Tok::Bad }   // side condition (c): a bare a/A is not in the grammar
    } else if p_date_letter(c) {
        if g { Tok::Bad } else { Tok::Date }
    } else if g && p_ampm_tail(c) {
        Tok::Bad
    } else if !g && general_at(s) {
        Tok::General
    } else {
        Tok::Skip(1)
    }
}

pub proof fn lemma_tok_len(s: Seq<char>, g: bool)
    requires s.len() > 0,
    ensures
        tok(s, g) matches Tok::Skip(n) ==> 1 <= n <= s.len(),
        tok(s, g) is General ==> s.len() >= 7,
{
    lemma_first_idx(s.skip(1), '"');
    lemma_first_idx(s.skip(1), ']');
}

/// the format class the property prescribes: decided by the first decisive token of the first section
pub open spec fn classify(s: Seq<char>, g: bool) -> CellFormat
    decreases s.len()
{
    if s.len() == 0 { CellFormat::Other } else {
        match tok(s, g) {
            Tok::Skip(n) => if 1 <= n <= s.len() { classify(s.skip(n), g) } else { CellFormat::Other },
            Tok::General => if s.len() >= 7 { classify(s.skip(7), true) } else { CellFormat::Other },
            Tok::End => CellFormat::Other,
            Tok::Date => CellFormat::DateTime,
            Tok::Elapsed => CellFormat::TimeDelta,
            Tok::Bad => CellFormat::Other,
        }
    }
}

/// grammar side conditions under which the scanner is claimed to agree with classify
pub open spec fn wf(s: Seq<char>, g: bool) -> bool
    decreases s.len()
{
    if s.len() == 0 { true } else {
        match tok(s, g) {
            Tok::Skip(n) => 1 <= n <= s.len() && wf(s.skip(n), g),
            Tok::General => s.len() >= 7 && wf(s.skip(7), true),
            Tok::Bad => false,
            _ => true,
        }
    }
}

/// a character that is no token start and no date letter
pub proof fn lemma_other_char(c: char, rest: Seq<char>, st: St, g: bool)
    requires neutral(st, g), !br_special(c) || c == ']', !p_a(c), !p_date_letter(c), g ==> !p_ampm_tail(c),
    ensures
        //# C10.other_char_ignored
        scan(sq(c) + rest, st) == scan(rest, St { prev: c, ..st }),
{
    lemma_scan_cons(c, rest, st);
}

pub proof fn lemma_general(s: Seq<char>, st: St)
    requires neutral(st, false), general_at(s),
    ensures
        //# C10.general_keyword_ignored
        scan(s, st) == scan(s.skip(7), St { ap: true, prev: s[6], ..st }),
{
    let s1 = s.skip(1); let s2 = s.skip(2); let s3 = s.skip(3); let s4 = s.skip(4); let s5 = s.skip(5); let s6 = s.skip(6); let s7 = s.skip(7);
    assert(s =~= sq(s[0]) + s1); assert(s1 =~= sq(s[1]) + s2); assert(s2 =~= sq(s[2]) + s3); assert(s3 =~= sq(s[3]) + s4);
    assert(s4 =~= sq(s[4]) + s5); assert(s5 =~= sq(s[5]) + s6); assert(s6 =~= sq(s[6]) + s7);
    let t0 = st;
    let t1 = St { prev: s[0], ..t0 };
    let t2 = St { prev: s[1], ..t1 };
    let t3 = St { prev: s[2], ..t2 };
    let t4 = St { prev: s[3], ..t3 };
    let t5 = St { prev: s[4], ..t4 };
    let t6 = St { ap: true, prev: s[5], ..t5 };
    let t7 = St { prev: s[6], ..t6 };
    lemma_scan_cons(s[0], s1, t0); assert(step(t0, s[0]) == Step::Cont(t1));
    lemma_scan_cons(s[1], s2, t1); assert(step(t1, s[1]) == Step::Cont(t2));
    lemma_scan_cons(s[2], s3, t2); assert(step(t2, s[2]) == Step::Cont(t3));
    lemma_scan_cons(s[3], s4, t3); assert(step(t3, s[3]) == Step::Cont(t4));
    lemma_scan_cons(s[4], s5, t4); assert(step(t4, s[4]) == Step::Cont(t5));
    lemma_scan_cons(s[5], s6, t5); assert(step(t5, s[5]) == Step::Cont(t6));
    lemma_scan_cons(s[6], s7, t6); assert(step(t6, s[6]) == Step::Cont(t7));
}

/// MAIN THEOREM of layer (ii): on every format string satisfying the stated grammar side conditions the automaton
/// returns what the property prescribes
pub proof fn lemma_scan_classify(s: Seq<char>, st: St, g: bool)
    requires neutral(st, g), wf(s, g),
    ensures
        //# C10.scan_is_first_decisive_token
        scan(s, st) == classify(s, g),
    decreases s.len(),
{
    if s.len() == 0 { return; }
    let c = s[0];
    let r1 = s.skip(1);
    lemma_tok_len(s, g);
    assert(s =~= sq(c) + r1);
    if c == '"' {
        let j = first_idx(r1, '"');
        lemma_first_idx(r1, '"');
        if j < 0 {
            lemma_quoted_unterminated(r1, st);
        } else {
            let lit = s.subrange(1, 1 + j);
            let rest = s.skip(j + 2);
            assert(lit =~= r1.take(j));
            assert(r1[j] == '"');
            assert(s =~= sq('"') + lit + sq('"') + rest);
            lemma_quoted_ignored(lit, rest, st);
            lemma_scan_classify(rest, St { prev: '"', ..st }, g);
        }
    } else if p_escape(c) {
        if s.len() >= 2 {
            assert(s =~= sq(c) + sq(s[1]) + s.skip(2));
            lemma_escape_ignored(c, s[1], s.skip(2), st);
            lemma_scan_classify(s.skip(2), St { prev: s[1], ..st }, g);
        } else {
            assert(r1 =~= Seq::<char>::empty());
            lemma_scan_cons(c, r1, st);
        }
    } else if c == ';' {
        lemma_section_end(r1, r1, st);
    } else if c == '[' {
        let j = first_idx(r1, ']');
        lemma_first_idx(r1, ']');
        let content = s.subrange(1, 1 + j);
        let rest = s.skip(j + 2);
        assert(content =~= r1.take(j));
        assert(r1[j] == ']');
        assert(s =~= sq('[') + content + sq(']') + rest);
        lemma_bracket(content, rest, st);
        if !elapsed(content) {
            lemma_scan_classify(rest, St { prev: ']', ..st }, g);
        }
    } else if p_a(c) {
        lemma_ampm(s, st);
    } else if p_date_letter(c) {
        lemma_date_letter(c, r1, st);
    } else if !g && general_at(s) {
        lemma_general(s, st);
        lemma_scan_classify(s.skip(7), St { ap: true, prev: s[6], ..st }, true);
    } else {
        lemma_other_char(c, r1, st, g);
        lemma_scan_classify(r1, St { prev: c, ..st }, g);
    }
}


// ---- witnesses: the side conditions are satisfiable and the declarative spec says what the property says -----------
pub proof fn witness_elapsed_bracket()
    ensures
        wf(seq!['[', 'h', ']', ':', 'm'], false),
        classify(seq!['[', 'h', ']', ':', 'm'], false) == CellFormat::TimeDelta,
        scan(seq!['[', 'h', ']', ':', 'm'], init()) == CellFormat::TimeDelta,
{
    let s = seq!['[', 'h', ']', ':', 'm'];
    let r1 = s.skip(1);
    reveal_with_fuel(first_idx, 3);
    assert(r1[0] == 'h' && r1[1] == ']');
    assert(r1.drop_first()[0] == ']');
    assert(first_idx(r1, ']') == 1);
    let c = s.subrange(1, 2);
    assert(c.len() == 1 && c[0] == 'h');
    assert(clean(c));
    assert(elapsed(c));
    assert(tok(s, false) == Tok::Elapsed);
    lemma_scan_classify(s, init(), false);
}
pub proof fn witness_quoted_then_date()
    ensures
        wf(seq!['"', 'd', '"', 'y'], false),
        classify(seq!['"', 'd', '"', 'y'], false) == CellFormat::DateTime,
        wf(seq!['"', 'd', '"', '0'], false),
        classify(seq!['"', 'd', '"', '0'], false) == CellFormat::Other,
{
    reveal_with_fuel(first_idx, 3);
    let s = seq!['"', 'd', '"', 'y'];
    let r1 = s.skip(1);
    assert(r1[0] == 'd' && r1[1] == '"');
    assert(r1.drop_first()[0] == '"');
    assert(first_idx(r1, '"') == 1);
    let c = s.subrange(1, 2);
    assert(c.len() == 1 && c[0] == 'd');
    assert(tok(s, false) == Tok::Skip(3));
    let r3 = s.skip(3);
    assert(r3.len() == 1 && r3[0] == 'y');
    assert(tok(r3, false) == Tok::Date);
    assert(classify(r3, false) == CellFormat::DateTime);
    assert(wf(r3, false));

    let s2 = seq!['"', 'd', '"', '0'];
    let q1 = s2.skip(1);
    assert(q1[0] == 'd' && q1[1] == '"');
    assert(q1.drop_first()[0] == '"');
    assert(first_idx(q1, '"') == 1);
    let c2 = s2.subrange(1, 2);
    assert(c2.len() == 1 && c2[0] == 'd');
    assert(tok(s2, false) == Tok::Skip(3));
    let q3 = s2.skip(3);
    assert(q3.len() == 1 && q3[0] == '0');
    assert(!general_at(q3));
    assert(tok(q3, false) == Tok::Skip(1));
    assert(q3.skip(1).len() == 0);
    assert(classify(q3.skip(1), false) == CellFormat::Other);
    assert(wf(q3.skip(1), false));
    assert(classify(q3, false) == CellFormat::Other);
    assert(wf(q3, false));
}
pub proof fn witness_second_section()
    ensures
        wf(seq!['0', ';', 'd'], false),
        classify(seq!['0', ';', 'd'], false) == CellFormat::Other,
{
    let s = seq!['0', ';', 'd'];
    assert(!general_at(s));
    assert(tok(s, false) == Tok::Skip(1));
    let r = s.skip(1);
    assert(r[0] == ';');
    assert(tok(r, false) == Tok::End);
    assert(classify(r, false) == CellFormat::Other);
    assert(wf(r, false));
}
pub proof fn witness_lemmas()
{
    let e = Seq::<char>::empty();
    lemma_quoted_ignored(seq!['x', '_'], e, init());
    lemma_quoted_unterminated(seq!['d', '\\'], init());
    lemma_escape_ignored('\\', 'd', e, init());
    lemma_bracket(seq!['R', 'e', 'd'], e, init());
    lemma_section_end(e, seq!['d'], init());
    lemma_date_letter('Y', e, init());
    lemma_sections_after_first_ignored_plain(seq!['0', '.', '0'], seq!['d'], e);
    lemma_other_char('0', e, init(), false);
    let am = seq!['A', 'M', '/', 'P', 'M'];
    assert(ampm_at(am));
    lemma_ampm(am, init());
    let g = seq!['G', 'e', 'n', 'e', 'r', 'a', 'l'];
    assert(general_at(g));
    lemma_general(g, init());
}

// TRUSTED: std doc of char::eq_ignore_ascii_case: "Equivalent to to_ascii_lowercase(a) == to_ascii_lowercase(b)";
// to_ascii_lowercase maps 'A'..='Z' to 'a'..='z' and leaves every other char unchanged.
// (checked against the real std implementation for all pairs of chars: kani harness formats::char_eq_ignore_ascii_case_spec)
pub assume_specification[ char::eq_ignore_ascii_case ](a: &char, b: &char) -> (r: bool)
    ensures r == (ascii_lower(*a) == ascii_lower(*b));

// TRUSTED (std doc, same mapping as above); declared so that a change which starts to use these methods is decided, not rejected
pub assume_specification[ char::to_ascii_lowercase ](a: &char) -> (r: char)
    ensures r == ascii_lower(*a);
pub open spec fn ascii_upper(c: char) -> char { if 'a' <= c && c <= 'z' { ((c as u8) - 32) as char } else { c } }
pub assume_specification[ char::to_ascii_uppercase ](a: &char) -> (r: char)
    ensures r == ascii_upper(*a);

// TRUSTED: the number of chars of a str fits a usize (a str occupies at most isize::MAX bytes, every char at least one byte).
// vstd states the same fact only through the total exec spec `str::unicode_len(&self) -> (l: usize) ensures self@.len() == l`,
// which a proof cannot call; `check_str_len_fits_usize` below re-derives the axiom from that spec in exec mode.
#[verifier::external_body]
pub proof fn axiom_str_len_fits_usize(s: &str)
    ensures s@.len() <= usize::MAX,
{}
fn check_str_len_fits_usize(s: &str)
    ensures s@.len() <= usize::MAX,
{
    let n = s.unicode_len();
}

//@@ fn src/formats.rs detect_custom_number_format props=C10 entry ret=r
//@@ sig
    ensures
        //# C10.scan_automaton
        r == scan(format@, init()),
        //# C10.first_decisive_token
        wf(format@, false) ==> r == classify(format@, false),
//@@ before /for s in /
    proof {
        assert(format@.skip(0) =~= format@);
        axiom_str_len_fits_usize(format);
        if wf(format@, false) { lemma_scan_classify(format@, init(), false); }
    }
//@@ loop 0 it
        invariant
            it.seq() == format@,
            // C06: the bracket depth never exceeds the number of characters read, which fits a usize
            brackets <= it.index@,
            format@.len() <= usize::MAX,
            wf(format@, false) ==> scan(format@, init()) == classify(format@, false),
            scan(format@, init()) == scan(format@.skip(it.index@ as int),
                St { escaped: escaped, quoted: is_quote, brackets: brackets as int, ap: ap, hms: hms, prev: prev }),
//@@ before /match \(s, escaped/
        proof {
            let ghost i = it.index@ as int;
            assert(s == format@[i]);
            assert(format@.skip(i).drop_first() =~= format@.skip(i + 1));
            assert(format@.skip(i)[0] == s);
        }
//@@ end


// ---------------------------------------------------------------------------------------------
// format_excel_*: a number becomes DateTime exactly when its format is a date/time format
// ---------------------------------------------------------------------------------------------
//@@ item src/lib.rs enum CellErrorType keep_attrs
//@@ item src/datatype.rs enum ExcelDateTimeType keep_attrs
//@@ item src/datatype.rs struct ExcelDateTime keep_attrs
//@@ item src/datatype.rs enum Data keep_attrs
//@@ item src/datatype.rs enum DataRef keep_attrs

// the fields of ExcelDateTime are private: observe them through closed spec functions
pub closed spec fn edt_parts(e: ExcelDateTime) -> (f64, ExcelDateTimeType, bool) { (e.value, e.datetime_type, e.is_1904) }
pub closed spec fn edt_mk(value: f64, datetime_type: ExcelDateTimeType, is_1904: bool) -> ExcelDateTime {
    ExcelDateTime { value, datetime_type, is_1904 }
}
pub proof fn lemma_edt_mk_parts(value: f64, datetime_type: ExcelDateTimeType, is_1904: bool, e: ExcelDateTime)
    ensures
        edt_parts(edt_mk(value, datetime_type, is_1904)) == (value, datetime_type, is_1904),
        e == edt_mk(edt_parts(e).0, edt_parts(e).1, edt_parts(e).2),
{}

//@@ impl src/datatype.rs ExcelDateTime
//@@ fn src/datatype.rs ExcelDateTime::new props=C10,C16,C11 ret=r
//@@ sig
    ensures
        //# C10,C16,C11.edt_new_fields
        edt_parts(r) == (value, datetime_type, is_1904),
//@@ end
//@@ endimpl

/// the date flavour a format class asks for (None: stays a plain number)
pub open spec fn flavour(format: Option<&CellFormat>) -> Option<ExcelDateTimeType> {
    match format {
        Some(CellFormat::DateTime) => Some(ExcelDateTimeType::DateTime),
        Some(CellFormat::TimeDelta) => Some(ExcelDateTimeType::TimeDelta),
        _ => None,
    }
}

// Verus leaves the exec cast `i64 as f64` unspecified, so the serial value of the i64 variant is discharged by the
// complete Kani harness formats::format_excel_i64_complete (bit comparison); here: shape, flavour, date system.
//@@ fn src/formats.rs format_excel_i64 props=C10,C02,C16,C11 ret=r
//@@ sig
    ensures
        //# C10,C02.i64_plain_when_not_date_format
        flavour(format) is None ==> r == Data::Int(value),
        //# C10.i64_datetime_iff_date_format
        flavour(format) is Some <==> r is DateTime,
        //# C10,C16,C11.i64_flavour_and_date_system
        flavour(format) matches Some(ty) ==> edt_parts(r->DateTime_0).1 == ty && edt_parts(r->DateTime_0).2 == is_1904,
//@@ end

//@@ fn src/formats.rs format_excel_f64_ref props=C10,C01,C03,C16,C11 ret=r
//@@ sig
    ensures
        //# C10,C01,C03.f64_plain_when_not_date_format
        flavour(format) is None ==> r == DataRef::<'static>::Float(value),
        //# C10,C16,C11.f64_datetime_iff_date_format
        flavour(format) matches Some(ty) ==> r == DataRef::<'static>::DateTime(edt_mk(value, ty, is_1904)),
//@@ end

/// DataRef -> Data keeps the variant and the payload (SharedString(&str) becomes an owned String)
pub open spec fn owned(v: DataRef) -> Data
    recommends !(v is SharedString)
{
    match v {
        DataRef::Int(x) => Data::Int(x),
        DataRef::Float(x) => Data::Float(x),
        DataRef::String(x) => Data::String(x),
        DataRef::SharedString(x) => arbitrary(),
        DataRef::Bool(x) => Data::Bool(x),
        DataRef::DateTime(x) => Data::DateTime(x),
        DataRef::DateTimeIso(x) => Data::DateTimeIso(x),
        DataRef::DurationIso(x) => Data::DurationIso(x),
        DataRef::Error(x) => Data::Error(x),
        DataRef::Empty => Data::Empty,
    }
}
// vstd attaches `obeys_from_spec() ==> r == from_spec(v)` to every From impl. vstd has no spec for
// `<String as From<&str>>::from` (the SharedString arm), so this impl does not claim a from_spec; its contract is the
// explicit ensures below (callers of `.into()` see them through call_ensures).
impl<'a> vstd::std_specs::convert::FromSpecImpl<DataRef<'a>> for Data {
    open spec fn obeys_from_spec() -> bool { false }
    open spec fn from_spec(v: DataRef<'a>) -> Data { arbitrary() }
}
//@@ impl src/datatype.rs "From<DataRef<'a>> for Data"
//@@ fn src/datatype.rs "From<DataRef<'a>> for Data::from" props=C10,C02 ret=r
//@@ sig
    ensures
        //# C10,C02.into_owned_keeps_variant_and_payload
        !(value is SharedString) ==> r == owned(value),
        //# C10.into_owned_shared_string
        value is SharedString ==> r is String,
//@@ end
//@@ endimpl

//@@ fn src/formats.rs format_excel_f64 props=C10,C02,C16,C11 ret=r
//@@ sig
    ensures
        //# C10,C02.f64_owned_plain_when_not_date_format
        flavour(format) is None ==> r == Data::Float(value),
        //# C10,C16,C11.f64_owned_datetime_iff_date_format
        flavour(format) matches Some(ty) ==> r == Data::DateTime(edt_mk(value, ty, is_1904)),
//@@ end

} // verus!
fn main() {}
