//@@ unit props=C05,C06,C08,C17,C01,C02,C03,C04,C14
// Unit range: the `Range<T>` data structure of src/lib.rs (verbatim text), generic over `T: CellType`.  Serves C05;
// its contracts (Range::range, from_sparse, accessors) are what the C08 / C17 units call.
//
// C05 quantifies over *every sequence* of constructions and mutations.  That history quantifier is discharged by
// modularity, not by exploration: every constructor `ensures r.wf()`, every mutator `requires old(self).wf()` and
// `ensures final(self).wf()`, every accessor `requires self.wf()`, and every postcondition describes the complete
// abstract view afterwards (bounds `lo()/hi()` + value `at(r, c)` at every position: written cell, frame, defaults).
// By induction on the length of the history, the invariant and the accessor agreement hold after any finite history
// whose steps respect the documented preconditions (`witness_history` below replays such a history against the
// contracts alone).
//
// Abstract view: `nonempty()`, `lo()`, `hi()`, `has(r, c)` (absolute position inside), `at(r, c)` (value there).
// Representation invariant `wf()`: corners ordered component-wise, and the buffer is empty or holds exactly
// height * width cells (row-major); a span may be all 2^32 rows / columns (heights, widths and counts are usize).
//
// Values: the code produces defaults with `T::default()` + `Clone` and copies cells with `Clone`; for an arbitrary
// `T` nothing relates a clone to its original.  Value clauses that involve cloned cells are therefore stated under the
// hypothesis `lawful::<T>()` (clone returns an equal value, `default()` is a constant) -- a hypothesis on the type
// parameter, not an assumption: it is proved for usize/u64/bool below and holds for Data, DataRef, String by their
// derived/std impls (not checked here).  Shape clauses (wf, bounds, no-panic) hold for every T.
//
// TRUSTED (all visible below): 64-bit usize; a Vec of cells holds at most isize::MAX cells; Vec::shrink_to_fit keeps the contents; std::slice::Chunks as a cursor
// (chunks / next); the contract of Range::range (external_body: its body uses chunks_mut/zip/clone_from_slice, outside
// vstd; checked bounded by Kani harnesses range_window_*); one declared rewrite in from_sparse (map-closure loop header).
// Iterators and indexing (Verus, on the real text): Range::rows / cells / used_cells, next / next_back of Rows, Cells, UsedCells,
// Index<usize>, Index<(usize, usize)>, IndexMut<(usize, usize)> -- contracts in the words of the abstract view: an iterator "still has to
// yield rows / cells f..b of rg" (`is_window`), each step yields row(f) / the cell at row-major position f (or b - 1 from the back).
// Checked against stand-in traits (Index, IndexMut, Iterator, DoubleEndedIterator with a spec-only precondition member), wrapped std
// iterators are ghost cursors (A-chunks, A-enum), four declared rewrites (enumerate / find / rfind wrappers, `&(_, v)` closure pattern).
// Not in Verus: size_hint (not part of vstd's Iterator), IndexMut<usize>, ExactSizeIterator::len.
// Bounded Kani (kani/range.rs, never counted as proved; kept as regression checks): range(), rows()/cells()/used_cells() +
// size_hint/next_back, Index/IndexMut, a bounded twin of the set_value clauses, set_value / range on the empty range.
#![feature(allocator_api)]
#![allow(unused_imports, dead_code, unused_variables, unused_mut, unused_assignments)]
use vstd::prelude::*;
use std::alloc::Allocator;
use std::slice::Chunks;
use std::slice::Iter;
use vstd::std_specs::cmp::PartialEqSpec;
use std::iter::Enumerate;
use std::cmp::{max, min};

verus! {

// TRUSTED: 64-bit target (usize is 8 bytes); on it a product of two u32-sized spans never saturates usize
global size_of usize == 8;

// TRUSTED (A-cap): std (Vec, "Guarantees"): "Vec will never allocate more than isize::MAX bytes"; `vec![x; n]` / reserve panic with
// "capacity overflow" beyond that. For a cell type of non-zero size (Data, DataRef, String, integers -- zero-sized cell types are not
// considered) a cell vector therefore never holds more than isize::MAX cells. This is what makes the saturated count of the
// 2^32 x 2^32 rectangle (2^64 cells, `saturating_mul` == usize::MAX) a call that does not return instead of a malformed Range.
#[verifier::external_body]
pub broadcast proof fn axiom_cell_vec_len<T: CellType>(v: Vec<T>)
    ensures #[trigger] v@.len() <= isize::MAX,
{}

// TRUSTED: Vec::shrink_to_fit only changes capacity (std doc: "Shrinks the capacity of the vector as much as possible")
pub assume_specification<T, A: Allocator>[ Vec::<T, A>::shrink_to_fit ](v: &mut Vec<T, A>)
    ensures final(v)@ == old(v)@;

// TRUSTED (A-chunks): std::slice::Chunks as an abstract cursor over the not-yet-yielded suffix of the slice.
// std doc of `chunks`: "Returns an iterator over chunk_size elements of the slice at a time, starting at the beginning of the
// slice. The chunks are slices and do not overlap. If chunk_size does not divide the length of the slice, then the last chunk
// will not have length chunk_size. Panics if chunk_size is zero."
#[verifier::external_type_specification] #[verifier::external_body] #[verifier::reject_recursive_types(T)]
pub struct ExChunks<'a, T: 'a>(Chunks<'a, T>);
pub open spec fn imin(a: int, b: int) -> int { if a < b { a } else { b } }
pub uninterp spec fn chunks_rem<'a, T>(c: Chunks<'a, T>) -> Seq<T>;
pub uninterp spec fn chunks_size<'a, T>(c: Chunks<'a, T>) -> nat;
pub assume_specification<T>[ <[T]>::chunks ](s: &[T], n: usize) -> (r: Chunks<'_, T>)
    requires n != 0,
    ensures chunks_rem(r) == s@, chunks_size(r) == n;
pub assume_specification<'a, T>[ <Chunks<'a, T> as Iterator>::next ](c: &mut Chunks<'a, T>) -> (r: Option<&'a [T]>)
    ensures
        chunks_size(*final(c)) == chunks_size(*old(c)),
        chunks_rem(*old(c)).len() == 0 ==> r is None && chunks_rem(*final(c)) == chunks_rem(*old(c)),
        chunks_rem(*old(c)).len() > 0 ==> r is Some
            && r.unwrap()@ == chunks_rem(*old(c)).take(imin(chunks_size(*old(c)) as int, chunks_rem(*old(c)).len() as int))
            && chunks_rem(*final(c)) == chunks_rem(*old(c)).skip(imin(chunks_size(*old(c)) as int, chunks_rem(*old(c)).len() as int));

//@@ item src/lib.rs trait "trait CellType"
//@@ item src/lib.rs struct Cell
//@@ item src/lib.rs struct Range

/// hypothesis on the cell type: `clone` returns an equal value and `default()` is a constant
pub open spec fn lawful_cd<T: Default + Clone>() -> bool {
    &&& forall|a: T, b: T| call_ensures(T::clone, (&a,), b) ==> a == b
    &&& forall|a: T, b: T| call_ensures(T::default, (), a) && call_ensures(T::default, (), b) ==> a == b
}
pub open spec fn lawful<T: CellType>() -> bool { lawful_cd::<T>() }
// the hypothesis is satisfiable: it holds for the integer cell type used by the crate's own tests (`impl CellType for usize`)
proof fn witness_lawful() ensures lawful_cd::<usize>(), lawful_cd::<u64>(), lawful_cd::<bool>() {}
pub open spec fn dflt<T: CellType>() -> T { choose|d: T| call_ensures(T::default, (), d) }

impl<T: CellType> Range<T> {
    pub closed spec fn h(&self) -> int { self.end.0 - self.start.0 + 1 }
    pub closed spec fn w(&self) -> int { self.end.1 - self.start.1 + 1 }
    /// corners ordered component-wise (height and width are then between 1 and 2^32)
    pub closed spec fn spans_ok(&self) -> bool {
        self.start.0 <= self.end.0 && self.start.1 <= self.end.1
    }
    /// representation invariant
    pub closed spec fn wf(&self) -> bool {
        self.spans_ok() && (self.inner@.len() == 0 || self.inner@.len() == self.h() * self.w())
    }
    proof fn lemma_len_bound(&self)
        ensures self.inner@.len() <= usize::MAX,
    {
        assert(self.inner@.len() == self.inner.len());
    }
    pub closed spec fn nonempty(&self) -> bool { self.inner@.len() > 0 }
    pub closed spec fn lo(&self) -> (u32, u32) { self.start }
    pub closed spec fn hi(&self) -> (u32, u32) { self.end }
    /// abstract height / width (0 for the empty range)
    pub closed spec fn sh(&self) -> int { if self.nonempty() { self.h() } else { 0 } }
    pub closed spec fn sw(&self) -> int { if self.nonempty() { self.w() } else { 0 } }
    /// absolute position (r, c) lies inside the rectangle
    pub closed spec fn has(&self, r: int, c: int) -> bool {
        self.nonempty() && self.start.0 <= r <= self.end.0 && self.start.1 <= c <= self.end.1
    }
    /// abstract view: value at absolute position (r, c) (meaningful where has(r, c))
    pub closed spec fn at(&self, r: int, c: int) -> T {
        self.inner@[(r - self.start.0) * self.w() + (c - self.start.1)]
    }
}

impl<T: CellType> Cell<T> {
    pub closed spec fn p(&self) -> (u32, u32) { self.pos }
    pub closed spec fn v(&self) -> T { self.val }
}

pub closed spec fn cell_at<T: CellType>(c: Cell<T>, r: int, co: int) -> bool { c.pos.0 == r && c.pos.1 == co }
/// index of the last of the first k cells that sits at (r, co); -1 if none
pub closed spec fn lastw<T: CellType>(cs: Seq<Cell<T>>, k: int, r: int, co: int) -> int
    decreases k
{
    if k <= 0 { -1 } else if cell_at(cs[k - 1], r, co) { k - 1 } else { lastw(cs, k - 1, r, co) }
}
/// (lo, hi) is the tight bounding box of the cell positions
pub closed spec fn is_bbox<T: CellType>(cs: Seq<Cell<T>>, lo: (u32, u32), hi: (u32, u32)) -> bool {
    &&& forall|i: int| 0 <= i < cs.len() ==> lo.0 <= (#[trigger] cs[i]).pos.0 <= hi.0 && lo.1 <= cs[i].pos.1 <= hi.1
    &&& exists|i: int| 0 <= i < cs.len() && (#[trigger] cs[i]).pos.0 == lo.0
    &&& exists|i: int| 0 <= i < cs.len() && (#[trigger] cs[i]).pos.0 == hi.0
    &&& exists|i: int| 0 <= i < cs.len() && (#[trigger] cs[i]).pos.1 == lo.1
    &&& exists|i: int| 0 <= i < cs.len() && (#[trigger] cs[i]).pos.1 == hi.1
}

proof fn lemma_lastw<T: CellType>(cs: Seq<Cell<T>>, k: int, r: int, co: int)
    requires 0 <= k <= cs.len(),
    ensures
        -1 <= lastw(cs, k, r, co) < k,
        lastw(cs, k, r, co) >= 0 ==> cell_at(cs[lastw(cs, k, r, co)], r, co),
        forall|j: int| lastw(cs, k, r, co) < j < k ==> !cell_at(#[trigger] cs[j], r, co),
    decreases k,
{
    if k > 0 { lemma_lastw(cs, k - 1, r, co); }
}

proof fn lemma_idx_inj(i: int, j: int, i2: int, j2: int, w: int)
    requires 0 <= j < w, 0 <= j2 < w, i * w + j == i2 * w + j2,
    ensures i == i2 && j == j2,
{
    if i < i2 {
        assert(i * w + w <= i2 * w) by (nonlinear_arith) requires i + 1 <= i2, w > 0;
    } else if i > i2 {
        assert(i2 * w + w <= i * w) by (nonlinear_arith) requires i2 + 1 <= i, w > 0;
    }
}

/// relative cell (i, j) of a w-wide row-major buffer
pub open spec fn ix(i: int, j: int, w: int) -> int { i * w + j }

proof fn lemma_mul_ge1(a: int, b: int)
    requires a >= 1, b >= 1,
    ensures a * b >= 1,
{
    assert(a * b >= 1) by (nonlinear_arith) requires a >= 1, b >= 1;
}
proof fn lemma_mul_mono(a: int, b: int, w: int)
    requires a <= b, w >= 0,
    ensures a * w <= b * w, 0 * w == 0, 1 * w == w,
{
    assert(a * w <= b * w) by (nonlinear_arith) requires a <= b, w >= 0;
}

/// a product of two spans (each at most 2^32) fits usize unless both are 2^32
proof fn lemma_mul_u32(a: int, b: int)
    requires 0 <= a <= 0x1_0000_0000, 0 <= b <= 0x1_0000_0000, a <= 0xffff_ffff || b <= 0xffff_ffff,
    ensures 0 <= a * b <= 0x1_0000_0000 * 0xffff_ffff, a * b <= usize::MAX,
{
    if a <= 0xffff_ffff {
        assert(a * b <= 0xffff_ffff * 0x1_0000_0000) by (nonlinear_arith) requires 0 <= a <= 0xffff_ffff, 0 <= b <= 0x1_0000_0000;
    } else {
        assert(a * b <= 0x1_0000_0000 * 0xffff_ffff) by (nonlinear_arith) requires 0 <= a <= 0x1_0000_0000, 0 <= b <= 0xffff_ffff;
    }
    assert(0 <= a * b) by (nonlinear_arith) requires 0 <= a, 0 <= b;
}

proof fn lemma_idx(i: int, j: int, h: int, w: int)
    requires 0 <= i < h, 0 <= j < w,
    ensures 0 <= i * w + j < h * w, i * w + j <= (h - 1) * w + (w - 1),
{
    assert(i * w <= (h - 1) * w) by (nonlinear_arith) requires 0 <= i <= h - 1, w > 0;
    assert((h - 1) * w + w == h * w) by (nonlinear_arith);
    assert(0 <= i * w) by (nonlinear_arith) requires 0 <= i, 0 < w;
}

//@@ impl src/lib.rs Range
//@@ fn src/lib.rs Range::new props=C05 ret=r
//@@ sig
    requires start.0 <= end.0, start.1 <= end.1,
    ensures
        //# C05.new_wf
        r.wf(),
        //# C05.new_bounds
        r.nonempty() && r.lo() == start && r.hi() == end,
        //# C05.new_default
        lawful::<T>() ==> forall|i: int, j: int| r.has(i, j) ==> r.at(i, j) == dflt::<T>(),
//@@ body
        broadcast use axiom_cell_vec_len;
        proof {
            let hh = end.0 - start.0 + 1; let ww = end.1 - start.1 + 1;
            lemma_mul_ge1(hh, ww);
            assert forall|i: int, j: int| 0 <= i < hh && 0 <= j < ww implies 0 <= #[trigger] (i * ww + j) < hh * ww by { lemma_idx(i, j, hh, ww); }
        }
//@@ end
//@@ fn src/lib.rs Range::empty props=C05,C01,C02,C03,C04 ret=r
//@@ sig
    ensures
        //# C05,C01,C02,C03,C04.empty_wf
        r.wf(),
        //# C05,C01,C02,C03,C04.empty_is_empty
        !r.nonempty(),
//@@ end
//@@ fn src/lib.rs Range::is_empty props=C05,C01,C02,C03,C04 ret=r
//@@ sig
    ensures
        //# C05,C01,C02,C03,C04.is_empty
        r == !self.nonempty(),
//@@ end
//@@ fn src/lib.rs Range::start props=C05,C01,C02,C03,C04 ret=r
//@@ sig
    ensures
        //# C05,C01,C02,C03,C04.start
        r == (if self.nonempty() { Some(self.lo()) } else { None }),
//@@ end
//@@ fn src/lib.rs Range::end props=C05,C01,C02,C03,C04 ret=r
//@@ sig
    ensures
        //# C05,C01,C02,C03,C04.end
        r == (if self.nonempty() { Some(self.hi()) } else { None }),
//@@ end
//@@ fn src/lib.rs Range::width props=C05,C01,C02,C03,C04 ret=r
//@@ sig
    requires self.spans_ok(),
    ensures
        //# C05,C01,C02,C03,C04.width
        r == self.sw(),
//@@ end
//@@ fn src/lib.rs Range::height props=C05,C01,C02,C03,C04 ret=r
//@@ sig
    requires self.spans_ok(),
    ensures
        //# C05,C01,C02,C03,C04.height
        r == self.sh(),
//@@ end
//@@ fn src/lib.rs Range::get_size props=C05,C01,C02,C03,C04 ret=r
//@@ sig
    requires self.spans_ok(),
    ensures
        //# C05,C01,C02,C03,C04.get_size
        r.0 == self.sh() && r.1 == self.sw(),
//@@ end
//@@ fn src/lib.rs Range::get props=C05,C01,C02,C03,C04 ret=r
//@@ sig
    requires self.wf(),
    ensures
        //# C05,C01,C02,C03,C04.get
        r == (if relative_position.0 < self.sh() && relative_position.1 < self.sw() {
                Some(&self.at(self.lo().0 + relative_position.0, self.lo().1 + relative_position.1)) } else { None }),
//@@ before /self\.inner\.get\(/
            proof {
                lemma_idx(row as int, col as int, height as int, width as int);
                assert(self.nonempty());
                assert(height == self.h() && width == self.w());
                assert(height * width == self.h() * self.w());
                assert(self.inner@.len() == height * width);
                assert(row * width + col < self.inner@.len());
                assert(self.inner@.len() == self.inner.len());
            }
//@@ end
//@@ fn src/lib.rs Range::set_value props=C05
//@@ sig
    requires
        old(self).wf(),
        // documented: "Panics: If absolute_position > Cell start" (sic) -- the position must be at or beyond the start corner
        old(self).lo().0 <= absolute_position.0, old(self).lo().1 <= absolute_position.1,
        // ADDED (not documented): the grown rectangle must have spans representable in u32 (fewer than 2^32 rows / columns)
        old(self).nonempty() ==> absolute_position.0 - old(self).lo().0 < u32::MAX && absolute_position.1 - old(self).lo().1 < u32::MAX,
    ensures
        //# C05.set_wf
        final(self).wf(),
        //# C05.set_bounds
        // bounding box of the old rectangle and the position (an empty old rectangle contributes nothing)
        final(self).nonempty()
            && final(self).lo() == (if old(self).nonempty() { old(self).lo() } else { absolute_position })
            && final(self).hi().0 == (if old(self).nonempty() && old(self).hi().0 >= absolute_position.0 { old(self).hi().0 } else { absolute_position.0 })
            && final(self).hi().1 == (if old(self).nonempty() && old(self).hi().1 >= absolute_position.1 { old(self).hi().1 } else { absolute_position.1 }),
        //# C05.set_written
        final(self).at(absolute_position.0 as int, absolute_position.1 as int) == value,
        //# C05.set_frame
        lawful::<T>() ==> forall|i: int, j: int| final(self).has(i, j) && !(i == absolute_position.0 && j == absolute_position.1)
            ==> final(self).at(i, j) == (if old(self).has(i, j) { old(self).at(i, j) } else { dflt::<T>() }),
        //# C05.set_on_empty
        !old(self).nonempty() ==> final(self).lo() == absolute_position && final(self).hi() == absolute_position,
//@@ before /match \(/
        // `o`: the rectangle the match works on (the old one, or the single default cell at the position if the old one was empty)
        let ghost o = *self;
        proof {
            assert(o.wf() && o.nonempty());
            assert(old(self).nonempty() ==> o == *old(self));
            assert(!old(self).nonempty() ==> o.lo() == absolute_position && o.hi() == absolute_position);
        }
        let ghost p0 = absolute_position.0 as int;
        let ghost p1 = absolute_position.1 as int;
        let ghost s0 = o.start.0 as int;
        let ghost s1 = o.start.1 as int;
        let ghost h0 = o.h();
        let ghost w0 = o.w();
        let ghost h1: int = if p0 > o.end.0 { p0 - s0 + 1 } else { h0 };
        let ghost w1: int = if p1 > o.end.1 { p1 - s1 + 1 } else { w0 };
        let ghost mut k: int = 0;
        proof {
            o.lemma_len_bound();
            // the old rectangle is stored (h0 * w0 cells); a grown side is shorter than 2^32 (ADDED precondition)
            assert(h0 * w0 == o.inner@.len());
            if p0 > o.end.0 { lemma_mul_u32(h1, w1); lemma_mul_u32(h1, w0); }
            if p1 > o.end.1 { lemma_mul_u32(h1, w1); lemma_mul_u32(h0, w1); }
        }
//@@ before /let len = \(absolute_position/
                proof { lemma_mul_u32(p0 - self.end.0, self.sw()); }
//@@ after /self\.end\.0 = absolute_position\.0;/
                proof { {
                    let d = p0 - o.end.0;
                    assert((h0 + d) * w0 == h0 * w0 + d * w0) by (nonlinear_arith);
                    assert(h1 == h0 + d);
                    assert forall|i: int, j: int| 0 <= i < h1 && 0 <= j < w1 implies
                        0 <= #[trigger] ix(i, j, w1) < h1 * w1
                        && (lawful::<T>() ==> self.inner@[ix(i, j, w1)] == (if i < h0 && j < w0 { o.inner@[ix(i, j, w0)] } else { dflt::<T>() }))
                    by {
                        lemma_idx(i, j, h1, w1);
                        if i < h0 { lemma_idx(i, j, h0, w0); } else {
                            lemma_mul_mono(h0, i, w0);
                        }
                    }
                } }
//@@ before /let mut data = /
                proof { {
                    assert(height == h1 && width == w1 && old_width == w0);
                }
                lemma_mul_u32(width as int, height as int);
                }
//@@ before /for sce in /
                proof {
                    assert(self.inner@.skip(0) =~= self.inner@);
                    lemma_mul_ge1(h0, w0);
                }
//@@ r6 0
//@@ loop 0
                    invariant
                        *self == o, o.nonempty(), o.wf(), h0 == o.h(), w0 == o.w(), old_width == w0,
                        width == w1, w1 > w0, w1 <= 0xffff_ffff, h0 <= 0x1_0000_0000,
                        empty@.len() == width - old_width,
                        lawful::<T>() ==> forall|x: int| 0 <= x < empty@.len() ==> empty@[x] == dflt::<T>(),
                        chunks_size(__it0) == w0 && 0 <= k <= h0 && k * w0 <= h0 * w0 && chunks_rem(__it0) == o.inner@.skip(k * w0)
                            && data@.len() == k * w1 && (k < h0 ==> chunks_rem(__it0).len() > 0),
                        lawful::<T>() ==> forall|i: int, j: int| 0 <= i < k && 0 <= j < w1 ==>
                            data@[#[trigger] ix(i, j, w1)] == (if j < w0 { o.inner@[ix(i, j, w0)] } else { dflt::<T>() }),
                    ensures k == h0,
                    decreases chunks_rem(__it0).len(),
//@@ before /data\.extend_from_slice\(sce\);/
                    let ghost d0 = data@;
                    proof { {
                        let rem = o.inner@.skip(k * w0);
                        assert(rem.len() == h0 * w0 - k * w0);
                        assert(h0 * w0 - k * w0 == (h0 - k) * w0) by (nonlinear_arith);
                        if k >= h0 { lemma_mul_mono(h0 - k, 0, w0); }
                        assert(k < h0);
                        lemma_mul_mono(1, h0 - k, w0);
                        assert(sce@ == rem.take(w0));
                        assert((k + 1) * w0 == k * w0 + w0) by (nonlinear_arith);
                        assert((k + 1) * w1 == k * w1 + w1) by (nonlinear_arith);
                        lemma_mul_mono(k + 1, h0, w0);
                        assert(rem.skip(w0) =~= o.inner@.skip((k + 1) * w0));
                        lemma_mul_u32(k + 1, w1);
                    } }
//@@ after /data\.extend_from_slice\(&empty\);/
                    proof { {
                        assert(data@.len() == (k + 1) * w1);
                        if lawful::<T>() {
                            assert forall|i: int, j: int| 0 <= i < k + 1 && 0 <= j < w1 implies
                                data@[#[trigger] ix(i, j, w1)] == (if j < w0 { o.inner@[ix(i, j, w0)] } else { dflt::<T>() })
                            by {
                                if i < k {
                                    lemma_idx(i, j, k, w1);
                                    assert(data@[ix(i, j, w1)] == d0[ix(i, j, w1)]);
                                } else {
                                    assert(ix(i, j, w1) == k * w1 + j);
                                    if j < w0 {
                                        assert(cloned(sce@[j], data@[d0.len() + j]));
                                        assert(sce@[j] == o.inner@[k * w0 + j]);
                                    } else {
                                        assert(cloned(empty@[j - w0], data@[d0.len() + w0 + (j - w0)]));
                                    }
                                }
                            }
                        }
                        if k + 1 < h0 {
                            assert(h0 * w0 - (k + 1) * w0 == (h0 - (k + 1)) * w0) by (nonlinear_arith);
                            lemma_mul_ge1(h0 - (k + 1), w0);
                        }
                        k = k + 1;
                    } }
//@@ before /data\.extend_from_slice\(&vec!\[T::default\(\); width \* /
                let ghost d1 = data@;
                proof { {
                    // the chunk cursor is exhausted: all h0 rows were copied
                    assert(k == h0);
                    lemma_mul_u32(w1, h1 - h0);
                    assert(h0 * w1 + w1 * (h1 - h0) == h1 * w1) by (nonlinear_arith);
                } }
//@@ before /self\.inner = data;/
                proof { if lawful::<T>() {
                    assert forall|i: int, j: int| 0 <= i < h1 && 0 <= j < w1 implies
                        data@[#[trigger] ix(i, j, w1)] == (if i < h0 && j < w0 { o.inner@[ix(i, j, w0)] } else { dflt::<T>() })
                    by {
                        lemma_idx(i, j, h1, w1);
                        if i < h0 {
                            lemma_idx(i, j, h0, w1);
                            assert(data@[ix(i, j, w1)] == d1[ix(i, j, w1)]);
                        } else {
                            lemma_mul_mono(h0, i, w1);
                        }
                    }
                } }
//@@ before /let pos = \(/
        proof { {
            assert(self.start == o.start);
            assert(self.h() == h1 && self.w() == w1);
            assert(self.inner@.len() >= h1 * w1);
            assert(lawful::<T>() ==> forall|i: int, j: int| 0 <= i < h1 && 0 <= j < w1 ==>
                self.inner@[#[trigger] ix(i, j, w1)] == (if i < h0 && j < w0 { o.inner@[ix(i, j, w0)] } else { dflt::<T>() }));
            lemma_idx(p0 - s0, p1 - s1, h1, w1);
        }
        lemma_mul_u32(p0 - s0, self.sw());
        }
        let ghost m = *self;
//@@ before /self\.inner\[idx\] = value;/
        proof { assert(idx == ix(p0 - s0, p1 - s1, w1)); }
//@@ after /self\.inner\[idx\] = value;/
        proof { {
            assert(self.inner@ == m.inner@.update(idx as int, value));
            if lawful::<T>() {
                assert forall|i: int, j: int| self.has(i, j) && !(i == p0 && j == p1) implies
                    self.at(i, j) == (if o.has(i, j) { o.at(i, j) } else { dflt::<T>() })
                by {
                    lemma_idx(i - s0, j - s1, h1, w1);
                    assert(self.at(i, j) == self.inner@[ix(i - s0, j - s1, w1)]);
                    if ix(i - s0, j - s1, w1) == idx as int { lemma_idx_inj(i - s0, j - s1, p0 - s0, p1 - s1, w1); }
                    assert(o.has(i, j) <==> (i - s0 < h0 && j - s1 < w0));
                    if o.has(i, j) { assert(o.at(i, j) == o.inner@[ix(i - s0, j - s1, w0)]); }
                }
            }
        } }
//@@ end
//@@ fn src/lib.rs Range::range props=C05,C08,C17 ret=r external_body by=range_window_2x2_sel,range_window_empty,range_window_1x1,range_window_1x2,range_window_2x1,range_window_2x2
//@@ sig
    // ASSUMED in Verus (body: chunks().take().skip().zip(chunks_mut()...) + clone_from_slice, outside vstd); checked bounded by Kani.
    requires
        self.wf(),
        // (the source may be empty: Kani harness range_window_empty)
        // precondition of Range::new (undocumented for `range`): corners ordered component-wise
        start.0 <= end.0, start.1 <= end.1,
    ensures
        //# C05.range_wf
        r.wf(),
        //# C05.range_bounds
        r.nonempty() && r.lo() == start && r.hi() == end,
        //# C05.range_values
        lawful::<T>() ==> forall|i: int, j: int| r.has(i, j) ==> r.at(i, j) == (if self.has(i, j) { self.at(i, j) } else { dflt::<T>() }),
//@@ end
//@@ fn src/lib.rs Range::get_value props=C05,C01,C02,C03,C04 ret=r
//@@ sig
    requires self.wf(),
    ensures
        //# C05,C01,C02,C03,C04.get_value
        r == (if self.has(absolute_position.0 as int, absolute_position.1 as int) {
                Some(&self.at(absolute_position.0 as int, absolute_position.1 as int)) } else { None }),
//@@ end
//@@ fn src/lib.rs Range::rows props=C05,C01,C02,C03,C04 ret=r
//@@ sig
    requires self.wf(),
    ensures
        //# C05,C01,C02,C03,C04.rows_start_with_all_rows
        r.is_window(*self, 0, self.sh()),
//@@ body
        proof { self.lemma_rows_window(0, self.sh()); assert(self.buf().subrange(0, self.sh() * self.sw()) =~= self.buf()); assert(0 * self.sw() == 0); if !self.nonempty() { assert(self.buf() =~= Seq::<T>::empty()); } }
//@@ end
//@@ fn src/lib.rs Range::used_cells props=C05,C01,C02,C03,C04 ret=r
//@@ sig
    requires self.wf(),
    ensures
        //# C05,C01,C02,C03,C04.used_cells_start_with_all_cells
        r.is_window(*self, 0, self.buf().len() as int) && r.winv(),
//@@ replace /self\.inner\.iter\(\)\.enumerate\(\)/ Verus cannot attach a specification to the provided trait method Iterator::enumerate; the expression is moved verbatim into the trusted wrapper verif_iter_enumerate
verif_iter_enumerate(&self.inner)
//@@ end
//@@ fn src/lib.rs Range::cells props=C05,C01,C02,C03,C04 ret=r
//@@ sig
    requires self.wf(),
    ensures
        //# C05,C01,C02,C03,C04.cells_start_with_all_cells
        r.is_window(*self, 0, self.buf().len() as int) && r.winv(),
//@@ replace /self\.inner\.iter\(\)\.enumerate\(\)/ Verus cannot attach a specification to the provided trait method Iterator::enumerate; the expression is moved verbatim into the trusted wrapper verif_iter_enumerate
verif_iter_enumerate(&self.inner)
//@@ end
//@@ fn src/lib.rs Range::from_sparse props=C05,C06,C01,C02,C03,C08,C14 ret=r
//@@ sig
    ensures
        //# C05,C01,C02,C03,C14.sparse_wf
        r.wf(),
        //# C05,C01,C02,C03,C14.sparse_empty
        r.nonempty() <==> cells@.len() > 0,
        //# C05,C01,C02,C03,C08,C14.sparse_bounds
        cells@.len() > 0 ==> is_bbox(cells@, r.lo(), r.hi()),
        //# C05,C01,C02,C03,C08,C14.sparse_placed
        forall|i: int, j: int| r.has(i, j) && lastw(cells@, cells@.len() as int, i, j) >= 0 ==>
            r.at(i, j) == cells@[lastw(cells@, cells@.len() as int, i, j)].v(),
        //# C05,C01,C02,C03,C08,C14.sparse_default
        lawful::<T>() ==> forall|i: int, j: int| r.has(i, j) && lastw(cells@, cells@.len() as int, i, j) < 0 ==> r.at(i, j) == dflt::<T>(),
        //# C05,C01,C02,C03,C14.sparse_inside
        forall|k: int| 0 <= k < cells@.len() ==> r.has((#[trigger] cells@[k]).p().0 as int, cells@[k].p().1 as int),
//@@ before /let mut row_start/
            let ghost cs = cells@;
            let ghost n = cells@.len() as int;
//@@ replace /for \(r, c\) in cells\.iter\(\)\.map\(\|c\| c\.pos\) \{/ Verus cannot type a closure that is generic in T for Iterator::map (has_type of the closure value is missing, so vstd's map_postcondition never fires); `for (r, c) in xs.iter().map(|c| c.pos) {` is unfolded to `for __cell in xs.iter() { let (r, c) = __cell.pos;` (definition of Iterator::map + for)
            for __cell in it: cells.iter()
                invariant
                    cs == cells@, n == cs.len(), n > 0,
                    it.seq().len() == n, 0 <= it.index@ <= n,
                    forall|i: int| 0 <= i < n ==> *(#[trigger] it.seq()[i]) == cs[i],
                    forall|i: int| 0 <= i < it.index@ ==> row_start <= (#[trigger] cs[i]).pos.0 <= row_end,
                    it.index@ == 0 ==> row_start == u32::MAX && row_end == 0,
                    it.index@ > 0 ==> exists|i: int| 0 <= i < it.index@ && (#[trigger] cs[i]).pos.0 == row_start,
                    it.index@ > 0 ==> exists|i: int| 0 <= i < it.index@ && (#[trigger] cs[i]).pos.0 == row_end,
                    forall|i: int| 0 <= i < it.index@ ==> col_start <= (#[trigger] cs[i]).pos.1 <= col_end,
                    it.index@ == 0 ==> col_start == u32::MAX && col_end == 0,
                    it.index@ > 0 ==> exists|i: int| 0 <= i < it.index@ && (#[trigger] cs[i]).pos.1 == col_start,
                    it.index@ > 0 ==> exists|i: int| 0 <= i < it.index@ && (#[trigger] cs[i]).pos.1 == col_end,
            { let (r, c) = __cell.pos;
                proof { assert(__cell.pos == cs[it.index@ as int].pos); }
//@@ before /let len = /
            proof {
                assert(cols * rows == rows * cols) by (nonlinear_arith);
                lemma_mul_ge1(rows as int, cols as int);
            }
//@@ after /v\.shrink_to_fit\(\);/
            proof {
                // (A-cap) the cell vector exists, so the count was not saturated
                broadcast use axiom_cell_vec_len;
                assert(v@.len() <= isize::MAX);
                assert(len == rows * cols);
                assert(lawful::<T>() ==> forall|q: int| 0 <= q < len ==> v@[q] == dflt::<T>());
                assert forall|i: int, j: int| row_start <= i <= row_end && col_start <= j <= col_end implies
                    0 <= #[trigger] ((i - row_start) * cols + (j - col_start)) < len by {
                    lemma_idx(i - row_start, j - col_start, rows as int, cols as int);
                }
            }
//@@ loop 1 it2
                invariant
                    cs == cells@, n == cs.len(), n > 0,
                    forall|i: int| 0 <= i < n ==> row_start <= (#[trigger] cs[i]).pos.0 <= row_end,
                    forall|i: int| 0 <= i < n ==> col_start <= (#[trigger] cs[i]).pos.1 <= col_end,
                    cols == col_end - col_start + 1, rows == row_end - row_start + 1,
                    len == rows * cols, v@.len() == len,
                    it2.seq().len() == n, 0 <= it2.index@ <= n,
                    forall|i: int| 0 <= i < n ==> #[trigger] it2.seq()[i] == cs[i],
                    forall|i: int, j: int| row_start <= i <= row_end && col_start <= j <= col_end ==> {
                        let q = #[trigger] ((i - row_start) * cols + (j - col_start));
                        let lw = lastw(cs, it2.index@ as int, i, j);
                        (lw >= 0 ==> v@[q] == cs[lw].val) && (lw < 0 && lawful::<T>() ==> v@[q] == dflt::<T>())
                    },
//@@ before /let idx = /
                let ghost k = it2.index@ as int;
                let ghost v0 = v@;
                proof {
                    assert(c == cs[k]);
                    assert(row_start <= cs[k].pos.0 <= row_end);
                    lemma_idx(row as int, col as int, rows as int, cols as int);
                }
//@@ after /\*v = c\.val;\s*\}/
                proof {
                    assert(v@ == v0.update(idx as int, cs[k].val));
                    assert forall|i: int, j: int| row_start <= i <= row_end && col_start <= j <= col_end implies ({
                        let q = #[trigger] ((i - row_start) * cols + (j - col_start));
                        let lw = lastw(cs, k + 1, i, j);
                        (lw >= 0 ==> v@[q] == cs[lw].val) && (lw < 0 && lawful::<T>() ==> v@[q] == dflt::<T>())
                    }) by {
                        let q = (i - row_start) * cols + (j - col_start);
                        lemma_idx(i - row_start, j - col_start, rows as int, cols as int);
                        if cell_at(cs[k], i, j) {
                        } else {
                            if q == idx as int { lemma_idx_inj(i - row_start, j - col_start, row as int, col as int, cols as int); }
                        }
                    }
                }
//@@ end
//@@ endimpl

//@@ impl src/lib.rs Cell
//@@ fn src/lib.rs Cell::new props=C05,C01,C02,C03,C04 ret=r
//@@ sig
    ensures
        //# C05,C01,C02,C03,C04.cell_new
        r.p() == position && r.v() == value,
//@@ end
//@@ fn src/lib.rs Cell::get_position props=C05,C01,C02,C03,C04 ret=r
//@@ sig
    ensures
        //# C05,C01,C02,C03,C04.cell_pos
        r == self.p(),
//@@ end
//@@ fn src/lib.rs Cell::get_value props=C05,C01,C02,C03,C04 ret=r
//@@ sig
    ensures
        //# C05,C01,C02,C03,C04.cell_val
        *r == self.v(),
//@@ end
//@@ endimpl

// ---- Index / IndexMut. Verus forbids `requires` on methods of a trait impl and std's Index carries none, so the impls are checked
// against stand-ins of std::ops::{Index, IndexMut} (signatures copied) that route the documented precondition ("index out of bounds"
// panic) through a spec-only member `index_pre`.
pub trait Index<Idx> {
    type Output: ?Sized;
    spec fn index_pre(&self, index: Idx) -> bool;
    fn index(&self, index: Idx) -> &Self::Output
        requires self.index_pre(index);
}
pub trait IndexMut<Idx>: Index<Idx> {
    fn index_mut(&mut self, index: Idx) -> &mut Self::Output
        requires old(self).index_pre(index);
}
impl<T: CellType> Range<T> {
    /// the row-major cell buffer (h * w cells; cell (i, j) at i * w + j)
    pub closed spec fn buf(&self) -> Seq<T> { self.inner@ }
    /// row i (relative) of the abstract view
    pub closed spec fn row(&self, i: int) -> Seq<T> { self.inner@.subrange(i * self.w(), (i + 1) * self.w()) }
    proof fn lemma_row(&self, i: int)
        requires self.wf(), 0 <= i < self.sh(),
        ensures
            0 <= i * self.w() <= (i + 1) * self.w() <= self.inner@.len(), (i + 1) * self.w() == i * self.w() + self.w(),
            self.row(i).len() == self.w(),
            forall|j: int| 0 <= j < self.w() ==> self.row(i)[j] == self.at(self.start.0 + i, self.start.1 + j),
    {
        let w = self.w(); let h = self.h();
        assert((i + 1) * w == i * w + w) by (nonlinear_arith);
        assert(0 <= i * w) by (nonlinear_arith) requires 0 <= i, 0 < w;
        assert((i + 1) * w <= h * w) by (nonlinear_arith) requires i + 1 <= h, 0 < w;
    }
}
//@@ impl src/lib.rs "Index<usize> for Range<T>"
//@@ item src/lib.rs impl_type "Index<usize> for Range<T>::type Output"
    /// documented: indexing a row beyond the height panics (slice index out of range)
    open spec fn index_pre(&self, index: usize) -> bool { self.wf() && index < self.sh() }
//@@ fn src/lib.rs "Index<usize> for Range<T>::index" props=C05,C01,C02,C03,C04 ret=r
//@@ sig
    ensures
        //# C05,C01,C02,C03,C04.index_row
        r@ == self.row(index as int),
//@@ body
        proof { self.lemma_row(index as int); self.lemma_len_bound(); }
//@@ end
//@@ endimpl
//@@ impl src/lib.rs "Index<(usize,usize)> for Range<T>"
//@@ item src/lib.rs impl_type "Index<(usize,usize)> for Range<T>::type Output"
    /// documented: "index out of bounds" panic unless row < height and column < width
    open spec fn index_pre(&self, index: (usize, usize)) -> bool { self.wf() && index.0 < self.sh() && index.1 < self.sw() }
//@@ fn src/lib.rs "Index<(usize,usize)> for Range<T>::index" props=C05,C01,C02,C03,C04 ret=r
//@@ sig
    ensures
        //# C05,C01,C02,C03,C04.index_cell
        *r == self.at(self.lo().0 + index.0, self.lo().1 + index.1),
//@@ before /&self\.inner\[/
        proof { lemma_idx(index.0 as int, index.1 as int, height as int, width as int); self.lemma_len_bound(); }
//@@ end
//@@ endimpl
//@@ impl src/lib.rs "IndexMut<(usize,usize)> for Range<T>"
//@@ fn src/lib.rs "IndexMut<(usize,usize)> for Range<T>::index_mut" props=C05 ret=r
//@@ sig
    ensures
        //# C05.index_mut_cell
        *r == old(self).at(old(self).lo().0 + index.0, old(self).lo().1 + index.1),
        //# C05.index_mut_frame
        final(self).lo() == old(self).lo() && final(self).hi() == old(self).hi()
            && final(self).buf() == old(self).buf().update(index.0 * old(self).sw() + index.1, *final(r)),
//@@ before /&mut self\.inner\[/
        proof { lemma_idx(index.0 as int, index.1 as int, height as int, width as int); self.lemma_len_bound(); }
//@@ end
//@@ endimpl

// ---- Rows: the width-sized chunks of the buffer, from both ends
// TRUSTED (A-chunks, continued): `Chunks::next_back` yields the last chunk -- the remainder chunk if the length is not a multiple of the
// chunk size (std: "If chunk_size does not divide the length of the slice, then the last chunk will not have length chunk_size").
pub open spec fn last_chunk_len(len: int, size: int) -> int { if len % size == 0 { size } else { len % size } }
pub assume_specification<'a, T>[ <Chunks<'a, T> as DoubleEndedIterator>::next_back ](c: &mut Chunks<'a, T>) -> (r: Option<&'a [T]>)
    ensures
        chunks_size(*final(c)) == chunks_size(*old(c)),
        chunks_rem(*old(c)).len() == 0 ==> r is None && chunks_rem(*final(c)) == chunks_rem(*old(c)),
        chunks_rem(*old(c)).len() > 0 ==> r is Some
            && r.unwrap()@ == chunks_rem(*old(c)).skip(chunks_rem(*old(c)).len() - last_chunk_len(chunks_rem(*old(c)).len() as int, chunks_size(*old(c)) as int))
            && chunks_rem(*final(c)) == chunks_rem(*old(c)).take(chunks_rem(*old(c)).len() - last_chunk_len(chunks_rem(*old(c)).len() as int, chunks_size(*old(c)) as int));

#[verifier::reject_recursive_types(T)]
//@@ item src/lib.rs struct Rows
impl<'a, T: CellType> Rows<'a, T> {
    /// cells not yet yielded (from either end)
    pub closed spec fn rem(&self) -> Seq<T> { match self.inner { Some(c) => chunks_rem(c), None => Seq::empty() } }
    /// chunk size
    pub closed spec fn cw(&self) -> int { match self.inner { Some(c) => chunks_size(c) as int, None => 0 } }
    /// the iterator still has to yield rows f..b (relative) of `rg`
    pub open spec fn is_window(&self, rg: Range<T>, f: int, b: int) -> bool {
        self.rem() == rg.buf().subrange(f * rg.sw(), b * rg.sw()) && (f < b ==> self.cw() == rg.sw())
    }
}
impl<T: CellType> Range<T> {
    proof fn lemma_rows_window(&self, f: int, b: int)
        requires self.wf(), 0 <= f <= b <= self.sh(),
        ensures
            0 <= f * self.sw() <= b * self.sw() <= self.buf().len(),
            self.buf().subrange(f * self.sw(), b * self.sw()).len() == (b - f) * self.sw(),
            f < b ==> self.row(f) == self.buf().subrange(f * self.sw(), b * self.sw()).take(self.sw())
                && self.buf().subrange(f * self.sw(), b * self.sw()).skip(self.sw()) == self.buf().subrange((f + 1) * self.sw(), b * self.sw())
                && self.row(b - 1) == self.buf().subrange(f * self.sw(), b * self.sw()).skip((b - f) * self.sw() - self.sw())
                && self.buf().subrange(f * self.sw(), b * self.sw()).take((b - f) * self.sw() - self.sw()) == self.buf().subrange(f * self.sw(), (b - 1) * self.sw())
                && ((b - f) * self.sw()) % self.sw() == 0 && self.sw() > 0 && (b - f) * self.sw() >= self.sw(),
    {
        let w = self.sw();
        assert(0 <= f * w) by (nonlinear_arith) requires 0 <= f, 0 <= w;
        assert(f * w <= b * w) by (nonlinear_arith) requires f <= b, 0 <= w;
        assert(b * w <= self.sh() * w) by (nonlinear_arith) requires b <= self.sh(), 0 <= w;
        assert((b - f) * w == b * w - f * w) by (nonlinear_arith);
        if f < b {
            assert((f + 1) * w == f * w + w) by (nonlinear_arith);
            assert((b - 1) * w == b * w - w) by (nonlinear_arith);
            assert((f + 1) * w <= b * w) by (nonlinear_arith) requires f + 1 <= b, 0 <= w;
            let win = self.buf().subrange(f * w, b * w);
            assert(self.row(f) =~= win.take(w));
            assert(win.skip(w) =~= self.buf().subrange((f + 1) * w, b * w));
            assert(self.row(b - 1) =~= win.skip((b - f) * w - w));
            assert(win.take((b - f) * w - w) =~= self.buf().subrange(f * w, (b - 1) * w));
            vstd::arithmetic::div_mod::lemma_mod_multiples_basic(b - f, w);
            assert((b - f) * w >= w) by (nonlinear_arith) requires b - f >= 1, w >= 0;
        }
    }
}
// ---- Cells / UsedCells: Enumerate<slice::Iter> as a ghost double-ended cursor
// TRUSTED (A-enum): std::iter::Enumerate over a slice iterator as an abstract cursor: `en_rem` is the sequence of (index, element)
// pairs not yet yielded; `next` pops its head, `next_back` its last element (Enumerate doc: "yields pairs (i, val), where i is the
// current index of iteration and val is the value returned by the iterator"; for an ExactSizeIterator next_back keeps the true index).
#[verifier::external_type_specification] #[verifier::external_body] #[verifier::reject_recursive_types(I)]
pub struct ExEnumerate<I>(Enumerate<I>);
pub uninterp spec fn en_rem<I: Iterator>(e: Enumerate<I>) -> Seq<(usize, I::Item)>;
pub assume_specification<I: Iterator>[ <Enumerate<I> as Iterator>::next ](e: &mut Enumerate<I>) -> (r: Option<(usize, I::Item)>)
    ensures
        en_rem(*old(e)).len() == 0 ==> r is None && en_rem(*final(e)) == en_rem(*old(e)),
        en_rem(*old(e)).len() > 0 ==> r == Some(en_rem(*old(e))[0]) && en_rem(*final(e)) == en_rem(*old(e)).skip(1);
pub assume_specification<I: ExactSizeIterator + DoubleEndedIterator>[ <Enumerate<I> as DoubleEndedIterator>::next_back ](e: &mut Enumerate<I>) -> (r: Option<(usize, I::Item)>)
    ensures
        en_rem(*old(e)).len() == 0 ==> r is None && en_rem(*final(e)) == en_rem(*old(e)),
        en_rem(*old(e)).len() > 0 ==> r == Some(en_rem(*old(e)).last()) && en_rem(*final(e)) == en_rem(*old(e)).drop_last();
/// the pairs (k, &s[k]) for k in f..b
pub open spec fn en_window<'a, T>(s: Seq<T>, f: int, b: int, rem: Seq<(usize, &'a T)>) -> bool {
    rem.len() == b - f && forall|k: int| 0 <= k < b - f ==> (#[trigger] rem[k]).0 == f + k && *rem[k].1 == s[f + k]
}
// TRUSTED: the body is the real expression `<vec>.iter().enumerate()`, moved into a function because Verus has no
// `assume_specification` for provided trait methods (`Iterator::enumerate`): all elements of the slice, paired with their indices.
#[verifier::external_body]
fn verif_iter_enumerate<'a, T>(s: &'a Vec<T>) -> (r: Enumerate<Iter<'a, T>>)
    ensures en_window(s@, 0, s@.len() as int, en_rem(r)),
{
    s.iter().enumerate()
}

#[verifier::reject_recursive_types(T)]
//@@ item src/lib.rs struct Cells
impl<'a, T: CellType> Cells<'a, T> {
    pub closed spec fn rem(&self) -> Seq<(usize, &'a T)> { en_rem(self.inner) }
    pub closed spec fn cw(&self) -> int { self.width as int }
    /// while cells are left the width is not 0 (the division in `next` is defined); established by Range::cells, kept by next / next_back
    pub closed spec fn winv(&self) -> bool { en_rem(self.inner).len() > 0 ==> self.width > 0 }
    /// the iterator still has to yield cells f..b (row-major positions) of `rg`
    pub open spec fn is_window(&self, rg: Range<T>, f: int, b: int) -> bool {
        en_window(rg.buf(), f, b, self.rem()) && self.cw() == rg.sw()
    }
}
impl<T: CellType> Range<T> {
    /// row-major position k is the cell at relative (k / w, k % w)
    proof fn lemma_cell_pos(&self, k: int)
        requires self.wf(), 0 <= k < self.buf().len(),
        ensures
            self.sw() > 0, 0 <= k / self.sw() < self.sh(), 0 <= k % self.sw() < self.sw(),
            self.has(self.lo().0 + k / self.sw(), self.lo().1 + k % self.sw()),
            self.buf()[k] == self.at(self.lo().0 + k / self.sw(), self.lo().1 + k % self.sw()),
    {
        let w = self.w(); let h = self.h();
        vstd::arithmetic::div_mod::lemma_fundamental_div_mod(k, w);
        vstd::arithmetic::div_mod::lemma_mod_bound(k, w);
        vstd::arithmetic::div_mod::lemma_div_pos_is_pos(k, w);
        let q = k / w; let r = k % w;
        assert(k == w * q + r);
        assert(w * q == q * w) by (nonlinear_arith);
        if q >= h { assert(q * w >= h * w) by (nonlinear_arith) requires q >= h, w > 0; }
    }
}
/// hypothesis on the cell type for used_cells: `==` / `!=` are structural equality
pub open spec fn lawful_eq<T: CellType>() -> bool {
    T::obeys_eq_spec() && (forall|a: T, b: T| #[trigger] a.eq_spec(&b) <==> (a == b))
}
// TRUSTED: the bodies are the real expressions `<enumerate>.by_ref().find(p)` / `.rfind(p)`, moved into functions because Verus has no
// `assume_specification` for provided trait methods. Iterator::find doc: "Searches for an element of an iterator that satisfies a
// predicate ... returns the first true ... find() is short-circuiting; the iterator can be resumed after the first match";
// DoubleEndedIterator::rfind: "Searches for an element of an iterator from the back that satisfies a predicate".
#[verifier::external_body]
fn verif_enum_find<'a, T, P: FnMut(&(usize, &'a T)) -> bool>(it: &mut Enumerate<Iter<'a, T>>, p: P) -> (r: Option<(usize, &'a T)>)
    requires forall|x: (usize, &'a T)| call_requires(p, (&x,)),
    ensures
        match r {
            Some(x) => exists|k: int| 0 <= k < en_rem(*old(it)).len() && x == #[trigger] en_rem(*old(it))[k] && call_ensures(p, (&x,), true)
                && (forall|j: int| 0 <= j < k ==> call_ensures(p, (&#[trigger] en_rem(*old(it))[j],), false))
                && en_rem(*final(it)) == en_rem(*old(it)).skip(k + 1),
            None => (forall|j: int| 0 <= j < en_rem(*old(it)).len() ==> call_ensures(p, (&#[trigger] en_rem(*old(it))[j],), false))
                && en_rem(*final(it)).len() == 0,
        },
{
    it.by_ref().find(p)
}
#[verifier::external_body]
fn verif_enum_rfind<'a, T, P: FnMut(&(usize, &'a T)) -> bool>(it: &mut Enumerate<Iter<'a, T>>, p: P) -> (r: Option<(usize, &'a T)>)
    requires forall|x: (usize, &'a T)| call_requires(p, (&x,)),
    ensures
        match r {
            Some(x) => exists|k: int| 0 <= k < en_rem(*old(it)).len() && x == #[trigger] en_rem(*old(it))[k] && call_ensures(p, (&x,), true)
                && (forall|j: int| k < j < en_rem(*old(it)).len() ==> call_ensures(p, (&#[trigger] en_rem(*old(it))[j],), false))
                && en_rem(*final(it)) == en_rem(*old(it)).take(k),
            None => (forall|j: int| 0 <= j < en_rem(*old(it)).len() ==> call_ensures(p, (&#[trigger] en_rem(*old(it))[j],), false))
                && en_rem(*final(it)).len() == 0,
        },
{
    it.by_ref().rfind(p)
}
#[verifier::reject_recursive_types(T)]
//@@ item src/lib.rs struct UsedCells
impl<'a, T: CellType> UsedCells<'a, T> {
    pub closed spec fn rem(&self) -> Seq<(usize, &'a T)> { en_rem(self.inner) }
    pub closed spec fn cw(&self) -> int { self.width as int }
    pub closed spec fn winv(&self) -> bool { en_rem(self.inner).len() > 0 ==> self.width > 0 }
    /// the iterator still has to look at cells f..b (row-major positions) of `rg`
    pub open spec fn is_window(&self, rg: Range<T>, f: int, b: int) -> bool {
        en_window(rg.buf(), f, b, self.rem()) && self.cw() == rg.sw()
    }
}
proof fn lemma_en_window_sub<'a, T>(s: Seq<T>, f: int, b: int, rem: Seq<(usize, &'a T)>, k: int)
    requires en_window(s, f, b, rem), 0 <= k < b - f,
    ensures en_window(s, f + k + 1, b, rem.skip(k + 1)), en_window(s, f, f + k, rem.take(k)),
        en_window(s, f + 1, b, rem.skip(1)), en_window(s, f, b - 1, rem.drop_last()),
{
    assert forall|i: int| 0 <= i < b - (f + k + 1) implies (#[trigger] rem.skip(k + 1)[i]).0 == f + k + 1 + i && *rem.skip(k + 1)[i].1 == s[f + k + 1 + i] by {
        assert(rem.skip(k + 1)[i] == rem[k + 1 + i]);
    }
    assert forall|i: int| 0 <= i < b - (f + 1) implies (#[trigger] rem.skip(1)[i]).0 == f + 1 + i && *rem.skip(1)[i].1 == s[f + 1 + i] by {
        assert(rem.skip(1)[i] == rem[1 + i]);
    }
}

// ---- the iterator impls. Verus forbids `requires` on methods of a trait impl, and vstd's Iterator has no `size_hint`: the impls are
// checked (verbatim, headers included) against stand-ins of std's Iterator / DoubleEndedIterator (signatures copied) that carry a
// spec-only representation invariant `inv` (established by Range::rows / cells / used_cells, preserved by every method).
pub mod iters {
    use super::*;
    // std's traits stay in scope (under other names) for the method calls on Chunks / Enumerate
    use std::iter::Iterator as StdIterator;
    use std::iter::DoubleEndedIterator as StdDoubleEndedIterator;
    pub trait Iterator {
        type Item;
        spec fn inv(&self) -> bool;
        fn next(&mut self) -> Option<Self::Item>
            requires old(self).inv(),
            ensures final(self).inv();
    }
    pub trait DoubleEndedIterator: Iterator {
        fn next_back(&mut self) -> Option<Self::Item>
            requires old(self).inv(),
            ensures final(self).inv();
    }
//@@ impl src/lib.rs "Iterator for Rows<'a,T>"
//@@ item src/lib.rs impl_type "Iterator for Rows<'a,T>::type Item"
    open spec fn inv(&self) -> bool { true }
//@@ fn src/lib.rs "Iterator for Rows<'a,T>::next" props=C05,C01,C02,C03,C04 ret=r
//@@ sig
    ensures
        //# C05,C01,C02,C03,C04.rows_are_the_width_chunks
        forall|rg: Range<T>, f: int, b: int| rg.wf() && 0 <= f <= b <= rg.sh() && #[trigger] old(self).is_window(rg, f, b) ==>
            (if f < b { r is Some && r.unwrap()@ == rg.row(f) && final(self).is_window(rg, f + 1, b) } else { r is None && final(self).is_window(rg, f, b) }),
//@@ body
        proof {
            assert forall|rg: Range<T>, f: int, b: int| rg.wf() && 0 <= f <= b <= rg.sh() && #[trigger] old(self).is_window(rg, f, b) implies
                old(self).rem().len() == (b - f) * rg.sw() && (f < b ==> rg.sw() > 0 && old(self).rem().len() >= rg.sw()
                    && imin(old(self).cw(), old(self).rem().len() as int) == rg.sw()
                    && rg.row(f) == old(self).rem().take(rg.sw()) && old(self).rem().skip(rg.sw()) == rg.buf().subrange((f + 1) * rg.sw(), b * rg.sw()))
                    && (f == b ==> old(self).rem().len() == 0)
            by { rg.lemma_rows_window(f, b); }
        }
//@@ end
//@@ endimpl
//@@ impl src/lib.rs "DoubleEndedIterator for Rows<'a,T>"
//@@ fn src/lib.rs "DoubleEndedIterator for Rows<'a,T>::next_back" props=C05,C01,C02,C03,C04 ret=r
//@@ sig
    ensures
        //# C05,C01,C02,C03,C04.rows_back_are_the_width_chunks
        forall|rg: Range<T>, f: int, b: int| rg.wf() && 0 <= f <= b <= rg.sh() && #[trigger] old(self).is_window(rg, f, b) ==>
            (if f < b { r is Some && r.unwrap()@ == rg.row(b - 1) && final(self).is_window(rg, f, b - 1) } else { r is None && final(self).is_window(rg, f, b) }),
//@@ body
        proof {
            assert forall|rg: Range<T>, f: int, b: int| rg.wf() && 0 <= f <= b <= rg.sh() && #[trigger] old(self).is_window(rg, f, b) implies
                old(self).rem().len() == (b - f) * rg.sw() && (f < b ==> rg.sw() > 0 && old(self).rem().len() >= rg.sw()
                    && last_chunk_len(old(self).rem().len() as int, old(self).cw()) == rg.sw()
                    && rg.row(b - 1) == old(self).rem().skip(old(self).rem().len() - rg.sw())
                    && old(self).rem().take(old(self).rem().len() - rg.sw()) == rg.buf().subrange(f * rg.sw(), (b - 1) * rg.sw()))
                    && (f == b ==> old(self).rem().len() == 0)
            by { rg.lemma_rows_window(f, b); }
        }
//@@ end
//@@ endimpl

//@@ impl src/lib.rs "Iterator for Cells<'a,T>"
//@@ item src/lib.rs impl_type "Iterator for Cells<'a,T>::type Item"
    open spec fn inv(&self) -> bool { self.winv() }
//@@ fn src/lib.rs "Iterator for Cells<'a,T>::next" props=C05,C01,C02,C03,C04 ret=r
//@@ sig
    ensures
        //# C05,C01,C02,C03,C04.cells_row_major
        forall|rg: Range<T>, f: int, b: int| rg.wf() && 0 <= f <= b <= rg.buf().len() && #[trigger] old(self).is_window(rg, f, b) ==>
            (if f < b {
                r is Some && r.unwrap().0 == f / rg.sw() && r.unwrap().1 == f % rg.sw()
                    && *r.unwrap().2 == rg.at(rg.lo().0 + f / rg.sw(), rg.lo().1 + f % rg.sw())
                    && final(self).is_window(rg, f + 1, b)
            } else { r is None && final(self).is_window(rg, f, b) }),
//@@ closure 0
    -> (res: (usize, usize, &'a T))
        requires self.width > 0
        ensures res.0 == __c0_0.0 / self.width && res.1 == __c0_0.0 % self.width && res.2 == __c0_0.1
//@@ body
        proof {
            assert forall|rg: Range<T>, f: int, b: int| rg.wf() && 0 <= f <= b <= rg.buf().len() && #[trigger] old(self).is_window(rg, f, b) && f < b implies
                rg.sw() > 0 && rg.buf()[f] == rg.at(rg.lo().0 + f / rg.sw(), rg.lo().1 + f % rg.sw())
                && en_window(rg.buf(), f + 1, b, old(self).rem().skip(1))
            by { rg.lemma_cell_pos(f); }
        }
//@@ end
//@@ endimpl

//@@ impl src/lib.rs "DoubleEndedIterator for Cells<'a,T>"
//@@ fn src/lib.rs "DoubleEndedIterator for Cells<'a,T>::next_back" props=C05,C01,C02,C03,C04 ret=r
//@@ sig
    ensures
        //# C05,C01,C02,C03,C04.cells_row_major_from_the_back
        forall|rg: Range<T>, f: int, b: int| rg.wf() && 0 <= f <= b <= rg.buf().len() && #[trigger] old(self).is_window(rg, f, b) ==>
            (if f < b {
                r is Some && r.unwrap().0 == (b - 1) / rg.sw() && r.unwrap().1 == (b - 1) % rg.sw()
                    && *r.unwrap().2 == rg.at(rg.lo().0 + (b - 1) / rg.sw(), rg.lo().1 + (b - 1) % rg.sw())
                    && final(self).is_window(rg, f, b - 1)
            } else { r is None && final(self).is_window(rg, f, b) }),
//@@ closure 0
    -> (res: (usize, usize, &'a T))
        requires self.width > 0
        ensures res.0 == __c0_0.0 / self.width && res.1 == __c0_0.0 % self.width && res.2 == __c0_0.1
//@@ body
        proof {
            assert forall|rg: Range<T>, f: int, b: int| rg.wf() && 0 <= f <= b <= rg.buf().len() && #[trigger] old(self).is_window(rg, f, b) && f < b implies
                rg.sw() > 0 && rg.buf()[b - 1] == rg.at(rg.lo().0 + (b - 1) / rg.sw(), rg.lo().1 + (b - 1) % rg.sw())
                && en_window(rg.buf(), f, b - 1, old(self).rem().drop_last())
            by { rg.lemma_cell_pos(b - 1); lemma_en_window_sub(rg.buf(), f, b, old(self).rem(), 0); }
        }
//@@ end
//@@ endimpl
//@@ impl src/lib.rs "Iterator for UsedCells<'a,T>"
//@@ item src/lib.rs impl_type "Iterator for UsedCells<'a,T>::type Item"
    open spec fn inv(&self) -> bool { self.winv() }
//@@ fn src/lib.rs "Iterator for UsedCells<'a,T>::next" props=C05,C01,C02,C03,C04 ret=r
//@@ sig
    ensures
        //# C05,C01,C02,C03,C04.used_cells_are_the_non_default_cells_in_order
        lawful::<T>() && lawful_eq::<T>() ==> forall|rg: Range<T>, f: int, b: int| rg.wf() && 0 <= f <= b <= rg.buf().len() && #[trigger] old(self).is_window(rg, f, b) ==>
            (match r {
                // the next used cell is the first non-default cell at or after position f ...
                Some(x) => exists|k: int| f <= k < b && #[trigger] rg.buf()[k] != dflt::<T>() && (forall|j: int| f <= j < k ==> #[trigger] rg.buf()[j] == dflt::<T>())
                    && x.0 == k / rg.sw() && x.1 == k % rg.sw() && *x.2 == rg.at(rg.lo().0 + k / rg.sw(), rg.lo().1 + k % rg.sw())
                    && final(self).is_window(rg, k + 1, b),
                // ... and there is none when all cells left are default
                None => (forall|j: int| f <= j < b ==> #[trigger] rg.buf()[j] == dflt::<T>()) && final(self).is_window(rg, b, b),
            }),
//@@ replace /self\s*\.inner\s*\.by_ref\(\)\s*\.(r?find)\(/ Verus cannot attach a specification to the provided trait methods Iterator::find and DoubleEndedIterator::rfind; the call `self.inner.by_ref().find(p)` is routed, with the method name and the closure text kept, through the trusted wrappers verif_enum_find and verif_enum_rfind whose bodies are that very expression
verif_enum_\g<1>(&mut self.inner, 
//@@ replace /\|&\(_, v\)\| ([^\n]+)\)(?=\s*\.map)/ Verus does not support reference patterns (`&(_, v)`) in closure parameters; the parameter is bound by name and destructured by a `let`, the closure body text is kept verbatim
|__p: &(usize, &'a T)| -> (res: bool)
        ensures lawful::<T>() && lawful_eq::<T>() ==> res == (*(*__p).1 != dflt::<T>())
    { let v = (*__p).1; \g<1> })
//@@ closure 1
    -> (res: (usize, usize, &'a T))
        requires self.width > 0
        ensures res.0 == __c1_0.0 / self.width && res.1 == __c1_0.0 % self.width && res.2 == __c1_0.1
//@@ body
        let ghost rem0 = self.rem();
        proof {
            assert forall|rg: Range<T>, f: int, b: int| rg.wf() && 0 <= f <= b <= rg.buf().len() && #[trigger] old(self).is_window(rg, f, b) implies
                (forall|k: int| 0 <= k < b - f ==> (#[trigger] rem0[k]).0 == f + k && *rem0[k].1 == rg.buf()[f + k] && rg.sw() > 0
                    && rg.buf()[f + k] == rg.at(rg.lo().0 + (f + k) / rg.sw(), rg.lo().1 + (f + k) % rg.sw())
                    && en_window(rg.buf(), f + k + 1, b, rem0.skip(k + 1)) && en_window(rg.buf(), f, f + k, rem0.take(k)))
                && (forall|j: int| f <= j < b ==> #[trigger] rg.buf()[j] == *rem0[j - f].1)
                && (rem0.len() == 0 ==> f == b)
            by {
                assert forall|k: int| 0 <= k < b - f implies (#[trigger] rem0[k]).0 == f + k && *rem0[k].1 == rg.buf()[f + k] && rg.sw() > 0
                    && rg.buf()[f + k] == rg.at(rg.lo().0 + (f + k) / rg.sw(), rg.lo().1 + (f + k) % rg.sw())
                    && en_window(rg.buf(), f + k + 1, b, rem0.skip(k + 1)) && en_window(rg.buf(), f, f + k, rem0.take(k))
                by { rg.lemma_cell_pos(f + k); lemma_en_window_sub(rg.buf(), f, b, rem0, k); }
            }
        }
//@@ end
//@@ endimpl
//@@ impl src/lib.rs "DoubleEndedIterator for UsedCells<'a,T>"
//@@ fn src/lib.rs "DoubleEndedIterator for UsedCells<'a,T>::next_back" props=C05,C01,C02,C03,C04 ret=r
//@@ sig
    ensures
        //# C05,C01,C02,C03,C04.used_cells_from_the_back_are_the_non_default_cells_in_reverse_order
        lawful::<T>() && lawful_eq::<T>() ==> forall|rg: Range<T>, f: int, b: int| rg.wf() && 0 <= f <= b <= rg.buf().len() && #[trigger] old(self).is_window(rg, f, b) ==>
            (match r {
                // the next used cell from the back is the last non-default cell before position b ...
                Some(x) => exists|k: int| f <= k < b && #[trigger] rg.buf()[k] != dflt::<T>() && (forall|j: int| k < j < b ==> #[trigger] rg.buf()[j] == dflt::<T>())
                    && x.0 == k / rg.sw() && x.1 == k % rg.sw() && *x.2 == rg.at(rg.lo().0 + k / rg.sw(), rg.lo().1 + k % rg.sw())
                    && final(self).is_window(rg, f, k),
                // ... and there is none when all cells left are default
                None => (forall|j: int| f <= j < b ==> #[trigger] rg.buf()[j] == dflt::<T>()) && final(self).is_window(rg, f, f),
            }),
//@@ replace /self\s*\.inner\s*\.by_ref\(\)\s*\.(r?find)\(/ Verus cannot attach a specification to the provided trait methods Iterator::find and DoubleEndedIterator::rfind; the call `self.inner.by_ref().find(p)` is routed, with the method name and the closure text kept, through the trusted wrappers verif_enum_find and verif_enum_rfind whose bodies are that very expression
verif_enum_\g<1>(&mut self.inner, 
//@@ replace /\|&\(_, v\)\| ([^\n]+)\)(?=\s*\.map)/ Verus does not support reference patterns (`&(_, v)`) in closure parameters; the parameter is bound by name and destructured by a `let`, the closure body text is kept verbatim
|__p: &(usize, &'a T)| -> (res: bool)
        ensures lawful::<T>() && lawful_eq::<T>() ==> res == (*(*__p).1 != dflt::<T>())
    { let v = (*__p).1; \g<1> })
//@@ closure 1
    -> (res: (usize, usize, &'a T))
        requires self.width > 0
        ensures res.0 == __c1_0.0 / self.width && res.1 == __c1_0.0 % self.width && res.2 == __c1_0.1
//@@ body
        let ghost rem0 = self.rem();
        proof {
            assert forall|rg: Range<T>, f: int, b: int| rg.wf() && 0 <= f <= b <= rg.buf().len() && #[trigger] old(self).is_window(rg, f, b) implies
                (forall|k: int| 0 <= k < b - f ==> (#[trigger] rem0[k]).0 == f + k && *rem0[k].1 == rg.buf()[f + k] && rg.sw() > 0
                    && rg.buf()[f + k] == rg.at(rg.lo().0 + (f + k) / rg.sw(), rg.lo().1 + (f + k) % rg.sw())
                    && en_window(rg.buf(), f + k + 1, b, rem0.skip(k + 1)) && en_window(rg.buf(), f, f + k, rem0.take(k)))
                && (forall|j: int| f <= j < b ==> #[trigger] rg.buf()[j] == *rem0[j - f].1)
                && (rem0.len() == 0 ==> f == b)
            by {
                assert forall|k: int| 0 <= k < b - f implies (#[trigger] rem0[k]).0 == f + k && *rem0[k].1 == rg.buf()[f + k] && rg.sw() > 0
                    && rg.buf()[f + k] == rg.at(rg.lo().0 + (f + k) / rg.sw(), rg.lo().1 + (f + k) % rg.sw())
                    && en_window(rg.buf(), f + k + 1, b, rem0.skip(k + 1)) && en_window(rg.buf(), f, f + k, rem0.take(k))
                by { rg.lemma_cell_pos(f + k); lemma_en_window_sub(rg.buf(), f, b, rem0, k); }
            }
        }
//@@ end
//@@ endimpl
    // the contracts compose: a 2 x 3 range read from both ends (preconditions `inv` / windows are established by the constructors)
    fn witness_iterators<T: CellType>(r: &Range<T>)
        requires r.wf(), r.sh() == 2, r.sw() == 3,
    {
        proof { r.lemma_rows_window(0, 2); assert(r.buf().len() == 6) by { assert(r.buf().subrange(0, 2 * 3 as int).len() == 6); } }
        let mut it = r.rows();
        let a = it.next();
        assert(a is Some && a.unwrap()@ == r.row(0));
        let b = it.next_back();
        assert(b is Some && b.unwrap()@ == r.row(1));
        let c = it.next();
        assert(c is None);
        let mut cs = r.cells();
        let x = cs.next();
        assert(x is Some && x.unwrap().0 == 0 && x.unwrap().1 == 0 && *x.unwrap().2 == r.at(r.lo().0 + 0, r.lo().1 + 0));
        let y = cs.next_back();
        assert(y is Some && y.unwrap().0 == 1 && y.unwrap().1 == 2) by { assert(5int / 3int == 1 && 5int % 3int == 2); }
    }
} // mod iters

// ---- witnesses: every `requires` above is satisfiable, and the contracts compose along a history of operations
// (the calls below are checked against the preconditions; the asserts are consequences of the postconditions alone)
fn witness_history<T: CellType>(v: T, v2: T, v3: T)
    requires lawful::<T>(),
{
    let mut r = Range::<T>::new((1, 1), (2, 3));
    r.set_value((2, 2), v);                   // inside
    r.set_value((4, 1), v2);                  // grows rows
    r.set_value((3, 5), v3);                  // grows columns
    assert(r.wf() && r.lo() == (1u32, 1u32) && r.hi() == (4u32, 5u32));
    let g = r.get_value((2, 2));
    assert(g == Some(&v));
    let g2 = r.get_value((4, 1));
    assert(g2 == Some(&v2));
    let g3 = r.get_value((1, 1));
    assert(g3 == Some(&dflt::<T>()));
    let g4 = r.get_value((0, 1));
    assert(g4 is None);
    let g5 = r.get((2, 4));
    assert(g5 == Some(&v3));
    let sz = r.get_size();
    assert(sz.0 == 4 && sz.1 == 5);
    let w = r.range((2, 2), (6, 2));
    assert(w.at(2, 2) == v && w.at(5, 2) == dflt::<T>());
    let e = Range::<T>::empty();
    assert(e.wf());
    let s = e.start();
    assert(s is None);
}
fn witness_from_sparse<T: CellType>(a: T, b: T, c: T)
    requires lawful::<T>(),
{
    let mut cells: Vec<Cell<T>> = Vec::new();
    // cells in any order (rows not ascending)
    cells.push(Cell::new((4, 7), c));
    cells.push(Cell::new((3, 7), a));
    cells.push(Cell::new((3, 5), b));
    proof {
        let cs = cells@;
        assert(cs[0].pos == (4u32, 7u32) && cs[1].pos == (3u32, 7u32) && cs[2].pos == (3u32, 5u32));
        reveal_with_fuel(lastw, 4);
        assert(lastw(cs, 3, 3, 7) == 1 && lastw(cs, 3, 4, 5) == -1);
    }
    let r = Range::from_sparse(cells);
    assert(r.wf() && r.nonempty());
    assert(r.at(3, 7) == a);
    assert(r.has(4, 5) ==> r.at(4, 5) == dflt::<T>());
}
// a span of all 2^32 columns is representable
fn witness_full_span<T: CellType>() {
    let r = Range::<T>::new((7, 0), (7, u32::MAX));
    assert(r.wf() && r.lo() == (7u32, 0u32) && r.hi() == (7u32, u32::MAX));
    let w = r.width();
    assert(w == 0x1_0000_0000);
}

} // verus!
fn main() {}
