//@@ unit props=C05,C06,C08,C17
#![allow(unused_imports, dead_code, unused_variables, unused_mut, unused_assignments)]
use vstd::prelude::*;
use std::cmp::{max, min};
use std::ops::{Index, IndexMut};

verus! {

//@@ item src/lib.rs trait "trait CellType"
//@@ item src/lib.rs struct Cell
//@@ item src/lib.rs struct Range

pub open spec fn lawful<T: CellType>() -> bool {
    &&& forall|a: T, b: T| call_ensures(T::clone, (&a,), b) ==> a == b
    &&& forall|a: T, b: T| call_ensures(T::default, (), a) && call_ensures(T::default, (), b) ==> a == b
}
pub open spec fn dflt<T: CellType>() -> T { choose|d: T| call_ensures(T::default, (), d) }

impl<T: CellType> Range<T> {
    pub closed spec fn h(&self) -> int { self.end.0 - self.start.0 + 1 }
    pub closed spec fn w(&self) -> int { self.end.1 - self.start.1 + 1 }
    /// representation invariant
    pub closed spec fn wf(&self) -> bool {
        self.inner@.len() == 0 || (self.start.0 <= self.end.0 && self.start.1 <= self.end.1
            && self.h() <= u32::MAX && self.w() <= u32::MAX && self.inner@.len() == self.h() * self.w())
    }
    pub closed spec fn nonempty(&self) -> bool { self.inner@.len() > 0 }
    pub closed spec fn lo(&self) -> (u32, u32) { self.start }
    pub closed spec fn hi(&self) -> (u32, u32) { self.end }
    /// abstract height / width (0 for the empty range)
    pub closed spec fn sh(&self) -> int { if self.nonempty() { self.h() } else { 0 } }
    pub closed spec fn sw(&self) -> int { if self.nonempty() { self.w() } else { 0 } }
    /// absolute position (r, c) lies inside the rectangle
    pub closed spec fn has(&self, r: int, c: int) -> bool {
        self.nonempty() && self.start.0 <= r <= self.end.0 && self.start.1 <= c <= self.end.1
    }
    /// abstract view: value at absolute position (r, c) (meaningful where has(r, c))
    pub closed spec fn at(&self, r: int, c: int) -> T {
        self.inner@[(r - self.start.0) * self.w() + (c - self.start.1)]
    }
}

proof fn lemma_idx(i: int, j: int, h: int, w: int)
    requires 0 <= i < h, 0 <= j < w,
    ensures 0 <= i * w + j < h * w, i * w + j <= (h - 1) * w + (w - 1),
{
    assert(i * w <= (h - 1) * w) by (nonlinear_arith) requires 0 <= i <= h - 1, w > 0;
    assert((h - 1) * w + w == h * w) by (nonlinear_arith);
    assert(0 <= i * w) by (nonlinear_arith) requires 0 <= i, 0 < w;
}

//@@ impl src/lib.rs Range
//@@ fn src/lib.rs Range::new props=C05 ret=r
//@@ sig
    requires start.0 <= end.0, start.1 <= end.1,
    ensures
        //# C05.new_wf
        r.wf(),
        //# C05.new_bounds
        r.nonempty() && r.lo() == start && r.hi() == end,
        //# C05.new_default
        lawful::<T>() ==> forall|i: int, j: int| r.has(i, j) ==> r.at(i, j) == dflt::<T>(),
//@@ body
        proof {
            let hh = end.0 - start.0 + 1; let ww = end.1 - start.1 + 1;
            assert(hh * ww >= 1) by (nonlinear_arith) requires hh >= 1, ww >= 1;
            assert forall|i: int, j: int| 0 <= i < hh && 0 <= j < ww implies 0 <= #[trigger] (i * ww + j) < hh * ww by { lemma_idx(i, j, hh, ww); }
        }
//@@ end
//@@ fn src/lib.rs Range::empty props=C05 ret=r
//@@ sig
    ensures
        //# C05.empty_wf
        r.wf(),
        //# C05.empty_is_empty
        !r.nonempty(),
//@@ end
//@@ fn src/lib.rs Range::is_empty props=C05 ret=r
//@@ sig
    ensures
        //# C05.is_empty
        r == !self.nonempty(),
//@@ end
//@@ fn src/lib.rs Range::start props=C05 ret=r
//@@ sig
    ensures
        //# C05.start
        r == (if self.nonempty() { Some(self.lo()) } else { None }),
//@@ end
//@@ fn src/lib.rs Range::end props=C05 ret=r
//@@ sig
    ensures
        //# C05.end
        r == (if self.nonempty() { Some(self.hi()) } else { None }),
//@@ end
//@@ fn src/lib.rs Range::width props=C05 ret=r
//@@ sig
    requires self.wf(),
    ensures
        //# C05.width
        r == self.sw(),
//@@ end
//@@ fn src/lib.rs Range::height props=C05 ret=r
//@@ sig
    requires self.wf(),
    ensures
        //# C05.height
        r == self.sh(),
//@@ end
//@@ fn src/lib.rs Range::get_size props=C05 ret=r
//@@ sig
    requires self.wf(),
    ensures
        //# C05.get_size
        r.0 == self.sh() && r.1 == self.sw(),
//@@ end
//@@ fn src/lib.rs Range::get props=C05 ret=r
//@@ sig
    requires self.wf(),
    ensures
        //# C05.get
        r == (if relative_position.0 < self.sh() && relative_position.1 < self.sw() {
                Some(&self.at(self.lo().0 + relative_position.0, self.lo().1 + relative_position.1)) } else { None }),
//@@ before /self\.inner\.get\(/
            proof {
                lemma_idx(row as int, col as int, height as int, width as int);
                assert(self.nonempty());
                assert(height == self.h() && width == self.w());
                assert(height * width == self.h() * self.w());
                assert(self.inner@.len() == height * width);
                assert(row * width + col < self.inner@.len());
                assert(self.inner@.len() == self.inner.len());
            }
//@@ end
//@@ fn src/lib.rs Range::get_value props=C05 ret=r
//@@ sig
    requires self.wf(),
    ensures
        //# C05.get_value
        r == (if self.has(absolute_position.0 as int, absolute_position.1 as int) {
                Some(&self.at(absolute_position.0 as int, absolute_position.1 as int)) } else { None }),
//@@ end
//@@ endimpl

} // verus!
fn main() {}
