//@@ unit props=C01,C15,C17
// Unit a1small: the A1 decoder of unit a1, extracted a second time under the hypothesis that the cell name is small
// (<= 9 digits, <= 6 letters).  Every implicit obligation must be discharged here.  (Since the accumulators are checked -- add_digit --
// unit a1 discharges them unconditionally as well; this copy is kept as the small-input proof that nothing is rejected.)
#![allow(unused_imports, dead_code, unused_variables, unused_mut, unused_assignments)]
use vstd::prelude::*;

verus! {

// ---- stand-ins for foreign error payload types (opaque; never inspected by the verified code)
pub mod quick_xml {
    pub struct Error;
    pub mod events { pub mod attributes { pub struct AttrError; } }
    pub mod encoding { pub struct EncodingError; }
}
pub mod zip { pub mod result { pub struct ZipError; } }
pub mod vba { pub struct VbaError; }
#[verifier::external_type_specification] #[verifier::external_body] pub struct ExIoError(std::io::Error);
#[verifier::external_type_specification] #[verifier::external_body] pub struct ExParseFloatError(std::num::ParseFloatError);
#[verifier::external_type_specification] #[verifier::external_body] pub struct ExParseIntError(std::num::ParseIntError);


//@@ item src/xlsx/mod.rs enum XlsxError
//@@ item src/lib.rs struct Dimensions
//@@ item src/xlsx/mod.rs const MAX_COLUMNS
//@@ item src/xlsx/mod.rs const MAX_ROWS

pub open spec fn is_digit(c: u8) -> bool { 0x30 <= c <= 0x39 }
pub open spec fn is_upper(c: u8) -> bool { 0x41 <= c <= 0x5a }
pub open spec fn is_lower(c: u8) -> bool { 0x61 <= c <= 0x7a }
pub open spec fn is_letter(c: u8) -> bool { is_upper(c) || is_lower(c) }
pub open spec fn letter_val(c: u8) -> nat {
    if is_upper(c) { (c - 0x41 + 1) as nat } else { (c - 0x61 + 1) as nat }
}

/// decimal value of a digit string (most significant first) -- written from the A1 grammar, not from the code
pub open spec fn dec10(s: Seq<u8>) -> nat
    decreases s.len()
{
    if s.len() == 0 { 0 } else { dec10(s.drop_last()) * 10 + (s.last() - 0x30) as nat }
}

/// bijective base-26 value of a letter string: A=1 .. Z=26, AA=27 ...
pub open spec fn b26(s: Seq<u8>) -> nat
    decreases s.len()
{
    if s.len() == 0 { 0 } else { b26(s.drop_last()) * 26 + letter_val(s.last()) }
}

pub open spec fn all_digits(s: Seq<u8>) -> bool { forall|i: int| 0 <= i < s.len() ==> is_digit(#[trigger] s[i]) }
pub open spec fn all_letters(s: Seq<u8>) -> bool { forall|i: int| 0 <= i < s.len() ==> is_letter(#[trigger] s[i]) }

/// `s` = letters ++ digits with nl letters
pub open spec fn a1_shape(s: Seq<u8>, nl: int) -> bool {
    0 <= nl <= s.len() && all_letters(s.subrange(0, nl)) && all_digits(s.subrange(nl, s.len() as int))
}

/// well-formed cell name inside the sheet limits: 1..3 letters, 1..7 digits
pub open spec fn a1_wf(s: Seq<u8>, nl: int) -> bool {
    a1_shape(s, nl) && 1 <= nl <= 3 && 1 <= s.len() - nl <= 7
}

pub open spec fn pow10(k: nat) -> nat decreases k { if k == 0 { 1 } else { 10 * pow10((k - 1) as nat) } }
pub open spec fn pow26(k: nat) -> nat decreases k { if k == 0 { 1 } else { 26 * pow26((k - 1) as nat) } }

proof fn lemma_dec10_prepend(d: u8, t: Seq<u8>)
    requires is_digit(d),
    ensures dec10(seq![d] + t) == (d - 0x30) as nat * pow10(t.len()) + dec10(t),
    decreases t.len(),
{
    let s = seq![d] + t;
    if t.len() == 0 {
        assert(s =~= seq![d]);
        assert(s.len() == 1);
        assert(s.drop_last().len() == 0);
        assert(s.last() == d);
        assert(dec10(s.drop_last()) == 0);
        assert(dec10(s) == dec10(s.drop_last()) * 10 + (s.last() - 0x30) as nat);
        assert(pow10(0) == 1);
        assert(dec10(t) == 0);
    } else {
        assert(s.drop_last() =~= seq![d] + t.drop_last());
        assert(s.last() == t.last());
        lemma_dec10_prepend(d, t.drop_last());
        let p = pow10(t.drop_last().len());
        assert(pow10(t.len()) == 10 * p);
        assert(dec10(s) == dec10(s.drop_last()) * 10 + (s.last() - 0x30) as nat);
        assert(dec10(t) == dec10(t.drop_last()) * 10 + (t.last() - 0x30) as nat);
        let dv = (d - 0x30) as nat;
        assert((dv * p + dec10(t.drop_last())) * 10 == dv * (10 * p) + dec10(t.drop_last()) * 10) by (nonlinear_arith);
    }
}

proof fn lemma_b26_prepend(d: u8, t: Seq<u8>)
    requires is_letter(d),
    ensures b26(seq![d] + t) == letter_val(d) * pow26(t.len()) + b26(t),
    decreases t.len(),
{
    let s = seq![d] + t;
    if t.len() == 0 {
        assert(s =~= seq![d]);
        assert(s.len() == 1);
        assert(s.drop_last().len() == 0);
        assert(s.last() == d);
        assert(b26(s.drop_last()) == 0);
        assert(b26(s) == b26(s.drop_last()) * 26 + letter_val(s.last()));
        assert(pow26(0) == 1);
        assert(b26(t) == 0);
    } else {
        assert(s.drop_last() =~= seq![d] + t.drop_last());
        assert(s.last() == t.last());
        lemma_b26_prepend(d, t.drop_last());
        let p = pow26(t.drop_last().len());
        assert(pow26(t.len()) == 26 * p);
        assert(b26(s) == b26(s.drop_last()) * 26 + letter_val(s.last()));
        assert(b26(t) == b26(t.drop_last()) * 26 + letter_val(t.last()));
        let dv = letter_val(d);
        assert((dv * p + b26(t.drop_last())) * 26 == dv * (26 * p) + b26(t.drop_last()) * 26) by (nonlinear_arith);
    }
}

proof fn lemma_dec10_bound(t: Seq<u8>)
    requires all_digits(t),
    ensures dec10(t) < pow10(t.len()),
    decreases t.len(),
{
    if t.len() > 0 {
        assert forall|i: int| 0 <= i < t.drop_last().len() implies is_digit(#[trigger] t.drop_last()[i]) by { assert(t.drop_last()[i] == t[i]); }
        lemma_dec10_bound(t.drop_last());
        assert(is_digit(t[t.len() - 1]));
    }
}

/// b26 of k letters lies in [ (26^k - 1)/25 , 26 * (26^k - 1)/25 ]; only the coarse bound b26 < 27/25 * 26^k... we use b26(t) * 25 <= 26 * (pow26(k) - 1)
proof fn lemma_b26_bound(t: Seq<u8>)
    requires all_letters(t),
    ensures b26(t) * 25 <= 26 * (pow26(t.len()) - 1), t.len() > 0 ==> b26(t) >= 1,
    decreases t.len(),
{
    if t.len() > 0 {
        assert forall|i: int| 0 <= i < t.drop_last().len() implies is_letter(#[trigger] t.drop_last()[i]) by { assert(t.drop_last()[i] == t[i]); }
        lemma_b26_bound(t.drop_last());
        assert(is_letter(t[t.len() - 1]));
        assert(1 <= letter_val(t.last()) <= 26);
        assert(pow26(t.len()) == 26 * pow26(t.drop_last().len()));
    }
}

proof fn lemma_pow10_vals()
    ensures pow10(0) == 1, pow10(1) == 10, pow10(2) == 100, pow10(3) == 1000, pow10(4) == 10000, pow10(5) == 100000,
        pow10(6) == 1000000, pow10(7) == 10000000, pow10(8) == 100000000, pow10(9) == 1000000000,
{
    reveal_with_fuel(pow10, 11);
}
proof fn lemma_pow26_vals()
    ensures pow26(0) == 1, pow26(1) == 26, pow26(2) == 676, pow26(3) == 17576, pow26(4) == 456976, pow26(5) == 11881376, pow26(6) == 308915776,
{
    reveal_with_fuel(pow26, 8);
}
proof fn lemma_pow_mono(a: nat, b: nat)
    requires a <= b,
    ensures pow10(a) <= pow10(b), pow26(a) <= pow26(b), pow10(a) >= 1, pow26(a) >= 1,
    decreases b,
{
    if a < b { lemma_pow_mono(a, (b - 1) as nat); }
    else if a > 0 { lemma_pow_mono((a - 1) as nat, (b - 1) as nat); }
}

/// last k bytes of s
pub open spec fn tail(s: Seq<u8>, k: int) -> Seq<u8> { s.subrange(s.len() - k, s.len() as int) }
/// bytes [len-k, len-nd) of s
pub open spec fn mid(s: Seq<u8>, k: int, nd: int) -> Seq<u8> { s.subrange(s.len() - k, s.len() - nd) }

/// the (row, col) an A1 name `letters ++ digits` (nl letters) denotes, 0-based
pub open spec fn a1_value(s: Seq<u8>, nl: int) -> (u32, Option<u32>) {
    ((dec10(s.subrange(nl, s.len() as int)) - 1) as u32,
     if nl > 0 { Some((b26(s.subrange(0, nl)) - 1) as u32) } else { None })
}
/// shape within the range where u32 arithmetic cannot overflow: <= 9 digits, <= 6 letters
pub open spec fn a1_small(s: Seq<u8>, nl: int) -> bool { a1_shape(s, nl) && s.len() - nl <= 9 && nl <= 6 }

/// `acc + digit * pow` and `pow * base` both fit in a u32
pub open spec fn digit_fits(acc: u32, digit: u32, pow: u32, base: u32) -> bool {
    acc + digit * pow <= u32::MAX && pow * base <= u32::MAX
}
// (same contract as in unit a1, re-verified here on the same text)
//@@ fn src/xlsx/mod.rs add_digit props=C01,C15,C17 ret=r
//@@ sig
    ensures
        //# C01,C15,C17.add_digit_exact
        digit_fits(acc, digit, *old(pow), base) ==> r == Ok::<u32, XlsxError>((acc + digit * *old(pow)) as u32) && *final(pow) == *old(pow) * base,
        //# C01,C15,C17.add_digit_overflow_rejected
        !digit_fits(acc, digit, *old(pow), base) ==> r is Err,
//@@ closure 0
    -> (res: Option<u32>) ensures res == (if acc + d <= u32::MAX { Some((acc + d) as u32) } else { None })
//@@ end

//@@ fn src/xlsx/mod.rs get_row_and_optional_column props=C01,C15,C17 alias=small ret=r
//@@ sig
    requires
        exists|nl: int| a1_small(range@, nl),
    ensures
        //# C01,C15,C17.a1_decode
        forall|nl: int| #[trigger] a1_small(range@, nl) && dec10(range@.subrange(nl, range@.len() as int)) >= 1 ==>
            r == Ok::<(u32, Option<u32>), XlsxError>(a1_value(range@, nl)),
        //# C01,C15,C17.a1_zero_row_rejected
        forall|nl: int| #[trigger] a1_small(range@, nl) && dec10(range@.subrange(nl, range@.len() as int)) == 0 ==> r is Err,
        //# C01,C15,C17.a1_malformed_rejected
        (forall|nl: int| !#[trigger] a1_shape(range@, nl)) ==> r is Err,
//@@ before /for c in /
    let ghost mut nd: int = 0;
    let ghost s = range@;
    let ghost n = range@.len() as int;
    let ghost nl0 = choose|nl: int| a1_small(range@, nl);
    proof { lemma_pow10_vals(); lemma_pow26_vals(); }
    proof { assert(tail(s, 0) =~= Seq::<u8>::empty()); assert(mid(s, 0, 0) =~= Seq::<u8>::empty()); }
//@@ loop 0 it
        invariant
            s == range@, n == s.len(),
            it.seq().len() == n,
            forall|i: int| 0 <= i < n ==> *(#[trigger] it.seq()[i]) == s[n - 1 - i],
            0 <= nd <= it.index@ <= n,
            a1_small(s, nl0),
            nd <= n - nl0,
            !readrow ==> n - nd == nl0,
            row < pow10(nd as nat),
            readrow ==> nd == it.index@,
            !readrow ==> nd < it.index@,
            all_digits(tail(s, nd)),
            all_letters(mid(s, it.index@ as int, nd)),
            row == dec10(tail(s, nd)),
            readrow ==> pow == pow10(nd as nat) && col == 0,
            !readrow ==> row >= 1 && col == b26(mid(s, it.index@ as int, nd)) && pow == pow26((it.index@ - nd) as nat),
//@@ before /match \*c \{/
            let ghost k = it.index@ as int;
            proof {
                assert(*c == s[n - 1 - k]);
                assert(tail(s, k + 1) =~= seq![*c] + tail(s, k));
                assert(mid(s, k + 1, nd) =~= seq![*c] + mid(s, k, nd));
                // no split into letters ++ digits can survive a non-alphanumeric byte, a digit left of a letter
                assert(forall|nl: int| #[trigger] a1_shape(s, nl) ==> (nl <= n - 1 - k ==> is_digit(s.subrange(nl, n)[n - 1 - k - nl])) && (nl > n - 1 - k ==> is_letter(s.subrange(0, nl)[n - 1 - k])));
                if !readrow {
                    // s[n - nd - 1] is a letter
                    assert(is_letter(mid(s, k, nd)[k - nd - 1]));
                    assert(forall|nl: int| #[trigger] a1_shape(s, nl) ==> (nl <= n - nd - 1 ==> is_digit(s.subrange(nl, n)[n - nd - 1 - nl])));
                }
            }
//@@ before /row = add_digit/
                    proof {
                        // this digit lies in the digit part of the (unique) split: at most 9 digits in all
                        assert(n - 1 - k >= nl0) by { if n - 1 - k < nl0 { assert(is_letter(s.subrange(0, nl0)[n - 1 - k])); } }
                        assert(nd + 1 <= 9);
                        lemma_pow_mono(nd as nat, 8); lemma_pow10_vals();
                        assert(pow10((nd + 1) as nat) == 10 * pow10(nd as nat));
                        assert(((c - 0x30) as nat) * pow10(nd as nat) <= 9 * pow10(nd as nat)) by (nonlinear_arith) requires (c - 0x30) as nat <= 9;
                        lemma_dec10_prepend(c, tail(s, k));
                        lemma_dec10_bound(tail(s, k));
                        assert(all_digits(tail(s, k + 1))) by {
                            assert forall|i: int| 0 <= i < k + 1 implies is_digit(#[trigger] tail(s, k + 1)[i]) by {
                                if i > 0 { assert(tail(s, k + 1)[i] == tail(s, k)[i - 1]); }
                            }
                        }
                        lemma_dec10_bound(tail(s, k + 1));
                        lemma_pow_mono((nd + 1) as nat, 9);
                        assert(digit_fits(row, (c - 0x30) as u32, pow, 10));
                    }
//@@ after /row = add_digit\([^;]*;/
                    proof { nd = nd + 1; assert(mid(s, k + 1, nd) =~= Seq::<u8>::empty()); }
//@@ before /col = add_digit/#0of2
                proof {
                    // at most 6 letters: this letter and those seen so far all lie left of the split
                    assert(n - nd == nl0);
                    assert(k - nd + 1 <= nl0 <= 6);
                    lemma_pow_mono((k - nd) as nat, 5); lemma_pow26_vals();
                    assert(pow26((k - nd + 1) as nat) == 26 * pow26((k - nd) as nat));
                    if nd < k { lemma_b26_bound(mid(s, k, nd)); }
                    assert(letter_val(c) * pow26((k - nd) as nat) <= 26 * pow26((k - nd) as nat)) by (nonlinear_arith) requires letter_val(c) <= 26;
                }
                proof {
                    if nd == k { assert(mid(s, k, nd) =~= Seq::<u8>::empty()); }
                    lemma_b26_prepend(c, mid(s, k, nd));
                    assert(all_letters(mid(s, k + 1, nd))) by {
                        assert forall|i: int| 0 <= i < k + 1 - nd implies is_letter(#[trigger] mid(s, k + 1, nd)[i]) by {
                            if i > 0 { assert(mid(s, k + 1, nd)[i] == mid(s, k, nd)[i - 1]); }
                        }
                    }
                    lemma_b26_bound(mid(s, k + 1, nd));
                    lemma_pow_mono((k - nd + 1) as nat, 6);
                    assert(digit_fits(col, letter_val(c) as u32, pow, 26));
                }
//@@ before /col = add_digit/#1of2
                proof {
                    // at most 6 letters: this letter and those seen so far all lie left of the split
                    assert(n - nd == nl0);
                    assert(k - nd + 1 <= nl0 <= 6);
                    lemma_pow_mono((k - nd) as nat, 5); lemma_pow26_vals();
                    assert(pow26((k - nd + 1) as nat) == 26 * pow26((k - nd) as nat));
                    if nd < k { lemma_b26_bound(mid(s, k, nd)); }
                    assert(letter_val(c) * pow26((k - nd) as nat) <= 26 * pow26((k - nd) as nat)) by (nonlinear_arith) requires letter_val(c) <= 26;
                }
                proof {
                    if nd == k { assert(mid(s, k, nd) =~= Seq::<u8>::empty()); }
                    lemma_b26_prepend(c, mid(s, k, nd));
                    assert(all_letters(mid(s, k + 1, nd))) by {
                        assert forall|i: int| 0 <= i < k + 1 - nd implies is_letter(#[trigger] mid(s, k + 1, nd)[i]) by {
                            if i > 0 { assert(mid(s, k + 1, nd)[i] == mid(s, k, nd)[i - 1]); }
                        }
                    }
                    lemma_b26_bound(mid(s, k + 1, nd));
                    lemma_pow_mono((k - nd + 1) as nat, 6);
                    assert(digit_fits(col, letter_val(c) as u32, pow, 26));
                }
//@@ after /if readrow \{/#1of3
                    proof {
                        // first letter met: any split must put the boundary exactly here, so its digit part is tail(s, k)
                        assert forall|nl: int| #[trigger] a1_shape(s, nl) implies nl == n - k by {
                            if nl > n - k { assert(is_letter(s.subrange(0, nl)[n - k])); assert(is_digit(tail(s, k)[0])); }
                        }
                        assert(tail(s, k) =~= s.subrange(n - k, n));
                        assert(a1_shape(s, nl0));
                        assert(nl0 == n - k);
                    }
//@@ after /if readrow \{/#2of3
                    proof {
                        // first letter met: any split must put the boundary exactly here, so its digit part is tail(s, k)
                        assert forall|nl: int| #[trigger] a1_shape(s, nl) implies nl == n - k by {
                            if nl > n - k { assert(is_letter(s.subrange(0, nl)[n - k])); assert(is_digit(tail(s, k)[0])); }
                        }
                        assert(tail(s, k) =~= s.subrange(n - k, n));
                        assert(a1_shape(s, nl0));
                        assert(nl0 == n - k);
                    }
//@@ before /let row = row/
    proof {
        assert(tail(s, nd) =~= s.subrange(n - nd, n));
        assert(mid(s, n, nd) =~= s.subrange(0, n - nd));
        assert(a1_shape(s, n - nd));
        // uniqueness of the split
        assert forall|nl: int| #[trigger] a1_shape(s, nl) implies nl == n - nd by {
            if nl < n - nd { assert(is_digit(s.subrange(nl, n)[0])); assert(is_letter(s.subrange(0, n - nd)[nl])); }
            if nl > n - nd { assert(is_letter(s.subrange(0, nl)[n - nd])); assert(is_digit(s.subrange(n - nd, n)[0])); }
        }
        lemma_b26_bound(mid(s, n, nd));
    }
//@@ end


/// vacuity guard: the hypothesis of the small-input copy is satisfiable ("A1")
proof fn witness_a1_small()
    ensures exists|nl: int| a1_small(seq![0x41u8, 0x31u8], nl),
{
    let s = seq![0x41u8, 0x31u8];
    assert(s.subrange(0, 1) =~= seq![0x41u8]);
    assert(s.subrange(1, 2) =~= seq![0x31u8]);
    assert(all_letters(s.subrange(0, 1)));
    assert(all_digits(s.subrange(1, 2)));
    assert(a1_small(s, 1));
}
} // verus!
fn main() {}
