//@@ unit props=C13,C20,C06,C02,C18
// Unit cfb: [MS-CFB] compound-file reader of src/cfb.rs (Cfb, Header, Sectors, Directory), verbatim text.
#![feature(allocator_api)]
#![allow(unused_imports, dead_code, unused_variables, unused_mut, unused_assignments)]
use vstd::prelude::*;
use vstd::std_specs::iter::IteratorSpec;

verus! {

// TRUSTED: 64-bit target (usize == u64); calamine's `id as usize * self.size` and `u64 -> usize` conversions rely on it
global size_of usize == 8;

#[verifier::external_type_specification] #[verifier::external_body] pub struct ExIoError(std::io::Error);
#[verifier::external_type_specification] #[verifier::external_body] pub struct ExParseFloatError(std::num::ParseFloatError);
#[verifier::external_type_specification] #[verifier::external_body] pub struct ExParseIntError(std::num::ParseIntError);
#[verifier::external_type_specification] pub struct ExSeekFrom(std::io::SeekFrom);
// ---- stand-ins for foreign error payload types of XlsxError / XlsbError (opaque; never inspected by the verified code)
pub mod quick_xml {
    pub struct Error;
    pub mod events { pub mod attributes { pub struct AttrError; } }
    pub mod encoding { pub struct EncodingError; }
}
pub mod zip { pub mod result { pub struct ZipError; } }
pub mod vba { pub struct VbaError; }
/// `crate::cfb::Cfb` as the xlsx / xlsb modules name it
pub mod cfb { pub use super::{Cfb, CfbError}; }

//@@ item src/cfb.rs const RESERVED_SECTORS
//@@ item src/cfb.rs const DIFSECT
//@@ item src/cfb.rs const ENDOFCHAIN
//@@ item src/cfb.rs enum CfbError

// ---------------------------------------------------------------- A-io: ghost model of std::io::Read
// TRUSTED: (A-io) documented behaviour of std::io::Read: a reader owns the sequence `rem()` of bytes not yet delivered;
// `read` copies the next n bytes (0 <= n <= buf.len()) to the front of buf and drops them; n == 0 only when buf is
// empty or the stream is at its end; `read_exact` fills buf completely or fails.
pub trait Read {
    spec fn rem(&self) -> Seq<u8>;
    /// ghost flag: some read/seek on this reader has returned an I/O error
    spec fn io_failed(&self) -> bool;
    fn read(&mut self, buf: &mut [u8]) -> (r: Result<usize, std::io::Error>)
        ensures
            final(buf)@.len() == old(buf)@.len(),
            match r {
                Ok(n) => n <= old(buf)@.len() && n <= old(self).rem().len()
                    && (n == 0 ==> old(buf)@.len() == 0 || old(self).rem().len() == 0)
                    && final(self).rem() == old(self).rem().skip(n as int)
                    && final(buf)@ == old(self).rem().take(n as int) + old(buf)@.skip(n as int)
                    && final(self).io_failed() == old(self).io_failed(),
                Err(_) => final(self).io_failed(),
            };
    fn read_exact(&mut self, buf: &mut [u8]) -> (r: Result<(), std::io::Error>)
        ensures
            final(buf)@.len() == old(buf)@.len(),
            match r {
                Ok(_) => old(buf)@.len() <= old(self).rem().len()
                    && final(self).rem() == old(self).rem().skip(old(buf)@.len() as int)
                    && final(buf)@ == old(self).rem().take(old(buf)@.len() as int)
                    && final(self).io_failed() == old(self).io_failed(),
                // nothing else is assumed about Err: any read may fail with an I/O error (UnexpectedEof when the stream is too short)
                Err(_) => final(self).io_failed(),
            };
}

// ---------------------------------------------------------------- [MS-CFB] specification (independent of the code)
/// sector `id` of the sector space `data` (the bytes after the header) with sectors of `size` bytes
pub open spec fn sector(data: Seq<u8>, size: int, id: int) -> Seq<u8> {
    data.subrange(id * size, (id + 1) * size)
}
/// sector `id` lies completely inside `data`
pub open spec fn sector_in(data: Seq<u8>, size: int, id: int) -> bool {
    0 <= id && (id + 1) * size <= data.len()
}

/// C06 allocation bound `n <= bound` (bound = bytes of input available). Opaque so that a *failed* bound (a finding) is not
/// assumed by the verifier in the rest of the function, where it would mask other obligations.
#[verifier::opaque]
pub open spec fn alloc_le(n: int, bound: int) -> bool { n <= bound }

/// [MS-CFB] 2.3: sector chain starting at `start`: follow the FAT until ENDOFCHAIN (0xFFFFFFFE).
/// `None` when the chain is not well formed within `fuel` steps: an id outside the FAT / above MAXREGSECT, or a cycle.
pub open spec fn fat_chain(fat: Seq<u32>, start: u32, fuel: nat) -> Option<Seq<u32>>
    decreases fuel
{
    if start == 0xFFFF_FFFEu32 { Some(Seq::<u32>::empty()) }
    else if fuel == 0 || start as int >= fat.len() || start > 0xFFFF_FFFAu32 { None }
    else {
        match fat_chain(fat, fat[start as int], (fuel - 1) as nat) {
            Some(t) => Some(seq![start] + t),
            None => None,
        }
    }
}
/// concatenation of the sectors `ids` of the sector space `data`
pub open spec fn chain_bytes(data: Seq<u8>, size: int, ids: Seq<u32>) -> Seq<u8>
    decreases ids.len()
{
    if ids.len() == 0 { Seq::<u8>::empty() } else { chain_bytes(data, size, ids.drop_last()) + sector(data, size, ids.last() as int) }
}
pub open spec fn all_in(data: Seq<u8>, size: int, ids: Seq<u32>) -> bool {
    forall|i: int| 0 <= i < ids.len() ==> sector_in(data, size, #[trigger] ids[i] as int)
}
/// the chain from `start` is well formed and all its sectors lie inside `data`
pub open spec fn chain_ok(data: Seq<u8>, size: int, fat: Seq<u32>, start: u32, fuel: nat) -> bool {
    fat_chain(fat, start, fuel) is Some && all_in(data, size, fat_chain(fat, start, fuel).unwrap())
}
/// [MS-CFB] 2.6.3: a stream object = the sectors of its chain, cut to the stream size recorded in the directory entry
/// (`len == 0`: size unknown, the whole chain)
pub open spec fn stream_bytes(data: Seq<u8>, size: int, fat: Seq<u32>, start: u32, len: int, fuel: nat) -> Seq<u8> {
    let raw = chain_bytes(data, size, fat_chain(fat, start, fuel).unwrap());
    if 0 < len < raw.len() { raw.take(len) } else { raw }
}

/// follow a successor function from `s` until `stop`; None: invalid node met or fuel exhausted
pub open spec fn follow(nxt: spec_fn(u32) -> u32, valid: spec_fn(u32) -> bool, stop: spec_fn(u32) -> bool, s: u32, fuel: nat) -> Option<Seq<u32>>
    decreases fuel
{
    if stop(s) { Some(Seq::<u32>::empty()) }
    else if fuel == 0 || !valid(s) { None }
    else {
        match follow(nxt, valid, stop, nxt(s), (fuel - 1) as nat) {
            Some(t) => Some(seq![s] + t),
            None => None,
        }
    }
}
proof fn lemma_follow_fuel(nxt: spec_fn(u32) -> u32, valid: spec_fn(u32) -> bool, stop: spec_fn(u32) -> bool, s: u32, f1: nat, f2: nat)
    requires follow(nxt, valid, stop, s, f1) is Some, follow(nxt, valid, stop, s, f2) is Some,
    ensures follow(nxt, valid, stop, s, f1) == follow(nxt, valid, stop, s, f2),
    decreases f1,
{
    if !stop(s) { lemma_follow_fuel(nxt, valid, stop, nxt(s), (f1 - 1) as nat, (f2 - 1) as nat); }
}
/// the path from the j-th node is the j-th suffix; all nodes are valid
proof fn lemma_follow_suffix(nxt: spec_fn(u32) -> u32, valid: spec_fn(u32) -> bool, stop: spec_fn(u32) -> bool, s: u32, f: nat, j: int)
    requires follow(nxt, valid, stop, s, f) is Some, 0 <= j < follow(nxt, valid, stop, s, f).unwrap().len(),
    ensures
        j <= f,
        follow(nxt, valid, stop, follow(nxt, valid, stop, s, f).unwrap()[j], (f - j) as nat) == Some(follow(nxt, valid, stop, s, f).unwrap().skip(j)),
        valid(follow(nxt, valid, stop, s, f).unwrap()[j]),
    decreases j,
{
    let ids = follow(nxt, valid, stop, s, f).unwrap();
    let t = follow(nxt, valid, stop, nxt(s), (f - 1) as nat).unwrap();
    assert(ids == seq![s] + t);
    if j == 0 {
        assert(ids.skip(0) =~= ids);
    } else {
        lemma_follow_suffix(nxt, valid, stop, nxt(s), (f - 1) as nat, j - 1);
        assert(ids[j] == t[j - 1]);
        assert(ids.skip(j) =~= t.skip(j - 1));
    }
}
proof fn lemma_follow_distinct(nxt: spec_fn(u32) -> u32, valid: spec_fn(u32) -> bool, stop: spec_fn(u32) -> bool, s: u32, f: nat)
    requires follow(nxt, valid, stop, s, f) is Some,
    ensures follow(nxt, valid, stop, s, f).unwrap().no_duplicates(),
{
    let ids = follow(nxt, valid, stop, s, f).unwrap();
    assert forall|i: int, j: int| 0 <= i < ids.len() && 0 <= j < ids.len() && i != j implies ids[i] != ids[j] by {
        if ids[i] == ids[j] {
            lemma_follow_suffix(nxt, valid, stop, s, f, i);
            lemma_follow_suffix(nxt, valid, stop, s, f, j);
            lemma_follow_fuel(nxt, valid, stop, ids[i], (f - i) as nat, (f - j) as nat);
            assert(ids.skip(i).len() == ids.skip(j).len());
        }
    }
}
/// pigeonhole: distinct values below n are at most n many
proof fn lemma_pigeon(ids: Seq<u32>, n: int)
    requires n >= 0, ids.no_duplicates(), forall|i: int| 0 <= i < ids.len() ==> (#[trigger] ids[i] as int) < n,
    ensures ids.len() <= n,
    decreases n,
{
    if ids.len() == 0 {
    } else if n == 0 {
        assert((ids[0] as int) < 0);
    } else if exists|k: int| 0 <= k < ids.len() && ids[k] as int == n - 1 {
        let k = choose|k: int| 0 <= k < ids.len() && ids[k] as int == n - 1;
        let r = ids.subrange(0, k) + ids.subrange(k + 1, ids.len() as int);
        assert forall|i: int| 0 <= i < r.len() implies (#[trigger] r[i] as int) < n - 1 by {
            let oi = if i < k { i } else { i + 1 };
            assert(r[i] == ids[oi]);
            assert(ids[oi] != ids[k]);
        }
        assert forall|i: int, j: int| 0 <= i < r.len() && 0 <= j < r.len() && i != j implies r[i] != r[j] by {
            let oi = if i < k { i } else { i + 1 };
            let oj = if j < k { j } else { j + 1 };
            assert(r[i] == ids[oi] && r[j] == ids[oj]);
        }
        lemma_pigeon(r, n - 1);
    } else {
        assert forall|i: int| 0 <= i < ids.len() implies (#[trigger] ids[i] as int) < n - 1 by { }
        lemma_pigeon(ids, n - 1);
    }
}

// ---- FAT chains as instances of `follow` (for the length bound that makes the chain walk terminate)
pub open spec fn fat_nxt(fat: Seq<u32>) -> spec_fn(u32) -> u32 { |x: u32| fat[x as int] }
pub open spec fn fat_valid(fat: Seq<u32>) -> spec_fn(u32) -> bool { |x: u32| (x as int) < fat.len() && x <= 0xFFFF_FFFAu32 }
pub open spec fn fat_stop() -> spec_fn(u32) -> bool { |x: u32| x == 0xFFFF_FFFEu32 }
proof fn lemma_chain_is_follow(fat: Seq<u32>, s: u32, f: nat)
    ensures fat_chain(fat, s, f) == follow(fat_nxt(fat), fat_valid(fat), fat_stop(), s, f),
    decreases f,
{
    if s != 0xFFFF_FFFEu32 && f > 0 && (s as int) < fat.len() && s <= 0xFFFF_FFFAu32 {
        lemma_chain_is_follow(fat, fat[s as int], (f - 1) as nat);
    }
}
/// [MS-CFB]: a well-formed chain visits every FAT entry at most once, so it has at most fat.len() sectors
proof fn lemma_chain_len(fat: Seq<u32>, s: u32, f: nat)
    requires fat_chain(fat, s, f) is Some,
    ensures fat_chain(fat, s, f).unwrap().len() <= fat.len(),
{
    lemma_chain_is_follow(fat, s, f);
    let ids = fat_chain(fat, s, f).unwrap();
    lemma_follow_distinct(fat_nxt(fat), fat_valid(fat), fat_stop(), s, f);
    assert forall|i: int| 0 <= i < ids.len() implies (#[trigger] ids[i] as int) < fat.len() by {
        lemma_follow_suffix(fat_nxt(fat), fat_valid(fat), fat_stop(), s, f, i);
    }
    lemma_pigeon(ids, fat.len() as int);
}
/// the number of sectors is a sufficient fuel
proof fn lemma_chain_min(fat: Seq<u32>, s: u32, f: nat)
    requires fat_chain(fat, s, f) is Some,
    ensures fat_chain(fat, s, fat_chain(fat, s, f).unwrap().len()) == fat_chain(fat, s, f),
    decreases f,
{
    if s != 0xFFFF_FFFEu32 {
        lemma_chain_min(fat, fat[s as int], (f - 1) as nat);
        let t = fat_chain(fat, fat[s as int], (f - 1) as nat).unwrap();
        assert((seq![s] + t).len() == t.len() + 1);
    }
}

/// a well-formed chain does not depend on the fuel
proof fn lemma_chain_fuel(fat: Seq<u32>, start: u32, f1: nat, f2: nat)
    requires fat_chain(fat, start, f1) is Some, fat_chain(fat, start, f2) is Some,
    ensures fat_chain(fat, start, f1) == fat_chain(fat, start, f2),
    decreases f1,
{
    if start != 0xFFFF_FFFEu32 {
        lemma_chain_fuel(fat, fat[start as int], (f1 - 1) as nat, (f2 - 1) as nat);
    }
}

//@@ item src/cfb.rs struct Sectors

impl Sectors {
    /// representation invariant (not file controlled): sector sizes are 512/4096 ([MS-CFB] 2.2 sector shift 9/12) or 64 (mini sector)
    pub closed spec fn wf(&self) -> bool { self.size == 64 || self.size == 512 || self.size == 4096 }
    pub closed spec fn sz(&self) -> int { self.size as int }
    pub closed spec fn loaded(&self) -> Seq<u8> { self.data@ }
    /// the whole sector space: what is already loaded followed by what the reader still holds
    pub open spec fn total<R: Read>(&self, r: &R) -> Seq<u8> { self.loaded() + (*r).rem() }
}

#[verifier::loop_isolation(false)]
//@@ impl src/cfb.rs Sectors
//@@ fn src/cfb.rs Sectors::new props=C13 ret=r
//@@ sig
    ensures
        //# C13.sectors_new
        r.sz() == size && r.loaded() == data@ && ((size == 64 || size == 512 || size == 4096) ==> r.wf()),
//@@ end
//@@ fn src/cfb.rs Sectors::get props=C13,C20,C02,C18 entry ret=res
//@@ sig
    requires
        old(self).wf(),
    ensures
        //# C13.get_frame_size
        final(self).sz() == old(self).sz() && final(self).wf(),
        //# C13.get_frame_data_grows
        old(self).loaded().len() <= final(self).loaded().len() && final(self).loaded().take(old(self).loaded().len() as int) == old(self).loaded(),
        //# C13,C20.get_sector
        sector_in(old(self).total(old(r)), old(self).sz(), id as int) ==> (match res {
            Ok(s) => s@ == sector(old(self).total(old(r)), old(self).sz(), id as int),
            Err(e) => e is Io,
        }),
        //# C13.get_conservation
        // unless I/O fails the sector space (loaded bytes + bytes the reader still holds) is what it was: nothing is lost, no padding added
        res is Ok || (res matches Err(e) && e is Invalid) ==> final(self).total(final(r)) == old(self).total(old(r)),
        //# C13,C20.get_err_is_io_failure_or_beyond_eof
        (res matches Err(e) ==> (e is Io && (*final(r)).io_failed())
            || (e is Invalid && id as int * old(self).sz() > old(self).total(old(r)).len() && (*final(r)).io_failed() == (*old(r)).io_failed()))
            && (res is Ok ==> (*final(r)).io_failed() == (*old(r)).io_failed()),
        //# C06.get_beyond_eof_is_err
        id as int * old(self).sz() > old(self).total(old(r)).len() ==> res is Err,
        //# C13.get_short_at_eof
        !sector_in(old(self).total(old(r)), old(self).sz(), id as int) && id as int * old(self).sz() <= old(self).total(old(r)).len() ==> (match res {
            Ok(s) => s@ == old(self).total(old(r)).skip(id as int * old(self).sz()),
            Err(e) => e is Io,
        }),
//@@ body
        let ghost total = self.total(r);
        let ghost data0 = self.data@;
        proof {
            assert(0 <= id as int * self.size as int <= 0xFFFF_FFFF * 4096) by (nonlinear_arith) requires 0 <= id as int <= 0xFFFF_FFFF, 0 <= self.size as int <= 4096;
        }
//@@ before /self\.data\.resize/
                //# C06.alloc_bound_resize
                // the buffer never exceeds what the reader has supplied so far by more than one sector
                assert(alloc_le(stop as int, total.len() + self.size)) by {
                    reveal(alloc_le);
                    assert((self.data@.take(len as int) + (*r).rem()).len() == len + (*r).rem().len());
                }
                let ghost before = self.data@;
//@@ loop 0
                invariant
                    self.wf(), self.size == old(self).size,
                    end == start + self.size,
                    len <= self.data@.len() <= end,
                    data0.len() <= len,
                    data0 == old(self).data@, total == old(self).total(old(r)),
                    self.data@.take(data0.len() as int) == data0,
                    self.data@.take(len as int) + (*r).rem() == total,
                    (*r).io_failed() == (*old(r)).io_failed(),
                decreases end - len,
//@@ before /let read = /
                let ghost pre = self.data@;
                let ghost rem0 = (*r).rem();
                proof {
                    assert(pre.len() == stop && len < stop <= end);
                    assert(pre.take(len as int) =~= before.take(len as int));
                    assert(pre.take(data0.len() as int) =~= before.take(data0.len() as int));
                }
//@@ before /if read == 0/
                proof {
                    let n = read as int;
                    assert(self.data@ =~= pre.take(len as int) + (rem0.take(n) + pre.subrange(len as int, stop as int).skip(n)) + pre.skip(stop as int));
                    assert(self.data@.take(len + n) =~= pre.take(len as int) + rem0.take(n));
                    assert(rem0 =~= rem0.take(n) + rem0.skip(n));
                    assert(self.data@.take(len + n) + (*r).rem() =~= (pre.take(len as int) + rem0));
                    assert(self.data@.take(data0.len() as int) =~= pre.take(data0.len() as int));
                }
//@@ after /if read == 0 \{/
                    proof {
                        assert((*r).rem().len() == 0);
                        assert(self.data@.take(len as int) + (*r).rem() =~= self.data@.take(len as int));
                        assert(total.len() == len);
                        assert((id as int + 1) * (self.size as int) == id as int * (self.size as int) + self.size as int) by (nonlinear_arith);
                        if start <= len {
                            assert(self.data@.subrange(start as int, len as int) =~= total.skip(start as int));
                        }
                        assert(start as int == id as int * self.size as int);
                        assert(total == old(self).total(old(r)));
                        assert(self.size as int == old(self).sz());
                        assert(len < end);
                        assert(!sector_in(total, self.size as int, id as int));
                    }
//@@ before /if start > len/
                    proof {
                        //# C13.get_eof_buffer_is_input
                        assert(self.data@ =~= total);
                        assert(self.data@ + (*r).rem() =~= total);
                        assert(self.data@.take(data0.len() as int) =~= data0);
                    }
//@@ before /Ok\(&self/#1of2
        proof {
            assert((id as int + 1) * (self.size as int) == id as int * (self.size as int) + self.size as int) by (nonlinear_arith);
            assert(start as int == id as int * self.size as int);
            if end as int <= data0.len() {
                assert(self.data@ == data0);
                assert(total == data0 + (*r).rem());
                assert(self.data@.subrange(start as int, end as int) =~= total.subrange(start as int, end as int));
            } else {
                assert(self.data@.take(end as int) =~= self.data@);
                assert(self.data@.subrange(start as int, end as int) =~= total.subrange(start as int, end as int));
            }
        }
//@@ replace /&mut self\.data\[/ Vec's IndexMut<Range> has no vstd postcondition; std defines it as index_mut on the derefed slice, which vstd specifies
&mut self.data.as_mut_slice()[
//@@ replace /map_err\(CfbError::Io\)/ Verus does not support a datatype constructor as a function value; eta-expanded
map_err(|e| -> (ce: CfbError) ensures ce is Io { CfbError::Io(e) })
//@@ end
//@@ fn src/cfb.rs Sectors::get_chain props=C13,C20 entry ret=res
//@@ sig
    requires
        old(self).wf(),
    ensures
        //# C13.chain_frame_size
        final(self).sz() == old(self).sz() && final(self).wf(),
        //# C13.chain_frame_data_grows
        old(self).loaded().len() <= final(self).loaded().len() && final(self).loaded().take(old(self).loaded().len() as int) == old(self).loaded(),
        //# C13,C20.chain_bytes
        forall|fuel: nat| #[trigger] chain_ok(old(self).total(old(r)), old(self).sz(), fats@, sector_id, fuel) ==> (match res {
            Ok(v) => v@ == stream_bytes(old(self).total(old(r)), old(self).sz(), fats@, sector_id, len as int, fuel),
            Err(e) => e is Io,
        }),
        //# C13,C20.chain_io_error_flag
        (res matches Err(CfbError::Io(_)) ==> (*final(r)).io_failed()) && (res is Ok ==> (*final(r)).io_failed() == (*old(r)).io_failed()),
        //# C13.chain_conservation
        forall|fuel: nat| #[trigger] chain_ok(old(self).total(old(r)), old(self).sz(), fats@, sector_id, fuel) && res is Ok
            ==> final(self).total(final(r)) == old(self).total(old(r)),
//@@ body
        let ghost total = self.total(r);
        let ghost sz = self.sz();
        let ghost start0 = sector_id;
        let ghost okx = exists|f: nat| chain_ok(total, sz, fats@, start0, f);
        let ghost f1 = choose|f: nat| chain_ok(total, sz, fats@, start0, f);
        // minimal fuel: the number of sectors of the chain, at most fats.len() (pigeonhole)
        let ghost f0 = fat_chain(fats@, start0, f1).unwrap().len();
        proof { if okx { lemma_chain_min(fats@, start0, f1); lemma_chain_len(fats@, start0, f1); } }
        let ghost all = fat_chain(fats@, start0, f0).unwrap();
        let ghost mut fl: nat = f0;
        let ghost mut done = Seq::<u32>::empty();
//@@ before /Vec::with_capacity/
            //# C06.alloc_bound_chain_capacity
            // reserved only when the declared length fits the longest possible chain: at most (fats.len() + 1) * size bytes, i.e.
            // at most 1024 bytes per byte of FAT (K = 1024, K0 = 4096)
            assert(alloc_le(len as int, (fats@.len() + 1) * self.size)) by {
                reveal(alloc_le);
                assert(len as int <= (fats@.len() + 1) * self.size) by (nonlinear_arith)
                    requires len as int / self.size as int <= fats@.len(), self.size > 0, len >= 0;
            }
//@@ loop 0
            invariant
                self.wf(), self.sz() == sz, sz == old(self).sz(),
                total == old(self).total(old(r)), 
                okx == (exists|f: nat| chain_ok(total, sz, fats@, start0, f)),
                okx ==> chain_ok(total, sz, fats@, start0, f0),
                all == fat_chain(fats@, start0, f0).unwrap(),
                old(self).loaded().len() <= self.loaded().len() && self.loaded().take(old(self).loaded().len() as int) == old(self).loaded(),
                okx ==> self.total(r) == total,
                (*r).io_failed() == (*old(r)).io_failed(),
                okx ==> done.len() <= all.len() && done == all.take(done.len() as int) && fat_chain(fats@, sector_id, fl) == Some(all.skip(done.len() as int)),
                okx ==> chain@ == chain_bytes(total, sz, done),
                okx ==> remaining >= fl,
            decreases remaining,
//@@ before /chain\.extend_from_slice/
            let ghost chain0 = chain@;
            let ghost sid = sector_id;
            proof {
                if okx {
                    let cur = fat_chain(fats@, sector_id, fl);
                    assert(cur is Some && sector_id != 0xFFFF_FFFEu32);
                    assert(fl > 0 && (sector_id as int) < fats@.len());
                    let rest = fat_chain(fats@, fats@[sector_id as int], (fl - 1) as nat).unwrap();
                    assert(cur == Some(seq![sector_id] + rest));
                    assert((seq![sector_id] + rest).len() >= 1);
                    assert(done.len() < all.len());
                    assert(all.skip(done.len() as int)[0] == sector_id);
                    assert(all[done.len() as int] == sector_id);
                    assert(all_in(total, sz, all));
                    assert(sector_in(total, sz, all[done.len() as int] as int));
                }
            }
//@@ after /chain\.extend_from_slice[^;]*;/
            proof {
                if okx {
                    let rest = fat_chain(fats@, fats@[sid as int], (fl - 1) as nat).unwrap();
                    assert(all.skip(done.len() as int) == seq![sid] + rest);
                    assert((seq![sid] + rest).skip(1) =~= rest);
                    assert(all.skip(done.len() as int).skip(1) =~= all.skip(done.len() as int + 1));
                    assert(rest =~= all.skip(done.len() as int + 1));
                    assert(done.push(sid) =~= all.take(done.len() as int + 1));
                    assert(done.push(sid).drop_last() =~= done);
                    done = done.push(sid);
                    fl = (fl - 1) as nat;
                }
            }
//@@ before /Ok\(chain\)/
        proof {
            if okx {
                assert(all.skip(done.len() as int).len() == 0);
                assert(done =~= all);
                assert forall|fuel: nat| #[trigger] chain_ok(total, sz, fats@, start0, fuel) implies fat_chain(fats@, start0, fuel) == Some(all) by {
                    lemma_chain_fuel(fats@, start0, fuel, f0);
                }
            }
        }
//@@ end
//@@ endimpl

// ---------------------------------------------------------------- header
//@@ include common/bytes.rs
//@@ item src/cfb.rs struct Header

/// items an iterator will yield (used for `to_u32`'s opaque `impl ExactSizeIterator` and `Vec::extend`)
pub uninterp spec fn iter_items<I: IntoIterator>(it: I) -> Seq<I::Item>;
// TRUSTED: (A-std) for an `Iterator`, `IntoIterator::into_iter` is the identity (std blanket impl): its items are what remains
#[verifier::external_body]
pub broadcast proof fn axiom_iter_items<I: Iterator>(it: I)
    ensures #[trigger] iter_items(it) == IteratorSpec::remaining(&it) {}
// TRUSTED: (A-std) `Vec::extend` appends the items of the iterator, in order
// ASSUMED (std): usize::div_ceil is the ceiling of the quotient (not in vstd); lets header arithmetic written with it be decided
pub assume_specification[ usize::div_ceil ](a: usize, b: usize) -> (r: usize)
    requires b != 0,
    ensures r as int == (if a % b == 0 { (a / b) as int } else { a / b + 1 });

pub assume_specification<T, A: std::alloc::Allocator, I: IntoIterator<Item = T>>[ <Vec<T, A> as Extend<T>>::extend ](v: &mut Vec<T, A>, it: I)
    ensures final(v)@ == old(v)@ + iter_items(it);
/// little-endian u32 words of a byte string (complete words only; up to 3 trailing bytes are not a word)
#[verifier::opaque]
pub open spec fn le32_words(s: Seq<u8>) -> Seq<u32> { Seq::new(s.len() / 4, |i: int| le32(s.subrange(4 * i, 4 * i + 4)) as u32) }

proof fn lemma_words_len(s: Seq<u8>)
    ensures le32_words(s).len() == s.len() / 4,
{
    reveal(le32_words);
}

//@@ fn src/utils.rs to_u32 external_body by=to_u32_words ret=r
//@@ sig
    ensures
        IteratorSpec::remaining(&r) == le32_words(s@),
        IteratorSpec::obeys_prophetic_iter_laws(&r),
//@@ end

// [MS-CFB] 2.2 compound file header (first 512 bytes), field offsets from the specification
#[verifier::opaque]
pub open spec fn u16_at(h: Seq<u8>, off: int) -> int { le16(h.subrange(off, off + 2)) }
#[verifier::opaque]
pub open spec fn u32_at(h: Seq<u8>, off: int) -> int { le32(h.subrange(off, off + 4)) }
/// header signature D0 CF 11 E0 A1 B1 1A E1 at offset 0
pub open spec fn ole_signature() -> Seq<u8> { seq![0xD0u8, 0xCFu8, 0x11u8, 0xE0u8, 0xA1u8, 0xB1u8, 0x1Au8, 0xE1u8] }
pub open spec fn hdr_signature_ok(h: Seq<u8>) -> bool { h.len() >= 8 && h.subrange(0, 8) == ole_signature() }
pub open spec fn hdr_sector_shift(h: Seq<u8>) -> int { u16_at(h, 30) }
pub open spec fn hdr_mini_sector_shift(h: Seq<u8>) -> int { u16_at(h, 32) }
pub open spec fn hdr_num_dir_sectors(h: Seq<u8>) -> int { u32_at(h, 40) }
pub open spec fn hdr_num_fat_sectors(h: Seq<u8>) -> int { u32_at(h, 44) }
pub open spec fn hdr_first_dir_sector(h: Seq<u8>) -> int { u32_at(h, 48) }
pub open spec fn hdr_first_mini_fat_sector(h: Seq<u8>) -> int { u32_at(h, 60) }
pub open spec fn hdr_num_mini_fat_sectors(h: Seq<u8>) -> int { u32_at(h, 64) }
pub open spec fn hdr_first_difat_sector(h: Seq<u8>) -> int { u32_at(h, 68) }
pub open spec fn hdr_num_difat_sectors(h: Seq<u8>) -> int { u32_at(h, 72) }
/// the 109 DIFAT entries stored in the header
pub open spec fn hdr_difat(h: Seq<u8>) -> Seq<u32> { le32_words(h.subrange(76, 512)) }
/// sector size selected by the sector shift: 9 -> 512 (version 3), 12 -> 4096 (version 4)
pub open spec fn hdr_sector_size(h: Seq<u8>) -> int { if hdr_sector_shift(h) == 9 { 512 } else { 4096 } }
/// header accepted: signature, sector shift 9 or 12, mini sector shift 6
pub open spec fn hdr_valid(h: Seq<u8>) -> bool {
    h.len() >= 512 && hdr_signature_ok(h) && (hdr_sector_shift(h) == 9 || hdr_sector_shift(h) == 12) && hdr_mini_sector_shift(h) == 6
}

proof fn lemma_u32_at_bound(h: Seq<u8>, off: int)
    requires 0 <= off, off + 4 <= h.len(),
    ensures 0 <= u32_at(h, off) <= 0xFFFF_FFFF,
{
    reveal(u32_at);
}
proof fn lemma_signature(h: Seq<u8>)
    requires h.len() >= 8,
    ensures hdr_signature_ok(h) <==> le64(h.subrange(0, 8)) == 0xE11A_B1A1_E011_CFD0,
{
    let s = h.subrange(0, 8);
    let t = s.subrange(4, 8);
    assert(t[0] == s[4] && t[1] == s[5] && t[2] == s[6] && t[3] == s[7]);
    if le64(s) == 0xE11A_B1A1_E011_CFD0 {
        assert(s =~= ole_signature());
    }
}

//@@ impl src/cfb.rs Header
//@@ fn src/cfb.rs Header::from_reader props=C13,C20 entry ret=res
//@@ sig
    ensures
        //# C13,C20.header_invalid_rejected
        !hdr_valid((*old(f)).rem()) ==> res is Err,
        //# C13,C20.header_bad_signature_is_ole_error
        (*old(f)).rem().len() >= 512 && !hdr_signature_ok((*old(f)).rem()) ==> (match res { Err(e) => e is Ole || e is Io, Ok(_) => false }),
        //# C13,C20.header_valid_accepted
        hdr_valid((*old(f)).rem()) ==> (match res { Ok(_) => true, Err(e) => e is Io }),
        //# C13,C20.header_io_error_flag
        (res matches Err(CfbError::Io(_)) ==> (*final(f)).io_failed()) && (res is Ok ==> (*final(f)).io_failed() == (*old(f)).io_failed()),
        //# C13,C20.header_fields
        match res {
            Ok((hd, difat)) => {
                let h = (*old(f)).rem();
                &&& hdr_valid(h)
                &&& hd.sector_size as int == hdr_sector_size(h)
                &&& hd.dir_len as int == hdr_num_dir_sectors(h)
                &&& hd.fat_len as int == hdr_num_fat_sectors(h)
                &&& hd.dir_start as int == hdr_first_dir_sector(h)
                &&& hd.mini_fat_start as int == hdr_first_mini_fat_sector(h)
                &&& hd.mini_fat_len as int == hdr_num_mini_fat_sectors(h)
                &&& hd.difat_start as int == hdr_first_difat_sector(h)
            },
            Err(_) => true,
        },
        //# C13,C20.header_difat_109
        match res { Ok((hd, difat)) => difat@ == hdr_difat((*old(f)).rem()) && difat@.len() == 109, Err(_) => true },
        //# C13,C20.header_consumes_first_sector
        match res {
            Ok((hd, difat)) => (*old(f)).rem().len() >= hdr_sector_size((*old(f)).rem()) && (*final(f)).rem() == (*old(f)).rem().skip(hdr_sector_size((*old(f)).rem())),
            Err(_) => true,
        },
//@@ body
        broadcast use axiom_iter_items;
        let ghost inp = (*f).rem();
        proof { reveal(u16_at); reveal(u32_at); reveal(le32_words); }
//@@ before /if signature != /
        proof {
            assert(buf@ =~= inp.take(512));
            assert(buf@.subrange(0, 8) =~= inp.subrange(0, 8));
            lemma_signature(inp);
            assert(signature == Some(le64(inp.subrange(0, 8)) as u64));
        }
//@@ before /let sector_size = match/
        proof {
            assert(hdr_signature_ok(inp));
            assert(buf@.subrange(26, 28) =~= inp.subrange(26, 28));
            assert(buf@.subrange(30, 32) =~= inp.subrange(30, 32));
            assert(buf@.subrange(32, 34) =~= inp.subrange(32, 34));
            assert(buf@.subrange(40, 44) =~= inp.subrange(40, 44));
            assert(buf@.subrange(44, 48) =~= inp.subrange(44, 48));
            assert(buf@.subrange(48, 52) =~= inp.subrange(48, 52));
            assert(buf@.subrange(60, 64) =~= inp.subrange(60, 64));
            assert(buf@.subrange(64, 68) =~= inp.subrange(64, 68));
            assert(buf@.subrange(68, 72) =~= inp.subrange(68, 72));
            assert(buf@.subrange(76, 512) =~= inp.subrange(76, 512));
        }
//@@ replace /\.map\(\|slice\| u64::from_le_bytes\(slice\.try_into\(\)\.unwrap\(\)\)\)/ from_le_bytes and try_into are outside vstd; utils::read_u64 is the same expression on s[..8] and its contract is discharged by Kani
.map(|slice: &[u8]| -> (v: u64) requires slice@.len() >= 8 ensures v as int == le64(slice@) { read_u64(slice) })
//@@ replace /map_err\(CfbError::Io\)/#0of2 Verus does not support a datatype constructor as a function value; eta-expanded
map_err(|e| -> (ce: CfbError) ensures ce is Io { CfbError::Io(e) })
//@@ replace /map_err\(CfbError::Io\)/#1of2 Verus does not support a datatype constructor as a function value; eta-expanded
map_err(|e| -> (ce: CfbError) ensures ce is Io { CfbError::Io(e) })
//@@ end
//@@ endimpl

// ---------------------------------------------------------------- directory and container
//@@ item src/cfb.rs struct Directory
//@@ item src/cfb.rs struct Cfb

/// abstract directory entry ([MS-CFB] 2.6.1): name, starting sector, stream size
pub struct DirEnt { pub name: Seq<char>, pub start: u32, pub len: nat }

pub open spec fn has_name(ds: Seq<DirEnt>, n: Seq<char>) -> bool { exists|i: int| 0 <= i < ds.len() && (#[trigger] ds[i]).name == n }
/// entry `i` is the only entry called `n`
pub open spec fn only_name(ds: Seq<DirEnt>, n: Seq<char>, i: int) -> bool {
    0 <= i < ds.len() && ds[i].name == n && forall|j: int| 0 <= j < ds.len() && (#[trigger] ds[j]).name == n ==> j == i
}

impl Directory {
    pub closed spec fn ent(&self) -> DirEnt { DirEnt { name: self.name@, start: self.start, len: self.len as nat } }
}
impl Cfb {
    /// directory entries in directory-stream order
    pub closed spec fn dirs(&self) -> Seq<DirEnt> { Seq::new(self.directories@.len(), |i: int| self.directories@[i].ent()) }
    pub closed spec fn fat(&self) -> Seq<u32> { self.fats@ }
    pub closed spec fn mini_fat(&self) -> Seq<u32> { self.mini_fats@ }
    /// sector size of the regular sector space
    pub closed spec fn ssz(&self) -> int { self.sectors.sz() }
    /// regular sector space: loaded bytes followed by what the reader still holds
    pub closed spec fn space<R: Read>(&self, r: &R) -> Seq<u8> { self.sectors.total(r) }
    /// the mini stream ([MS-CFB] 2.4): 64-byte mini sectors
    pub closed spec fn mini_stream(&self) -> Seq<u8> { self.mini_sectors.loaded() }
    proof fn lemma_dirs(&self)
        ensures
            self.dirs().len() == self.directories@.len(),
            forall|i: int| 0 <= i < self.directories@.len() ==> (#[trigger] self.directories@[i]).ent() == self.dirs()[i],
            forall|i: int| 0 <= i < self.directories@.len() ==> (#[trigger] self.dirs()[i]) == self.directories@[i].ent(),
    {}
    /// logical content held by this `Cfb` together with its reader
    pub open spec fn parsed<R: Read>(&self, r: &R) -> Parsed {
        Parsed { size: self.ssz(), data: self.space(r), fat: self.fat(), dirs: self.dirs(), mini_fat: self.mini_fat(), mini_stream: self.mini_stream() }
    }
    pub closed spec fn wf(&self) -> bool { self.sectors.wf() && self.mini_sectors.wf() && self.mini_sectors.sz() == 64 && (self.sectors.sz() == 512 || self.sectors.sz() == 4096) }
}

// TRUSTED: (A-std) documented behaviour of `slice::Iter::find` / `any`: first element (in order) for which the predicate returns true / whether one exists.
// `iter_rem` names the elements the iterator has not yet yielded; it is tied to vstd's own `IteratorSpec::remaining` by `axiom_iter_rem`
// (a separate uninterpreted name is needed because a specification of an `Iterator` impl method may not mention the impl's own spec trait: cyclic).
pub uninterp spec fn iter_rem<'a, T>(it: &std::slice::Iter<'a, T>) -> Seq<&'a T>;
#[verifier::external_body]
pub broadcast proof fn axiom_iter_rem<'a, T>(it: &std::slice::Iter<'a, T>)
    ensures #[trigger] iter_rem(it) == IteratorSpec::remaining(it) {}
pub assume_specification<'a, T, P: FnMut(&<std::slice::Iter<'a, T> as Iterator>::Item) -> bool>[ <std::slice::Iter<'a, T> as Iterator>::find::<P> ](it: &mut std::slice::Iter<'a, T>, pred: P) -> (r: Option<<std::slice::Iter<'a, T> as Iterator>::Item>)
    where std::slice::Iter<'a, T>: Sized
    ensures
        match r {
            Some(x) => exists|i: int| 0 <= i < iter_rem(old(it)).len() && x == iter_rem(old(it))[i] && call_ensures(pred, (&x,), true)
                && forall|j: int| #![auto] 0 <= j < i ==> call_ensures(pred, (&iter_rem(old(it))[j],), false),
            None => forall|i: int| #![auto] 0 <= i < iter_rem(old(it)).len() ==> call_ensures(pred, (&iter_rem(old(it))[i],), false),
        };
pub assume_specification<'a, T, P: FnMut(&'a T) -> bool>[ <std::slice::Iter<'a, T> as Iterator>::any::<P> ](it: &mut std::slice::Iter<'a, T>, pred: P) -> (r: bool)
    where std::slice::Iter<'a, T>: Sized
    ensures
        r ==> exists|i: int| #![auto] 0 <= i < iter_rem(old(it)).len() && call_ensures(pred, (iter_rem(old(it))[i],), true),
        !r ==> forall|i: int| #![auto] 0 <= i < iter_rem(old(it)).len() ==> call_ensures(pred, (iter_rem(old(it))[i],), false);
/// (proved) re-triggering of vstd's `slice.iter()` postcondition on the slice side
pub broadcast proof fn lemma_iter_rev<T>(rem: Seq<&T>, ds: Seq<T>, i: int)
    requires rem.len() == ds.len(), forall|j: int| 0 <= j < rem.len() ==> *rem[j] == ds[j], 0 <= i < ds.len(),
    ensures #![trigger ds[i], rem.len()] ds[i] == *rem[i],
{}

/// sectors that lie inside a prefix of the sector space are the same in the whole space
proof fn lemma_prefix_space(a: Seq<u8>, b: Seq<u8>, size: int, ids: Seq<u32>)
    requires size > 0, all_in(a, size, ids),
    ensures all_in(a + b, size, ids), chain_bytes(a + b, size, ids) == chain_bytes(a, size, ids),
    decreases ids.len(),
{
    if ids.len() > 0 {
        let id = ids.last() as int;
        assert(sector_in(a, size, ids[ids.len() - 1] as int));
        assert forall|i: int| 0 <= i < ids.drop_last().len() implies sector_in(a, size, #[trigger] ids.drop_last()[i] as int) by {
            assert(ids.drop_last()[i] == ids[i]);
        }
        lemma_prefix_space(a, b, size, ids.drop_last());
        assert(id * size >= 0) by (nonlinear_arith) requires id >= 0, size > 0;
        assert((id + 1) * size == id * size + size) by (nonlinear_arith);
        assert(sector(a + b, size, id) =~= sector(a, size, id));
        assert forall|i: int| 0 <= i < ids.len() implies sector_in(a + b, size, #[trigger] ids[i] as int) by {
            assert(sector_in(a, size, ids[i] as int));
        }
    }
}

//@@ impl src/cfb.rs Directory
//@@ fn src/cfb.rs Directory::from_slice props=C13 external_body ret=r
//@@ sig
    requires
        buf@.len() >= 128,
    ensures
        // TRUSTED: assumed in Verus (encoding_rs decode, String byte operations, try_into); start/len and the panic on
        // short input are discharged by the Kani harnesses cfb::from_slice_fields / cfb::from_slice_total, the name is A-enc
        //# C13.dir_entry_fields
        r.ent() == dir_ent(buf@.subrange(0, 128), sector_size as int),
//@@ end
//@@ endimpl

// ---------------------------------------------------------------- [MS-CFB] logical content of a compound file
// TRUSTED: (A-enc) UTF-16LE decoding of encoding_rs is an uninterpreted function of the bytes
pub uninterp spec fn dec16(b: Seq<u8>) -> Seq<char>;
/// index of the first NUL character, or the length
pub open spec fn first_nul(s: Seq<char>) -> int
    decreases s.len()
{
    if s.len() == 0 || s[0] == '\0' { 0 } else { 1 + first_nul(s.skip(1)) }
}
/// [MS-CFB] 2.6.1 directory entry name: UTF-16 text of the 64-byte name field up to its terminating NUL
pub open spec fn dir_name(b: Seq<u8>) -> Seq<char> { dec16(b).take(first_nul(dec16(b))) }
/// [MS-CFB] 2.6.1 directory entry (128 bytes): name @0..64, starting sector @116, stream size @120 (32 bits meaningful for 512-byte sectors)
#[verifier::opaque]
pub open spec fn dir_ent(e: Seq<u8>, size: int) -> DirEnt {
    DirEnt {
        name: dir_name(e.subrange(0, 64)),
        start: le32(e.subrange(116, 120)) as u32,
        len: (if size == 512 { le32(e.subrange(120, 124)) } else { le64(e.subrange(120, 128)) }) as nat,
    }
}
#[verifier::opaque]
pub open spec fn dir_entries(stream: Seq<u8>, size: int) -> Seq<DirEnt> {
    Seq::new((stream.len() / 128) as nat, |i: int| dir_ent(stream.subrange(128 * i, 128 * i + 128), size))
}
/// [MS-CFB] 2.5 DIFAT sectors: (size/4 - 1) FAT sector ids followed by the id of the next DIFAT sector
pub open spec fn difat_walk(data: Seq<u8>, size: int, next: u32, fuel: nat) -> Option<Seq<u32>>
    decreases fuel
{
    if next >= 0xFFFF_FFFAu32 { Some(Seq::<u32>::empty()) }
    else if fuel == 0 || !sector_in(data, size, next as int) { None }
    else {
        let w = le32_words(sector(data, size, next as int));
        match difat_walk(data, size, w.last(), (fuel - 1) as nat) {
            Some(t) => Some(w.drop_last() + t),
            None => None,
        }
    }
}
/// DIFAT entries that name a FAT sector (FREESECT and the other special values do not)
pub open spec fn fat_sector_ids(d: Seq<u32>) -> Seq<u32>
    decreases d.len()
{
    if d.len() == 0 { Seq::<u32>::empty() }
    else if d.last() < 0xFFFF_FFFCu32 { fat_sector_ids(d.drop_last()).push(d.last()) }
    else { fat_sector_ids(d.drop_last()) }
}
/// the FAT: concatenation of the FAT sectors read as little-endian u32 words
pub open spec fn fat_of(data: Seq<u8>, size: int, ids: Seq<u32>) -> Seq<u32>
    decreases ids.len()
{
    if ids.len() == 0 { Seq::<u32>::empty() } else { fat_of(data, size, ids.drop_last()) + le32_words(sector(data, size, ids.last() as int)) }
}
pub struct Parsed { pub size: int, pub data: Seq<u8>, pub fat: Seq<u32>, pub dirs: Seq<DirEnt>, pub mini_fat: Seq<u32>, pub mini_stream: Seq<u8> }
/// logical content of the compound file `inp` (None: not a well-formed compound file within `fuel` chain steps)
#[verifier::opaque]
pub open spec fn cfb_parse(inp: Seq<u8>, fuel: nat) -> Option<Parsed> {
    if !hdr_valid(inp) { None } else {
        let size = hdr_sector_size(inp);
        let data = inp.skip(size);
        let walk = difat_walk(data, size, hdr_first_difat_sector(inp) as u32, fuel);
        if inp.len() < size || walk is None { None } else {
            let ids = fat_sector_ids(hdr_difat(inp) + walk.unwrap());
            let fat = fat_of(data, size, ids);
            let dir_start = hdr_first_dir_sector(inp) as u32;
            if !all_in(data, size, ids) || !chain_ok(data, size, fat, dir_start, fuel) { None } else {
                let dirs = dir_entries(stream_bytes(data, size, fat, dir_start, hdr_num_dir_sectors(inp) * size, fuel), size);
                // [MS-CFB] 2.6.3: the root entry's start sector is ENDOFCHAIN exactly when the file has no mini stream -- legal in either version
                if dirs.len() == 0 { None }
                else if hdr_num_mini_fat_sectors(inp) == 0 {
                    Some(Parsed { size, data, fat, dirs, mini_fat: Seq::<u32>::empty(), mini_stream: Seq::<u8>::empty() })
                } else {
                    let mf_start = hdr_first_mini_fat_sector(inp) as u32;
                    if !chain_ok(data, size, fat, dirs[0].start, fuel) || !chain_ok(data, size, fat, mf_start, fuel) { None } else {
                        Some(Parsed { size, data, fat, dirs,
                            mini_fat: le32_words(stream_bytes(data, size, fat, mf_start, hdr_num_mini_fat_sectors(inp) * size, fuel)),
                            mini_stream: stream_bytes(data, size, fat, dirs[0].start, dirs[0].len as int, fuel) })
                    }
                }
            }
        }
    }
}

/// [MS-CFB] 2.6.3 / 2.4: a stream shorter than the mini stream cutoff (4096) lives in the mini stream (64-byte mini sectors,
/// mini FAT), any other stream in regular sectors (FAT)
pub open spec fn logical_ok(p: Parsed, i: int, fuel: nat) -> bool {
    if p.dirs[i].len < 4096 { chain_ok(p.mini_stream, 64, p.mini_fat, p.dirs[i].start, fuel) }
    else { chain_ok(p.data, p.size, p.fat, p.dirs[i].start, fuel) }
}
pub open spec fn logical_stream(p: Parsed, i: int, fuel: nat) -> Seq<u8> {
    if p.dirs[i].len < 4096 { stream_bytes(p.mini_stream, 64, p.mini_fat, p.dirs[i].start, p.dirs[i].len as int, fuel) }
    else { stream_bytes(p.data, p.size, p.fat, p.dirs[i].start, p.dirs[i].len as int, fuel) }
}
/// `v` is what a container with logical content `p` holds under `name`
pub open spec fn reads_as(p: Parsed, name: Seq<char>, v: Seq<u8>) -> bool {
    forall|i: int, fuel: nat| only_name(p.dirs, name, i) && #[trigger] logical_ok(p, i, fuel) ==> v == logical_stream(p, i, fuel)
}
//@@ props C13
/// C13 layout independence: the bytes read for `name` are a function of the logical stream alone. Two containers whose entry
/// `name` denotes the same logical stream -- whatever their sector size, FAT/DIFAT extent, chain order and fragmentation,
/// mini-stream or regular placement, directory order, unused entries, free sectors -- read as the same bytes.
proof fn lemma_layout_independent(p: Parsed, q: Parsed, name: Seq<char>, i: int, j: int, fp: nat, fq: nat, vp: Seq<u8>, vq: Seq<u8>)
    requires
        only_name(p.dirs, name, i), logical_ok(p, i, fp),
        only_name(q.dirs, name, j), logical_ok(q, j, fq),
        logical_stream(p, i, fp) == logical_stream(q, j, fq),
        reads_as(p, name, vp), reads_as(q, name, vq),
    ensures
        vp == vq,
{
}
/// witness for the hypotheses of lemma_layout_independent and of the conditional clauses (chain_ok, only_name): a one-sector stream
proof fn witness_layout_independent()
{
    let data = Seq::new(512, |i: int| 0u8);
    let fat = seq![0xFFFF_FFFEu32];
    reveal_with_fuel(fat_chain, 3);
    assert(fat_chain(fat, 0u32, 2) == Some(seq![0u32] + Seq::<u32>::empty()));
    let ids = fat_chain(fat, 0u32, 2).unwrap();
    assert(ids.len() == 1 && ids[0] == 0u32);
    assert(chain_ok(data, 512, fat, 0u32, 2));
    let d = DirEnt { name: seq!['W'], start: 0u32, len: 5000nat };
    let p = Parsed { size: 512, data, fat, dirs: seq![d], mini_fat: Seq::<u32>::empty(), mini_stream: Seq::<u8>::empty() };
    assert(only_name(p.dirs, seq!['W'], 0));
    assert(logical_ok(p, 0, 2));
    let v = logical_stream(p, 0, 2);
    assert forall|i: int, fuel: nat| only_name(p.dirs, seq!['W'], i) && #[trigger] logical_ok(p, i, fuel) implies v == logical_stream(p, i, fuel) by {
        lemma_chain_fuel(fat, 0u32, fuel, 2);
    }
    assert(reads_as(p, seq!['W'], v));
    lemma_layout_independent(p, p, seq!['W'], 0, 0, 2, 2, v, v);
}
//@@ props C13,C20,C06

/// witnesses for the `requires` of the functions under contract (representation invariants, to_u32, from_slice)
proof fn witness_requires()
{
    let sc = Sectors { data: vstd::pervasive::arbitrary(), size: 512 };
    assert(sc.wf());
    let ms = Sectors { data: vstd::pervasive::arbitrary(), size: 64 };
    let c = Cfb { directories: vstd::pervasive::arbitrary(), sectors: sc, fats: vstd::pervasive::arbitrary(), mini_sectors: ms, mini_fats: vstd::pervasive::arbitrary() };
    assert(c.wf());
    assert(Seq::<u8>::empty().len() % 4 == 0);                       // to_u32
    assert(Seq::new(128, |i: int| 0u8).len() >= 128);                // Directory::from_slice
}

// ---- the DIFAT walk as an instance of `follow` (for the bound that makes the walk terminate)
pub open spec fn walk_nxt(data: Seq<u8>, size: int) -> spec_fn(u32) -> u32 { |x: u32| le32_words(sector(data, size, x as int)).last() }
pub open spec fn walk_valid(data: Seq<u8>, size: int) -> spec_fn(u32) -> bool { |x: u32| sector_in(data, size, x as int) }
pub open spec fn walk_stop() -> spec_fn(u32) -> bool { |x: u32| x >= 0xFFFF_FFFAu32 }
/// ids of the DIFAT sectors visited
pub open spec fn walk_ids(data: Seq<u8>, size: int, next: u32, fuel: nat) -> Option<Seq<u32>> {
    follow(walk_nxt(data, size), walk_valid(data, size), walk_stop(), next, fuel)
}
/// the number of DIFAT sectors is a sufficient fuel
proof fn lemma_walk_min(data: Seq<u8>, size: int, next: u32, f: nat)
    requires difat_walk(data, size, next, f) is Some,
    ensures
        walk_ids(data, size, next, f) is Some,
        difat_walk(data, size, next, walk_ids(data, size, next, f).unwrap().len()) == difat_walk(data, size, next, f),
    decreases f,
{
    if next < 0xFFFF_FFFAu32 {
        let w = le32_words(sector(data, size, next as int));
        lemma_walk_min(data, size, w.last(), (f - 1) as nat);
        let t = walk_ids(data, size, w.last(), (f - 1) as nat).unwrap();
        assert((seq![next] + t).len() == t.len() + 1);
    }
}
/// [MS-CFB]: the DIFAT chain visits every sector of the file at most once, so it has at most data.len() / size sectors
proof fn lemma_walk_len(data: Seq<u8>, size: int, next: u32, f: nat)
    requires size > 0, walk_ids(data, size, next, f) is Some,
    ensures walk_ids(data, size, next, f).unwrap().len() <= data.len() / (size as nat),
{
    let ids = walk_ids(data, size, next, f).unwrap();
    let n = data.len() as int / size;
    lemma_follow_distinct(walk_nxt(data, size), walk_valid(data, size), walk_stop(), next, f);
    assert forall|i: int| 0 <= i < ids.len() implies (#[trigger] ids[i] as int) < n by {
        lemma_follow_suffix(walk_nxt(data, size), walk_valid(data, size), walk_stop(), next, f, i);
        let id = ids[i] as int;
        assert(sector_in(data, size, id));
        assert(id + 1 <= data.len() as int / size) by (nonlinear_arith) requires (id + 1) * size <= data.len(), size > 0;
    }
    assert(n >= 0) by (nonlinear_arith) requires n == data.len() as int / size, size > 0;
    lemma_pigeon(ids, n);
}

/// a well-formed DIFAT walk does not depend on the fuel
proof fn lemma_walk_fuel(data: Seq<u8>, size: int, next: u32, f1: nat, f2: nat)
    requires difat_walk(data, size, next, f1) is Some, difat_walk(data, size, next, f2) is Some,
    ensures difat_walk(data, size, next, f1) == difat_walk(data, size, next, f2),
    decreases f1,
{
    if next < 0xFFFF_FFFAu32 {
        let w = le32_words(sector(data, size, next as int));
        lemma_walk_fuel(data, size, w.last(), (f1 - 1) as nat, (f2 - 1) as nat);
    }
}
proof fn lemma_stream_fuel(data: Seq<u8>, size: int, fat: Seq<u32>, start: u32, len: int, f1: nat, f2: nat)
    requires chain_ok(data, size, fat, start, f1), chain_ok(data, size, fat, start, f2),
    ensures stream_bytes(data, size, fat, start, len, f1) == stream_bytes(data, size, fat, start, len, f2),
{
    lemma_chain_fuel(fat, start, f1, f2);
}
/// everything `cfb_parse` asserts about a well-formed container, in one place (keeps `cfb_parse` opaque elsewhere)
pub open spec fn parse_facts(inp: Seq<u8>, f: nat) -> bool {
    let size = hdr_sector_size(inp);
    let data = inp.skip(size);
    let walk = difat_walk(data, size, hdr_first_difat_sector(inp) as u32, f);
    let ids = fat_sector_ids(hdr_difat(inp) + walk.unwrap());
    let fat = fat_of(data, size, ids);
    let dir_start = hdr_first_dir_sector(inp) as u32;
    let mf_start = hdr_first_mini_fat_sector(inp) as u32;
    let p = cfb_parse(inp, f).unwrap();
    &&& hdr_valid(inp)
    &&& inp.len() >= size
    &&& walk is Some
    &&& all_in(data, size, ids)
    &&& chain_ok(data, size, fat, dir_start, f)
    &&& p.size == size && p.data == data && p.fat == fat
    &&& p.dirs == dir_entries(stream_bytes(data, size, fat, dir_start, hdr_num_dir_sectors(inp) * size, f), size)
    &&& p.dirs.len() > 0
    &&& (hdr_num_mini_fat_sectors(inp) == 0 ==> p.mini_fat == Seq::<u32>::empty() && p.mini_stream == Seq::<u8>::empty())
    &&& (hdr_num_mini_fat_sectors(inp) != 0 ==> chain_ok(data, size, fat, p.dirs[0].start, f) && chain_ok(data, size, fat, mf_start, f)
            && p.mini_fat == le32_words(stream_bytes(data, size, fat, mf_start, hdr_num_mini_fat_sectors(inp) * size, f))
            && p.mini_stream == stream_bytes(data, size, fat, p.dirs[0].start, p.dirs[0].len as int, f))
}
proof fn lemma_parse_unfold(inp: Seq<u8>, f: nat)
    requires cfb_parse(inp, f) is Some,
    ensures parse_facts(inp, f),
{
    reveal(cfb_parse);
}
/// the logical content of a well-formed container does not depend on the fuel
proof fn lemma_parse_fuel(inp: Seq<u8>, f1: nat, f2: nat)
    requires cfb_parse(inp, f1) is Some, cfb_parse(inp, f2) is Some,
    ensures cfb_parse(inp, f1) == cfb_parse(inp, f2),
{
    lemma_parse_unfold(inp, f1);
    lemma_parse_unfold(inp, f2);
    let size = hdr_sector_size(inp);
    let data = inp.skip(size);
    lemma_walk_fuel(data, size, hdr_first_difat_sector(inp) as u32, f1, f2);
    let walk = difat_walk(data, size, hdr_first_difat_sector(inp) as u32, f1);
    let ids = fat_sector_ids(hdr_difat(inp) + walk.unwrap());
    let fat = fat_of(data, size, ids);
    let dir_start = hdr_first_dir_sector(inp) as u32;
    lemma_stream_fuel(data, size, fat, dir_start, hdr_num_dir_sectors(inp) * size, f1, f2);
    let p1 = cfb_parse(inp, f1).unwrap();
    let p2 = cfb_parse(inp, f2).unwrap();
    assert(p1.dirs == p2.dirs);
    if hdr_num_mini_fat_sectors(inp) != 0 {
        let mf_start = hdr_first_mini_fat_sector(inp) as u32;
        lemma_stream_fuel(data, size, fat, mf_start, hdr_num_mini_fat_sectors(inp) * size, f1, f2);
        lemma_stream_fuel(data, size, fat, p1.dirs[0].start, p1.dirs[0].len as int, f1, f2);
    }
    assert(p1 == p2);
}
/// all sectors of a chain inside the data: the concatenation has ids.len() * size bytes
proof fn lemma_chain_bytes_len(data: Seq<u8>, size: int, ids: Seq<u32>)
    requires size > 0, all_in(data, size, ids),
    ensures chain_bytes(data, size, ids).len() == ids.len() * size,
    decreases ids.len(),
{
    if ids.len() > 0 {
        let id = ids.last() as int;
        assert(sector_in(data, size, ids[ids.len() - 1] as int));
        assert forall|i: int| 0 <= i < ids.drop_last().len() implies sector_in(data, size, #[trigger] ids.drop_last()[i] as int) by {
            assert(ids.drop_last()[i] == ids[i]);
        }
        lemma_chain_bytes_len(data, size, ids.drop_last());
        assert(id * size >= 0) by (nonlinear_arith) requires id >= 0, size > 0;
        assert((id + 1) * size == id * size + size) by (nonlinear_arith);
        assert(sector(data, size, id).len() == size);
        assert(ids.len() * size == (ids.len() - 1) * size + size) by (nonlinear_arith);
    }
}

/// directory stream length: full sectors (512 or 4096 bytes), possibly cut to a whole number of sectors: a multiple of 128
proof fn lemma_dir_stream_len(nsect: int, ndir: int, size: int)
    requires nsect >= 0, ndir >= 0, size == 512 || size == 4096,
    ensures (nsect * size) % 128 == 0, (ndir * size) % 128 == 0,
{
    assert((nsect * size) % 128 == 0) by (nonlinear_arith) requires size == 512 || size == 4096;
    assert((ndir * size) % 128 == 0) by (nonlinear_arith) requires size == 512 || size == 4096;
}
/// the exact 128-byte chunks of a stream are its complete 128-byte entries
proof fn lemma_chunks_128(s: Seq<u8>)
    ensures
        chunk_seq(s, 128).len() == s.len() / 128,
        forall|i: int| 0 <= i < s.len() / 128 ==> #[trigger] chunk_seq(s, 128)[i] == s.subrange(128 * i, 128 * i + 128),
        forall|i: int| 0 <= i < s.len() / 128 ==> (#[trigger] chunk_seq(s, 128)[i]).len() == 128,
{
    reveal(chunk_seq);
}
proof fn lemma_dir_entries(s: Seq<u8>, size: int)
    ensures
        dir_entries(s, size).len() == s.len() / 128,
        forall|i: int| 0 <= i < s.len() / 128 ==> #[trigger] dir_entries(s, size)[i] == dir_ent(s.subrange(128 * i, 128 * i + 128), size),
{
    reveal(dir_entries);
}

proof fn lemma_parse_needs_header(inp: Seq<u8>, fuel: nat)
    ensures cfb_parse(inp, fuel) is Some ==> hdr_valid(inp),
{
    reveal(cfb_parse);
}

// ---------------------------------------------------------------- std iterator pieces used by Cfb::new
#[verifier::external_type_specification] #[verifier::external_body] #[verifier::reject_recursive_types(T)]
pub struct ExChunksExact<'a, T: 'a>(std::slice::ChunksExact<'a, T>);
/// consecutive complete chunks of `n` elements (a shorter remainder is not a chunk)
#[verifier::opaque]
pub open spec fn chunk_seq<T>(s: Seq<T>, n: int) -> Seq<Seq<T>> {
    Seq::new((s.len() as int / n) as nat, |i: int| s.subrange(i * n, (i + 1) * n))
}
// TRUSTED: (A-chunks) documented behaviour of `<[T]>::chunks_exact`: panics for n == 0, otherwise yields `chunk_seq(s, n)` in order
pub assume_specification<T>[ <[T]>::chunks_exact ](s: &[T], n: usize) -> (r: std::slice::ChunksExact<'_, T>)
    requires n != 0,
    ensures
        IteratorSpec::obeys_prophetic_iter_laws(&r),
        IteratorSpec::remaining(&r).len() == chunk_seq(s@, n as int).len(),
        forall|i: int| 0 <= i < chunk_seq(s@, n as int).len() ==> (#[trigger] IteratorSpec::remaining(&r)[i])@ == chunk_seq(s@, n as int)[i];

/// subsequence of `s` at the positions where `k` is true
pub open spec fn selk<T>(s: Seq<T>, k: Seq<bool>) -> Seq<T>
    decreases s.len()
{
    if s.len() == 0 { Seq::<T>::empty() }
    else if k[s.len() - 1] { selk(s.drop_last(), k).push(s.last()) }
    else { selk(s.drop_last(), k) }
}
pub uninterp spec fn filter_kept<I, P>(f: std::iter::Filter<I, P>) -> Seq<bool>;
// TRUSTED: (A-std) documented behaviour of `Iterator::filter`: the adapter yields, in order, exactly the inner items for which
// the predicate returned true (`filter_kept` names the predicate's answers); vstd's own Filter model does not expose this.
#[verifier::external_body]
pub broadcast proof fn axiom_filter_remaining<I: Iterator, P: FnMut(&I::Item) -> bool>(ii: I, p: P, f: std::iter::Filter<I, P>)
    requires #[trigger] vstd::std_specs::iter::filter_post(ii, p, f),
    ensures
        IteratorSpec::remaining(&f) == selk(IteratorSpec::remaining(&ii), filter_kept(f)),
        filter_kept(f).len() == IteratorSpec::remaining(&ii).len(),
        forall|i: int| 0 <= i < filter_kept(f).len() ==> (if #[trigger] filter_kept(f)[i] { call_ensures(p, (&IteratorSpec::remaining(&ii)[i],), true) } else { call_ensures(p, (&IteratorSpec::remaining(&ii)[i],), false) }),
{}
/// (proved) selecting with the answers of `|id| *id < DIFSECT` is `fat_sector_ids`
pub broadcast proof fn lemma_selk_fat_ids(s: Seq<u32>, k: Seq<bool>)
    requires k.len() >= s.len(), forall|i: int| 0 <= i < s.len() ==> #[trigger] k[i] == (s[i] < 0xFFFF_FFFCu32),
    ensures #[trigger] selk(s, k) == fat_sector_ids(s),
    decreases s.len(),
{
    if s.len() > 0 {
        assert(k[s.len() - 1] == (s[s.len() - 1] < 0xFFFF_FFFCu32));
        assert forall|i: int| 0 <= i < s.drop_last().len() implies #[trigger] k[i] == (s.drop_last()[i] < 0xFFFF_FFFCu32) by { assert(s.drop_last()[i] == s[i]); }
        lemma_selk_fat_ids(s.drop_last(), k);
    }
}

// ---- verified helper wrappers (NOT from /repo): targets of the two ad-hoc rewrites in Cfb::new.
// Verus/vstd limitation (probed): every vstd fact about `Filter<_, P>` / `Map<_, F>` is a broadcast axiom bounded by `P: FnMut(..)`;
// such axioms are not instantiated for a closure that is *created inside a generic function* (`Cfb::new<R: Read>`), so neither a
// `for` loop over `.filter(closure)` nor `.map(closure).collect()` can be reasoned about in place. The iterator expression is moved
// verbatim (closure included, via capture groups) into these wrappers, which are generic in the closure *type parameter* and are verified.
pub open spec fn kept_ok<P: FnMut(&u32) -> bool>(v: Seq<u32>, p: P, kept: Seq<bool>) -> bool {
    kept.len() == v.len() && forall|i: int| 0 <= i < v.len() ==> (if #[trigger] kept[i] { call_ensures(p, (&v[i],), true) } else { call_ensures(p, (&v[i],), false) })
}
/// `v.into_iter().filter(p)` materialised: the items for which `p` answered true, in order
fn verif_filter_collect<P: FnMut(&u32) -> bool>(v: Vec<u32>, p: P) -> (r: Vec<u32>)
    requires forall|x: &u32| call_requires(p, (x,)),
    ensures exists|kept: Seq<bool>| #[trigger] kept_ok(v@, p, kept) && r@ == selk(v@, kept),
{
    let dit = v.into_iter();
    let fit = dit.filter(p);
    proof { axiom_filter_remaining(dit, p, fit); assert(kept_ok(v@, p, filter_kept(fit))); }
    fit.collect()
}
pub open spec fn is_chunk(s: Seq<u8>, n: int, c: Seq<u8>) -> bool {
    exists|i: int| 0 <= i < chunk_seq(s, n).len() && c == #[trigger] chunk_seq(s, n)[i]
}
/// `out` is a possible result of `f` on a slice with content `cs`
pub open spec fn chunk_result<T, F: FnMut(&[u8]) -> T>(f: F, cs: Seq<u8>, out: T) -> bool {
    exists|c: &[u8]| c@ == cs && #[trigger] call_ensures(f, (c,), out)
}
/// `s.chunks_exact(n).map(f).collect()`: one result per complete chunk, in order
fn verif_chunks_map_collect<T, F: FnMut(&[u8]) -> T>(s: &[u8], n: usize, f: F) -> (r: Vec<T>)
    requires
        n != 0,
        forall|c: &[u8]| is_chunk(s@, n as int, c@) ==> #[trigger] call_requires(f, (c,)),
    ensures
        r@.len() == chunk_seq(s@, n as int).len(),
        forall|i: int| 0 <= i < r@.len() ==> chunk_result(f, chunk_seq(s@, n as int)[i], #[trigger] r@[i]),
{
    s.chunks_exact(n).map(f).collect()
}

#[verifier::loop_isolation(false)]
//@@ impl src/cfb.rs Cfb
//@@ fn src/cfb.rs Cfb::has_directory props=C13,C20 ret=b
//@@ sig
    ensures
        //# C13,C20.has_directory_iff_entry
        b == has_name(self.dirs(), name@),
//@@ body
        broadcast use axiom_iter_rem, lemma_iter_rev;
        proof { self.lemma_dirs(); }
//@@ closure 0
-> (b: bool) ensures b == (d.name@ == name@)
//@@ end
//@@ fn src/cfb.rs Cfb::get_stream props=C13,C20,C02,C18 entry ret=res
//@@ sig
    requires
        old(self).wf(),
    ensures
        //# C13.get_stream_frame
        final(self).dirs() == old(self).dirs() && final(self).fat() == old(self).fat() && final(self).mini_fat() == old(self).mini_fat()
            && final(self).ssz() == old(self).ssz() && final(self).wf(),
        //# C13.get_stream_frame_mini_stream
        old(self).mini_stream().len() <= final(self).mini_stream().len()
            && final(self).mini_stream().take(old(self).mini_stream().len() as int) == old(self).mini_stream(),
        //# C13.stream_not_found
        !has_name(old(self).dirs(), name@) ==> (match res { Err(CfbError::StreamNotFound(s)) => s@ == name@, _ => false }),
        //# C13,C20.get_stream_io_error_flag
        (res matches Err(CfbError::Io(_)) ==> (*final(r)).io_failed()) && (res is Ok ==> (*final(r)).io_failed() == (*old(r)).io_failed()),
        //# C13,C20,C02,C18.get_stream_reads_logical_stream
        res matches Ok(v) ==> reads_as(old(self).parsed(old(r)), name@, v@),
        //# C13.stream_lookup_independent_of_directory_order
        // every entry bearing the name denotes the returned bytes, i.e. the result does not depend on which same-named entry
        // comes first in the directory stream (names are unique only among siblings of a storage, [MS-CFB] 2.6.4)
        forall|i: int, fuel: nat| 0 <= i < old(self).dirs().len() && old(self).dirs()[i].name == name@
            && #[trigger] logical_ok(old(self).parsed(old(r)), i, fuel)
            ==> (res matches Ok(v) ==> v@ == logical_stream(old(self).parsed(old(r)), i, fuel)),
        //# C13.mini_cutoff_mini_stream
        forall|i: int, fuel: nat| only_name(old(self).dirs(), name@, i) && old(self).dirs()[i].len < 4096
            && #[trigger] chain_ok(old(self).mini_stream(), 64, old(self).mini_fat(), old(self).dirs()[i].start, fuel) ==> (match res {
                Ok(v) => v@ == stream_bytes(old(self).mini_stream(), 64, old(self).mini_fat(), old(self).dirs()[i].start, old(self).dirs()[i].len as int, fuel),
                Err(e) => e is Io,
            }),
        //# C13.mini_cutoff_regular_sectors
        forall|i: int, fuel: nat| only_name(old(self).dirs(), name@, i) && old(self).dirs()[i].len >= 4096
            && #[trigger] chain_ok(old(self).space(old(r)), old(self).ssz(), old(self).fat(), old(self).dirs()[i].start, fuel) ==> (match res {
                Ok(v) => v@ == stream_bytes(old(self).space(old(r)), old(self).ssz(), old(self).fat(), old(self).dirs()[i].start, old(self).dirs()[i].len as int, fuel)
                    && final(self).space(final(r)) == old(self).space(old(r)),
                Err(e) => e is Io,
            }),
//@@ body
        broadcast use axiom_iter_rem, lemma_iter_rev;
        proof { self.lemma_dirs(); }
        let ghost ds = self.dirs();
//@@ closure 0
-> (b: bool) ensures b == (d.name@ == name@)
//@@ after /Some\(d\) => \{/
                let ghost k = choose|k: int| 0 <= k < self.directories@.len() && self.directories@[k] == *d
                    && forall|j: int| #![auto] 0 <= j < k ==> self.directories@[j].name@ != name@;
                proof {
                    assert(d.name@ == name@);
                    assert(ds[k] == d.ent());
                    assert forall|i: int| only_name(ds, name@, i) implies i == k by { assert(ds[k].name == name@); }
                }
//@@ before /self\.mini_sectors/
                    proof {
                        let ms = self.mini_sectors.loaded();
                        assert forall|fuel: nat| #[trigger] chain_ok(ms, 64, self.mini_fats@, d.start, fuel)
                            implies chain_ok(self.mini_sectors.total(r), 64, self.mini_fats@, d.start, fuel)
                                && stream_bytes(self.mini_sectors.total(r), 64, self.mini_fats@, d.start, d.len as int, fuel) == stream_bytes(ms, 64, self.mini_fats@, d.start, d.len as int, fuel) by {
                            lemma_prefix_space(ms, (*r).rem(), 64, fat_chain(self.mini_fats@, d.start, fuel).unwrap());
                        }
                    }
//@@ end
//@@ fn src/cfb.rs Cfb::new props=C13,C20,C02,C18 entry ret=res
//@@ sig
    ensures
        //# C13,C20.new_rejects_invalid_header
        !hdr_valid((*old(reader)).rem()) ==> res is Err,
        //# C13,C18.new_establishes_representation_invariant
        // (the invariant Cfb::get_stream requires holds for EVERY container Cfb::new returns, not only for well-formed input)
        res matches Ok(c) ==> c.wf(),
        //# C13,C20,C02,C18.new_parses_container
        // (`len` is the length of the input, as every caller passes it; it bounds the DIFAT walk)
        forall|fuel: nat| #[trigger] cfb_parse((*old(reader)).rem(), fuel) is Some && len as int >= (*old(reader)).rem().len() ==> (match res {
            Ok(c) => {
                let p = cfb_parse((*old(reader)).rem(), fuel).unwrap();
                &&& c.wf()
                &&& c.ssz() == p.size
                &&& c.fat() == p.fat
                &&& c.dirs() == p.dirs
                &&& c.mini_fat() == p.mini_fat
                &&& c.mini_stream() == p.mini_stream
                &&& c.space(final(reader)) == p.data
                &&& (*final(reader)).io_failed() == (*old(reader)).io_failed()
            },
            Err(e) => e is Io && (*final(reader)).io_failed(),
        }),
//@@ body
        broadcast use axiom_iter_items, lemma_selk_fat_ids;
        let ghost inp = (*reader).rem();
        let ghost io0 = (*reader).io_failed();
        // the container is well formed ([MS-CFB], `cfb_parse`) for some fuel f0: hypothesis of the functional clause
        let ghost ok = (exists|f: nat| cfb_parse(inp, f) is Some) && len as int >= inp.len();
        let ghost f0 = choose|f: nat| cfb_parse(inp, f) is Some;
        proof { if ok { lemma_parse_unfold(inp, f0); } }
//@@ after /let \(h, mut difat\) = [^;]*;/
        let ghost size = h.sector_size as int;
        let ghost data = inp.skip(size);
        let ghost walk = difat_walk(data, size, h.difat_start, f0).unwrap();
        let ghost full = hdr_difat(inp) + walk;
        let ghost ids = fat_sector_ids(full);
        let ghost fat = fat_of(data, size, ids);
        let ghost pp = cfb_parse(inp, f0).unwrap();
        // minimal fuel of the DIFAT walk: its number of sectors, at most data.len() / size <= len / size (pigeonhole)
        let ghost mut fl: nat = walk_ids(data, size, h.difat_start, f0).unwrap().len();
        proof {
            assert(size == 512 || size == 4096);
            lemma_u32_at_bound(inp, 40);
            lemma_u32_at_bound(inp, 64);
            if ok {
                lemma_walk_min(data, size, h.difat_start, f0);
                lemma_walk_len(data, size, h.difat_start, f0);
                vstd::arithmetic::div_mod::lemma_div_is_ordered(data.len() as int, len as int, size);
            }
        }
//@@ after /let mut sectors = [^;]*;/
        proof { assert(sectors.total(reader) =~= data); }
//@@ loop 0
            invariant
                sectors.wf(), sectors.sz() == size,
                (*reader).io_failed() == io0,
                ok ==> sectors.total(reader) == data,
                ok ==> difat_walk(data, size, sector_id, fl) is Some && difat@ + difat_walk(data, size, sector_id, fl).unwrap() == full,
                ok ==> remaining >= fl,
            decreases remaining,
//@@ before /difat\.extend\(/
            let ghost sid = sector_id;
            let ghost d0 = difat@;
            let ghost w = le32_words(sector(data, size, sid as int));
            proof {
                if ok {
                    assert(fl > 0 && sector_in(data, size, sid as int));
                    assert(difat_walk(data, size, sid, fl).unwrap() == w.drop_last() + difat_walk(data, size, w.last(), (fl - 1) as nat).unwrap());
                    assert((sid as int + 1) * size == sid as int * size + size) by (nonlinear_arith);
                    assert(sector(data, size, sid as int).len() == size);
                    lemma_words_len(sector(data, size, sid as int));
                    assert(w.len() >= 128);
                }
            }
//@@ after /sector_id = difat\.pop\(\)[^;]*;[^\n]*/
            proof {
                if ok {
                    assert(difat@ =~= d0 + w.drop_last());
                    assert(sector_id == w.last());
                    let rest = difat_walk(data, size, w.last(), (fl - 1) as nat).unwrap();
                    assert((d0 + w.drop_last()) + rest =~= d0 + (w.drop_last() + rest));
                    fl = (fl - 1) as nat;
                }
            }
//@@ before /let mut fats = /
        let ghost difat0 = difat@;
        proof {
            if ok {
                assert(difat_walk(data, size, sector_id, fl).unwrap() =~= Seq::<u32>::empty());
                assert(difat@ =~= full);
            }
        }
        //# C06.alloc_bound_fat_capacity
        // at most one FAT sector per sector of the file: 4 bytes reserved per `sector_size` bytes of declared input length
        assert(alloc_le(if (h.fat_len as int) < len as int / size { h.fat_len as int } else { len as int / size }, len as int)) by {
            reveal(alloc_le);
            assert(len as int / size <= len as int) by (nonlinear_arith) requires size >= 1, len >= 0;
        }
//@@ loop 1
            invariant
                sectors.wf(), sectors.sz() == size,
                (*reader).io_failed() == io0,
                it.seq() == fat_sector_ids(difat0),
                ok ==> sectors.total(reader) == data,
                ok ==> fats@ == fat_of(data, size, ids.take(it.index@ as int)),
//@@ before /fats\.extend\(/
            let ghost k = it.index@ as int;
            let ghost fats0 = fats@;
            proof {
                if ok {
                    assert(id == ids[k]);
                    assert(sector_in(data, size, ids[k] as int));
                    assert((id as int + 1) * size == id as int * size + size) by (nonlinear_arith);
                    assert(sector(data, size, id as int).len() == size);
                }
            }
//@@ after /fats\.extend\([^;]*;/
            proof {
                if ok {
                    assert(fats@ == fats0 + le32_words(sector(data, size, id as int)));
                    assert(ids.take(k + 1).drop_last() =~= ids.take(k));
                    assert(ids.take(k + 1).last() == ids[k]);
                }
            }
//@@ before /let dirs = sectors\.get_chain/
        proof {
            if ok {
                assert(ids.take(ids.len() as int) =~= ids);
                assert(fats@ == fat);
            }
            assert(h.dir_len as int * h.sector_size as int <= 0xFFFF_FFFF * 4096) by (nonlinear_arith) requires 0 <= h.dir_len as int <= 0xFFFF_FFFF, 0 <= h.sector_size as int <= 4096;
            assert(0 <= h.dir_len as int * h.sector_size as int) by (nonlinear_arith) requires 0 <= h.dir_len as int, 0 <= h.sector_size as int;
        }
//@@ before /let dirs = dirs/
        let ghost dstream = dirs@;
        proof {
            if ok {
                assert(dstream == stream_bytes(data, size, fat, h.dir_start, hdr_num_dir_sectors(inp) * size, f0));
                lemma_chain_bytes_len(data, size, fat_chain(fat, h.dir_start, f0).unwrap());
                lemma_dir_stream_len(fat_chain(fat, h.dir_start, f0).unwrap().len() as int, hdr_num_dir_sectors(inp), size);
                assert(dstream.len() % 128 == 0);
            }
            lemma_chunks_128(dstream);
        }
//@@ before /if dirs\.is_empty\(\)/
        proof {
            if ok {
                lemma_chunks_128(dstream);
                lemma_dir_entries(dstream, size);
                assert(dirs@.len() == dstream.len() / 128);
                assert forall|i: int| 0 <= i < dirs@.len() implies #[trigger] dirs@[i].ent() == dir_entries(dstream, size)[i] by {
                    let c = dstream.subrange(128 * i, 128 * i + 128);
                    assert(c.subrange(0, 128) =~= c);
                }
                assert(Seq::new(dirs@.len(), |i: int| dirs@[i].ent()) =~= pp.dirs);
            }
        }
//@@ before /let ministream = /
            proof {
                if ok {
                    assert(dirs@[0].ent() == pp.dirs[0]);
                    assert(h.mini_fat_len as int == hdr_num_mini_fat_sectors(inp));
                }
                assert(h.mini_fat_len as int * h.sector_size as int <= 0xFFFF_FFFF * 4096) by (nonlinear_arith) requires 0 <= h.mini_fat_len as int <= 0xFFFF_FFFF, 0 <= h.sector_size as int <= 4096;
                assert(0 <= h.mini_fat_len as int * h.sector_size as int) by (nonlinear_arith) requires 0 <= h.mini_fat_len as int, 0 <= h.sector_size as int;
            }
//@@ before /let minifat = to_u32/
            proof {
                if ok {
                    assert(ministream@ == pp.mini_stream);
                    assert(minifat@ == stream_bytes(data, size, fat, h.mini_fat_start, hdr_num_mini_fat_sectors(inp) * size, f0));
                }
            }
//@@ before /Ok\(Cfb \{/
        proof {
            if ok {
                assert(mini_fats@ == pp.mini_fat && ministream@ == pp.mini_stream);
                assert forall|fuel: nat| #[trigger] cfb_parse(inp, fuel) is Some implies cfb_parse(inp, fuel) == cfb_parse(inp, f0) by {
                    lemma_parse_fuel(inp, fuel, f0);
                }
            }
        }
//@@ replace /Header::from_reader\(&mut reader\)/ `&mut reader` is a `&mut &mut R` read through std's forwarding `impl Read for &mut R`; Verus cannot relate the final value of the nested reference to the parameter's, so the reader is reborrowed instead (same calls reach the same R)
Header::from_reader(reader)
//@@ replace /for id in difat\.into_iter\(\)\.filter\(\|id\| ([^)]*)\)/ vstd cannot reason about Filter over a closure created in a generic fn; the iterator is materialised by the verified wrapper (same items, same order; predicate pure); closure text verbatim, annotated
for id in it: verif_filter_collect(difat, |id: &u32| -> (b: bool) ensures b == (\g<1>) { \g<1> })
//@@ replace /dirs\s*\.chunks_exact\(([^)]*)\)\s*\.map\(\|c\| ([^;]*)\)\s*\.collect::<Vec<_>>\(\)/ vstd cannot reason about Map over a closure created in a generic fn; expression moved into the verified wrapper; closure text verbatim, annotated with the contract of Directory::from_slice
verif_chunks_map_collect(&dirs, \g<1>, |c: &[u8]| -> (d: Directory) requires c@.len() >= 128 ensures d.ent() == dir_ent(c@.subrange(0, 128), h.sector_size as int) { \g<2> })
//@@ end
//@@ endimpl

// ---------------------------------------------------------------- C20: encrypted OOXML packages (xlsx / xlsb)
// TRUSTED: (A-io) std::io::Seek on a reader: the reader has an immutable content; a successful seek to Start(0) makes
// the whole content readable again; End(0) returns the content length.
pub trait Seek: Read {
    spec fn content(&self) -> Seq<u8>;
    fn seek(&mut self, pos: std::io::SeekFrom) -> (r: Result<u64, std::io::Error>)
        ensures
            final(self).content() == old(self).content(),
            r is Err ==> final(self).io_failed(),
            r is Ok ==> final(self).io_failed() == old(self).io_failed(),
            match r {
                Ok(n) => match pos {
                    std::io::SeekFrom::Start(k) => n == k && (k == 0 ==> final(self).rem() == old(self).content()),
                    std::io::SeekFrom::End(k) => k == 0 ==> n as int == old(self).content().len(),
                    std::io::SeekFrom::Current(_) => true,
                },
                Err(_) => true,
            };
}

// TRUSTED: the `?` operator converts the error with `From::from` (Rust reference, `FromResidual for Result`); vstd leaves
// this link (`spec_from`) uninterpreted. The `From` impls below are verified against their expansion.
#[verifier::external_body]
pub broadcast proof fn axiom_question_mark_from<S: From<T>, T>(e: T, r: S)
    ensures #[trigger] vstd::std_specs::control_flow::spec_from::<S, T>(e, r) ==> call_ensures(<S as From<T>>::from, (e,), r) {}

//@@ item src/xlsx/mod.rs enum XlsxError
//@@ item src/xlsb/mod.rs enum XlsbError
// expansion of `from_err!(std::io::Error, XlsxError, Io)` / `from_err!(std::io::Error, XlsbError, Io)` (macro in src/utils.rs)
impl vstd::std_specs::convert::FromSpecImpl<std::io::Error> for XlsxError {
    open spec fn obeys_from_spec() -> bool { true }
    open spec fn from_spec(e: std::io::Error) -> Self { XlsxError::Io(e) }
}
impl From<std::io::Error> for XlsxError {
    fn from(e: std::io::Error) -> (r: XlsxError) { XlsxError::Io(e) }
}
impl vstd::std_specs::convert::FromSpecImpl<std::io::Error> for XlsbError {
    open spec fn obeys_from_spec() -> bool { true }
    open spec fn from_spec(e: std::io::Error) -> Self { XlsbError::Io(e) }
}
impl From<std::io::Error> for XlsbError {
    fn from(e: std::io::Error) -> (r: XlsbError) { XlsbError::Io(e) }
}

//@@ fn src/xlsx/mod.rs check_for_password_protected props=C20 entry ret=res
//@@ sig
    ensures
        //# C20.non_cfb_never_password
        !hdr_signature_ok(old(reader).content()) ==> (match res { Ok(_) => true, Err(e) => e is Io }),
        //# C20.password_iff_encrypted_package
        forall|fuel: nat| #[trigger] cfb_parse(old(reader).content(), fuel) is Some ==> (match res {
            Ok(_) => !has_name(cfb_parse(old(reader).content(), fuel).unwrap().dirs, "EncryptedPackage"@) || (*final(reader)).io_failed(),
            Err(e) => e is Io || (e is Password && has_name(cfb_parse(old(reader).content(), fuel).unwrap().dirs, "EncryptedPackage"@)),
        }),
        //# C20.password_only_for_cfb
        res matches Err(e) && e is Password ==> hdr_valid(old(reader).content()),
//@@ body
    broadcast use axiom_question_mark_from;
    let ghost inp = reader.content();
    proof { assert forall|fuel: nat| #[trigger] cfb_parse(inp, fuel) is Some implies hdr_valid(inp) by { lemma_parse_needs_header(inp, fuel); } }
//@@ end
pub mod xlsb { use super::*;
//@@ fn src/xlsb/mod.rs check_for_password_protected props=C20 entry ret=res
//@@ sig
    ensures
        //# C20.non_cfb_never_password
        !hdr_signature_ok(old(reader).content()) ==> (match res { Ok(_) => true, Err(e) => e is Io }),
        //# C20.password_iff_encrypted_package
        forall|fuel: nat| #[trigger] cfb_parse(old(reader).content(), fuel) is Some ==> (match res {
            Ok(_) => !has_name(cfb_parse(old(reader).content(), fuel).unwrap().dirs, "EncryptedPackage"@) || (*final(reader)).io_failed(),
            Err(e) => e is Io || (e is Password && has_name(cfb_parse(old(reader).content(), fuel).unwrap().dirs, "EncryptedPackage"@)),
        }),
        //# C20.password_only_for_cfb
        res matches Err(e) && e is Password ==> hdr_valid(old(reader).content()),
//@@ body
    broadcast use axiom_question_mark_from;
    let ghost inp = reader.content();
    proof { assert forall|fuel: nat| #[trigger] cfb_parse(inp, fuel) is Some implies hdr_valid(inp) by { lemma_parse_needs_header(inp, fuel); } }
//@@ end
} // mod xlsb

} // verus!
// stand-in for encoding_rs (only referenced from the external_body of Directory::from_slice, never seen by Verus)
pub struct Encoding;
impl Encoding {
    pub fn decode<'a>(&'static self, _b: &'a [u8]) -> (std::borrow::Cow<'a, str>, &'static Encoding, bool) { unimplemented!() }
}
pub static UTF_16LE: &Encoding = &Encoding;
fn main() {}
