//@@ unit props=C13,C20,C06
// Unit cfb: [MS-CFB] compound-file reader of src/cfb.rs (Cfb, Header, Sectors, Directory), verbatim text.
#![allow(unused_imports, dead_code, unused_variables, unused_mut, unused_assignments)]
use vstd::prelude::*;

verus! {

// TRUSTED: 64-bit target (usize == u64); calamine's `id as usize * self.size` and `u64 -> usize` conversions rely on it
global size_of usize == 8;

#[verifier::external_type_specification] #[verifier::external_body] pub struct ExIoError(std::io::Error);

//@@ item src/cfb.rs const RESERVED_SECTORS
//@@ item src/cfb.rs const DIFSECT
//@@ item src/cfb.rs const ENDOFCHAIN
//@@ item src/cfb.rs enum CfbError

// ---------------------------------------------------------------- A-io: ghost model of std::io::Read
// TRUSTED: (A-io) documented behaviour of std::io::Read: a reader owns the sequence `rem()` of bytes not yet delivered;
// `read` copies the next n bytes (0 <= n <= buf.len()) to the front of buf and drops them; n == 0 only when buf is
// empty or the stream is at its end; `read_exact` fills buf completely or fails.
pub trait Read {
    spec fn rem(&self) -> Seq<u8>;
    fn read(&mut self, buf: &mut [u8]) -> (r: Result<usize, std::io::Error>)
        ensures
            final(buf)@.len() == old(buf)@.len(),
            match r {
                Ok(n) => n <= old(buf)@.len() && n <= old(self).rem().len()
                    && (n == 0 ==> old(buf)@.len() == 0 || old(self).rem().len() == 0)
                    && final(self).rem() == old(self).rem().skip(n as int)
                    && final(buf)@ == old(self).rem().take(n as int) + old(buf)@.skip(n as int),
                Err(_) => true,
            };
    fn read_exact(&mut self, buf: &mut [u8]) -> (r: Result<(), std::io::Error>)
        ensures
            final(buf)@.len() == old(buf)@.len(),
            match r {
                Ok(_) => old(buf)@.len() <= old(self).rem().len()
                    && final(self).rem() == old(self).rem().skip(old(buf)@.len() as int)
                    && final(buf)@ == old(self).rem().take(old(buf)@.len() as int),
                Err(_) => old(buf)@.len() > old(self).rem().len() ==> true,
            },
            // a stream that still holds enough bytes and does not fail at the OS level is not modelled as failing:
            // nothing is assumed about Err (any read may fail with an I/O error)
            ;
}

// ---------------------------------------------------------------- [MS-CFB] specification (independent of the code)
/// sector `id` of the sector space `data` (the bytes after the header) with sectors of `size` bytes
pub open spec fn sector(data: Seq<u8>, size: int, id: int) -> Seq<u8> {
    data.subrange(id * size, (id + 1) * size)
}
/// sector `id` lies completely inside `data`
pub open spec fn sector_in(data: Seq<u8>, size: int, id: int) -> bool {
    0 <= id && (id + 1) * size <= data.len()
}

//@@ item src/cfb.rs struct Sectors

impl Sectors {
    /// representation invariant (not file controlled): sector sizes are 512/4096 ([MS-CFB] 2.2 sector shift 9/12) or 64 (mini sector)
    pub closed spec fn wf(&self) -> bool { self.size == 64 || self.size == 512 || self.size == 4096 }
    pub closed spec fn sz(&self) -> int { self.size as int }
    pub closed spec fn loaded(&self) -> Seq<u8> { self.data@ }
    /// the whole sector space: what is already loaded followed by what the reader still holds
    pub open spec fn total<R: Read>(&self, r: &R) -> Seq<u8> { self.loaded() + r.rem() }
}

//@@ impl src/cfb.rs Sectors
//@@ fn src/cfb.rs Sectors::get props=C13 entry ret=res
//@@ sig
    requires
        old(self).wf(),
    ensures
        //# C13.get_frame_size
        final(self).sz() == old(self).sz() && final(self).wf(),
        //# C13.get_frame_data_grows
        old(self).loaded().len() <= final(self).loaded().len() && final(self).loaded().take(old(self).loaded().len() as int) == old(self).loaded(),
        //# C13.get_sector
        sector_in(old(self).total(old(r)), old(self).sz(), id as int) ==> (match res {
            Ok(s) => s@ == sector(old(self).total(old(r)), old(self).sz(), id as int),
            Err(e) => e is Io,
        }),
        //# C13.get_conservation
        sector_in(old(self).total(old(r)), old(self).sz(), id as int) && res is Ok ==> final(self).total(final(r)) == old(self).total(old(r)),
        //# C13.get_short_at_eof
        !sector_in(old(self).total(old(r)), old(self).sz(), id as int) && id as int * old(self).sz() <= old(self).total(old(r)).len() ==> (match res {
            Ok(s) => s@ == old(self).total(old(r)).skip(id as int * old(self).sz()),
            Err(e) => e is Io,
        }),
//@@ body
        let ghost total = self.total(r);
        let ghost data0 = self.data@;
//@@ before /self\.data\.resize/
            //# C06.alloc_bound_resize
            assert(end as int <= total.len() + self.size);
//@@ loop 0
                invariant
                    self.wf(), self.size == old(self).size,
                    start == id as usize * self.size, end == start + self.size,
                    self.data@.len() == end,
                    data0.len() <= len <= end,
                    data0 == old(self).data@,
                    self.data@.take(data0.len() as int) == data0,
                    self.data@.take(len as int) + r.rem() == total,
                decreases end - len,
//@@ replace /map_err\(CfbError::Io\)/ Verus does not support a datatype constructor as a function value; eta-expanded
map_err(|e| CfbError::Io(e))
//@@ end
//@@ endimpl

} // verus!
fn main() {}
