//@@ unit props=C04,C19,C16,C14,C06 rlimit=120
// Unit odsxml: src/ods.rs, verbatim text, the XML-event-consuming functions that unit `ods` left out:
//   get_datatype (value typing C04, cell text assembly C19, formula text C14), read_table (establishes the `wf_shape` precondition of
//   get_range: closes the gap to unit ods), read_named_expressions and parse_content (C16),
// against the ghost model of quick-xml / zip of unit ods (A-xml / A-zip; the stand-in text is copied from units/ods/unit.rs and extended
// by the contracts of Decoder::decode, decode_and_unescape_value, BytesText::unescape, try_get_attribute, str::parse).
#![allow(unused_imports, dead_code, unused_variables, unused_mut, unused_assignments)]
use vstd::prelude::*;
use vstd::std_specs::cmp::PartialEqSpec;
use vstd::string::to_string_from_display_ensures;
use std::borrow::Cow;
use std::ops::Deref;
use std::io::{Read, Seek};

verus! {

// TRUSTED: 64-bit target (usize is 8 bytes)
global size_of usize == 8;

// TRUSTED: A-std -- assumed std behaviour, with the broadcast axioms in a sub-module so that the module-level `broadcast use` is not cyclic
pub mod ax {
    use vstd::prelude::*;
    use vstd::std_specs::cmp::PartialEqSpec;
    use vstd::string::to_string_from_display_ensures;
    use std::borrow::Cow;
    use std::ops::Deref;
    verus! {
    // TRUSTED: A-std -- `Cow::deref` yields the borrowed or owned content; `cow_ref` names it
    pub uninterp spec fn cow_ref<'a, 'b, B: ?Sized + ToOwned>(c: &'b Cow<'a, B>) -> &'b B;
    pub assume_specification<'a, 'b, B: ?Sized + ToOwned>[ <Cow<'a, B> as Deref>::deref ](c: &'b Cow<'a, B>) -> (r: &'b B)
        ensures r == cow_ref(c);
    // TRUSTED: A-std -- `to_string()` of a Cow<str> (through Display) is its content
    pub broadcast axiom fn axiom_cow_to_string<'a>(t: &Cow<'a, str>, s: String)
        ensures #[trigger] to_string_from_display_ensures::<Cow<'a, str>>(t, s) <==> s@ == cow_ref(t)@;
    // TRUSTED: A-std -- `<[u8] as PartialEq<[u8; N]>>::eq` (what `&[u8] == &[u8; N]` resolves to) compares the contents
    pub broadcast axiom fn axiom_slice_arr_eq<const N: usize>(a: &[u8], b: &[u8; N])
        ensures #[trigger] <[u8] as PartialEqSpec<[u8; N]>>::eq_spec(a, b) == (a@ == b@);
    /// the bytes of a `str` (`<str as AsRef<[u8]>>::as_ref`)
    pub uninterp spec fn str_bytes(s: Seq<char>) -> Seq<u8>;
    /// the bytes `N::as_ref` yields for an attribute name given as `&str` or `&[u8; K]`
    pub uninterp spec fn name_bytes<N>(n: N) -> Seq<u8>;
    // TRUSTED: A-std -- AsRef<[u8]> for str / for [u8; K]
    pub broadcast axiom fn axiom_name_bytes_str(n: &str)
        ensures #[trigger] name_bytes::<&str>(n) == str_bytes(n@);
    pub broadcast axiom fn axiom_name_bytes_arr<const K: usize>(n: &[u8; K])
        ensures #[trigger] name_bytes::<&[u8; K]>(n) == n@;
    }
}
use ax::*;
broadcast use {ax::axiom_cow_to_string, ax::axiom_slice_arr_eq, ax::axiom_name_bytes_str, ax::axiom_name_bytes_arr};

// =====================================================================================================================
// A-xml / A-zip: GHOST MODEL of quick-xml 0.37 (as configured by ods.rs: trim_text(false), expand_empty_elements = true,
// check_end_names = false, check_comments = false) and of the zip container.  Everything in this section is TRUSTED.
// A reader owns the ghost sequence `events()` of the results its successive `read_event_into` calls deliver and a position `pos()`.
// ASSUMED AND NOT VERIFIED: that quick-xml turns the bytes of the zip part into this sequence (tokenisation, `<a/>` delivered as
// Start + End, entity / character references resolved by `unescape` / `decode_and_unescape_value`, white space preserved).
// =====================================================================================================================
pub mod quick_xml {
    pub struct Error;
    pub mod events { pub mod attributes { pub struct AttrError; } }
    pub mod encoding { pub struct EncodingError; }
}
pub mod zip { pub mod result { pub enum ZipError { FileNotFound, Other } } }
use zip::result::ZipError;
#[verifier::external_type_specification] #[verifier::external_body] pub struct ExIoError(std::io::Error);
#[verifier::external_type_specification] #[verifier::external_body] pub struct ExParseFloatError(std::num::ParseFloatError);
#[verifier::external_type_specification] #[verifier::external_body] pub struct ExParseIntError(std::num::ParseIntError);
#[verifier::external_type_specification] #[verifier::external_body] pub struct ExParseBoolError(std::str::ParseBoolError);
#[verifier::external_trait_specification] pub trait ExRead { type ExternalTraitSpecificationFor: std::io::Read; }
#[verifier::external_trait_specification] pub trait ExSeek { type ExternalTraitSpecificationFor: std::io::Seek; }

//@@ item src/ods.rs enum OdsError
//@@ item src/lib.rs enum CellErrorType keep_attrs
//@@ item src/datatype.rs enum ExcelDateTimeType keep_attrs
//@@ item src/datatype.rs struct ExcelDateTime keep_attrs
//@@ item src/datatype.rs enum Data keep_attrs
#[verifier::external_body] fn verif_opaque_string() -> String { String::new() }

pub enum EvKind { Start, End, Text, Comment, Other, Error }
pub ghost struct Attr {
    pub key: Seq<u8>,     // qualified attribute name
    pub raw: Seq<u8>,     // value bytes as written between the quotes (what `Attribute::value` holds)
    pub err: bool,        // the checking iterator `BytesStart::attributes()` yields Err(AttrError) for it (malformed, or a duplicate name)
    pub bad: bool,        // syntactically malformed: also the non-checking iterator inside `try_get_attribute` yields Err for it
}
pub ghost struct Ev {
    pub kind: EvKind,
    pub name: Seq<u8>,     // qualified tag name (Start / End)
    pub attrs: Seq<Attr>,  // attributes in document order (Start)
    pub text: Seq<char>,   // content of a Text event after unescaping
    pub text_ok: bool,     // `unescape()` succeeds on this Text event
}
/// `Decoder::decode`: the characters the bytes encode (UTF-8 unless the XML declaration says otherwise); None: invalid encoding
pub uninterp spec fn utf8(raw: Seq<u8>) -> Option<Seq<char>>;
/// attribute value decoded with entity / character references resolved (what `decode_and_unescape_value` returns); None: error
pub uninterp spec fn unesc(raw: Seq<u8>) -> Option<Seq<char>>;
/// `str::parse::<F>()` (`F::from_str`): a function of the text; None: Err.  The grammars of f64 / usize / i32 / bool are NOT modelled.
pub uninterp spec fn str_parse<F>(s: Seq<char>) -> Option<F>;
#[verifier::external_trait_specification]
pub trait ExFromStr: Sized { type ExternalTraitSpecificationFor: core::str::FromStr; type Err; }
// TRUSTED: A-std -- str::parse is a (deterministic) function of the characters
pub assume_specification<F: std::str::FromStr>[ str::parse::<F> ](s: &str) -> (r: Result<F, <F as std::str::FromStr>::Err>)
    ensures
        str_parse::<F>(s@) is Some ==> r is Ok && r->Ok_0 == str_parse::<F>(s@)->Some_0,
        str_parse::<F>(s@) is None ==> r is Err;

// TRUSTED: A-xml -- quick_xml::name::QName (a Copy tuple struct over the qualified-name bytes; `==` compares the bytes)
#[derive(Clone, Copy)]
pub struct QName<'a>(pub &'a [u8]);
impl<'a> PartialEq for QName<'a> {
    #[verifier::external_body]
    fn eq(&self, o: &QName<'a>) -> (r: bool) ensures r == (self.0@ =~= o.0@) { unimplemented!() }
}
#[verifier::external_body]
pub struct BytesStart<'a> { _p: core::marker::PhantomData<&'a ()> }
#[verifier::external_body]
pub struct BytesEnd<'a> { _p: core::marker::PhantomData<&'a ()> }
#[verifier::external_body]
pub struct BytesText<'a> { _p: core::marker::PhantomData<&'a ()> }
// `Other` stands for CData / PI / Decl / DocType (never named by the verified code; `Empty` cannot occur with expand_empty_elements)
pub enum Event<'a> { Start(BytesStart<'a>), End(BytesEnd<'a>), Text(BytesText<'a>), Comment(BytesText<'a>), Other, Eof }
impl<'a> BytesStart<'a> {
    pub uninterp spec fn ev(&self) -> Ev;
    #[verifier::external_body]
    pub fn name(&self) -> (r: QName<'_>) ensures r.0@ == self.ev().name { unimplemented!() }
}
impl<'a> BytesEnd<'a> {
    pub uninterp spec fn ev(&self) -> Ev;
    #[verifier::external_body]
    pub fn name(&self) -> (r: QName<'_>) ensures r.0@ == self.ev().name { unimplemented!() }
}
impl<'a> BytesText<'a> {
    pub uninterp spec fn ev(&self) -> Ev;
    // TRUSTED: A-xml -- `unescape` returns the text with the predefined entities and character references resolved, or Err
    #[verifier::external_body]
    pub fn unescape(&self) -> (r: Result<Cow<'a, str>, quick_xml::Error>)
        ensures
            self.ev().text_ok ==> r is Ok && cow_ref(&r->Ok_0)@ == self.ev().text,
            !self.ev().text_ok ==> r is Err,
    { unimplemented!() }
}
/// the result `read_event_into` delivers for the ghost event e
pub open spec fn ev_result<'b>(r: Result<Event<'b>, quick_xml::Error>, e: Ev) -> bool {
    match e.kind {
        EvKind::Start => r matches Ok(Event::Start(b)) && b.ev() == e,
        EvKind::End => r matches Ok(Event::End(b)) && b.ev() == e,
        EvKind::Text => r matches Ok(Event::Text(b)) && b.ev() == e,
        EvKind::Comment => r matches Ok(Event::Comment(b)) && b.ev() == e,
        EvKind::Other => r matches Ok(Event::Other),
        EvKind::Error => r is Err,
    }
}
// A-zip: zip::read::{ZipArchive, ZipFile}; the content returned for a name depends only on the archive and the name
#[verifier::external_body] #[verifier::reject_recursive_types(RS)]
pub struct ZipArchive<RS> { _p: core::marker::PhantomData<RS> }
#[verifier::external_body]
pub struct ZipFile<'a> { _p: core::marker::PhantomData<&'a ()> }
#[verifier::external_body] #[verifier::reject_recursive_types(R)]
pub struct BufReader<R> { _p: core::marker::PhantomData<R> }
/// the XML events of the part `name`, None if the archive has no (readable) entry of that name
pub uninterp spec fn part_events<RS>(zip: ZipArchive<RS>, name: Seq<char>) -> Option<Seq<Ev>>;
impl<'a> ZipFile<'a> { pub uninterp spec fn events(&self) -> Seq<Ev>; }
impl<R> BufReader<R> {
    pub uninterp spec fn inner(&self) -> R;
    #[verifier::external_body]
    pub fn new(r: R) -> (b: Self) ensures b.inner() == r { unimplemented!() }
}
impl<RS: Read + Seek> ZipArchive<RS> {
    // TRUSTED: A-zip
    #[verifier::external_body]
    pub fn by_name<'a>(&'a mut self, name: &str) -> (r: Result<ZipFile<'a>, ZipError>)
        ensures
            *final(self) == *old(self),
            part_events(*old(self), name@) matches Some(evs) ==> r is Ok && r->Ok_0.events() == evs,
            part_events(*old(self), name@) is None ==> r is Err,
    { unimplemented!() }
}
pub struct Config { pub check_end_names: bool, pub check_comments: bool, pub expand_empty_elements: bool, pub trim: bool }
impl Config {
    #[verifier::external_body]
    pub fn trim_text(&mut self, trim: bool) { unimplemented!() }
}
#[verifier::external_body] #[verifier::reject_recursive_types(R)]
pub struct XmlReader<R> { _p: core::marker::PhantomData<R> }
impl<R> XmlReader<R> {
    pub uninterp spec fn events(&self) -> Seq<Ev>;
    pub uninterp spec fn pos(&self) -> nat;
    pub open spec fn left(&self) -> int { if self.pos() >= self.events().len() { 0 } else { self.events().len() - self.pos() } }
}
// TRUSTED: A-xml -- quick_xml::encoding::Decoder
pub struct Decoder { _p: u8 }
impl Decoder {
    // TRUSTED: A-xml -- decodes the bytes (no unescaping)
    #[verifier::external_body]
    pub fn decode<'b>(&self, bytes: &'b [u8]) -> (r: Result<Cow<'b, str>, quick_xml::encoding::EncodingError>)
        ensures
            utf8(bytes@) is Some ==> r is Ok && cow_ref(&r->Ok_0)@ == utf8(bytes@)->Some_0,
            utf8(bytes@) is None ==> r is Err,
    { unimplemented!() }
}
impl<'a> XmlReader<BufReader<ZipFile<'a>>> {
    // TRUSTED: A-xml
    #[verifier::external_body]
    pub fn from_reader(b: BufReader<ZipFile<'a>>) -> (r: Self) ensures r.events() == b.inner().events(), r.pos() == 0 { unimplemented!() }
    // TRUSTED: A-xml -- configuration does not touch the stream
    #[verifier::external_body]
    pub fn config_mut(&mut self) -> (c: &mut Config) ensures final(self).events() == old(self).events(), final(self).pos() == old(self).pos() { unimplemented!() }
    // TRUSTED: A-xml -- returns events[pos] and advances; at the end of input returns Eof for ever
    #[verifier::external_body]
    pub fn read_event_into<'b>(&mut self, buf: &'b mut Vec<u8>) -> (r: Result<Event<'b>, quick_xml::Error>)
        ensures
            final(self).events() == old(self).events(),
            old(self).pos() >= old(self).events().len() ==> (r matches Ok(Event::Eof)) && final(self).pos() == old(self).pos(),
            old(self).pos() < old(self).events().len() ==>
                final(self).pos() == old(self).pos() + 1 && ev_result(r, old(self).events()[old(self).pos() as int]),
    { unimplemented!() }
    // TRUSTED: A-xml
    #[verifier::external_body]
    pub fn decoder(&self) -> Decoder { unimplemented!() }
}
//@@ item src/ods.rs type OdsReader

// TRUSTED: A-xml -- quick_xml::events::attributes::{Attribute, Attributes}: `BytesStart::attributes()` iterates over the attributes of
// the start tag in document order; each item is Ok(Attribute { key, value }) with the qualified attribute name and the RAW value bytes,
// or Err(AttrError) for a malformed attribute or (checks are on by default) a name that already occurred.
pub struct Attribute<'a> { pub key: QName<'a>, pub value: Cow<'a, [u8]> }
impl<'a> Attribute<'a> {
    /// this exec attribute carries the qualified name and raw value of the ghost attribute
    pub open spec fn is(&self, a: Attr) -> bool { self.key.0@ == a.key && cow_ref(&self.value)@ == a.raw }
    // TRUSTED: A-xml -- decodes the raw value and resolves entity / character references
    #[verifier::external_body]
    pub fn decode_and_unescape_value(&self, decoder: Decoder) -> (r: Result<Cow<'a, str>, quick_xml::Error>)
        ensures
            unesc(cow_ref(&self.value)@) is Some ==> r is Ok && cow_ref(&r->Ok_0)@ == unesc(cow_ref(&self.value)@)->Some_0,
            unesc(cow_ref(&self.value)@) is None ==> r is Err,
    { unimplemented!() }
}
#[verifier::external_body]
pub struct Attributes<'a> { _p: core::marker::PhantomData<&'a ()> }
impl<'a> Attributes<'a> {
    /// attributes not yet handed out
    pub uninterp spec fn rem(&self) -> Seq<Attr>;
}
/// XML 1.0 3.1 "an attribute name MUST NOT appear more than once in the same start-tag": quick-xml's checking iterator reports the second
/// occurrence as Err(AttrError::Duplicated); what the non-checking iterator rejects, the checking one rejects too
pub open spec fn attrs_wf(a: Seq<Attr>) -> bool {
    &&& forall|j: int| 0 <= j < a.len() && (#[trigger] a[j]).bad ==> a[j].err
    &&& forall|i: int, j: int| 0 <= i < j < a.len() && (#[trigger] a[i]).key == (#[trigger] a[j]).key ==> a[j].err
}
// TRUSTED: A-xml -- see attrs_wf
pub axiom fn axiom_attributes_wf<'a>(a: &Attributes<'a>)
    ensures attrs_wf(a.rem());
impl<'a> Iterator for Attributes<'a> {
    type Item = Result<Attribute<'a>, quick_xml::events::attributes::AttrError>;
    // TRUSTED: A-xml
    #[verifier::external_body]
    fn next(&mut self) -> (r: Option<Result<Attribute<'a>, quick_xml::events::attributes::AttrError>>)
        ensures
            old(self).rem().len() == 0 ==> r is None && final(self).rem() == old(self).rem(),
            old(self).rem().len() > 0 ==> r is Some && final(self).rem() == old(self).rem().skip(1)
                && (old(self).rem()[0].err ==> r->Some_0 is Err)
                && (!old(self).rem()[0].err ==> r->Some_0 is Ok && (r->Some_0->Ok_0).is(old(self).rem()[0])),
    { unimplemented!() }
}
/// index of the first attribute at or after i that is malformed or has this qualified name; attrs.len() if none
pub open spec fn tga_idx(attrs: Seq<Attr>, key: Seq<u8>, i: int) -> int
    decreases attrs.len() - i
{
    if i < 0 || i >= attrs.len() { attrs.len() as int } else if attrs[i].bad || attrs[i].key == key { i } else { tga_idx(attrs, key, i + 1) }
}
impl<'a> BytesStart<'a> {
    // TRUSTED: A-xml
    #[verifier::external_body]
    pub fn attributes(&self) -> (r: Attributes<'_>) ensures r.rem() == self.ev().attrs, attrs_wf(r.rem()) { unimplemented!() }
    // TRUSTED: A-xml -- quick-xml 0.37 events/mod.rs: `for a in self.attributes().with_checks(false) { let a = a?; if a.key.as_ref() ==
    // attr_name.as_ref() { return Ok(Some(a)); } } Ok(None)`
    #[verifier::external_body]
    #[verifier::allow(undeclared_external_trait)]
    pub fn try_get_attribute<N: AsRef<[u8]> + Sized>(&self, attr_name: N) -> (r: Result<Option<Attribute<'_>>, quick_xml::events::attributes::AttrError>)
        ensures ({
            let at = self.ev().attrs;
            let k = tga_idx(at, name_bytes(attr_name), 0);
            if k >= at.len() { r matches Ok(None) } else if at[k].bad { r is Err } else { r matches Ok(Some(a)) && a.is(at[k]) }
        }),
    { unimplemented!() }
}
// what `from_err!(quick_xml::Error, OdsError, Xml)` (macro of src/utils.rs) expands to
impl From<quick_xml::Error> for OdsError { fn from(e: quick_xml::Error) -> (r: OdsError) { OdsError::Xml(e) } }
impl vstd::std_specs::convert::FromSpecImpl<quick_xml::Error> for OdsError {
    open spec fn obeys_from_spec() -> bool { true }
    open spec fn from_spec(e: quick_xml::Error) -> Self { OdsError::Xml(e) }
}
impl From<quick_xml::encoding::EncodingError> for OdsError { #[verifier::external_body] fn from(e: quick_xml::encoding::EncodingError) -> OdsError { unimplemented!() } }
impl From<quick_xml::events::attributes::AttrError> for OdsError { #[verifier::external_body] fn from(e: quick_xml::events::attributes::AttrError) -> OdsError { unimplemented!() } }


// TRUSTED: A-lit -- Verus keeps the contents of byte-string literals uninterpreted (only their length is known).  The only facts about
// contents the proofs need: three attribute names of equal length differ (at byte 7: `v` / `d` / `t`), and so do `text:p` / `text:s` (byte 5)
#[verifier::external_body]
pub proof fn axiom_bytelits()
    ensures
        b"office:value-type"@[7] == 0x76u8, b"office:date-value"@[7] == 0x64u8, b"office:time-value"@[7] == 0x74u8,
        b"text:p"@[5] == 0x70u8, b"text:s"@[5] == 0x73u8,
{}

// =====================================================================================================================
// C04 / C14 / C19 -- one cell element.  ODF 1.2 part 1:
//   19.385 office:value-type  float | percentage | currency | date | time | boolean | string
//   19.384 office:value (numeric value of float / percentage / currency cells), 19.380 office:date-value, 19.382 office:time-value,
//   19.369 office:boolean-value, 19.379 office:string-value ("If [it] is not present, the element content defines the value"),
//   19.642 table:formula; 9.1.4 <table:table-cell> content: <office:annotation>?, then paragraphs <text:p>;
//   6.1.2 white space: <text:s text:c="n"/> "represents [n] consecutive U+0020 SPACE characters", text:c default 1 (19.763);
//   6.1.4 <text:tab>, 6.1.5 <text:line-break>.
// Property C04: float, percentage, currency -> Float; string -> String; boolean -> Bool; date -> DateTimeIso; time -> DurationIso.
// =====================================================================================================================
pub open spec fn k_value() -> Seq<u8> { b"office:value"@ }
pub open spec fn k_string() -> Seq<u8> { b"office:string-value"@ }
pub open spec fn k_date() -> Seq<u8> { b"office:date-value"@ }
pub open spec fn k_time() -> Seq<u8> { b"office:time-value"@ }
pub open spec fn k_bool() -> Seq<u8> { b"office:boolean-value"@ }
pub open spec fn k_vtype() -> Seq<u8> { b"office:value-type"@ }
pub open spec fn k_formula() -> Seq<u8> { b"table:formula"@ }
pub open spec fn n_cell() -> Seq<u8> { b"table:table-cell"@ }
pub open spec fn n_covered() -> Seq<u8> { b"table:covered-table-cell"@ }
pub open spec fn n_annotation() -> Seq<u8> { b"office:annotation"@ }
pub open spec fn n_p() -> Seq<u8> { b"text:p"@ }
pub open spec fn n_s() -> Seq<u8> { b"text:s"@ }
pub open spec fn n_tab() -> Seq<u8> { b"text:tab"@ }
pub open spec fn n_line_break() -> Seq<u8> { b"text:line-break"@ }
pub open spec fn k_text_c() -> Seq<u8> { str_bytes("text:c"@) }

pub enum ValKind { Float, Str, Date, Time, Bool }
/// the value attributes of a cell
pub open spec fn value_kind(key: Seq<u8>) -> Option<ValKind> {
    if key == k_value() { Some(ValKind::Float) }
    else if key == k_date() { Some(ValKind::Date) }
    else if key == k_time() { Some(ValKind::Time) }
    else if key == k_string() { Some(ValKind::Str) }
    else if key == k_bool() { Some(ValKind::Bool) }
    else { None }
}
/// index of the first value attribute at or after i; attrs.len() if none
pub open spec fn first_value(attrs: Seq<Attr>, i: int) -> int
    decreases attrs.len() - i
{
    if i < 0 || i >= attrs.len() { attrs.len() as int } else if value_kind(attrs[i].key) is Some { i } else { first_value(attrs, i + 1) }
}
/// index of the first attribute named `key` at or after i; attrs.len() if none
pub open spec fn first_key(attrs: Seq<Attr>, key: Seq<u8>, i: int) -> int
    decreases attrs.len() - i
{
    if i < 0 || i >= attrs.len() { attrs.len() as int } else if attrs[i].key == key { i } else { first_key(attrs, key, i + 1) }
}
/// C04 value typing: `d` is the value the value attribute `a` denotes (XML 1.0 3.3.3: the value of an attribute is its text with
/// character and entity references resolved: `unesc`)
pub open spec fn typed_as(d: Data, a: Attr) -> bool {
    match value_kind(a.key) {
        Some(ValKind::Float) => unesc(a.raw) is Some && str_parse::<f64>(unesc(a.raw)->Some_0) is Some
            && d == Data::Float(str_parse::<f64>(unesc(a.raw)->Some_0)->Some_0),
        Some(ValKind::Str) => unesc(a.raw) is Some && (d matches Data::String(s) && s@ == unesc(a.raw)->Some_0),
        Some(ValKind::Date) => unesc(a.raw) is Some && (d matches Data::DateTimeIso(s) && s@ == unesc(a.raw)->Some_0),
        Some(ValKind::Time) => unesc(a.raw) is Some && (d matches Data::DurationIso(s) && s@ == unesc(a.raw)->Some_0),
        Some(ValKind::Bool) => unesc(a.raw) is Some && d == Data::Bool(unesc(a.raw)->Some_0 == "TRUE"@ || unesc(a.raw)->Some_0 == "true"@),
        None => false,
    }
}
/// C19 "any Unicode string stored as a cell's text - including XML-special characters ... reads back as exactly that string ... whether it is
/// stored as ... a formula's string result": ODF 19.379 office:string-value carries the text of a string cell (LibreOffice: the string RESULT OF
/// A FORMULA) in an ATTRIBUTE, i.e. behind the attribute-escaping layer (`Tom &amp; Jerry`, `&#10;`, `&#x1F600;`).  The attributes whose
/// value IS the text handed to the caller: the string, and the ISO 8601 text of a date / time.
pub open spec fn text_valued(a: Attr) -> bool {
    value_kind(a.key) matches Some(k) && (k is Str || k is Date || k is Time)
}
/// the text a value carries
pub open spec fn text_of(d: Data) -> Option<Seq<char>> {
    match d { Data::String(s) => Some(s@), Data::DateTimeIso(s) => Some(s@), Data::DurationIso(s) => Some(s@), _ => None }
}
/// `d` carries exactly the VALUE of the attribute `a` (XML 1.0 3.3.3: character and entity references resolved: `unesc`) -- not the
/// bytes as written between the quotes (`a.raw`, what `Decoder::decode(&a.value)` alone would give: `utf8`)
pub open spec fn text_unescaped(d: Data, a: Attr) -> bool { unesc(a.raw) is Some && text_of(d) == Some(unesc(a.raw)->Some_0) }
/// the value attribute can be represented (otherwise the reader has to report an error)
pub open spec fn data_ok(a: Attr) -> bool {
    match value_kind(a.key) {
        Some(ValKind::Float) => unesc(a.raw) is Some && str_parse::<f64>(unesc(a.raw)->Some_0) is Some,
        Some(_) => unesc(a.raw) is Some,
        None => false,
    }
}
/// the cell has no value attribute and declares `office:value-type="string"`: its content is its value
/// (the VALUE of office:value-type -- XML 1.0 3.3.3, references resolved -- is the token `string`)
pub open spec fn text_route(attrs: Seq<Attr>) -> bool {
    first_value(attrs, 0) >= attrs.len()
        && first_key(attrs, k_vtype(), 0) < attrs.len() && unesc(attrs[first_key(attrs, k_vtype(), 0)].raw) == Some("string"@)
}
/// C14: the formula text of the cell (empty: none)
pub open spec fn formula_text(attrs: Seq<Attr>) -> Seq<char> {
    let fi = first_key(attrs, k_formula(), 0);
    if fi < attrs.len() && unesc(attrs[fi].raw) is Some { unesc(attrs[fi].raw)->Some_0 } else { Seq::empty() }
}
/// everything the attribute list asks the reader to decode can be decoded
pub open spec fn attrs_ok(attrs: Seq<Attr>) -> bool {
    &&& forall|j: int| 0 <= j < attrs.len() ==> !(#[trigger] attrs[j]).err
    &&& first_value(attrs, 0) < attrs.len() ==> data_ok(attrs[first_value(attrs, 0)])
    &&& first_key(attrs, k_formula(), 0) < attrs.len() ==> unesc(attrs[first_key(attrs, k_formula(), 0)].raw) is Some
    // the value type is looked at unless a value attribute precedes it
    &&& first_key(attrs, k_vtype(), 0) < first_value(attrs, 0) ==> unesc(attrs[first_key(attrs, k_vtype(), 0)].raw) is Some
}

// ---- C19: the text content of a cell
pub open spec fn spaces(n: int) -> Seq<char> { Seq::new((if n > 0 { n } else { 0 }) as nat, |i: int| ' ') }
/// ODF 19.763 text:c: the number of spaces a <text:s> stands for, default 1.  None: not readable.
/// (str_parse::<i32>: the code reads the count as an i32; the grammar of integers is not modelled.)
pub open spec fn space_count(attrs: Seq<Attr>) -> Option<int> {
    let k = tga_idx(attrs, k_text_c(), 0);
    if k >= attrs.len() { Some(1) }
    else if attrs[k].bad { None }
    else {
        match unesc(attrs[k].raw) {
            Some(t) => match str_parse::<i32>(t) { Some(n) => Some(n as int), None => None },
            None => None,
        }
    }
}
pub ghost struct TxtSt {
    pub s: Seq<char>,     // the text assembled so far
    pub paras: nat,       // number of paragraphs started so far
    pub pdepth: nat,      // number of <text:p> elements open
    pub in_annot: bool,   // inside <office:annotation>
}
pub open spec fn txt_init() -> TxtSt { TxtSt { s: Seq::empty(), paras: 0, pdepth: 0, in_annot: false } }
pub open spec fn is_cell_name(n: Seq<u8>) -> bool { n == n_cell() || n == n_covered() }
/// THE PARAGRAPH RULE, one event of the content of a cell:
///  * everything inside <office:annotation> .. </office:annotation> contributes nothing;
///  * a paragraph start contributes one '\n' iff it is not the first paragraph of the cell (so k paragraphs are joined by exactly
///    k - 1 newlines, empty paragraphs included);
///  * character data inside a paragraph contributes its unescaped text; <text:s text:c="n"/> contributes n spaces;
///    <text:tab/> a TAB, <text:line-break/> a LINE FEED;
///  * character data between the paragraphs (white space of an indented document) is not part of any paragraph.
pub open spec fn txt_step(st: TxtSt, e: Ev) -> TxtSt {
    if st.in_annot {
        if e.kind is End && e.name == n_annotation() { TxtSt { in_annot: false, ..st } } else { st }
    } else {
        match e.kind {
            EvKind::Text => if st.pdepth > 0 { TxtSt { s: st.s + e.text, ..st } } else { st },
            EvKind::Start =>
                if e.name == n_annotation() { TxtSt { in_annot: true, ..st } }
                else if e.name == n_p() {
                    TxtSt { s: if st.paras > 0 { st.s.push('\n') } else { st.s }, paras: st.paras + 1, pdepth: st.pdepth + 1, ..st }
                }
                // the three white-space elements (ODF allows them in paragraph content only) contribute where they occur
                else if e.name == n_s() { if space_count(e.attrs) is Some { TxtSt { s: st.s + spaces(space_count(e.attrs)->Some_0), ..st } } else { st } }
                else if e.name == n_tab() { TxtSt { s: st.s.push('\t'), ..st } }
                else if e.name == n_line_break() { TxtSt { s: st.s.push('\n'), ..st } }
                else { st },
            EvKind::End => if e.name == n_p() && st.pdepth > 0 { TxtSt { pdepth: (st.pdepth - 1) as nat, ..st } } else { st },
            _ => st,
        }
    }
}
/// the event can be decoded (outside annotations: the character data of a paragraph unescapes, a space count is readable)
pub open spec fn step_ok(st: TxtSt, e: Ev) -> bool {
    st.in_annot || match e.kind {
        EvKind::Text => st.pdepth > 0 ==> e.text_ok,
        EvKind::Start => e.name == n_s() ==> space_count(e.attrs) is Some,
        _ => true,
    }
}
pub ghost struct CellScan {
    pub ok: bool,      // the closing tag of the cell was reached and everything before it could be decoded
    pub st: TxtSt,     // state at the closing tag
    pub end: int,      // index of the closing tag (where reading stopped)
}
/// reading the content of a cell from event i on in state st: stops at the closing `table:table-cell` / `table:covered-table-cell`
pub open spec fn cell_scan(evs: Seq<Ev>, i: int, st: TxtSt) -> CellScan
    decreases evs.len() - i
{
    if i < 0 || i >= evs.len() { CellScan { ok: false, st, end: evs.len() as int } }
    else if evs[i].kind is Error { CellScan { ok: false, st, end: i } }
    else if !st.in_annot && evs[i].kind is End && is_cell_name(evs[i].name) { CellScan { ok: true, st, end: i } }
    else if !step_ok(st, evs[i]) { CellScan { ok: false, st, end: i } }
    else { cell_scan(evs, i + 1, txt_step(st, evs[i])) }
}
/// the text content of the cell whose content starts at event `pos`
pub open spec fn cell_text(evs: Seq<Ev>, pos: int) -> Seq<char> { cell_scan(evs, pos, txt_init()).st.s }

/// reading stops at or after the position it started from
proof fn lemma_cell_scan_end(evs: Seq<Ev>, i: int, st: TxtSt)
    requires 0 <= i,
    ensures cell_scan(evs, i, st).end >= i || cell_scan(evs, i, st).end == evs.len(), cell_scan(evs, i, st).ok ==> cell_scan(evs, i, st).end >= i,
    decreases evs.len() - i,
{
    if i < evs.len() && !(evs[i].kind is Error) && !(!st.in_annot && evs[i].kind is End && is_cell_name(evs[i].name)) && step_ok(st, evs[i]) {
        lemma_cell_scan_end(evs, i + 1, txt_step(st, evs[i]));
    }
}
/// named proof obligations at the arms of the text loop (each says: after this arm the assembled text is the specified one)
pub open spec fn text_appended(st0: TxtSt, st: TxtSt, e: Ev, s: Seq<char>) -> bool { st == txt_step(st0, e) && s == st.s }
pub open spec fn paragraph_joined(st0: TxtSt, st: TxtSt, s: Seq<char>) -> bool {
    st.paras == st0.paras + 1 && st.s == (if st0.paras > 0 { st0.s.push('\n') } else { st0.s }) && s == st.s
}
pub open spec fn spaces_expanded(st0: TxtSt, st: TxtSt, e: Ev, s: Seq<char>) -> bool { st == txt_step(st0, e) && s == st.s }

//@@ props C04
proof fn lemma_first_value(attrs: Seq<Attr>, i: int, k: int)
    requires 0 <= i <= k <= attrs.len(), forall|j: int| i <= j < k ==> value_kind((#[trigger] attrs[j]).key) is None,
    ensures
        k <= first_value(attrs, i) <= attrs.len(),
        k < attrs.len() && value_kind(attrs[k].key) is Some ==> first_value(attrs, i) == k,
        k < attrs.len() && value_kind(attrs[k].key) is None ==> first_value(attrs, i) > k,
    decreases k - i,
{
    if i < k { lemma_first_value(attrs, i + 1, k); }
    else if i < attrs.len() && value_kind(attrs[i].key) is None { lemma_first_value_le(attrs, i + 1); }
}
proof fn lemma_first_value_le(attrs: Seq<Attr>, i: int)
    requires 0 <= i <= attrs.len(),
    ensures i <= first_value(attrs, i) <= attrs.len(),
        first_value(attrs, i) < attrs.len() ==> value_kind(attrs[first_value(attrs, i)].key) is Some,
        forall|j: int| i <= j < first_value(attrs, i) ==> value_kind((#[trigger] attrs[j]).key) is None,
    decreases attrs.len() - i,
{
    if i < attrs.len() && value_kind(attrs[i].key) is None { lemma_first_value_le(attrs, i + 1); }
}
proof fn lemma_first_key(attrs: Seq<Attr>, key: Seq<u8>, i: int, k: int)
    requires 0 <= i <= k <= attrs.len(), forall|j: int| i <= j < k ==> (#[trigger] attrs[j]).key != key,
    ensures
        k <= first_key(attrs, key, i) <= attrs.len(),
        k < attrs.len() && attrs[k].key == key ==> first_key(attrs, key, i) == k,
        k < attrs.len() && attrs[k].key != key ==> first_key(attrs, key, i) > k,
    decreases k - i,
{
    if i < k { lemma_first_key(attrs, key, i + 1, k); }
    else if i < attrs.len() && attrs[i].key != key { lemma_first_key_le(attrs, key, i + 1); }
}
proof fn lemma_first_key_le(attrs: Seq<Attr>, key: Seq<u8>, i: int)
    requires 0 <= i <= attrs.len(),
    ensures i <= first_key(attrs, key, i) <= attrs.len(), first_key(attrs, key, i) < attrs.len() ==> attrs[first_key(attrs, key, i)].key == key,
        forall|j: int| i <= j < first_key(attrs, key, i) ==> (#[trigger] attrs[j]).key != key,
    decreases attrs.len() - i,
{
    if i < attrs.len() && attrs[i].key != key { lemma_first_key_le(attrs, key, i + 1); }
}
/// under attrs_wf, among attributes accepted by the checking iterator a name occurs once: the first occurrence is the occurrence
proof fn lemma_key_once(attrs: Seq<Attr>, key: Seq<u8>, k: int)
    requires attrs_wf(attrs), 0 <= k < attrs.len(), attrs[k].key == key, !attrs[k].err,
    ensures first_key(attrs, key, 0) == k,
{
    lemma_first_key_le(attrs, key, 0);
    let f = first_key(attrs, key, 0);
    if f < k { assert(attrs[f].key == attrs[k].key); }
    if f > k { assert(attrs[k].key != key); }
}
/// the names of the attributes the code distinguishes are pairwise different where the proof needs it
proof fn lemma_attr_names()
    ensures
        k_formula() != k_value(), k_formula() != k_string(), k_formula() != k_date(), k_formula() != k_time(), k_formula() != k_bool(),
        k_formula() != k_vtype(), k_vtype() != k_value(), k_vtype() != k_string(), k_vtype() != k_date(), k_vtype() != k_time(),
        k_vtype() != k_bool(), value_kind(k_formula()) is None, value_kind(k_vtype()) is None,
        n_p() != n_s(), n_p() != n_annotation(), n_s() != n_annotation(), n_tab() != n_p(), n_tab() != n_s(), n_line_break() != n_p(),
        n_line_break() != n_s(), n_tab() != n_annotation(), n_line_break() != n_annotation(), n_tab() != n_line_break(),
{
    assert(n_p().len() == 6 && n_s().len() == 6 && n_annotation().len() == 17 && n_tab().len() == 8 && n_line_break().len() == 15);
    axiom_bytelits();
    assert(k_formula().len() == 13 && k_value().len() == 12 && k_string().len() == 19 && k_date().len() == 17 && k_time().len() == 17
        && k_bool().len() == 20 && k_vtype().len() == 17);
}


//@@ props C19
// ---- the paragraph rule on the examples of the property statement (validation of the specification itself)
pub open spec fn ev_start(name: Seq<u8>) -> Ev { Ev { kind: EvKind::Start, name, attrs: Seq::empty(), text: Seq::empty(), text_ok: true } }
pub open spec fn ev_end(name: Seq<u8>) -> Ev { Ev { kind: EvKind::End, name, attrs: Seq::empty(), text: Seq::empty(), text_ok: true } }
pub open spec fn ev_text(t: Seq<char>) -> Ev { Ev { kind: EvKind::Text, name: Seq::empty(), attrs: Seq::empty(), text: t, text_ok: true } }
/// <text:p/><text:p>abc</text:p> reads "\nabc": an empty first paragraph still counts
proof fn example_empty_first_paragraph()
    ensures
        //# C19.ods_example_empty_first_paragraph
        cell_text(seq![ev_start(n_p()), ev_end(n_p()), ev_start(n_p()), ev_text("abc"@), ev_end(n_p()), ev_end(n_cell())], 0) == seq!['\n'] + "abc"@,
{
    lemma_attr_names();
    assert(n_p().len() == 6 && n_cell().len() == 16 && n_covered().len() == 24 && n_annotation().len() == 17);
    let evs = seq![ev_start(n_p()), ev_end(n_p()), ev_start(n_p()), ev_text("abc"@), ev_end(n_p()), ev_end(n_cell())];
    let s0 = txt_init();
    let s1 = txt_step(s0, evs[0]); assert(cell_scan(evs, 0, s0) == cell_scan(evs, 1, s1));
    let s2 = txt_step(s1, evs[1]); assert(cell_scan(evs, 1, s1) == cell_scan(evs, 2, s2));
    let s3 = txt_step(s2, evs[2]); assert(cell_scan(evs, 2, s2) == cell_scan(evs, 3, s3));
    let s4 = txt_step(s3, evs[3]); assert(cell_scan(evs, 3, s3) == cell_scan(evs, 4, s4));
    let s5 = txt_step(s4, evs[4]); assert(cell_scan(evs, 4, s4) == cell_scan(evs, 5, s5));
    assert(cell_scan(evs, 5, s5).st == s5);
    assert(s5.s =~= seq!['\n'] + "abc"@);
}
/// "a", "", "b" reads "a\n\nb": an empty paragraph in the middle contributes its own newline
proof fn example_empty_middle_paragraph()
    ensures
        //# C19.ods_example_empty_middle_paragraph
        cell_text(seq![ev_start(n_p()), ev_text("a"@), ev_end(n_p()), ev_start(n_p()), ev_end(n_p()), ev_start(n_p()), ev_text("b"@), ev_end(n_p()),
            ev_end(n_cell())], 0) == "a"@ + seq!['\n', '\n'] + "b"@,
{
    lemma_attr_names();
    assert(n_p().len() == 6 && n_cell().len() == 16 && n_covered().len() == 24 && n_annotation().len() == 17);
    let evs = seq![ev_start(n_p()), ev_text("a"@), ev_end(n_p()), ev_start(n_p()), ev_end(n_p()), ev_start(n_p()), ev_text("b"@), ev_end(n_p()), ev_end(n_cell())];
    let s0 = txt_init();
    let s1 = txt_step(s0, evs[0]); assert(cell_scan(evs, 0, s0) == cell_scan(evs, 1, s1));
    let s2 = txt_step(s1, evs[1]); assert(cell_scan(evs, 1, s1) == cell_scan(evs, 2, s2));
    let s3 = txt_step(s2, evs[2]); assert(cell_scan(evs, 2, s2) == cell_scan(evs, 3, s3));
    let s4 = txt_step(s3, evs[3]); assert(cell_scan(evs, 3, s3) == cell_scan(evs, 4, s4));
    let s5 = txt_step(s4, evs[4]); assert(cell_scan(evs, 4, s4) == cell_scan(evs, 5, s5));
    let s6 = txt_step(s5, evs[5]); assert(cell_scan(evs, 5, s5) == cell_scan(evs, 6, s6));
    let s7 = txt_step(s6, evs[6]); assert(cell_scan(evs, 6, s6) == cell_scan(evs, 7, s7));
    let s8 = txt_step(s7, evs[7]); assert(cell_scan(evs, 7, s7) == cell_scan(evs, 8, s8));
    assert(cell_scan(evs, 8, s8).st == s8);
    assert(s8.s =~= "a"@ + seq!['\n', '\n'] + "b"@);
}
/// text inside <office:annotation> contributes nothing
proof fn example_annotation_ignored()
    ensures
        //# C19.ods_example_annotation_ignored
        cell_text(seq![ev_start(n_annotation()), ev_start(n_p()), ev_text("note"@), ev_end(n_p()), ev_end(n_annotation()),
            ev_start(n_p()), ev_text("x"@), ev_end(n_p()), ev_end(n_cell())], 0) == "x"@,
{
    lemma_attr_names();
    assert(n_p().len() == 6 && n_cell().len() == 16 && n_covered().len() == 24 && n_annotation().len() == 17);
    let evs = seq![ev_start(n_annotation()), ev_start(n_p()), ev_text("note"@), ev_end(n_p()), ev_end(n_annotation()),
            ev_start(n_p()), ev_text("x"@), ev_end(n_p()), ev_end(n_cell())];
    let s0 = txt_init();
    let s1 = txt_step(s0, evs[0]); assert(cell_scan(evs, 0, s0) == cell_scan(evs, 1, s1));
    let s2 = txt_step(s1, evs[1]); assert(cell_scan(evs, 1, s1) == cell_scan(evs, 2, s2));
    let s3 = txt_step(s2, evs[2]); assert(cell_scan(evs, 2, s2) == cell_scan(evs, 3, s3));
    let s4 = txt_step(s3, evs[3]); assert(cell_scan(evs, 3, s3) == cell_scan(evs, 4, s4));
    let s5 = txt_step(s4, evs[4]); assert(cell_scan(evs, 4, s4) == cell_scan(evs, 5, s5));
    let s6 = txt_step(s5, evs[5]); assert(cell_scan(evs, 5, s5) == cell_scan(evs, 6, s6));
    let s7 = txt_step(s6, evs[6]); assert(cell_scan(evs, 6, s6) == cell_scan(evs, 7, s7));
    let s8 = txt_step(s7, evs[7]); assert(cell_scan(evs, 7, s7) == cell_scan(evs, 8, s8));
    assert(cell_scan(evs, 8, s8).st == s8);
    assert(s8.s =~= "x"@);
}
/// witnesses: the resource-bound preconditions of read_table / parse_content are satisfiable (an empty part)
proof fn witness_resource_bounds()
    ensures Seq::<Ev>::empty().len() <= usize::MAX,
{}

//@@ props C04
//@@ fn src/ods.rs get_datatype props=C04,C19,C14 entry ret=r r11 r12
//@@ r6 0
//@@ sig
    requires
        // resource bound: the part has no more XML events than a usize can count (the open-paragraph counter is a usize)
        //# C06.get_datatype_resource_bound_events
        old(reader).events().len() <= usize::MAX,
    ensures
        //# C04.ods_events_frame
        final(reader).events() == old(reader).events(),
        //# C04.ods_cell_accepted
        attrs_ok(atts.rem()) && (text_route(atts.rem()) ==> cell_scan(old(reader).events(), old(reader).pos() as int, txt_init()).ok) ==> r is Ok,
        //# C04.ods_malformed_attribute_rejected
        (exists|j: int| 0 <= j < atts.rem().len() && (#[trigger] atts.rem()[j]).err) ==> r is Err,
        //# C04.ods_value_typing
        r is Ok && first_value(atts.rem(), 0) < atts.rem().len() ==> typed_as(r->Ok_0.0, atts.rem()[first_value(atts.rem(), 0)]),
        //# C19,C04.ods_string_value_attribute_unescaped
        r is Ok && first_value(atts.rem(), 0) < atts.rem().len() && text_valued(atts.rem()[first_value(atts.rem(), 0)]) ==>
            text_unescaped(r->Ok_0.0, atts.rem()[first_value(atts.rem(), 0)]),
        //# C04.ods_no_value_is_empty
        r is Ok && first_value(atts.rem(), 0) >= atts.rem().len() && !text_route(atts.rem()) ==> r->Ok_0.0 == Data::Empty,
        //# C14.ods_formula_text
        r is Ok ==> r->Ok_0.1@ == formula_text(atts.rem()),
        //# C04.ods_closed_flag
        r is Ok ==> r->Ok_0.2 == text_route(atts.rem()),
        //# C04.ods_reader_position_attribute_value
        r is Ok && !text_route(atts.rem()) ==> final(reader).pos() == old(reader).pos(),
        //# C04.ods_reader_position_text_value
        r is Ok && text_route(atts.rem()) ==> cell_scan(old(reader).events(), old(reader).pos() as int, txt_init()).ok
            && final(reader).pos() == cell_scan(old(reader).events(), old(reader).pos() as int, txt_init()).end + 1,
        //# C19,C04.ods_cell_text
        r is Ok && text_route(atts.rem()) ==>
            (r->Ok_0.0 matches Data::String(s) && s@ == cell_text(old(reader).events(), old(reader).pos() as int)),
        //# C04.ods_value_is_the_function_unit_ods_assumes
        r is Ok ==>
            r->Ok_0.0 == gd_value(old(reader).events(), old(reader).pos(), atts.rem())
            && r->Ok_0.1@ == gd_formula(old(reader).events(), old(reader).pos(), atts.rem())
            && r->Ok_0.2 == gd_closed(old(reader).events(), old(reader).pos(), atts.rem())
            && final(reader).pos() == gd_next(old(reader).events(), old(reader).pos(), atts.rem()),
//@@ body
    let ghost evs = reader.events();
    let ghost p0 = reader.pos();
    let ghost attrs0 = atts.rem();
    let ghost fv = first_value(attrs0, 0);
    let ghost fi = first_key(attrs0, k_formula(), 0);
    let ghost vt = first_key(attrs0, k_vtype(), 0);
    let ghost mut k: int = 0;
    proof {
        axiom_attributes_wf(&atts);
        lemma_attr_names();
        lemma_first_value_le(attrs0, 0); lemma_first_key_le(attrs0, k_formula(), 0); lemma_first_key_le(attrs0, k_vtype(), 0);
        assert(attrs0.skip(0) =~= attrs0);
    }
//@@ loop 0
        invariant
            reader.events() == evs, reader.pos() == p0, evs == old(reader).events(), p0 == old(reader).pos(),
            attrs0 == atts.rem(), attrs_wf(attrs0), evs.len() <= usize::MAX,
            fv == first_value(attrs0, 0), fi == first_key(attrs0, k_formula(), 0), vt == first_key(attrs0, k_vtype(), 0),
            0 <= k <= attrs0.len(), __it0.rem() == attrs0.skip(k),
            forall|j: int| 0 <= j < k ==> !(#[trigger] attrs0[j]).err,
            //# C04.ods_first_value_attribute_decides
            is_value_set <==> fv < k,
            //# C04.ods_value_typing_so_far
            is_value_set ==> typed_as(val, attrs0[fv]),
            //# C19,C04.ods_string_value_attribute_unescaped
            is_value_set && text_valued(attrs0[fv]) ==> text_unescaped(val, attrs0[fv]),
            //# C04.ods_no_value_is_empty_so_far
            !is_value_set ==> val == Data::Empty,
            //# C04.ods_string_type_flag
            !is_value_set ==> (is_string <==> (vt < k && unesc(attrs0[vt].raw) == Some("string"@))),
            //# C14.ods_formula_text_so_far
            fi < k ==> unesc(attrs0[fi].raw) is Some && formula@ == unesc(attrs0[fi].raw)->Some_0,
            //# C14.ods_no_formula_so_far
            fi >= k ==> formula@ == Seq::<char>::empty(),
            //# C04.ods_value_decodable
            fv < k ==> data_ok(attrs0[fv]),
        ensures
            k == attrs0.len(),
        decreases __it0.rem().len(),
//@@ before /let a = a\.map_err/
        let ghost kk = k;
        proof {
            assert(attrs0.skip(kk)[0] == attrs0[kk]);
            assert(attrs0.skip(kk).skip(1) =~= attrs0.skip(kk + 1));
            k = k + 1;
            lemma_attr_names();
            lemma_first_key_le(attrs0, k_formula(), 0); lemma_first_key_le(attrs0, k_vtype(), 0); lemma_first_value_le(attrs0, 0);
            if !attrs0[kk].err {
                if attrs0[kk].key == k_formula() { lemma_key_once(attrs0, k_formula(), kk); }
                if attrs0[kk].key == k_vtype() { lemma_key_once(attrs0, k_vtype(), kk); }
                if fv >= kk { lemma_first_value(attrs0, 0, kk); }
            }
        }
//@@ before /if [^{;]*is_string \{/
    proof {
        assert(k == attrs0.len());
        assert(!is_value_set ==> fv >= attrs0.len());
        assert(formula@ == formula_text(attrs0));
    }
//@@ after /let mut first_paragraph = true;/
        let ghost mut st = txt_init();
        let ghost tot = cell_scan(evs, p0 as int, txt_init());
        proof {
            // ODF 19.379: "If the office:string-value attribute is not present, the element content defines the value" -- the content is
            // read as the value only when NO value attribute was met and the value type is `string`
            //# C04.ods_content_is_the_value_only_without_a_value_attribute
            assert(text_route(attrs0));
        }
//@@ before? /return Ok\(\(Data::String\(s\), formula, true\)\);/
                    proof { lemma_gd_value(Data::String(s), evs, p0, attrs0); }
//@@ before? /Ok\(\(val, formula, false\)\)/
        proof { lemma_gd_value(val, evs, p0, attrs0); }
//@@ loopat /loop \{\s*buf\.clear\(\);/
            invariant
                reader.events() == evs, evs == old(reader).events(), p0 == old(reader).pos(), attrs0 == atts.rem(),
                text_route(attrs0), formula@ == formula_text(attrs0), forall|j: int| 0 <= j < attrs0.len() ==> !(#[trigger] attrs0[j]).err,
                tot == cell_scan(evs, p0 as int, txt_init()),
                //# C19.ods_scan_position
                tot == cell_scan(evs, reader.pos() as int, st),
                //# C19.ods_annotation_ignored
                !st.in_annot,
                //# C19.ods_text_so_far
                s@ == st.s,
                //# C19.ods_open_paragraph_count
                open_paragraphs == st.pdepth, st.pdepth + p0 <= reader.pos(), evs.len() <= usize::MAX,
                //# C19.ods_first_paragraph_flag
                first_paragraph <==> st.paras == 0,
            decreases reader.left(),
//@@ after /buf\.clear\(\);/
            let ghost p = reader.pos() as int;
            let ghost st0 = st;
            proof { if p < evs.len() { st = txt_step(st0, evs[p]); } }
            let ghost sta = st;
            proof { lemma_attr_names(); }
//@@ after? /s\.push_str\([^;]*;/
                    proof {
                        //# C19.ods_text_unescaped
                        assert(text_appended(st0, st, evs[p], s@)) by { assert(s@ =~= st.s); }
                    }
//@@ loopat? /QName\(b"office:annotation"\) => loop/
                    invariant_except_break
                        st.in_annot,
                    invariant
                        reader.events() == evs, evs == old(reader).events(), p0 == old(reader).pos(), attrs0 == atts.rem(),
                        tot == cell_scan(evs, p0 as int, txt_init()),
                        text_route(attrs0), formula@ == formula_text(attrs0), forall|j: int| 0 <= j < attrs0.len() ==> !(#[trigger] attrs0[j]).err,
                        tot == cell_scan(evs, reader.pos() as int, st), reader.pos() > p,
                        s@ == sta.s, first_paragraph <==> sta.paras == 0, open_paragraphs == sta.pdepth, sta.pdepth + p0 <= reader.pos(), evs.len() <= usize::MAX,
                        //# C19.ods_annotation_ignored
                        st == (TxtSt { in_annot: st.in_annot, ..sta }),
                    ensures
                        !st.in_annot,
                        reader.events() == evs, tot == cell_scan(evs, reader.pos() as int, st), reader.pos() > p,
                        text_route(attrs0), formula@ == formula_text(attrs0), forall|j: int| 0 <= j < attrs0.len() ==> !(#[trigger] attrs0[j]).err,
                        s@ == sta.s, first_paragraph <==> sta.paras == 0, open_paragraphs == sta.pdepth, sta.pdepth + p0 <= reader.pos(), evs.len() <= usize::MAX,
                        st == (TxtSt { in_annot: st.in_annot, ..sta }),
                    decreases reader.left(),
//@@ before? /match reader\.read_event_into\(buf\) \{\s*Ok\(Event::End\(ref e\)\) if e\.name\(\) == QName\(b"office:annotation"\)/
                    let ghost q = reader.pos() as int;
                    proof { if q < evs.len() && !(evs[q].kind is Error) { st = txt_step(st, evs[q]); } }
//@@ after? /s\.push\('\\n'\);?\s*\}/
                    proof {
                        //# C19.ods_paragraphs_joined_by_newline
                        assert(paragraph_joined(st0, st, s@));
                    }
//@@ before? /for _ in 0\.\.count/
                    let ghost sb = s@;
                    proof {
                        //# C19.ods_space_count
                        assert(space_count(evs[p].attrs) == Some(count as int));
                    }
//@@ loopat? /for _ in 0\.\.count/ it3
                        invariant
                            reader.events() == evs, evs == old(reader).events(), p0 == old(reader).pos(), attrs0 == atts.rem(),
                            text_route(attrs0), formula@ == formula_text(attrs0), forall|j: int| 0 <= j < attrs0.len() ==> !(#[trigger] attrs0[j]).err,
                            tot == cell_scan(evs, p0 as int, txt_init()),
                            tot == cell_scan(evs, reader.pos() as int, st), reader.pos() == p + 1, p < evs.len(),
                            st == txt_step(st0, evs[p]), !st0.in_annot, evs[p].kind is Start, evs[p].name == n_s(), evs[p].name != n_annotation(), evs[p].name != n_p(),
                            space_count(evs[p].attrs) == Some(count as int),
                            sb == st0.s, first_paragraph <==> st0.paras == 0, open_paragraphs == st0.pdepth, st0.pdepth + p0 <= p, evs.len() <= usize::MAX,
                            //# C19.ods_space_elements
                            s@.len() == sb.len() + it3.index@ && s@.subrange(0, sb.len() as int) =~= sb
                                && (forall|j: int| sb.len() <= j < s@.len() ==> s@[j] == ' '),
//@@ after? /for _ in 0\.\.count \{[^}]*\}/
                    proof {
                        //# C19.ods_space_elements
                        assert(s@ =~= sb + spaces(count as int));
                        assert(spaces_expanded(st0, st, evs[p], s@));
                    }
//@@ end

// #####################################################################################################################
// PART 2: read_table -- rows, repeat counts and the `wf_shape` precondition of get_range
// #####################################################################################################################
//@@ item src/lib.rs struct Range
// TRUSTED: `#[derive(Default)]` on `struct Range<T>` (same text as in unit ods)
impl<T> Range<T> {
    pub closed spec fn lo(&self) -> (u32, u32) { self.start }
    pub closed spec fn hi(&self) -> (u32, u32) { self.end }
    pub closed spec fn data(&self) -> Seq<T> { self.inner@ }
}
impl<T: Default> Default for Range<T> {
    fn default() -> (r: Self)
        ensures r.lo() == (0u32, 0u32), r.hi() == (0u32, 0u32), r.data().len() == 0,
    {
        Range { start: (0, 0), end: (0, 0), inner: Vec::new() }
    }
}
// ---- the ORACLE of C04 (text of unit ods, where get_range is PROVED against it): physical rows, repeat counts, the logical grid
pub open spec fn dflt<T: Default>() -> T { choose|d: T| call_ensures(T::default, (), d) }
pub open spec fn lawful<T: Default + Clone + PartialEq>() -> bool {
    &&& forall|a: T, b: T| call_ensures(T::clone, (&a,), b) ==> a == b
    &&& forall|a: T, b: T| call_ensures(T::default, (), a) && call_ensures(T::default, (), b) ==> a == b
    &&& T::obeys_eq_spec()
    &&& forall|a: T, b: T| #[trigger] a.eq_spec(&b) <==> (a == b)
}
pub open spec fn rep_sum(s: Seq<usize>, n: int) -> int
    decreases n
{
    if n <= 0 { 0 } else { rep_sum(s, n - 1) + s[n - 1] }
}
pub open spec fn wf_shape<T>(cs: Seq<T>, co: Seq<usize>, rp: Seq<usize>) -> bool {
    &&& co.len() == rp.len() + 1
    &&& forall|i: int, j: int| 0 <= i <= j < co.len() ==> co[i] <= co[j]
    &&& co[co.len() - 1] <= cs.len()
}
pub open spec fn rlen(co: Seq<usize>, i: int) -> int { co[i + 1] - co[i] }
pub open spec fn nd_at<T: Default>(cs: Seq<T>, co: Seq<usize>, i: int, c: int) -> bool {
    0 <= c < rlen(co, i) && cs[co[i] + c] != dflt::<T>()
}
pub open spec fn in_phys(rp: Seq<usize>, i: int, l: int) -> bool { 0 <= i < rp.len() && rep_sum(rp, i) <= l < rep_sum(rp, i + 1) }
pub open spec fn phys_of(rp: Seq<usize>, l: int) -> int { choose|i: int| in_phys(rp, i, l) }
pub open spec fn lg<T: Default>(cs: Seq<T>, co: Seq<usize>, rp: Seq<usize>, l: int, c: int) -> T {
    let i = phys_of(rp, l);
    if in_phys(rp, i, l) && 0 <= c < rlen(co, i) { cs[co[i] + c] } else { dflt::<T>() }
}
pub open spec fn nd<T: Default>(cs: Seq<T>, co: Seq<usize>, rp: Seq<usize>, l: int, c: int) -> bool { lg(cs, co, rp, l, c) != dflt::<T>() }
/// the grid of a sheet: 2^20 rows, 2^14 columns (the limits of LibreOffice Calc and of Excel)
pub open spec fn grid_rows() -> int { 1_048_576 }
pub open spec fn grid_cols() -> int { 16_384 }
/// what read_table checks before it hands the rows to get_range: repeat counts are positive (ODF 1.2 19.676: positiveInteger), and the
/// sheet stays within the grid (so it fits the u32 coordinates of Range)
pub open spec fn hyp<T>(cs: Seq<T>, co: Seq<usize>, rp: Seq<usize>) -> bool {
    &&& reps_pos(rp)
    &&& rep_sum(rp, rp.len() as int) <= grid_rows()
    &&& cols_in_grid(co)
}
pub open spec fn cols_in_grid(co: Seq<usize>) -> bool { forall|i: int| 0 <= i < co.len() - 1 ==> #[trigger] rlen(co, i) <= grid_cols() }
pub open spec fn reps_pos(rp: Seq<usize>) -> bool { forall|i: int| 0 <= i < rp.len() ==> #[trigger] rp[i] >= 1 }
pub open spec fn row_has_nd<T: Default>(cs: Seq<T>, co: Seq<usize>, rp: Seq<usize>, l: int) -> bool { exists|c: int| nd(cs, co, rp, l, c) }
pub open spec fn col_has_nd<T: Default>(cs: Seq<T>, co: Seq<usize>, rp: Seq<usize>, c: int) -> bool { exists|l: int| nd(cs, co, rp, l, c) }
/// the clauses of get_range's contract that unit ods PROVES, as one predicate over the result (lo, hi, data)
pub open spec fn contract_ok<T: Default>(cs: Seq<T>, co: Seq<usize>, rp: Seq<usize>, lo: (u32, u32), hi: (u32, u32), data: Seq<T>) -> bool {
    &&& (forall|l: int, c: int| !nd(cs, co, rp, l, c)) <==> data.len() == 0
    &&& data.len() == 0 ==> lo == (0u32, 0u32) && hi == (0u32, 0u32)
    &&& forall|l: int, c: int| nd(cs, co, rp, l, c) ==> lo.0 <= l <= hi.0 && lo.1 <= c <= hi.1
    &&& data.len() > 0 ==> row_has_nd(cs, co, rp, lo.0 as int) && row_has_nd(cs, co, rp, hi.0 as int)
            && col_has_nd(cs, co, rp, lo.1 as int) && col_has_nd(cs, co, rp, hi.1 as int)
    &&& data.len() > 0 ==>
            data.len() == (hi.0 - lo.0 + 1) * (hi.1 - lo.1 + 1)
            && forall|l: int, c: int| lo.0 <= l <= hi.0 && lo.1 <= c <= hi.1 ==>
                data[(l - lo.0) * (hi.1 - lo.1 + 1) + (c - lo.1)] == lg(cs, co, rp, l, c)
}
// present only so that the (unverified) text of get_range compiles
//@@ fn src/ods.rs is_empty_row props=C04 ret=r external_body
//@@ end
// TRUSTED: proved in unit ods -- requires / ensures are the text of units/ods/unit.rs (the nine clauses C04.empty_iff .. C04.placement
// are the conjuncts of contract_ok).  `lawful::<T>()`, the shape of the three vectors and the checks of the repeat counts (`hyp`) are
// preconditions there, so they are obligations of read_table here.
//@@ fn src/ods.rs get_range props=C04 ret=r external_body
//@@ sig
    requires
        //# C04.get_range_needs_lawful_cell_type
        lawful::<T>(),
        //# C04.get_range_needs_wf_shape
        wf_shape(cells@, cols@, rows_repeats@),
        //# C06.get_range_needs_positive_repeat_counts
        reps_pos(rows_repeats@),
        //# C06.get_range_needs_rows_within_grid
        rep_sum(rows_repeats@, rows_repeats@.len() as int) <= grid_rows(),
        //# C06.get_range_needs_columns_within_grid
        cols_in_grid(cols@),
    ensures
        contract_ok(cells@, cols@, rows_repeats@, r.lo(), r.hi(), r.data()),
//@@ end

// ---- the contract of read_row (text of unit ods, where it is PROVED), over the cell elements of a row
pub trait DataType { fn is_empty(&self) -> bool; }
impl DataType for Data {
    #[verifier::external_body]
    fn is_empty(&self) -> (r: bool) ensures r == (self is Empty) { unimplemented!() }
}
/// position after `read_to_end_into(name)` started at pos
pub uninterp spec fn rte_next(evs: Seq<Ev>, pos: nat, name: Seq<u8>) -> nat;
impl<'a> XmlReader<BufReader<ZipFile<'a>>> {
    // TRUSTED: A-xml -- reads events until the End tag with this qualified name at nesting depth 0
    #[verifier::external_body]
    pub fn read_to_end_into(&mut self, end: QName<'_>, buf: &mut Vec<u8>) -> (r: Result<(), quick_xml::Error>)
        ensures
            final(self).events() == old(self).events(),
            final(self).pos() >= old(self).pos(),
            r is Ok ==> final(self).pos() == rte_next(old(self).events(), old(self).pos(), end.0@),
    { unimplemented!() }
}
pub open spec fn n_row() -> Seq<u8> { b"table:table-row"@ }
pub open spec fn n_table() -> Seq<u8> { b"table:table"@ }
pub open spec fn n_ncr() -> Seq<u8> { b"table:number-columns-repeated"@ }
pub open spec fn k_nrr() -> Seq<u8> { b"table:number-rows-repeated"@ }
pub open spec fn is_cell_start(e: Ev) -> bool { e.kind is Start && (e.name =~= n_cell() || e.name =~= n_covered()) }
/// the number the attribute VALUE (references resolved) spells: `decode_and_unescape_value` followed by `str::parse::<usize>()`
pub open spec fn parse_usize(raw: Seq<u8>) -> Option<usize> {
    match unesc(raw) { Some(t) => str_parse::<usize>(t), None => None }
}
/// ODF 1.2 19.675 table:number-columns-repeated, default 1 (text of unit ods)
pub open spec fn rep_scan(attrs: Seq<Attr>) -> Option<usize>
    decreases attrs.len()
{
    if attrs.len() == 0 { Some(1usize) }
    else if attrs[0].err { None }
    else if attrs[0].key =~= n_ncr() { parse_usize(attrs[0].raw) }
    else { rep_scan(attrs.skip(1)) }
}
/// what unit ods leaves uninterpreted (the results of get_datatype as functions of the content) is DEFINED here by the contract
/// of get_datatype above
pub open spec fn cell_value_is(d: Data, evs: Seq<Ev>, pos: nat, attrs: Seq<Attr>) -> bool {
    let fv = first_value(attrs, 0);
    if fv < attrs.len() { typed_as(d, attrs[fv]) }
    else if text_route(attrs) { d matches Data::String(s) && s@ == cell_text(evs, pos as int) }
    else { d == Data::Empty }
}
pub open spec fn gd_value(evs: Seq<Ev>, pos: nat, attrs: Seq<Attr>) -> Data { choose|d: Data| cell_value_is(d, evs, pos, attrs) }
pub open spec fn gd_formula(evs: Seq<Ev>, pos: nat, attrs: Seq<Attr>) -> Seq<char> { formula_text(attrs) }
pub open spec fn gd_closed(evs: Seq<Ev>, pos: nat, attrs: Seq<Attr>) -> bool { text_route(attrs) }
pub open spec fn gd_next(evs: Seq<Ev>, pos: nat, attrs: Seq<Attr>) -> nat {
    if text_route(attrs) { (cell_scan(evs, pos as int, txt_init()).end + 1) as nat } else { pos }
}
// TRUSTED: A-std -- a String is determined by its character sequence (needed only to name the value as a function of the content)
pub axiom fn axiom_string_ext(a: String, b: String)
    ensures a@ == b@ ==> a == b;
/// the contract of get_datatype determines the value: it is the function gd_value of the content
proof fn lemma_gd_value(d: Data, evs: Seq<Ev>, pos: nat, attrs: Seq<Attr>)
    requires cell_value_is(d, evs, pos, attrs),
    ensures d == gd_value(evs, pos, attrs),
{
    let g = gd_value(evs, pos, attrs);
    assert(cell_value_is(g, evs, pos, attrs));
    match (d, g) {
        (Data::String(a), Data::String(b)) => { axiom_string_ext(a, b); },
        (Data::DateTimeIso(a), Data::DateTimeIso(b)) => { axiom_string_ext(a, b); },
        (Data::DurationIso(a), Data::DurationIso(b)) => { axiom_string_ext(a, b); },
        _ => {},
    }
}
pub ghost struct CellEl { pub n: usize, pub v: Data, pub f: Seq<char> }
pub open spec fn cell_el(evs: Seq<Ev>, p: nat) -> CellEl {
    CellEl { n: rep_scan(evs[p as int].attrs).unwrap_or(1), v: gd_value(evs, p + 1, evs[p as int].attrs), f: gd_formula(evs, p + 1, evs[p as int].attrs) }
}
pub open spec fn cell_next(evs: Seq<Ev>, p: nat) -> nat {
    let a = evs[p as int].attrs;
    if gd_closed(evs, p + 1, a) { gd_next(evs, p + 1, a) } else { rte_next(evs, gd_next(evs, p + 1, a), evs[p as int].name) }
}
/// character data and comments between the cells of a row (the white space of an indented content.xml) are not part of the table
/// (ODF 1.2 9.1.3: <table:table-row> has element content only)
pub open spec fn is_filler(e: Ev) -> bool { e.kind is Text || e.kind is Comment }
pub open spec fn row_cells(evs: Seq<Ev>, p: nat) -> Seq<CellEl>
    decreases (if p <= evs.len() { evs.len() - p } else { 0 })
{
    if p >= evs.len() { Seq::empty() }
    else if is_filler(evs[p as int]) { row_cells(evs, p + 1) }
    else if !is_cell_start(evs[p as int]) || cell_next(evs, p) <= p { Seq::empty() }
    else { seq![cell_el(evs, p)] + row_cells(evs, cell_next(evs, p)) }
}
/// THE LOGICAL ROW: every cell element contributes n copies of its value
pub open spec fn expand_v(cl: Seq<CellEl>) -> Seq<Data>
    decreases cl.len()
{
    if cl.len() == 0 { Seq::empty() } else { expand_v(cl.drop_last()) + Seq::new(cl.last().n as nat, |i: int| cl.last().v) }
}
pub open spec fn expand_f(cl: Seq<CellEl>) -> Seq<Seq<char>>
    decreases cl.len()
{
    if cl.len() == 0 { Seq::empty() } else { expand_f(cl.drop_last()) + Seq::new(cl.last().n as nat, |i: int| cl.last().f) }
}
/// `out` is the logical row `full` up to a dropped run of trailing empty cells
pub open spec fn row_v_ok(full: Seq<Data>, out: Seq<Data>) -> bool {
    out.len() <= full.len() && out =~= full.take(out.len() as int) && forall|i: int| out.len() <= i < full.len() ==> full[i] is Empty
}
pub open spec fn row_f_ok(full: Seq<Seq<char>>, out: Seq<Seq<char>>) -> bool {
    out.len() <= full.len() && out =~= full.take(out.len() as int) && forall|i: int| out.len() <= i < full.len() ==> full[i].len() == 0
}
pub open spec fn strs(v: Seq<String>) -> Seq<Seq<char>> { Seq::new(v.len(), |i: int| v[i]@) }
/// reading a row from event p on (read_row): cell elements are skipped one by one (cell_next), white space and comments between them
/// are skipped, the closing `table:table-row` ends the row, anything else is an error
pub ghost struct RowScan { pub ok: bool, pub next: nat }
pub open spec fn row_scan(evs: Seq<Ev>, p: nat) -> RowScan
    decreases (if p <= evs.len() { evs.len() - p } else { 0 })
{
    if p >= evs.len() || evs[p as int].kind is Error { RowScan { ok: false, next: p } }
    else if is_filler(evs[p as int]) { row_scan(evs, p + 1) }
    else if is_cell_start(evs[p as int]) { if cell_next(evs, p) > p { row_scan(evs, cell_next(evs, p)) } else { RowScan { ok: false, next: p } } }
    else if evs[p as int].kind is End && evs[p as int].name == n_row() { RowScan { ok: true, next: p + 1 } }
    else { RowScan { ok: false, next: p } }
}
/// where the reader stands after the row whose content starts at `pos`
pub open spec fn row_next(evs: Seq<Ev>, pos: nat) -> nat { row_scan(evs, pos).next }
// TRUSTED: proved in unit ods (clauses C04.row_frame_events, C04.row_repeat_expansion_values, C04.row_repeat_expansion_formulas,
// C06.row_within_grid_columns, C06.row_growth_within_grid_columns: same text).
// The contract of unit ods says nothing about the reader position and about `cells` / `formulas` growing in step; these two frame
// clauses (the fourth and the fifth) are PROVED on the same text in `mod frame` at the end of this unit.
//@@ item src/ods.rs const MAX_COLUMNS
//@@ fn src/ods.rs read_row props=C04 ret=r r4 r12 external_body
//@@ sig
    ensures
        r is Ok ==> final(reader).events() == old(reader).events(),
        r is Ok ==> exists|out: Seq<Data>| final(cells)@ == old(cells)@ + out
            && row_v_ok(expand_v(row_cells(old(reader).events(), old(reader).pos())), out),
        r is Ok ==> exists|out: Seq<Seq<char>>| strs(final(formulas)@) == strs(old(formulas)@) + out
            && row_f_ok(expand_f(row_cells(old(reader).events(), old(reader).pos())), out),
        r is Ok ==> final(reader).pos() == row_next(old(reader).events(), old(reader).pos()) && final(reader).pos() > old(reader).pos(),
        r is Ok ==> final(cells)@.len() - old(cells)@.len() == final(formulas)@.len() - old(formulas)@.len(),
        r is Ok ==> expand_v(row_cells(old(reader).events(), old(reader).pos())).len() <= grid_cols(),
        r is Ok ==> final(cells)@.len() - old(cells)@.len() <= grid_cols() && final(formulas)@.len() - old(formulas)@.len() <= grid_cols(),
//@@ end

// TRUSTED: the laws of the two cell types of an ods sheet, a hypothesis of unit ods's get_range contract (`lawful`): `#[derive(Clone,
// PartialEq, Default)]` on Data with `#[default] Empty`; String's std impls.  (For Data this idealises f64: Float(NaN) != Float(NaN) in
// Rust; get_range compares cells with the default value `Data::Empty` only.)
#[verifier::external_body]
pub proof fn axiom_lawful_cell_types()
    ensures lawful::<Data>(), lawful::<String>(),
{}

/// ODF 1.2 19.676 table:number-rows-repeated: "specifies the number of successive rows to which a row element applies", default 1.
/// None: not readable
pub open spec fn row_rep(attrs: Seq<Attr>) -> Option<usize> {
    let k = tga_idx(attrs, k_nrr(), 0);
    if k >= attrs.len() { Some(1usize) }
    else if attrs[k].bad { None }
    else { match unesc(attrs[k].raw) { Some(t) => str_parse::<usize>(t), None => None } }
}
pub ghost struct RowEl { pub rep: Option<usize>, pub start: nat }
pub open spec fn is_row_start(e: Ev) -> bool { e.kind is Start && e.name == n_row() }
pub open spec fn is_table_end(e: Ev) -> bool { e.kind is End && e.name == n_table() }
/// the row elements of the table whose content starts at event p, in document order (up to the closing `table:table`)
pub open spec fn table_rows(evs: Seq<Ev>, p: nat) -> Seq<RowEl>
    decreases (if p <= evs.len() { evs.len() - p } else { 0 })
{
    if p >= evs.len() || evs[p as int].kind is Error || is_table_end(evs[p as int]) { Seq::empty() }
    else if is_row_start(evs[p as int]) {
        if row_next(evs, p + 1) > p { seq![RowEl { rep: row_rep(evs[p as int].attrs), start: p + 1 }] + table_rows(evs, row_next(evs, p + 1)) }
        else { Seq::empty() }
    }
    else { table_rows(evs, p + 1) }
}
/// where the reader stands after the table whose content starts at event p (just past the closing `table:table`)
pub open spec fn table_next(evs: Seq<Ev>, p: nat) -> nat
    decreases (if p <= evs.len() { evs.len() - p } else { 0 })
{
    if p >= evs.len() || evs[p as int].kind is Error { p }
    else if is_table_end(evs[p as int]) { p + 1 }
    else if is_row_start(evs[p as int]) { if row_next(evs, p + 1) > p { table_next(evs, row_next(evs, p + 1)) } else { p } }
    else { table_next(evs, p + 1) }
}
/// (cs, co, rp) is what the table's rows give: one physical row and one repeat count per row element, in document order; physical
/// row i is the logical row of the i-th row element up to a dropped run of trailing empty cells
pub open spec fn table_values(rows: Seq<RowEl>, evs: Seq<Ev>, cs: Seq<Data>, co: Seq<usize>, rp: Seq<usize>) -> bool {
    &&& rp.len() == rows.len() && co.len() == rows.len() + 1
    &&& forall|i: int| 0 <= i < rows.len() ==> rows[i].rep == Some(#[trigger] rp[i])
    &&& forall|i: int| 0 <= i < rows.len() ==> co[i] <= co[i + 1] <= cs.len()
            && row_v_ok(expand_v(row_cells(evs, rows[i].start)), #[trigger] cs.subrange(co[i] as int, co[i + 1] as int))
}
pub open spec fn table_formulas(rows: Seq<RowEl>, evs: Seq<Ev>, fs: Seq<String>, co: Seq<usize>, rp: Seq<usize>) -> bool {
    &&& rp.len() == rows.len() && co.len() == rows.len() + 1
    &&& forall|i: int| 0 <= i < rows.len() ==> co[i] <= co[i + 1] <= fs.len()
            && row_f_ok(expand_f(row_cells(evs, rows[i].start)), #[trigger] strs(fs).subrange(co[i] as int, co[i + 1] as int))
}
proof fn lemma_rep_sum_push(rp: Seq<usize>, v: usize)
    ensures rep_sum(rp.push(v), rp.len() as int + 1) == rep_sum(rp, rp.len() as int) + v,
{
    lemma_rep_sum_prefix(rp, rp.push(v), rp.len() as int);
}
proof fn lemma_rep_sum_prefix(a: Seq<usize>, b: Seq<usize>, n: int)
    requires 0 <= n <= a.len() <= b.len(), forall|i: int| 0 <= i < n ==> a[i] == b[i],
    ensures rep_sum(a, n) == rep_sum(b, n),
    decreases n,
{
    if n > 0 { lemma_rep_sum_prefix(a, b, n - 1); }
}
/// what read_table establishes about the three vectors it hands to get_range: exactly get_range's precondition, and more
pub open spec fn cols_shape(co: Seq<usize>, n: int) -> bool {
    &&& co.len() >= 1 && co[0] == 0 && co[co.len() - 1] == n
    &&& forall|i: int, j: int| 0 <= i <= j < co.len() ==> co[i] <= co[j]
}

/// the three vectors read_table builds from the table whose content starts at p0
pub open spec fn table_parts(evs: Seq<Ev>, p0: nat, cs: Seq<Data>, fs: Seq<String>, co: Seq<usize>, rp: Seq<usize>) -> bool {
    &&& table_values(table_rows(evs, p0), evs, cs, co, rp)
    &&& table_formulas(table_rows(evs, p0), evs, fs, co, rp)
    &&& cols_shape(co, cs.len() as int) && fs.len() == cs.len()
    &&& wf_shape(cs, co, rp) && wf_shape(fs, co, rp)
}
/// THE RESULT OF read_table: the two ranges are what get_range (unit ods: contract_ok) makes of the table's rows
pub open spec fn table_result(evs: Seq<Ev>, p0: nat, vlo: (u32, u32), vhi: (u32, u32), vdata: Seq<Data>,
    flo: (u32, u32), fhi: (u32, u32), fdata: Seq<String>) -> bool {
    exists|cs: Seq<Data>, fs: Seq<String>, co: Seq<usize>, rp: Seq<usize>| #[trigger] table_parts(evs, p0, cs, fs, co, rp)
        && hyp(cs, co, rp) && contract_ok(cs, co, rp, vlo, vhi, vdata) && contract_ok(fs, co, rp, flo, fhi, fdata)
}

//@@ item src/ods.rs const MAX_ROWS
//@@ fn src/ods.rs read_table props=C04,C14 entry ret=r r12
//@@ sig
    requires
        // resource bound (as for get_datatype): the part has no more XML events than a usize can count
        //# C06.read_table_resource_bound_events
        old(reader).events().len() <= usize::MAX,
    ensures
        //# C04.ods_table_events_frame
        r is Ok ==> final(reader).events() == old(reader).events(),
        //# C04.ods_table_reader_position
        r is Ok ==> final(reader).pos() == table_next(old(reader).events(), old(reader).pos()) && final(reader).pos() > old(reader).pos(),
        //# C04,C14.ods_table_rows_in_document_order
        r is Ok ==> table_result(old(reader).events(), old(reader).pos(), r->Ok_0.0.lo(), r->Ok_0.0.hi(), r->Ok_0.0.data(),
            r->Ok_0.1.lo(), r->Ok_0.1.hi(), r->Ok_0.1.data()),
//@@ body
    let ghost evs = reader.events();
    let ghost p0 = reader.pos();
    let ghost mut rows_done: Seq<RowEl> = Seq::empty();
//@@ loop 0
        invariant_except_break
            //# C04,C14.ods_table_rows_so_far
            table_rows(evs, p0) == rows_done + table_rows(evs, reader.pos()),
            //# C04.ods_table_scan_position
            table_next(evs, p0) == table_next(evs, reader.pos()),
        invariant
            reader.events() == evs, evs == old(reader).events(), p0 == old(reader).pos(), evs.len() <= usize::MAX, reader.pos() >= p0,
            //# C04,C14.ods_cols_are_row_boundaries
            cols_shape(cols@, cells@.len() as int),
            //# C04,C14.ods_formulas_in_step_with_cells
            formulas@.len() == cells@.len(),
            //# C04,C14.ods_one_repeat_count_per_row
            rows_repeats@.len() == rows_done.len() && cols@.len() == rows_done.len() + 1,
            //# C04.ods_row_values_so_far
            table_values(rows_done, evs, cells@, cols@, rows_repeats@),
            //# C04,C14.ods_row_formulas_so_far
            table_formulas(rows_done, evs, formulas@, cols@, rows_repeats@),
            //# C06.ods_repeat_counts_positive
            reps_pos(rows_repeats@),
            //# C06.ods_row_count_is_the_sum_of_the_repeat_counts
            row_count == rep_sum(rows_repeats@, rows_repeats@.len() as int) && row_count <= grid_rows(),
            //# C06.ods_rows_within_grid_columns
            cols_in_grid(cols@),
        ensures
            table_rows(evs, p0) == rows_done, table_next(evs, p0) == reader.pos(), reader.pos() > p0,
        decreases reader.left(),
//@@ before /match reader\.read_event_into\(&mut buf\)/
        let ghost p = reader.pos();
        let ghost cs0 = cells@;
        let ghost fs0 = formulas@;
        let ghost co0 = cols@;
        let ghost rp0 = rows_repeats@;
        let ghost mut row_read = false;
        let ghost mut rr: usize = 0;
//@@ before /read_row\(/
                proof {
                    assert(p < evs.len() && is_row_start(evs[p as int]));
                    //# C04.ods_row_repeat_count
                    assert(row_rep(evs[p as int].attrs) == Some(row_repeats));
                    row_read = true;
                    rr = row_repeats;
                }
//@@ before /buf\.clear\(\);/
        proof {
            if row_read {
                // (placed at the end of the loop body so that the order of the two pushes does not matter)
                //# C04.ods_one_boundary_and_one_repeat_count_per_row
                assert(cols@ == co0.push(cells@.len() as usize) && rows_repeats@ == rp0.push(rr));
                lemma_rep_sum_push(rp0, rr);
                assert forall|i: int| 0 <= i < cols@.len() - 1 implies #[trigger] rlen(cols@, i) <= grid_cols() by {
                    if i < co0.len() - 1 { assert(rlen(cols@, i) == rlen(co0, i)); }
                }
                let out = choose|out: Seq<Data>| cells@ == cs0 + out && row_v_ok(expand_v(row_cells(evs, p + 1)), out);
                let outf = choose|out: Seq<Seq<char>>| strs(formulas@) == strs(fs0) + out && row_f_ok(expand_f(row_cells(evs, p + 1)), out);
                let el = RowEl { rep: row_rep(evs[p as int].attrs), start: p + 1 };
                let rows1 = rows_done.push(el);
                assert(table_values(rows1, evs, cells@, cols@, rows_repeats@)) by {
                    assert forall|i: int| 0 <= i < rows1.len() implies cols@[i] <= cols@[i + 1] <= cells@.len()
                        && row_v_ok(expand_v(row_cells(evs, rows1[i].start)), #[trigger] cells@.subrange(cols@[i] as int, cols@[i + 1] as int)) by {
                        if i < rows_done.len() {
                            assert(cols@[i] == co0[i] && cols@[i + 1] == co0[i + 1]);
                            assert(cells@.subrange(co0[i] as int, co0[i + 1] as int) =~= cs0.subrange(co0[i] as int, co0[i + 1] as int));
                        } else {
                            assert(cols@[i] == cs0.len() && cols@[i + 1] == cells@.len());
                            assert(cells@.subrange(cs0.len() as int, cells@.len() as int) =~= out);
                        }
                    }
                }
                assert(table_formulas(rows1, evs, formulas@, cols@, rows_repeats@)) by {
                    assert(strs(formulas@).len() == formulas@.len() && strs(fs0).len() == fs0.len());
                    assert forall|i: int| 0 <= i < rows1.len() implies cols@[i] <= cols@[i + 1] <= formulas@.len()
                        && row_f_ok(expand_f(row_cells(evs, rows1[i].start)), #[trigger] strs(formulas@).subrange(cols@[i] as int, cols@[i + 1] as int)) by {
                        if i < rows_done.len() {
                            assert(cols@[i] == co0[i] && cols@[i + 1] == co0[i + 1]);
                            assert(strs(formulas@).subrange(co0[i] as int, co0[i + 1] as int) =~= strs(fs0).subrange(co0[i] as int, co0[i + 1] as int));
                        } else {
                            assert(cols@[i] == fs0.len() && cols@[i + 1] == formulas@.len());
                            assert(strs(formulas@).subrange(fs0.len() as int, formulas@.len() as int) =~= outf);
                        }
                    }
                }
                assert(table_rows(evs, p) =~= seq![el] + table_rows(evs, reader.pos()));
                assert(rows_done + (seq![el] + table_rows(evs, reader.pos())) =~= rows1 + table_rows(evs, reader.pos()));
                rows_done = rows1;
            }
        }
//@@ before /Ok\(\(\s*get_range\(/
    proof {
        axiom_lawful_cell_types();
        assert(wf_shape(cells@, cols@, rows_repeats@));
        assert(wf_shape(formulas@, cols@, rows_repeats@));
        assert(hyp(cells@, cols@, rows_repeats@));
        //# C04,C14.ods_table_parts
        assert(table_parts(evs, p0, cells@, formulas@, cols@, rows_repeats@));
    }
//@@ end

// #####################################################################################################################
// PART 3: C16 -- defined names (read_named_expressions) and sheets (parse_content)
// ODF 1.2 part 1: 9.4.11 <table:named-expressions> contains <table:named-range> (9.4.12: table:name, table:cell-range-address,
// table:base-cell-address, table:range-usable-as) and <table:named-expression> (9.4.13: table:name, table:expression,
// table:base-cell-address).  Property C16: "defined_names lists every defined name with its text or decoded reference, in order".
// #####################################################################################################################
pub open spec fn n_named_range() -> Seq<u8> { b"table:named-range"@ }
pub open spec fn n_named_expression() -> Seq<u8> { b"table:named-expression"@ }
pub open spec fn n_named_expressions() -> Seq<u8> { b"table:named-expressions"@ }
pub open spec fn k_tname() -> Seq<u8> { b"table:name"@ }
pub open spec fn k_cra() -> Seq<u8> { b"table:cell-range-address"@ }
pub open spec fn k_expr() -> Seq<u8> { b"table:expression"@ }
pub open spec fn is_named_el(n: Seq<u8>) -> bool { n == n_named_range() || n == n_named_expression() }
pub open spec fn is_ref_key(k: Seq<u8>) -> bool { k == k_cra() || k == k_expr() }
/// index of the first `table:cell-range-address` / `table:expression` attribute at or after i; attrs.len() if none
pub open spec fn first_ref(attrs: Seq<Attr>, i: int) -> int
    decreases attrs.len() - i
{
    if i < 0 || i >= attrs.len() { attrs.len() as int } else if is_ref_key(attrs[i].key) { i } else { first_ref(attrs, i + 1) }
}
/// unescaped value of the attribute at index k (empty if there is none)
pub open spec fn val_at(attrs: Seq<Attr>, k: int) -> Seq<char> {
    if 0 <= k < attrs.len() && unesc(attrs[k].raw) is Some { unesc(attrs[k].raw)->Some_0 } else { Seq::empty() }
}
/// the defined name one <table:named-range> / <table:named-expression> start tag declares: (name, reference or expression text)
pub open spec fn defined_name(attrs: Seq<Attr>) -> (Seq<char>, Seq<char>) {
    (val_at(attrs, first_key(attrs, k_tname(), 0)), val_at(attrs, first_ref(attrs, 0)))
}
/// the start tag can be decoded: no malformed attribute, the name and every reference / expression value decode
pub open spec fn named_attrs_ok(attrs: Seq<Attr>) -> bool {
    &&& forall|j: int| 0 <= j < attrs.len() ==> !(#[trigger] attrs[j]).err
    &&& first_key(attrs, k_tname(), 0) < attrs.len() ==> unesc(attrs[first_key(attrs, k_tname(), 0)].raw) is Some
    &&& forall|j: int| 0 <= j < attrs.len() && is_ref_key((#[trigger] attrs[j]).key) ==> unesc(attrs[j].raw) is Some
}
/// schema validity as far as the reading depends on it: the element does not carry both a cell-range-address and an expression
pub open spec fn one_ref(attrs: Seq<Attr>) -> bool {
    forall|j: int| 0 <= j < attrs.len() && is_ref_key((#[trigger] attrs[j]).key) ==> j == first_ref(attrs, 0)
}
pub ghost struct NeScan {
    pub ok: bool,                              // the closing </table:named-expressions> was reached through decodable content
    pub valid: bool,                           // ... and no element carried both a cell-range-address and an expression
    pub names: Seq<(Seq<char>, Seq<char>)>,    // the defined names, in document order
    pub next: nat,                             // reader position after the closing tag
}
/// reading the content of <table:named-expressions> from event p on; `acc` = the names met so far
pub open spec fn ne_scan(evs: Seq<Ev>, p: nat, acc: Seq<(Seq<char>, Seq<char>)>, valid: bool) -> NeScan
    decreases (if p <= evs.len() { evs.len() - p } else { 0 })
{
    if p >= evs.len() { NeScan { ok: false, valid, names: acc, next: p } }
    else {
        let e = evs[p as int];
        match e.kind {
            EvKind::Start =>
                if is_named_el(e.name) && named_attrs_ok(e.attrs) { ne_scan(evs, p + 1, acc.push(defined_name(e.attrs)), valid && one_ref(e.attrs)) }
                else { NeScan { ok: false, valid, names: acc, next: p } },
            EvKind::End =>
                if is_named_el(e.name) { ne_scan(evs, p + 1, acc, valid) }
                else if e.name == n_named_expressions() { NeScan { ok: true, valid, names: acc, next: p + 1 } }
                else { NeScan { ok: false, valid, names: acc, next: p } },
            // XML: white space and comments between child elements are not content of an element-only content model
            EvKind::Text | EvKind::Comment => ne_scan(evs, p + 1, acc, valid),
            // CDATA sections / processing instructions are not accepted here
            EvKind::Other | EvKind::Error => NeScan { ok: false, valid, names: acc, next: p },
        }
    }
}
/// the defined names of the <table:named-expressions> element whose content starts at event p
pub open spec fn named_exprs(evs: Seq<Ev>, p: nat) -> NeScan { ne_scan(evs, p, Seq::empty(), true) }
pub open spec fn names_view(v: Seq<(String, String)>) -> Seq<(Seq<char>, Seq<char>)> { Seq::new(v.len(), |i: int| (v[i].0@, v[i].1@)) }
proof fn lemma_first_ref_le(attrs: Seq<Attr>, i: int)
    requires 0 <= i <= attrs.len(),
    ensures i <= first_ref(attrs, i) <= attrs.len(), first_ref(attrs, i) < attrs.len() ==> is_ref_key(attrs[first_ref(attrs, i)].key),
        forall|j: int| i <= j < first_ref(attrs, i) ==> !is_ref_key((#[trigger] attrs[j]).key),
    decreases attrs.len() - i,
{
    if i < attrs.len() && !is_ref_key(attrs[i].key) { lemma_first_ref_le(attrs, i + 1); }
}
proof fn lemma_named_names()
    ensures k_tname() != k_cra(), k_tname() != k_expr(), !is_ref_key(k_tname()),
        n_named_range() != n_named_expressions(), n_named_expression() != n_named_expressions(), !is_named_el(n_named_expressions()),
{
    assert(k_tname().len() == 10 && k_cra().len() == 24 && k_expr().len() == 16);
    assert(n_named_range().len() == 17 && n_named_expression().len() == 22 && n_named_expressions().len() == 23);
}

//@@ fn src/ods.rs read_named_expressions props=C16 entry ret=r r4 r11 r12
//@@ r6 1
//@@ sig
    ensures
        //# C16.ods_defined_names_events_frame
        r is Ok ==> final(reader).events() == old(reader).events(),
        //# C16.ods_defined_names_in_order
        r is Ok ==> named_exprs(old(reader).events(), old(reader).pos()).ok
            && (named_exprs(old(reader).events(), old(reader).pos()).valid ==>
                    names_view(r->Ok_0@) == named_exprs(old(reader).events(), old(reader).pos()).names),
        //# C16.ods_defined_names_reader_position
        r is Ok ==> final(reader).pos() == named_exprs(old(reader).events(), old(reader).pos()).next && final(reader).pos() > old(reader).pos(),
        //# C16.ods_defined_names_accepted
        named_exprs(old(reader).events(), old(reader).pos()).ok ==> r is Ok,
//@@ body
    let ghost evs = reader.events();
    let ghost p0 = reader.pos();
    let ghost tot = named_exprs(evs, p0);
    let ghost mut acc: Seq<(Seq<char>, Seq<char>)> = Seq::empty();
    let ghost mut valid: bool = true;
//@@ after /let mut defined_names = Vec::new\(\);/
    proof { lemma_named_names(); assert(names_view(defined_names@) =~= Seq::empty()); }
//@@ loop 0
        invariant_except_break
            //# C16.ods_defined_names_so_far
            tot == ne_scan(evs, reader.pos(), acc, valid),
        invariant
            reader.events() == evs, evs == old(reader).events(), p0 == old(reader).pos(), reader.pos() >= p0,
            tot == named_exprs(evs, p0),
            //# C16.ods_defined_names_collected
            valid ==> names_view(defined_names@) == acc,
        ensures
            tot.ok && tot.names == acc && tot.valid == valid && tot.next == reader.pos(), reader.pos() > p0,
        decreases reader.left(),
//@@ after /buf\.clear\(\);/
        let ghost p = reader.pos();
        let ghost dn0 = defined_names@;
        proof { lemma_named_names(); }
//@@ before /let mut name = String::new\(\);/
                let ghost attrs0 = evs[p as int].attrs;
                let ghost ni = first_key(attrs0, k_tname(), 0);
                let ghost ri = first_ref(attrs0, 0);
                let ghost mut k: int = 0;
                proof {
                    assert(e.ev() == evs[p as int]);
                    lemma_first_key_le(attrs0, k_tname(), 0); lemma_first_ref_le(attrs0, 0);
                }
//@@ before /for a in e\.attributes\(\)/
                proof { assert(attrs0.skip(0) =~= attrs0); }
//@@ loop 1
                    invariant
                        reader.events() == evs, evs == old(reader).events(), p0 == old(reader).pos(), reader.pos() == p + 1, p < evs.len(),
                        tot == named_exprs(evs, p0), tot == ne_scan(evs, p, acc, valid), defined_names@ == dn0, valid ==> names_view(dn0) == acc,
                        evs[p as int].kind is Start, is_named_el(evs[p as int].name), attrs0 == evs[p as int].attrs, attrs_wf(attrs0),
                        ni == first_key(attrs0, k_tname(), 0), ri == first_ref(attrs0, 0),
                        0 <= k <= attrs0.len(), __it1.rem() == attrs0.skip(k),
                        forall|j: int| 0 <= j < k ==> !(#[trigger] attrs0[j]).err,
                        forall|j: int| 0 <= j < k && is_ref_key((#[trigger] attrs0[j]).key) ==> unesc(attrs0[j].raw) is Some,
                        ni < k ==> unesc(attrs0[ni].raw) is Some,
                        //# C16.ods_defined_name_text
                        name@ == (if ni < k { val_at(attrs0, ni) } else { Seq::<char>::empty() }),
                        //# C16.ods_defined_name_reference
                        one_ref(attrs0) ==> formula@ == (if ri < k { val_at(attrs0, ri) } else { Seq::<char>::empty() }),
                    ensures
                        k == attrs0.len(),
                    decreases __it1.rem().len(),
//@@ before /let a = a\.map_err/
                    let ghost kk = k;
                    proof {
                        assert(attrs0.skip(kk)[0] == attrs0[kk]);
                        assert(attrs0.skip(kk).skip(1) =~= attrs0.skip(kk + 1));
                        k = k + 1;
                        lemma_named_names();
                        lemma_first_key_le(attrs0, k_tname(), 0); lemma_first_ref_le(attrs0, 0);
                        if !attrs0[kk].err && attrs0[kk].key == k_tname() { lemma_key_once(attrs0, k_tname(), kk); }
                    }
//@@ before /defined_names\.push\(/
                proof {
                    assert(named_attrs_ok(attrs0));
                }
//@@ after /defined_names\.push\([^;]*;/
                proof {
                    assert(names_view(defined_names@) =~= names_view(dn0).push((name@, formula@)));
                    acc = acc.push(defined_name(attrs0));
                    valid = valid && one_ref(attrs0);
                }
//@@ end

// ---- parse_content.  ODF 1.2 part 1: 3.7 <office:spreadsheet> contains the <table:table> elements (9.1.2; 19.673 table:name,
// 19.726.43 table:style-name) and <table:named-expressions>; the automatic styles precede the body: 16.2 <style:style> (19.498
// style:name) with <style:table-properties> (17.15; 20.408 table:display: "specifies whether a table is displayed", default true).
// Property C16: "sheet_names and sheets_metadata list exactly the sheets the workbook declares, in its order, each with its exact
// name, its visibility ... and its kind"; ods has no very-hidden state and only worksheets.
//@@ item src/lib.rs enum SheetType keep_attrs
//@@ item src/lib.rs enum SheetVisible keep_attrs
//@@ item src/lib.rs struct Sheet
// TRUSTED: A-std -- stand-ins for std::collections::HashMap<Option<String>, V> and BTreeMap<String, V> as used by parse_content
// (new / insert / get): a map over the key's characters (two Strings are the same key iff they have the same characters)
#[verifier::external_body] #[verifier::reject_recursive_types(K)] #[verifier::reject_recursive_types(V)]
pub struct HashMap<K, V> { _p: core::marker::PhantomData<(K, V)> }
#[verifier::external_body] #[verifier::reject_recursive_types(K)] #[verifier::reject_recursive_types(V)]
pub struct BTreeMap<K, V> { _p: core::marker::PhantomData<(K, V)> }
pub open spec fn okey(k: Option<String>) -> Option<Seq<char>> { match k { Some(s) => Some(s@), None => None } }
impl<V> HashMap<Option<String>, V> {
    pub uninterp spec fn m(&self) -> Map<Option<Seq<char>>, V>;
    #[verifier::external_body]
    pub fn new() -> (r: Self) ensures r.m() == Map::<Option<Seq<char>>, V>::empty() { unimplemented!() }
    #[verifier::external_body]
    pub fn insert(&mut self, k: Option<String>, v: V) -> (r: Option<V>) ensures final(self).m() == old(self).m().insert(okey(k), v) { unimplemented!() }
    #[verifier::external_body]
    pub fn get(&self, k: &Option<String>) -> (r: Option<&V>)
        ensures self.m().dom().contains(okey(*k)) ==> r == Some(&self.m()[okey(*k)]), !self.m().dom().contains(okey(*k)) ==> r is None
    { unimplemented!() }
}
impl<V> BTreeMap<String, V> {
    pub uninterp spec fn m(&self) -> Map<Seq<char>, V>;
    #[verifier::external_body]
    pub fn new() -> (r: Self) ensures r.m() == Map::<Seq<char>, V>::empty() { unimplemented!() }
    #[verifier::external_body]
    pub fn insert(&mut self, k: String, v: V) -> (r: Option<V>) ensures final(self).m() == old(self).m().insert(k@, v) { unimplemented!() }
}
//@@ item src/ods.rs struct Content
// TRUSTED: A-std -- Option::transpose: "None -> Ok(None), Some(Ok(x)) -> Ok(Some(x)), Some(Err(e)) -> Err(e)"
pub assume_specification<T, E>[ Option::<Result<T, E>>::transpose ](o: Option<Result<T, E>>) -> (r: Result<Option<T>, E>)
    ensures
        o is None ==> r == Ok::<Option<T>, E>(None),
        o matches Some(Ok(x)) ==> r == Ok::<Option<T>, E>(Some(x)),
        o matches Some(Err(e)) ==> r == Err::<Option<T>, E>(e);
// TRUSTED: `#[derive(Clone, Copy)]` on SheetVisible: a clone is equal to the original
#[verifier::external_body]
pub proof fn axiom_sheet_visible_clone()
    ensures forall|a: SheetVisible, b: SheetVisible| call_ensures(<SheetVisible as Clone>::clone, (&a,), b) ==> a == b,
{}
/// `res` is what reading the VALUE of an attribute with these raw bytes gives (XML 1.0 3.3.3: references resolved), whatever the error type
pub open spec fn unescaped_value<'a, E>(res: Result<Cow<'a, str>, E>, raw: Seq<u8>) -> bool {
    (unesc(raw) is Some ==> res is Ok && cow_ref(&res->Ok_0)@ == unesc(raw)->Some_0) && (unesc(raw) is None ==> res is Err)
}
/// index of the first attribute at or after i that the checking iterator accepts and that has this name; attrs.len() if none
pub open spec fn first_ok_key(attrs: Seq<Attr>, key: Seq<u8>, i: int) -> int
    decreases attrs.len() - i
{
    if i < 0 || i >= attrs.len() { attrs.len() as int } else if !attrs[i].err && attrs[i].key == key { i } else { first_ok_key(attrs, key, i + 1) }
}
// TRUSTED: A-std + A-xml -- `attributes().filter_map(|a| a.ok())` (Iterator::filter_map with `Result::ok`: the successfully parsed
// attributes, in order; the argument is not inspected) followed by Iterator::find ("the first element for which the predicate returns
// true"; short-circuiting): stand-ins for the two adapter calls
impl<'a> Attributes<'a> {
    #[verifier::external_body]
    pub fn filter_map<B, F: FnMut(Result<Attribute<'a>, quick_xml::events::attributes::AttrError>) -> Option<B>>(self, f: F) -> (r: OkAttributes<'a>)
        ensures r.src() == self.rem(),
    { unimplemented!() }
}
#[verifier::external_body]
pub struct OkAttributes<'a> { _p: core::marker::PhantomData<&'a ()> }
/// the predicate was applied to the (accepted) attribute j and returned b
pub open spec fn pred_on<'a, P: FnMut(&Attribute<'a>) -> bool>(pred: P, a: Attr, b: bool) -> bool {
    exists|y: Attribute<'a>| #[trigger] y.is(a) && call_ensures(pred, (&y,), b)
}
impl<'a> OkAttributes<'a> {
    pub uninterp spec fn src(&self) -> Seq<Attr>;
    #[verifier::external_body]
    pub fn find<P: FnMut(&Attribute<'a>) -> bool>(&mut self, pred: P) -> (r: Option<Attribute<'a>>)
        ensures
            match r {
                Some(x) => exists|i: int| 0 <= i < old(self).src().len() && !(#[trigger] old(self).src()[i]).err && x.is(old(self).src()[i])
                    && call_ensures(pred, (&x,), true)
                    && forall|j: int| 0 <= j < i && !(#[trigger] old(self).src()[j]).err ==> pred_on(pred, old(self).src()[j], false),
                None => forall|j: int| 0 <= j < old(self).src().len() && !(#[trigger] old(self).src()[j]).err ==> pred_on(pred, old(self).src()[j], false),
            },
    { unimplemented!() }
}
proof fn lemma_first_ok_key(attrs: Seq<Attr>, key: Seq<u8>, i: int, k: int)
    requires 0 <= i <= k <= attrs.len(), forall|j: int| i <= j < k && !(#[trigger] attrs[j]).err ==> attrs[j].key != key,
    ensures
        k <= first_ok_key(attrs, key, i) <= attrs.len(),
        k < attrs.len() && !attrs[k].err && attrs[k].key == key ==> first_ok_key(attrs, key, i) == k,
    decreases k - i,
{
    if i < k { lemma_first_ok_key(attrs, key, i + 1, k); }
    else if i < attrs.len() && !(!attrs[i].err && attrs[i].key == key) { lemma_first_ok_key_le(attrs, key, i + 1); }
}
proof fn lemma_first_ok_key_le(attrs: Seq<Attr>, key: Seq<u8>, i: int)
    requires 0 <= i <= attrs.len(),
    ensures i <= first_ok_key(attrs, key, i) <= attrs.len(),
    decreases attrs.len() - i,
{
    if i < attrs.len() && !(!attrs[i].err && attrs[i].key == key) { lemma_first_ok_key_le(attrs, key, i + 1); }
}
pub open spec fn n_style() -> Seq<u8> { b"style:style"@ }
pub open spec fn n_tprops() -> Seq<u8> { b"style:table-properties"@ }
pub open spec fn k_style_name() -> Seq<u8> { b"style:name"@ }
pub open spec fn k_display() -> Seq<u8> { b"table:display"@ }
pub open spec fn k_style_ref() -> Seq<u8> { b"table:style-name"@ }
pub enum AttrVal { Absent, Bad, Val(Seq<char>) }
/// the (unescaped) value of the attribute `key` of a start tag
pub open spec fn attr_val(attrs: Seq<Attr>, key: Seq<u8>) -> AttrVal {
    let k = tga_idx(attrs, key, 0);
    if k >= attrs.len() { AttrVal::Absent } else if attrs[k].bad { AttrVal::Bad }
    else { match unesc(attrs[k].raw) { Some(t) => AttrVal::Val(t), None => AttrVal::Bad } }
}
pub open spec fn aval_key(v: AttrVal) -> Option<Seq<char>> { match v { AttrVal::Val(t) => Some(t), _ => None } }
pub ghost struct SheetEl { pub name: Seq<char>, pub vis: SheetVisible, pub start: nat }
pub ghost struct PcSt {
    pub cur: Option<Seq<char>>,                          // style:name of the <style:style> element met last
    pub styles: Map<Option<Seq<char>>, SheetVisible>,    // table:display of the table styles met so far, by style name
    pub sheets: Seq<SheetEl>,                            // the sheets declared so far, in document order
    pub names: Seq<(Seq<char>, Seq<char>)>,              // the defined names (of the <table:named-expressions> met last)
    pub names_valid: bool,
}
pub open spec fn pc_init() -> PcSt { PcSt { cur: None, styles: Map::empty(), sheets: Seq::empty(), names: Seq::empty(), names_valid: true } }
pub ghost struct PcRes { pub ok: bool, pub st: PcSt }
/// ODF 20.408 table:display is a boolean: "true" -> displayed, "false" -> hidden
pub open spec fn display_vis(attrs: Seq<Attr>) -> Option<SheetVisible> {
    match attr_val(attrs, k_display()) {
        AttrVal::Absent => Some(SheetVisible::Visible),
        AttrVal::Bad => None,
        AttrVal::Val(t) => match str_parse::<bool>(t) { Some(b) => Some(if b { SheetVisible::Visible } else { SheetVisible::Hidden }), None => None },
    }
}
/// THE WALK over content.xml from event p on: styles are collected, every <table:table> that has a name is a sheet (its content is
/// skipped: table_next), <table:named-expressions> gives the defined names.  `ok == false`: a point where the reader has to give up.
/// (Whether a table / the named expressions can be READ is not part of this definition: the clauses below are stated for r is Ok.)
pub open spec fn pc_scan(evs: Seq<Ev>, p: nat, st: PcSt) -> PcRes
    decreases (if p <= evs.len() { evs.len() - p } else { 0 })
{
    if p >= evs.len() { PcRes { ok: true, st } }
    else {
        let e = evs[p as int];
        match e.kind {
            EvKind::Error => PcRes { ok: false, st },
            EvKind::Start =>
                if e.name == n_style() {
                    match attr_val(e.attrs, k_style_name()) {
                        AttrVal::Bad => PcRes { ok: false, st },
                        v => pc_scan(evs, p + 1, PcSt { cur: aval_key(v), ..st }),
                    }
                } else if st.cur is Some && e.name == n_tprops() {
                    match display_vis(e.attrs) {
                        None => PcRes { ok: false, st },
                        Some(vis) => pc_scan(evs, p + 1, PcSt { styles: st.styles.insert(st.cur, vis), ..st }),
                    }
                } else if e.name == n_table() {
                    match attr_val(e.attrs, k_style_ref()) {
                        AttrVal::Bad => PcRes { ok: false, st },
                        v => {
                            let vis = if st.styles.dom().contains(aval_key(v)) { st.styles[aval_key(v)] } else { SheetVisible::Visible };
                            let ni = first_ok_key(e.attrs, k_tname(), 0);
                            if ni >= e.attrs.len() { pc_scan(evs, p + 1, st) }
                            else if unesc(e.attrs[ni].raw) is None || table_next(evs, p + 1) <= p { PcRes { ok: false, st } }
                            else {
                                pc_scan(evs, table_next(evs, p + 1),
                                    PcSt { sheets: st.sheets.push(SheetEl { name: unesc(e.attrs[ni].raw)->Some_0, vis, start: p + 1 }), ..st })
                            }
                        },
                    }
                } else if e.name == n_named_expressions() {
                    let ne = named_exprs(evs, p + 1);
                    if ne.next <= p { PcRes { ok: false, st } } else { pc_scan(evs, ne.next, PcSt { names: ne.names, names_valid: ne.valid, ..st }) }
                } else { pc_scan(evs, p + 1, st) },
            _ => pc_scan(evs, p + 1, st),
        }
    }
}
/// the content part of the workbook
pub open spec fn content_events<RS>(zip: ZipArchive<RS>) -> Option<Seq<Ev>> { part_events(zip, "content.xml"@) }
pub open spec fn sheet_is(sh: Sheet, el: SheetEl) -> bool { sh.name@ == el.name && sh.visible == el.vis && sh.typ == SheetType::WorkSheet }
/// sheets_metadata lists exactly the declared sheets, in document order, each with its name, visibility and kind
pub open spec fn meta_is(meta: Seq<Sheet>, els: Seq<SheetEl>) -> bool {
    meta.len() == els.len() && forall|i: int| 0 <= i < els.len() ==> sheet_is(#[trigger] meta[i], els[i])
}
/// the two ranges stored under a sheet name are read_table's result for the LAST table of that name
#[verifier::opaque]
pub open spec fn ranges_are(m: Map<Seq<char>, (Range<Data>, Range<String>)>, evs: Seq<Ev>, els: Seq<SheetEl>) -> bool {
    forall|i: int| 0 <= i < els.len() && (forall|j: int| i < j < els.len() ==> els[j].name != (#[trigger] els[i]).name) ==>
        m.dom().contains(els[i].name)
        && table_result(evs, els[i].start, m[els[i].name].0.lo(), m[els[i].name].0.hi(), m[els[i].name].0.data(),
                        m[els[i].name].1.lo(), m[els[i].name].1.hi(), m[els[i].name].1.data())
}

proof fn lemma_ranges_empty(evs: Seq<Ev>)
    ensures ranges_are(Map::<Seq<char>, (Range<Data>, Range<String>)>::empty(), evs, Seq::<SheetEl>::empty()),
{
    reveal(ranges_are);
}
/// inserting the ranges of a further table under its name keeps the map in step with the list of sheets
proof fn lemma_ranges_push(m0: Map<Seq<char>, (Range<Data>, Range<String>)>, evs: Seq<Ev>, els0: Seq<SheetEl>, el: SheetEl, v: (Range<Data>, Range<String>))
    requires
        ranges_are(m0, evs, els0),
        table_result(evs, el.start, v.0.lo(), v.0.hi(), v.0.data(), v.1.lo(), v.1.hi(), v.1.data()),
    ensures
        ranges_are(m0.insert(el.name, v), evs, els0.push(el)),
{
    reveal(ranges_are);
    let els = els0.push(el);
    let m = m0.insert(el.name, v);
    assert forall|i: int| 0 <= i < els.len() && (forall|j: int| i < j < els.len() ==> els[j].name != (#[trigger] els[i]).name) implies
        m.dom().contains(els[i].name)
        && table_result(evs, els[i].start, m[els[i].name].0.lo(), m[els[i].name].0.hi(), m[els[i].name].0.data(),
                        m[els[i].name].1.lo(), m[els[i].name].1.hi(), m[els[i].name].1.data()) by {
        if i < els0.len() {
            assert(els[i] == els0[i]);
            assert(els[els.len() - 1].name != els[i].name);
            assert forall|j: int| i < j < els0.len() implies els0[j].name != (#[trigger] els0[i]).name by { assert(els[j] == els0[j]); }
        }
    }
}

//@@ fn src/ods.rs parse_content props=C16,C04,C14 entry ret=r r12 mutparams
//@@ sig
    requires
        // resource bound (as in read_table): the content part has no more XML events than a usize can count
        //# C06.parse_content_resource_bound_events
        content_events(__p_zip) matches Some(evs) ==> evs.len() <= usize::MAX,
    ensures
        //# C16.ods_content_part_missing
        content_events(__p_zip) is None ==> r is Err,
        //# C16.ods_content_walk_completes
        r is Ok ==> content_events(__p_zip) is Some && pc_scan(content_events(__p_zip)->Some_0, 0, pc_init()).ok,
        //# C16.ods_sheets_in_document_order
        r is Ok ==> r->Ok_0.sheets_metadata@.len() == pc_scan(content_events(__p_zip)->Some_0, 0, pc_init()).st.sheets.len()
            && forall|i: int| 0 <= i < r->Ok_0.sheets_metadata@.len() ==>
                (#[trigger] r->Ok_0.sheets_metadata@[i]).name@ == pc_scan(content_events(__p_zip)->Some_0, 0, pc_init()).st.sheets[i].name
                && r->Ok_0.sheets_metadata@[i].typ == SheetType::WorkSheet,
        //# C16.ods_sheet_visibility
        r is Ok ==> meta_is(r->Ok_0.sheets_metadata@, pc_scan(content_events(__p_zip)->Some_0, 0, pc_init()).st.sheets),
        //# C16.ods_defined_names_in_order
        r is Ok && pc_scan(content_events(__p_zip)->Some_0, 0, pc_init()).st.names_valid ==>
            names_view(r->Ok_0.defined_names@) == pc_scan(content_events(__p_zip)->Some_0, 0, pc_init()).st.names,
        //# C04,C14.ods_sheet_ranges_by_name
        r is Ok ==> ranges_are(r->Ok_0.sheets.m(), content_events(__p_zip)->Some_0, pc_scan(content_events(__p_zip)->Some_0, 0, pc_init()).st.sheets),
//@@ closure 0
    -> (res: Result<Cow<'_, str>, quick_xml::Error>) ensures
        //# C16.ods_style_name_is_the_unescaped_attribute_value
        unescaped_value(res, cow_ref(&a.value)@)
//@@ closure 1
    -> (res: String) ensures res@ == cow_ref(&x)@
//@@ closure 2
    -> (res: Result<Cow<'_, str>, quick_xml::Error>) ensures
        //# C16.ods_table_style_reference_is_the_unescaped_attribute_value
        unescaped_value(res, cow_ref(&a.value)@)
//@@ closure 3
    -> (res: String) ensures res@ == cow_ref(&x)@
//@@ closure 5
    -> (res: bool) ensures res == (a.key.0@ == b"table:name"@)
//@@ before /let mut buf = Vec::with_capacity\(1024\);/
    let ghost evs = reader.events();
    let ghost tot = pc_scan(evs, 0, pc_init());
    let ghost mut st = pc_init();
    proof { assert(content_events(__p_zip) == Some(evs)); axiom_sheet_visible_clone(); lemma_ranges_empty(evs); }
//@@ loop 0
        invariant_except_break
            //# C16.ods_content_walk_so_far
            tot == pc_scan(evs, reader.pos(), st),
        invariant
            reader.events() == evs, content_events(__p_zip) == Some(evs), evs.len() <= usize::MAX, tot == pc_scan(evs, 0, pc_init()),
            forall|a: SheetVisible, b: SheetVisible| call_ensures(<SheetVisible as Clone>::clone, (&a,), b) ==> a == b,
            //# C16.ods_style_in_scope
            okey(style_name) == st.cur,
            //# C16.ods_styles_collected
            styles.m() == st.styles,
            //# C16.ods_sheets_so_far
            meta_is(sheets_metadata@, st.sheets),
            //# C16.ods_defined_names_so_far
            st.names_valid ==> names_view(defined_names@) == st.names,
            //# C04,C14.ods_sheet_ranges_so_far
            ranges_are(sheets.m(), evs, st.sheets),
        ensures
            tot.ok && tot.st == st,
        decreases reader.left(),
//@@ before /match reader\.read_event_into\(&mut buf\)/
        let ghost p = reader.pos();
        let ghost st0 = st;
//@@ before? /style_name = e/
                proof {
                    assert(e.ev() == evs[p as int]);
                    st = PcSt { cur: aval_key(attr_val(evs[p as int].attrs, k_style_name())), ..st0 };
                }
//@@ before? /styles\.insert\(/
                proof {
                    assert(e.ev() == evs[p as int]);
                    //# C16.ods_sheet_visibility_display_attribute
                    assert(display_vis(evs[p as int].attrs) == Some(visible));
                    st = PcSt { styles: st0.styles.insert(st0.cur, visible), ..st0 };
                }
//@@ before? /if let Some\(ref a\) = e/
                let ghost at = evs[p as int].attrs;
                let ghost sv = attr_val(at, k_style_ref());
                let ghost ni = first_ok_key(at, k_tname(), 0);
                proof {
                    assert(e.ev() == evs[p as int]);
                    assert(!(sv is Bad));
                    //# C16.ods_sheet_visibility_from_style
                    assert(visible == (if st0.styles.dom().contains(aval_key(sv)) { st0.styles[aval_key(sv)] } else { SheetVisible::Visible }));
                    // what `find` reports, read on the side of the ghost attribute list
                    assert((forall|j: int| 0 <= j < at.len() && !(#[trigger] at[j]).err ==> at[j].key != k_tname()) ==> ni >= at.len()) by {
                        if forall|j: int| 0 <= j < at.len() && !(#[trigger] at[j]).err ==> at[j].key != k_tname() { lemma_first_ok_key(at, k_tname(), 0, at.len() as int); }
                    }
                    assert forall|i: int| 0 <= i < at.len() && !at[i].err && at[i].key == k_tname()
                        && (forall|j: int| 0 <= j < i && !(#[trigger] at[j]).err ==> at[j].key != k_tname()) implies ni == i by {
                        lemma_first_ok_key(at, k_tname(), 0, i);
                    }
                }
//@@ before? /let name = a/
                    proof {
                        //# C16.ods_sheet_name_attribute
                        assert(ni < at.len() && a.is(at[ni]));
                    }
//@@ before? /let \(range, formulas\) = read_table/
                    let ghost m0 = sheets.m();
//@@ after? /let \(range, formulas\) = read_table[^;]*;/
                    let ghost (rv, rf) = (range, formulas);
//@@ after? /sheets\.insert\(name, \(range, formulas\)\);/
                    proof {
                        let el = SheetEl { name: unesc(at[ni].raw)->Some_0, vis: visible, start: p + 1 };
                        st = PcSt { sheets: st0.sheets.push(el), ..st0 };
                        assert(sheets.m() == m0.insert(el.name, (rv, rf)));
                        lemma_ranges_push(m0, evs, st0.sheets, el, (rv, rf));
                    }
//@@ after? /defined_names = read_named_expressions\(&mut reader\)\?;/
                proof {
                    assert(e.ev() == evs[p as int]);
                    let ne = named_exprs(evs, p + 1);
                    st = PcSt { names: ne.names, names_valid: ne.valid, ..st0 };
                }
//@@ end

// #####################################################################################################################
// PART 4: the two frame clauses of read_row that read_table needs and that unit ods's contract of read_row does not state, PROVED on
// the same text (second extraction of read_row, as an associated function of the empty type `Frame` so that the two copies do not clash; obligations are named read_row@frame):
//   * where the reader stands after the row (row_next), and that it moved forward;
//   * `cells` and `formulas` grow in step.
// #####################################################################################################################
pub struct Frame;
impl Frame {
//@@ fn src/ods.rs read_row props=C04,C14 alias=frame entry ret=r r4 r12
//@@ r6 1
//@@ sig
    requires
        // resource bound (as for get_datatype)
        //# C06.read_row_resource_bound_events
        old(reader).events().len() <= usize::MAX,
    ensures
        //# C04.row_events_frame
        r is Ok ==> final(reader).events() == old(reader).events(),
        //# C04.row_reader_position
        r is Ok ==> row_scan(old(reader).events(), old(reader).pos()).ok
            && final(reader).pos() == row_next(old(reader).events(), old(reader).pos()) && final(reader).pos() > old(reader).pos(),
        //# C04,C14.row_cells_and_formulas_in_step
        r is Ok ==> final(cells)@.len() - old(cells)@.len() == final(formulas)@.len() - old(formulas)@.len(),
//@@ body
    let ghost evs = reader.events();
    let ghost p0 = reader.pos();
//@@ loop 0
        invariant_except_break
            row_scan(evs, p0) == row_scan(evs, reader.pos()),
        invariant
            reader.events() == evs, evs == old(reader).events(), evs.len() <= usize::MAX, p0 == old(reader).pos(), reader.pos() >= p0,
            cells@.len() - old(cells)@.len() == formulas@.len() - old(formulas)@.len(),
            //# C06.row_len_within_grid_columns
            row_len <= grid_cols(),
        ensures
            row_scan(evs, p0).ok && row_scan(evs, p0).next == reader.pos() && reader.pos() > p0,
        decreases reader.left(),
//@@ before /match reader\.read_event_into\(row_buf\)/
        let ghost p = reader.pos();
//@@ loop 1
                    invariant_except_break
                        //# C04.row_repeat_count_scan
                        repeats == 1 && rep_scan(evs[p as int].attrs) == rep_scan(__it1.rem()),
                    invariant
                        reader.events() == evs, evs == old(reader).events(), evs.len() <= usize::MAX, p0 == old(reader).pos(), reader.pos() == p + 1, p >= p0, p < evs.len(),
                        row_scan(evs, p0) == row_scan(evs, p), is_cell_start(evs[p as int]), e.ev() == evs[p as int],
                        cells@.len() - old(cells)@.len() == formulas@.len() - old(formulas)@.len(),
                    ensures
                        // (also proved on the same text in unit ods: ods/read_row, same label) the count is the number the attribute
                        // VALUE spells -- references resolved (`parse_usize` over `unesc`) -- default 1
                        //# C04.row_repeat_count_is_the_unescaped_attribute_value
                        rep_scan(evs[p as int].attrs) == Some(repeats),
                    decreases __it1.rem().len(),
//@@ before? /break;/
                        proof {
                            //# C04.row_repeat_count_is_the_unescaped_attribute_value
                            assert(rep_scan(evs[p as int].attrs) == Some(repeats));
                        }
//@@ after /let \(value, formula, is_closed\) = [^;]*;/
                proof { lemma_cell_scan_end(evs, p as int + 1, txt_init()); }
//@@ loop 2 it2
                    invariant
                        cells@.len() - old(cells)@.len() == formulas@.len() - old(formulas)@.len(),
                        reader.events() == evs, evs == old(reader).events(), evs.len() <= usize::MAX, p0 == old(reader).pos(), p >= p0, p < evs.len(),
                        row_scan(evs, p0) == row_scan(evs, p), is_cell_start(evs[p as int]), e.ev() == evs[p as int],
                        is_closed == gd_closed(evs, p + 1, evs[p as int].attrs), reader.pos() == gd_next(evs, p + 1, evs[p as int].attrs), reader.pos() >= p + 1,
//@@ loop 3 it3
                        invariant
                            cells@.len() - old(cells)@.len() == formulas@.len() - old(formulas)@.len(),
                            reader.events() == evs, evs == old(reader).events(), evs.len() <= usize::MAX, p0 == old(reader).pos(), p >= p0, p < evs.len(),
                            row_scan(evs, p0) == row_scan(evs, p), is_cell_start(evs[p as int]), e.ev() == evs[p as int],
                            is_closed == gd_closed(evs, p + 1, evs[p as int].attrs), reader.pos() == gd_next(evs, p + 1, evs[p as int].attrs), reader.pos() >= p + 1,
//@@ before /return Err\(OdsError::Mismatch \{ expected: "table-cell"/
                proof {
                    // C04 (row_mismatch_only_for_malformed_rows): white space / comments between the cells never get here; this error is
                    // reserved for rows that are malformed
                    assert(!row_scan(evs, p0).ok);
                }
//@@ end
}

} // verus!
fn main() {}
