//@@ unit props=C07,C16,C06
// Unit apiglue: the thin API layers properties C07 / C16 quantify over.
//
// Real text under contract (verbatim):
//   src/lib.rs   trait Reader default methods  sheet_names, sheets_metadata, defined_names, worksheet_range_at
//                trait ReaderRef default method worksheet_range_at_ref
//                open_workbook_from_rs
//   src/auto.rs  impl Reader<RS> for Sheets<RS>: new, with_header_row, vba_project, metadata, worksheet_range, worksheet_formula, worksheets
//                impl ReaderRef<RS> for Sheets<RS>: worksheet_range_ref
//                open_workbook_auto_from_rs
//   items        enum Error (errors.rs), enum Sheets (auto.rs), Metadata / Sheet / HeaderRow / Range / Data / DataRef ...
// Not reached: `open_workbook_auto` (path based: extension table, then the same trial order through `open_workbook` = File::open + R::new;
// needs Path / OsStr / File stand-ins); `from_err!` impls of errors.rs (not used by the code under contract: auto.rs maps errors explicitly).
//
// How the generic layers are specified.  The traits `Reader` / `ReaderRef` are opened verbatim (`//@@ impl src/lib.rs "trait Reader"`);
// their required methods get *abstract relational* contracts over spec members of the trait:
//      metadata()          returns  self.md()
//      worksheet_range(n)  ensures  Self::range_rel(*old(self), n@, *final(self), result)          (likewise formula / worksheets / vba /
//                                                                                                     header / new / range_ref)
// Nothing is assumed about these relations (no determinism, no frame): `R::range_rel(a, name, b, r)` reads "one call of
// R::worksheet_range(name) can take reader state a to state b with result r".  The default methods are verified against exactly these
// abstract contracts, hence for every implementor.  For `Sheets` the relations are *defined* (delegation to the wrapped reader's relation,
// error re-wrapped); the wrapped readers Xls/Xlsx/Xlsb/Ods are opaque stand-ins whose relations are uninterpreted.
//
// Rules used beyond the README: R-mono for `sheet_names` (closure inside a function with type parameters -- here `Self` -- loses vstd's
// `map`/`collect` specification): the verbatim text is verified as the inherent method `sheet_names` of the concrete type `VerifReader` against
// the same contract text; inside the trait the same real text is `external_body` (assumed, logged).
#![allow(unused_imports, dead_code, unused_variables, unused_mut, unused_assignments, unexpected_cfgs)]
use vstd::prelude::*;
use std::borrow::Cow;
use std::io::{Read, Seek};
use crate::errors::Error;
use crate::vba::VbaProject;

verus! {

// =====================================================================================================================
// Stand-ins for foreign / opaque types
// =====================================================================================================================
#[verifier::external_type_specification] #[verifier::external_body] pub struct ExIoError(std::io::Error);
#[verifier::external_trait_specification] pub trait ExRead { type ExternalTraitSpecificationFor: std::io::Read; }
#[verifier::external_trait_specification] pub trait ExSeek { type ExternalTraitSpecificationFor: std::io::Seek; }

// TRUSTED: the error types of the four readers, of the VBA reader and of the deserializer are opaque values here (only moved around and
// wrapped into `Error::{Xls,Xlsx,Xlsb,Ods}`; never inspected by the code under contract). `external_body` = unknown set of inhabitants.
pub mod xls { #[verifier::external_body] pub struct XlsError { _opaque: u8 } }
pub mod xlsx { #[verifier::external_body] pub struct XlsxError { _opaque: u8 } }
pub mod xlsb { #[verifier::external_body] pub struct XlsbError { _opaque: u8 } }
pub mod ods { #[verifier::external_body] pub struct OdsError { _opaque: u8 } }
pub mod de { #[verifier::external_body] pub struct DeError { _opaque: u8 } }
pub mod vba {
    #[verifier::external_body] pub struct VbaError { _opaque: u8 }
    // TRUSTED: stand-in for crate::vba::VbaProject (only travels inside `Cow<'_, VbaProject>`, which needs `Clone`)
    #[verifier::external_body] pub struct VbaProject { _opaque: u8 }
    impl Clone for VbaProject { #[verifier::external_body] fn clone(&self) -> Self { unimplemented!() } }
}
pub mod errors {
//@@ item src/errors.rs enum Error
}

//@@ item src/lib.rs enum CellErrorType keep_attrs
//@@ item src/lib.rs enum SheetType
//@@ item src/lib.rs enum SheetVisible
//@@ item src/lib.rs struct Sheet
//@@ item src/lib.rs struct Metadata
//@@ item src/lib.rs enum HeaderRow keep_attrs
//@@ item src/datatype.rs enum ExcelDateTimeType keep_attrs
//@@ item src/datatype.rs struct ExcelDateTime keep_attrs
//@@ item src/datatype.rs enum Data keep_attrs
//@@ item src/datatype.rs enum DataRef keep_attrs
//@@ item src/lib.rs struct Range
//@@ item src/auto.rs enum Sheets
#[verifier::external_type_specification] #[verifier::external_body] pub struct ExParseFloatError(std::num::ParseFloatError);
#[verifier::external_type_specification] #[verifier::external_body] pub struct ExParseIntError(std::num::ParseIntError);
#[verifier::external_type_specification] #[verifier::external_body] pub struct ExParseBoolError(std::str::ParseBoolError);

impl Metadata {
    /// the declared sheets, in workbook order (field `sheets` is private)
    pub closed spec fn sheet_seq(&self) -> Seq<Sheet> { self.sheets@ }
    /// the defined names, in workbook order (field `names` is private)
    pub closed spec fn name_seq(&self) -> Seq<(String, String)> { self.names@ }
}

// TRUSTED: `impl Display for String` writes the string itself, so `String::to_string` yields an equal string (std: "ToString ... is
// automatically implemented for any type which implements Display"; vstd specifies `to_string` through the uninterpreted
// `to_string_from_display_ensures` and instantiates it for `str` only).
#[verifier::external_body]
pub broadcast proof fn axiom_string_to_string(t: &String, s: String)
    ensures #[trigger] vstd::string::to_string_from_display_ensures::<String>(t, s) == (s@ == t@),
{}
// TRUSTED: blanket `impl<T: Clone> ToOwned for T` -- "to_owned() is clone()" (vstd knows `String::clone` returns an equal string)
pub assume_specification<T: Clone>[ <T as std::borrow::ToOwned>::to_owned ](s: &T) -> (r: T)
    ensures call_ensures(T::clone, (s,), r);

// =====================================================================================================================
// Specification (mathematics, from properties C16 / C07)
// =====================================================================================================================
/// C16 "sheet_names ... list exactly the sheets the workbook declares, in its order": same length, i-th name is the i-th sheet's name
pub open spec fn names_in_order(r: Seq<String>, sheets: Seq<Sheet>) -> bool {
    &&& r.len() == sheets.len()
    &&& forall|i: int| 0 <= i < sheets.len() ==> (#[trigger] r[i])@ == sheets[i].name@
}

// =====================================================================================================================
// The traits (headers verbatim; required methods: signatures copied from src/lib.rs, abstract contracts added)
// =====================================================================================================================
//@@ props C07
//@@ impl src/lib.rs "trait Reader"
    // reduced: the real declaration is `type Error: std::fmt::Debug + From<std::io::Error>;` (bounds not used by the code under contract)
    type Error;

    // ---- spec-only members (not in the real trait): the abstract behaviour of the required methods
    /// the metadata the reader holds
    spec fn md(&self) -> Metadata;
    /// `Self::new(reader)` can return r
    spec fn new_rel(reader: RS, r: Result<Self, Self::Error>) -> bool;
    /// one `with_header_row(hr)` call can take state o to state n
    spec fn header_rel(o: Self, hr: HeaderRow, n: Self) -> bool;
    /// one `vba_project()` call can take state o to state n with result r
    spec fn vba_rel<'a>(o: Self, n: Self, r: Option<Result<Cow<'a, VbaProject>, Self::Error>>) -> bool;
    /// one `worksheet_range(name)` call can take state o to state n with result r
    spec fn range_rel(o: Self, name: Seq<char>, n: Self, r: Result<Range<Data>, Self::Error>) -> bool;
    /// one `worksheet_formula(name)` call can take state o to state n with result r
    spec fn formula_rel(o: Self, name: Seq<char>, n: Self, r: Result<Range<String>, Self::Error>) -> bool;
    /// one `worksheets()` call can take state o to state n with result r
    spec fn worksheets_rel(o: Self, n: Self, r: Vec<(String, Range<Data>)>) -> bool;

    // ---- required methods
    fn new(reader: RS) -> (r: Result<Self, Self::Error>)
        ensures Self::new_rel(reader, r);
    fn with_header_row(&mut self, header_row: HeaderRow) -> (r: &mut Self)
        ensures Self::header_rel(*old(self), header_row, *r), *final(r) == *final(self);
    fn vba_project(&mut self) -> (r: Option<Result<Cow<'_, VbaProject>, Self::Error>>)
        ensures Self::vba_rel(*old(self), *final(self), r);
    fn metadata(&self) -> (r: &Metadata)
        ensures *r == self.md();
    fn worksheet_range(&mut self, name: &str) -> (r: Result<Range<Data>, Self::Error>)
        ensures Self::range_rel(*old(self), name@, *final(self), r);
    fn worksheets(&mut self) -> (r: Vec<(String, Range<Data>)>)
        ensures Self::worksheets_rel(*old(self), *final(self), r);
    fn worksheet_formula(&mut self, name: &str) -> (r: Result<Range<String>, Self::Error>)
        ensures Self::formula_rel(*old(self), name@, *final(self), r);

    // ---- provided methods (real text)
    // R-mono: assumed here, verified below as `VerifReader::sheet_names` (same real text, same contract text)
//@@ fn src/lib.rs "trait Reader::sheet_names" props=C16 ret=r external_body
//@@ sig
        ensures
            //# C16.sheet_names_in_metadata_order
            names_in_order(r@, self.md().sheet_seq()),
//@@ end
//@@ fn src/lib.rs "trait Reader::sheets_metadata" props=C16 ret=r
//@@ sig
        ensures
            //# C16.sheets_metadata_is_metadata_sheets
            r@ == self.md().sheet_seq(),
//@@ end
//@@ fn src/lib.rs "trait Reader::defined_names" props=C16 ret=r
//@@ sig
        ensures
            //# C16.defined_names_is_metadata_names
            r@ == self.md().name_seq(),
//@@ end
//@@ fn src/lib.rs "trait Reader::worksheet_range_at" props=C07 entry ret=r
//@@ sig
        ensures
            //# C07.range_at_beyond_last_sheet_is_none
            n >= old(self).md().sheet_seq().len() ==> r is None,
            //# C07.range_at_beyond_last_sheet_touches_nothing
            n >= old(self).md().sheet_seq().len() ==> *final(self) == *old(self),
            //# C07.range_at_is_nth_sheet_by_name
            n < old(self).md().sheet_seq().len() ==> r is Some
                && Self::range_rel(*old(self), old(self).md().sheet_seq()[n as int].name@, *final(self), r->Some_0),
//@@ body
        broadcast use axiom_string_to_string;
//@@ end
//@@ endimpl

//@@ impl src/lib.rs "trait ReaderRef"
    /// one `worksheet_range_ref(name)` call can take state o to state n with result r
    spec fn range_ref_rel<'a>(o: Self, name: Seq<char>, n: Self, r: Result<Range<DataRef<'a>>, Self::Error>) -> bool;

    fn worksheet_range_ref<'a>(&'a mut self, name: &str) -> (r: Result<Range<DataRef<'a>>, Self::Error>)
        ensures Self::range_ref_rel(*old(self), name@, *final(self), r);

//@@ fn src/lib.rs "trait ReaderRef::worksheet_range_at_ref" props=C07 entry ret=r
//@@ sig
        ensures
            //# C07.range_at_ref_beyond_last_sheet_is_none
            n >= old(self).md().sheet_seq().len() ==> r is None,
            //# C07.range_at_ref_beyond_last_sheet_touches_nothing
            n >= old(self).md().sheet_seq().len() ==> *final(self) == *old(self),
            //# C07.range_at_ref_is_nth_sheet_by_name
            n < old(self).md().sheet_seq().len() ==> r is Some
                && Self::range_ref_rel(*old(self), old(self).md().sheet_seq()[n as int].name@, *final(self), r->Some_0),
//@@ body
        broadcast use axiom_string_to_string;
//@@ end
//@@ endimpl

//@@ props C07,C16,C06
//@@ fn src/lib.rs open_workbook_from_rs props=C07 entry ret=r
//@@ sig
    ensures
        //# C07.open_from_rs_is_new
        R::new_rel(rs, r),
//@@ end

// ---------------------------------------------------------------------------------------------------------------------
// R-mono instance for `sheet_names`: a concrete type with opaque state and a `metadata` method carrying the trait method's contract
// (`*r == self.md()`). The method text only calls `self.metadata()`, so by parametricity the instance stands for every implementor.
// (Probed: an *inherent* method is needed -- in a trait impl method, even of a concrete type, the closure specification is lost too.)
// ---------------------------------------------------------------------------------------------------------------------
// TRUSTED: opaque reader state; `md()` is whatever metadata it holds; `metadata` carries the contract of `Reader::metadata`
#[verifier::external_body] pub struct VerifReader { _opaque: u8 }
pub uninterp spec fn verif_reader_md(v: VerifReader) -> Metadata;
impl VerifReader {
    pub open spec fn md(&self) -> Metadata { verif_reader_md(*self) }
    #[verifier::external_body]
    fn metadata(&self) -> (r: &Metadata)
        ensures *r == self.md(),
    { unimplemented!() }
//@@ fn src/lib.rs "trait Reader::sheet_names" props=C16 ret=r alias=mono
//@@ sig
        ensures
            //# C16.sheet_names_same_count
            r@.len() == self.md().sheet_seq().len(),
            //# C16.sheet_names_in_metadata_order
            names_in_order(r@, self.md().sheet_seq()),
//@@ closure 0
    -> (res: String) ensures
        //# C16.sheet_name_is_copied
        res@ == s.name@
//@@ end
}

// =====================================================================================================================
// The four format readers: opaque stand-ins implementing the traits with uninterpreted relations
// =====================================================================================================================
// TRUSTED: uninterpreted behaviour of a wrapped reader of type R with error type E (one independent function per instantiation):
// nothing is assumed about it. What the readers really do is the subject of units lazyrange / xlswb / xlsxwb / xlsbwb / ods.
pub uninterp spec fn rd_md<R>(e: R) -> Metadata;
pub uninterp spec fn rd_new_rel<RS, R, E>(reader: RS, r: Result<R, E>) -> bool;
pub uninterp spec fn rd_header_rel<R>(o: R, hr: HeaderRow, n: R) -> bool;
pub uninterp spec fn rd_vba_rel<'a, R, E>(o: R, n: R, r: Option<Result<Cow<'a, VbaProject>, E>>) -> bool;
pub uninterp spec fn rd_range_rel<R, E>(o: R, name: Seq<char>, n: R, r: Result<Range<Data>, E>) -> bool;
pub uninterp spec fn rd_formula_rel<R, E>(o: R, name: Seq<char>, n: R, r: Result<Range<String>, E>) -> bool;
pub uninterp spec fn rd_worksheets_rel<R>(o: R, n: R, r: Vec<(String, Range<Data>)>) -> bool;
pub uninterp spec fn rd_range_ref_rel<'a, R, E>(o: R, name: Seq<char>, n: R, r: Result<Range<DataRef<'a>>, E>) -> bool;

// TRUSTED: stand-ins for crate::{Xls, Xlsx, Xlsb, Ods} (opaque state; all methods `external_body` with the trait's abstract contract)
#[verifier::external_body] #[verifier::accept_recursive_types(RS)] pub struct Xls<RS> { _r: RS }
#[verifier::external_body] #[verifier::accept_recursive_types(RS)] pub struct Xlsx<RS> { _r: RS }
#[verifier::external_body] #[verifier::accept_recursive_types(RS)] pub struct Xlsb<RS> { _r: RS }
#[verifier::external_body] #[verifier::accept_recursive_types(RS)] pub struct Ods<RS> { _r: RS }

impl<RS: Read + Seek> Reader<RS> for Xls<RS> {
    type Error = crate::xls::XlsError;
    open spec fn md(&self) -> Metadata { rd_md(*self) }
    open spec fn new_rel(reader: RS, r: Result<Self, Self::Error>) -> bool { rd_new_rel(reader, r) }
    open spec fn header_rel(o: Self, hr: HeaderRow, n: Self) -> bool { rd_header_rel(o, hr, n) }
    open spec fn vba_rel<'a>(o: Self, n: Self, r: Option<Result<Cow<'a, VbaProject>, Self::Error>>) -> bool { rd_vba_rel(o, n, r) }
    open spec fn range_rel(o: Self, name: Seq<char>, n: Self, r: Result<Range<Data>, Self::Error>) -> bool { rd_range_rel(o, name, n, r) }
    open spec fn formula_rel(o: Self, name: Seq<char>, n: Self, r: Result<Range<String>, Self::Error>) -> bool { rd_formula_rel(o, name, n, r) }
    open spec fn worksheets_rel(o: Self, n: Self, r: Vec<(String, Range<Data>)>) -> bool { rd_worksheets_rel(o, n, r) }
    #[verifier::external_body] fn new(reader: RS) -> Result<Self, Self::Error> { unimplemented!() }
    #[verifier::external_body] fn with_header_row(&mut self, header_row: HeaderRow) -> &mut Self { unimplemented!() }
    #[verifier::external_body] fn vba_project(&mut self) -> Option<Result<Cow<'_, VbaProject>, Self::Error>> { unimplemented!() }
    #[verifier::external_body] fn metadata(&self) -> &Metadata { unimplemented!() }
    #[verifier::external_body] fn worksheet_range(&mut self, name: &str) -> Result<Range<Data>, Self::Error> { unimplemented!() }
    #[verifier::external_body] fn worksheets(&mut self) -> Vec<(String, Range<Data>)> { unimplemented!() }
    #[verifier::external_body] fn worksheet_formula(&mut self, name: &str) -> Result<Range<String>, Self::Error> { unimplemented!() }
}
impl<RS: Read + Seek> Reader<RS> for Xlsx<RS> {
    type Error = crate::xlsx::XlsxError;
    open spec fn md(&self) -> Metadata { rd_md(*self) }
    open spec fn new_rel(reader: RS, r: Result<Self, Self::Error>) -> bool { rd_new_rel(reader, r) }
    open spec fn header_rel(o: Self, hr: HeaderRow, n: Self) -> bool { rd_header_rel(o, hr, n) }
    open spec fn vba_rel<'a>(o: Self, n: Self, r: Option<Result<Cow<'a, VbaProject>, Self::Error>>) -> bool { rd_vba_rel(o, n, r) }
    open spec fn range_rel(o: Self, name: Seq<char>, n: Self, r: Result<Range<Data>, Self::Error>) -> bool { rd_range_rel(o, name, n, r) }
    open spec fn formula_rel(o: Self, name: Seq<char>, n: Self, r: Result<Range<String>, Self::Error>) -> bool { rd_formula_rel(o, name, n, r) }
    open spec fn worksheets_rel(o: Self, n: Self, r: Vec<(String, Range<Data>)>) -> bool { rd_worksheets_rel(o, n, r) }
    #[verifier::external_body] fn new(reader: RS) -> Result<Self, Self::Error> { unimplemented!() }
    #[verifier::external_body] fn with_header_row(&mut self, header_row: HeaderRow) -> &mut Self { unimplemented!() }
    #[verifier::external_body] fn vba_project(&mut self) -> Option<Result<Cow<'_, VbaProject>, Self::Error>> { unimplemented!() }
    #[verifier::external_body] fn metadata(&self) -> &Metadata { unimplemented!() }
    #[verifier::external_body] fn worksheet_range(&mut self, name: &str) -> Result<Range<Data>, Self::Error> { unimplemented!() }
    #[verifier::external_body] fn worksheets(&mut self) -> Vec<(String, Range<Data>)> { unimplemented!() }
    #[verifier::external_body] fn worksheet_formula(&mut self, name: &str) -> Result<Range<String>, Self::Error> { unimplemented!() }
}
impl<RS: Read + Seek> Reader<RS> for Xlsb<RS> {
    type Error = crate::xlsb::XlsbError;
    open spec fn md(&self) -> Metadata { rd_md(*self) }
    open spec fn new_rel(reader: RS, r: Result<Self, Self::Error>) -> bool { rd_new_rel(reader, r) }
    open spec fn header_rel(o: Self, hr: HeaderRow, n: Self) -> bool { rd_header_rel(o, hr, n) }
    open spec fn vba_rel<'a>(o: Self, n: Self, r: Option<Result<Cow<'a, VbaProject>, Self::Error>>) -> bool { rd_vba_rel(o, n, r) }
    open spec fn range_rel(o: Self, name: Seq<char>, n: Self, r: Result<Range<Data>, Self::Error>) -> bool { rd_range_rel(o, name, n, r) }
    open spec fn formula_rel(o: Self, name: Seq<char>, n: Self, r: Result<Range<String>, Self::Error>) -> bool { rd_formula_rel(o, name, n, r) }
    open spec fn worksheets_rel(o: Self, n: Self, r: Vec<(String, Range<Data>)>) -> bool { rd_worksheets_rel(o, n, r) }
    #[verifier::external_body] fn new(reader: RS) -> Result<Self, Self::Error> { unimplemented!() }
    #[verifier::external_body] fn with_header_row(&mut self, header_row: HeaderRow) -> &mut Self { unimplemented!() }
    #[verifier::external_body] fn vba_project(&mut self) -> Option<Result<Cow<'_, VbaProject>, Self::Error>> { unimplemented!() }
    #[verifier::external_body] fn metadata(&self) -> &Metadata { unimplemented!() }
    #[verifier::external_body] fn worksheet_range(&mut self, name: &str) -> Result<Range<Data>, Self::Error> { unimplemented!() }
    #[verifier::external_body] fn worksheets(&mut self) -> Vec<(String, Range<Data>)> { unimplemented!() }
    #[verifier::external_body] fn worksheet_formula(&mut self, name: &str) -> Result<Range<String>, Self::Error> { unimplemented!() }
}
impl<RS: Read + Seek> Reader<RS> for Ods<RS> {
    type Error = crate::ods::OdsError;
    open spec fn md(&self) -> Metadata { rd_md(*self) }
    open spec fn new_rel(reader: RS, r: Result<Self, Self::Error>) -> bool { rd_new_rel(reader, r) }
    open spec fn header_rel(o: Self, hr: HeaderRow, n: Self) -> bool { rd_header_rel(o, hr, n) }
    open spec fn vba_rel<'a>(o: Self, n: Self, r: Option<Result<Cow<'a, VbaProject>, Self::Error>>) -> bool { rd_vba_rel(o, n, r) }
    open spec fn range_rel(o: Self, name: Seq<char>, n: Self, r: Result<Range<Data>, Self::Error>) -> bool { rd_range_rel(o, name, n, r) }
    open spec fn formula_rel(o: Self, name: Seq<char>, n: Self, r: Result<Range<String>, Self::Error>) -> bool { rd_formula_rel(o, name, n, r) }
    open spec fn worksheets_rel(o: Self, n: Self, r: Vec<(String, Range<Data>)>) -> bool { rd_worksheets_rel(o, n, r) }
    #[verifier::external_body] fn new(reader: RS) -> Result<Self, Self::Error> { unimplemented!() }
    #[verifier::external_body] fn with_header_row(&mut self, header_row: HeaderRow) -> &mut Self { unimplemented!() }
    #[verifier::external_body] fn vba_project(&mut self) -> Option<Result<Cow<'_, VbaProject>, Self::Error>> { unimplemented!() }
    #[verifier::external_body] fn metadata(&self) -> &Metadata { unimplemented!() }
    #[verifier::external_body] fn worksheet_range(&mut self, name: &str) -> Result<Range<Data>, Self::Error> { unimplemented!() }
    #[verifier::external_body] fn worksheets(&mut self) -> Vec<(String, Range<Data>)> { unimplemented!() }
    #[verifier::external_body] fn worksheet_formula(&mut self, name: &str) -> Result<Range<String>, Self::Error> { unimplemented!() }
}
// src/xlsx/mod.rs, src/xlsb/mod.rs: only Xlsx and Xlsb implement ReaderRef
impl<RS: Read + Seek> ReaderRef<RS> for Xlsx<RS> {
    open spec fn range_ref_rel<'a>(o: Self, name: Seq<char>, n: Self, r: Result<Range<DataRef<'a>>, Self::Error>) -> bool { rd_range_ref_rel(o, name, n, r) }
    #[verifier::external_body] fn worksheet_range_ref<'a>(&'a mut self, name: &str) -> Result<Range<DataRef<'a>>, Self::Error> { unimplemented!() }
}
impl<RS: Read + Seek> ReaderRef<RS> for Xlsb<RS> {
    open spec fn range_ref_rel<'a>(o: Self, name: Seq<char>, n: Self, r: Result<Range<DataRef<'a>>, Self::Error>) -> bool { rd_range_ref_rel(o, name, n, r) }
    #[verifier::external_body] fn worksheet_range_ref<'a>(&'a mut self, name: &str) -> Result<Range<DataRef<'a>>, Self::Error> { unimplemented!() }
}

// =====================================================================================================================
// Specification of the wrapper `Sheets` (C07: "a workbook opened through format auto-detection returns the same results as the
// format's own reader"): same Ok payload, Err(e) becomes Err(Error::<Format>(e)), the wrapped reader's post-state, same format.
// =====================================================================================================================
/// the result the wrapped Xls reader must have produced for the wrapper to return r: Ok(v) <- Ok(v), Err(Error::Xls(e)) <- Err(e);
/// any other error value cannot come from an Xls reader
pub open spec fn un_xls<T>(r: Result<T, Error>) -> Option<Result<T, crate::xls::XlsError>> {
    match r { Ok(v) => Some(Ok(v)), Err(Error::Xls(e)) => Some(Err(e)), _ => None }
}
pub open spec fn un_xlsx<T>(r: Result<T, Error>) -> Option<Result<T, crate::xlsx::XlsxError>> {
    match r { Ok(v) => Some(Ok(v)), Err(Error::Xlsx(e)) => Some(Err(e)), _ => None }
}
pub open spec fn un_xlsb<T>(r: Result<T, Error>) -> Option<Result<T, crate::xlsb::XlsbError>> {
    match r { Ok(v) => Some(Ok(v)), Err(Error::Xlsb(e)) => Some(Err(e)), _ => None }
}
pub open spec fn un_ods<T>(r: Result<T, Error>) -> Option<Result<T, crate::ods::OdsError>> {
    match r { Ok(v) => Some(Ok(v)), Err(Error::Ods(e)) => Some(Err(e)), _ => None }
}
/// the forward direction, in the words of the property: the error mapped into the format's variant, Ok untouched
pub open spec fn map_xls<T>(r: Result<T, crate::xls::XlsError>) -> Result<T, Error> { match r { Ok(v) => Ok(v), Err(e) => Err(Error::Xls(e)) } }
pub open spec fn map_xlsx<T>(r: Result<T, crate::xlsx::XlsxError>) -> Result<T, Error> { match r { Ok(v) => Ok(v), Err(e) => Err(Error::Xlsx(e)) } }
pub open spec fn map_xlsb<T>(r: Result<T, crate::xlsb::XlsbError>) -> Result<T, Error> { match r { Ok(v) => Ok(v), Err(e) => Err(Error::Xlsb(e)) } }
pub open spec fn map_ods<T>(r: Result<T, crate::ods::OdsError>) -> Result<T, Error> { match r { Ok(v) => Ok(v), Err(e) => Err(Error::Ods(e)) } }
/// `un_*(r) == Some(ir)` says exactly `r == map_*(ir)`
pub proof fn lemma_un_is_inverse_of_map<T>(r: Result<T, Error>)
    ensures
        forall|ir: Result<T, crate::xls::XlsError>| un_xls(r) == Some(ir) <==> r == #[trigger] map_xls(ir),
        forall|ir: Result<T, crate::xlsx::XlsxError>| un_xlsx(r) == Some(ir) <==> r == #[trigger] map_xlsx(ir),
        forall|ir: Result<T, crate::xlsb::XlsbError>| un_xlsb(r) == Some(ir) <==> r == #[trigger] map_xlsb(ir),
        forall|ir: Result<T, crate::ods::OdsError>| un_ods(r) == Some(ir) <==> r == #[trigger] map_ods(ir),
{}

/// the wrapper never changes the format
pub open spec fn same_format<RS>(o: Sheets<RS>, n: Sheets<RS>) -> bool {
    match o { Sheets::Xls(_) => n is Xls, Sheets::Xlsx(_) => n is Xlsx, Sheets::Xlsb(_) => n is Xlsb, Sheets::Ods(_) => n is Ods }
}
/// an error returned through the wrapper carries the wrapped reader's format
pub open spec fn error_of_format<RS>(e: Error, o: Sheets<RS>) -> bool {
    match o { Sheets::Xls(_) => e is Xls, Sheets::Xlsx(_) => e is Xlsx, Sheets::Xlsb(_) => e is Xlsb, Sheets::Ods(_) => e is Ods }
}
pub open spec fn un_vba<'a, T, E>(r: Option<Result<T, Error>>, un: spec_fn(Result<T, Error>) -> Option<Result<T, E>>) -> Option<Option<Result<T, E>>> {
    match r { None => Some(None), Some(x) => match un(x) { Some(ix) => Some(Some(ix)), None => None } }
}

//@@ impl src/auto.rs "Reader<RS> for Sheets<RS>"
//@@ item src/auto.rs impl_type "Reader<RS> for Sheets<RS>::type Error"
    open spec fn md(&self) -> Metadata {
        match *self { Sheets::Xls(e) => e.md(), Sheets::Xlsx(e) => e.md(), Sheets::Xlsb(e) => e.md(), Sheets::Ods(e) => e.md() }
    }
    /// `Sheets::new` always refuses ("Sheets must be created from a Path")
    open spec fn new_rel(reader: RS, r: Result<Self, Self::Error>) -> bool { r is Err && r->Err_0 is Msg }
    open spec fn header_rel(o: Self, hr: HeaderRow, n: Self) -> bool {
        match o {
            Sheets::Xls(e) => n is Xls && <Xls<RS> as Reader<RS>>::header_rel(e, hr, n->Xls_0),
            Sheets::Xlsx(e) => n is Xlsx && <Xlsx<RS> as Reader<RS>>::header_rel(e, hr, n->Xlsx_0),
            Sheets::Xlsb(e) => n is Xlsb && <Xlsb<RS> as Reader<RS>>::header_rel(e, hr, n->Xlsb_0),
            Sheets::Ods(e) => n is Ods && <Ods<RS> as Reader<RS>>::header_rel(e, hr, n->Ods_0),
        }
    }
    open spec fn vba_rel<'a>(o: Self, n: Self, r: Option<Result<Cow<'a, VbaProject>, Self::Error>>) -> bool {
        match o {
            Sheets::Xls(e) => n is Xls && match r {
                None => <Xls<RS> as Reader<RS>>::vba_rel(e, n->Xls_0, None),
                Some(x) => un_xls(x) is Some && <Xls<RS> as Reader<RS>>::vba_rel(e, n->Xls_0, Some(un_xls(x)->Some_0)) },
            Sheets::Xlsx(e) => n is Xlsx && match r {
                None => <Xlsx<RS> as Reader<RS>>::vba_rel(e, n->Xlsx_0, None),
                Some(x) => un_xlsx(x) is Some && <Xlsx<RS> as Reader<RS>>::vba_rel(e, n->Xlsx_0, Some(un_xlsx(x)->Some_0)) },
            Sheets::Xlsb(e) => n is Xlsb && match r {
                None => <Xlsb<RS> as Reader<RS>>::vba_rel(e, n->Xlsb_0, None),
                Some(x) => un_xlsb(x) is Some && <Xlsb<RS> as Reader<RS>>::vba_rel(e, n->Xlsb_0, Some(un_xlsb(x)->Some_0)) },
            Sheets::Ods(e) => n is Ods && match r {
                None => <Ods<RS> as Reader<RS>>::vba_rel(e, n->Ods_0, None),
                Some(x) => un_ods(x) is Some && <Ods<RS> as Reader<RS>>::vba_rel(e, n->Ods_0, Some(un_ods(x)->Some_0)) },
        }
    }
    open spec fn range_rel(o: Self, name: Seq<char>, n: Self, r: Result<Range<Data>, Self::Error>) -> bool {
        match o {
            Sheets::Xls(e) => n is Xls && un_xls(r) is Some && <Xls<RS> as Reader<RS>>::range_rel(e, name, n->Xls_0, un_xls(r)->Some_0),
            Sheets::Xlsx(e) => n is Xlsx && un_xlsx(r) is Some && <Xlsx<RS> as Reader<RS>>::range_rel(e, name, n->Xlsx_0, un_xlsx(r)->Some_0),
            Sheets::Xlsb(e) => n is Xlsb && un_xlsb(r) is Some && <Xlsb<RS> as Reader<RS>>::range_rel(e, name, n->Xlsb_0, un_xlsb(r)->Some_0),
            Sheets::Ods(e) => n is Ods && un_ods(r) is Some && <Ods<RS> as Reader<RS>>::range_rel(e, name, n->Ods_0, un_ods(r)->Some_0),
        }
    }
    open spec fn formula_rel(o: Self, name: Seq<char>, n: Self, r: Result<Range<String>, Self::Error>) -> bool {
        match o {
            Sheets::Xls(e) => n is Xls && un_xls(r) is Some && <Xls<RS> as Reader<RS>>::formula_rel(e, name, n->Xls_0, un_xls(r)->Some_0),
            Sheets::Xlsx(e) => n is Xlsx && un_xlsx(r) is Some && <Xlsx<RS> as Reader<RS>>::formula_rel(e, name, n->Xlsx_0, un_xlsx(r)->Some_0),
            Sheets::Xlsb(e) => n is Xlsb && un_xlsb(r) is Some && <Xlsb<RS> as Reader<RS>>::formula_rel(e, name, n->Xlsb_0, un_xlsb(r)->Some_0),
            Sheets::Ods(e) => n is Ods && un_ods(r) is Some && <Ods<RS> as Reader<RS>>::formula_rel(e, name, n->Ods_0, un_ods(r)->Some_0),
        }
    }
    open spec fn worksheets_rel(o: Self, n: Self, r: Vec<(String, Range<Data>)>) -> bool {
        match o {
            Sheets::Xls(e) => n is Xls && <Xls<RS> as Reader<RS>>::worksheets_rel(e, n->Xls_0, r),
            Sheets::Xlsx(e) => n is Xlsx && <Xlsx<RS> as Reader<RS>>::worksheets_rel(e, n->Xlsx_0, r),
            Sheets::Xlsb(e) => n is Xlsb && <Xlsb<RS> as Reader<RS>>::worksheets_rel(e, n->Xlsb_0, r),
            Sheets::Ods(e) => n is Ods && <Ods<RS> as Reader<RS>>::worksheets_rel(e, n->Ods_0, r),
        }
    }
//@@ fn src/auto.rs "Reader<RS> for Sheets<RS>::new" props=C07 ret=r
//@@ sig
        ensures
            //# C07.auto_new_refuses
            r is Err && r->Err_0 is Msg,
//@@ end
//@@ fn src/auto.rs "Reader<RS> for Sheets<RS>::with_header_row" props=C07 ret=r
//@@ sig
        ensures
            //# C07.auto_keeps_format
            same_format(*old(self), *r),
            //# C07.auto_forwards_with_header_row
            Self::header_rel(*old(self), header_row, *r),
            //# C07.auto_with_header_row_returns_self
            *final(r) == *final(self),
//@@ end
//@@ fn src/auto.rs "Reader<RS> for Sheets<RS>::vba_project" props=C07 entry ret=r r12
//@@ sig
        ensures
            //# C07.auto_keeps_format
            same_format(*old(self), *final(self)),
            //# C07.auto_delegates_vba_project
            Self::vba_rel(*old(self), *final(self), r),
            //# C07.auto_error_carries_format
            r is Some && r->Some_0 is Err ==> error_of_format(r->Some_0->Err_0, *old(self)),
//@@ closure 0
    -> (res: Result<Cow<'_, VbaProject>, Error>) ensures
        //# C07.auto_vba_error_wrapped_xls
        res == map_xls(vba)
//@@ closure 1
    -> (res: Result<Cow<'_, VbaProject>, Error>) ensures
        //# C07.auto_vba_error_wrapped_xlsx
        res == map_xlsx(vba)
//@@ closure 2
    -> (res: Result<Cow<'_, VbaProject>, Error>) ensures
        //# C07.auto_vba_error_wrapped_xlsb
        res == map_xlsb(vba)
//@@ closure 3
    -> (res: Result<Cow<'_, VbaProject>, Error>) ensures
        //# C07.auto_vba_error_wrapped_ods
        res == map_ods(vba)
//@@ end
//@@ fn src/auto.rs "Reader<RS> for Sheets<RS>::metadata" props=C16,C07 ret=r
//@@ sig
        ensures
            //# C16,C07.auto_metadata_is_inner_metadata
            *r == self.md(),
//@@ end
//@@ fn src/auto.rs "Reader<RS> for Sheets<RS>::worksheet_range" props=C07 entry ret=r r12
//@@ sig
        ensures
            //# C07.auto_keeps_format
            same_format(*old(self), *final(self)),
            //# C07.auto_delegates_worksheet_range
            Self::range_rel(*old(self), name@, *final(self), r),
            //# C07.auto_error_carries_format
            r is Err ==> error_of_format(r->Err_0, *old(self)),
//@@ end
//@@ fn src/auto.rs "Reader<RS> for Sheets<RS>::worksheet_formula" props=C07 entry ret=r r12
//@@ sig
        ensures
            //# C07.auto_keeps_format
            same_format(*old(self), *final(self)),
            //# C07.auto_delegates_worksheet_formula
            Self::formula_rel(*old(self), name@, *final(self), r),
            //# C07.auto_error_carries_format
            r is Err ==> error_of_format(r->Err_0, *old(self)),
//@@ end
//@@ fn src/auto.rs "Reader<RS> for Sheets<RS>::worksheets" props=C07 entry ret=r
//@@ sig
        ensures
            //# C07.auto_keeps_format
            same_format(*old(self), *final(self)),
            //# C07.auto_delegates_worksheets
            Self::worksheets_rel(*old(self), *final(self), r),
//@@ end
//@@ endimpl

//@@ impl src/auto.rs "ReaderRef<RS> for Sheets<RS>"
    /// Xlsx / Xlsb: the wrapped reader's call with the error re-wrapped. Xls / Ods do not implement ReaderRef ("implemented only for
    /// Xlsb and Xlsx"): the property then only asks for a regular outcome (C06: Ok or Err, no panic) -- nothing more is required here.
    open spec fn range_ref_rel<'a>(o: Self, name: Seq<char>, n: Self, r: Result<Range<DataRef<'a>>, Self::Error>) -> bool {
        match o {
            Sheets::Xlsx(e) => n is Xlsx && un_xlsx(r) is Some && <Xlsx<RS> as ReaderRef<RS>>::range_ref_rel(e, name, n->Xlsx_0, un_xlsx(r)->Some_0),
            Sheets::Xlsb(e) => n is Xlsb && un_xlsb(r) is Some && <Xlsb<RS> as ReaderRef<RS>>::range_ref_rel(e, name, n->Xlsb_0, un_xlsb(r)->Some_0),
            Sheets::Xls(_) => true,
            Sheets::Ods(_) => true,
        }
    }
//@@ fn src/auto.rs "ReaderRef<RS> for Sheets<RS>::worksheet_range_ref" props=C07 entry ret=r r12
//@@ sig
        ensures
            //# C07.auto_delegates_worksheet_range_ref
            Self::range_ref_rel(*old(self), name@, *final(self), r),
            //# C07.auto_error_carries_format
            (*old(self) is Xlsx || *old(self) is Xlsb) && r is Err ==> error_of_format(r->Err_0, *old(self)),
//@@ end
//@@ endimpl

// =====================================================================================================================
// Format sniffing by trial opening (C07)
// =====================================================================================================================
/// c is the data handed in, or one of its clones (whatever `RS::clone` promises)
pub open spec fn src_of<RS: Clone>(c: RS, data: RS) -> bool { c == data || call_ensures(RS::clone, (&data,), c) }
/// a trial `R::new(c)` on (a clone of) the data ended with r
pub open spec fn tried<R: Reader<RS>, RS: Read + Seek + Clone>(data: RS, r: Result<R, R::Error>) -> bool {
    exists|c: RS| src_of(c, data) && #[trigger] R::new_rel(c, r)
}
/// a trial `R::new(c)` on (a clone of) the data ended with an error
pub open spec fn failed<R: Reader<RS>, RS: Read + Seek + Clone>(data: RS) -> bool {
    exists|c: RS, r: Result<R, R::Error>| src_of(c, data) && #[trigger] R::new_rel(c, r) && r is Err
}

//@@ fn src/auto.rs open_workbook_auto_from_rs props=C07 entry ret=r
//@@ sig
    ensures
        //# C07.auto_xls_is_tried_first
        r is Ok && r->Ok_0 is Xls ==> tried::<Xls<RS>, RS>(data, Ok(r->Ok_0->Xls_0)),
        //# C07.auto_xlsx_only_after_xls_failed
        r is Ok && r->Ok_0 is Xlsx ==> failed::<Xls<RS>, RS>(data) && tried::<Xlsx<RS>, RS>(data, Ok(r->Ok_0->Xlsx_0)),
        //# C07.auto_xlsb_only_after_xls_xlsx_failed
        r is Ok && r->Ok_0 is Xlsb ==> failed::<Xls<RS>, RS>(data) && failed::<Xlsx<RS>, RS>(data)
            && tried::<Xlsb<RS>, RS>(data, Ok(r->Ok_0->Xlsb_0)),
        //# C07.auto_ods_only_after_xls_xlsx_xlsb_failed
        r is Ok && r->Ok_0 is Ods ==> failed::<Xls<RS>, RS>(data) && failed::<Xlsx<RS>, RS>(data) && failed::<Xlsb<RS>, RS>(data)
            && tried::<Ods<RS>, RS>(data, Ok(r->Ok_0->Ods_0)),
        //# C07.auto_error_only_if_no_format_opens
        r is Err ==> failed::<Xls<RS>, RS>(data) && failed::<Xlsx<RS>, RS>(data) && failed::<Xlsb<RS>, RS>(data) && failed::<Ods<RS>, RS>(data),
        //# C07.auto_error_is_msg
        r is Err ==> r->Err_0 is Msg,
//@@ end

// =====================================================================================================================
// Sanity of the specification and composition of the contracts
// =====================================================================================================================
//@@ props C07
/// the delegation relation read forwards, in the words of the property: a step of the format's own reader gives the wrapper step with
/// the same Ok payload / the error wrapped into the format's variant
proof fn lemma_inner_step_gives_wrapper_step<RS: Read + Seek>(e: Xls<RS>, e2: Xls<RS>, name: Seq<char>, ir: Result<Range<Data>, crate::xls::XlsError>)
    requires <Xls<RS> as Reader<RS>>::range_rel(e, name, e2, ir),
    ensures
        //# C07.auto_spec_inner_step_gives_wrapper_step
        <Sheets<RS> as Reader<RS>>::range_rel(Sheets::Xls(e), name, Sheets::Xls(e2), map_xls(ir)),
{}
/// ... and backwards: every wrapper step is a step of the format's own reader with `r == map(ir)`, on the same format
proof fn lemma_wrapper_step_is_inner_step<RS: Read + Seek>(o: Sheets<RS>, name: Seq<char>, n: Sheets<RS>, r: Result<Range<Data>, Error>)
    requires <Sheets<RS> as Reader<RS>>::range_rel(o, name, n, r),
    ensures
        //# C07.auto_spec_wrapper_step_is_inner_step
        o is Xls ==> n is Xls && exists|ir: Result<Range<Data>, crate::xls::XlsError>|
            #[trigger] <Xls<RS> as Reader<RS>>::range_rel(o->Xls_0, name, n->Xls_0, ir) && r == map_xls(ir),
        o is Xlsx ==> n is Xlsx && exists|ir: Result<Range<Data>, crate::xlsx::XlsxError>|
            #[trigger] <Xlsx<RS> as Reader<RS>>::range_rel(o->Xlsx_0, name, n->Xlsx_0, ir) && r == map_xlsx(ir),
        o is Xlsb ==> n is Xlsb && exists|ir: Result<Range<Data>, crate::xlsb::XlsbError>|
            #[trigger] <Xlsb<RS> as Reader<RS>>::range_rel(o->Xlsb_0, name, n->Xlsb_0, ir) && r == map_xlsb(ir),
        o is Ods ==> n is Ods && exists|ir: Result<Range<Data>, crate::ods::OdsError>|
            #[trigger] <Ods<RS> as Reader<RS>>::range_rel(o->Ods_0, name, n->Ods_0, ir) && r == map_ods(ir),
{
    match o {
        Sheets::Xls(e) => { let ir = un_xls(r)->Some_0; assert(<Xls<RS> as Reader<RS>>::range_rel(e, name, n->Xls_0, ir) && r == map_xls(ir)); }
        Sheets::Xlsx(e) => { let ir = un_xlsx(r)->Some_0; assert(<Xlsx<RS> as Reader<RS>>::range_rel(e, name, n->Xlsx_0, ir) && r == map_xlsx(ir)); }
        Sheets::Xlsb(e) => { let ir = un_xlsb(r)->Some_0; assert(<Xlsb<RS> as Reader<RS>>::range_rel(e, name, n->Xlsb_0, ir) && r == map_xlsb(ir)); }
        Sheets::Ods(e) => { let ir = un_ods(r)->Some_0; assert(<Ods<RS> as Reader<RS>>::range_rel(e, name, n->Ods_0, ir) && r == map_ods(ir)); }
    }
}

/// Composition (callers see only contracts): on an auto-detected xlsx workbook `worksheet_range_at(n)` is one `Xlsx::worksheet_range`
/// call with the n-th declared sheet name, error re-wrapped; beyond the last sheet it is None and nothing happens.  The default method's
/// contract was proved for every implementor, `Sheets` is one, and its relations unfold to the wrapped reader's.
fn compose_auto_range_at<RS: Read + Seek>(wb: &mut Sheets<RS>, n: usize) -> (r: Option<Result<Range<Data>, Error>>)
    ensures
        //# C07.auto_range_at_is_inner_range_of_nth_name
        *old(wb) is Xlsx && n < (old(wb)->Xlsx_0).md().sheet_seq().len() ==> r is Some && *final(wb) is Xlsx && un_xlsx(r->Some_0) is Some
            && <Xlsx<RS> as Reader<RS>>::range_rel(old(wb)->Xlsx_0, (old(wb)->Xlsx_0).md().sheet_seq()[n as int].name@, final(wb)->Xlsx_0, un_xlsx(r->Some_0)->Some_0),
        //# C07.auto_range_at_beyond_last_sheet
        *old(wb) is Xlsx && n >= (old(wb)->Xlsx_0).md().sheet_seq().len() ==> r is None && *final(wb) == *old(wb),
{
    wb.worksheet_range_at(n)
}
//@@ props C16
/// Composition: the sheet names of an auto-detected workbook are the wrapped reader's declared sheets, in order
fn compose_auto_sheet_names<RS: Read + Seek>(wb: &Sheets<RS>) -> (r: Vec<String>)
    ensures
        //# C16.auto_sheet_names_are_inner_sheets_in_order
        match *wb {
            Sheets::Xls(e) => names_in_order(r@, e.md().sheet_seq()),
            Sheets::Xlsx(e) => names_in_order(r@, e.md().sheet_seq()),
            Sheets::Xlsb(e) => names_in_order(r@, e.md().sheet_seq()),
            Sheets::Ods(e) => names_in_order(r@, e.md().sheet_seq()),
        },
{
    wb.sheet_names()
}
//@@ props C07,C16,C06

} // verus!
fn main() {}
