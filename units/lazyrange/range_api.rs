// range_api.rs -- the `Range` API as unit lazyrange consumes it: real items + spec functions + ASSUMED contracts.
// Spec function names and shapes are those of units/range/unit.rs (h, w, wf, nonempty, lo, hi, has, at, p, v, lawful, dflt,
// cell_at, lastw, is_bbox), where `Range::new`, `from_sparse`, `start`, `end`, `is_empty`, `empty`, `get_value` are PROVED
// against these very clauses on the real text. Here the heavy bodies are `external_body` (assumed), so that this unit only depends on
// the contract. Reconciliation = textual comparison of the clause text of the two units.

//@@ item src/lib.rs trait "trait CellType"
//@@ item src/lib.rs struct Cell
//@@ item src/lib.rs struct Range

pub open spec fn lawful<T: CellType>() -> bool {
    &&& forall|a: T, b: T| call_ensures(T::clone, (&a,), b) ==> a == b
    &&& forall|a: T, b: T| call_ensures(T::default, (), a) && call_ensures(T::default, (), b) ==> a == b
}
pub open spec fn dflt<T: CellType>() -> T { choose|d: T| call_ensures(T::default, (), d) }

impl<T: CellType> Range<T> {
    pub closed spec fn h(&self) -> int { self.end.0 - self.start.0 + 1 }
    pub closed spec fn w(&self) -> int { self.end.1 - self.start.1 + 1 }
    /// representation invariant
    pub closed spec fn wf(&self) -> bool {
        self.inner@.len() == 0 || (self.start.0 <= self.end.0 && self.start.1 <= self.end.1
            && self.inner@.len() == self.h() * self.w())
    }
    pub closed spec fn nonempty(&self) -> bool { self.inner@.len() > 0 }
    pub closed spec fn lo(&self) -> (u32, u32) { self.start }
    pub closed spec fn hi(&self) -> (u32, u32) { self.end }
    /// absolute position (r, c) lies inside the rectangle
    pub closed spec fn has(&self, r: int, c: int) -> bool {
        self.nonempty() && self.start.0 <= r <= self.end.0 && self.start.1 <= c <= self.end.1
    }
    /// abstract view: value at absolute position (r, c) (meaningful where has(r, c))
    pub closed spec fn at(&self, r: int, c: int) -> T {
        self.inner@[(r - self.start.0) * self.w() + (c - self.start.1)]
    }
    /// what `get_value((r, c))` yields with "absent positions counting as Empty" (Empty is T::default() for Data / DataRef)
    pub open spec fn val_at(&self, r: int, c: int) -> T {
        if self.has(r, c) { self.at(r, c) } else { dflt::<T>() }
    }
}

impl<T: CellType> Cell<T> {
    pub closed spec fn p(&self) -> (u32, u32) { self.pos }
    pub closed spec fn v(&self) -> T { self.val }
}

pub closed spec fn cell_at<T: CellType>(c: Cell<T>, r: int, co: int) -> bool { c.pos.0 == r && c.pos.1 == co }
/// index of the last of the first k cells that sits at (r, co); -1 if none
pub closed spec fn lastw<T: CellType>(cs: Seq<Cell<T>>, k: int, r: int, co: int) -> int
    decreases k
{
    if k <= 0 { -1 } else if cell_at(cs[k - 1], r, co) { k - 1 } else { lastw(cs, k - 1, r, co) }
}
/// (lo, hi) is the tight bounding box of the cell positions
pub closed spec fn is_bbox<T: CellType>(cs: Seq<Cell<T>>, lo: (u32, u32), hi: (u32, u32)) -> bool {
    &&& forall|i: int| 0 <= i < cs.len() ==> lo.0 <= (#[trigger] cs[i]).pos.0 <= hi.0 && lo.1 <= cs[i].pos.1 <= hi.1
    &&& exists|i: int| 0 <= i < cs.len() && (#[trigger] cs[i]).pos.0 == lo.0
    &&& exists|i: int| 0 <= i < cs.len() && (#[trigger] cs[i]).pos.0 == hi.0
    &&& exists|i: int| 0 <= i < cs.len() && (#[trigger] cs[i]).pos.1 == lo.1
    &&& exists|i: int| 0 <= i < cs.len() && (#[trigger] cs[i]).pos.1 == hi.1
}

proof fn lemma_lastw<T: CellType>(cs: Seq<Cell<T>>, k: int, r: int, co: int)
    requires 0 <= k <= cs.len(),
    ensures
        -1 <= lastw(cs, k, r, co) < k,
        lastw(cs, k, r, co) >= 0 ==> cell_at(cs[lastw(cs, k, r, co)], r, co),
        forall|j: int| lastw(cs, k, r, co) < j < k ==> !cell_at(#[trigger] cs[j], r, co),
    decreases k,
{
    if k > 0 { lemma_lastw(cs, k - 1, r, co); }
}

/// `r` is the range `from_sparse` builds from `cs` (cells in any order) -- the conjunction of the six C05.sparse_* clauses below (C05:
/// "empty iff no cells; else bounds == tight bounding box, at(p) == value of the last cell at p, default elsewhere")
pub open spec fn sparse_of<T: CellType>(r: Range<T>, cs: Seq<Cell<T>>) -> bool {
    &&& r.wf()
    &&& (r.nonempty() <==> cs.len() > 0)
    &&& (cs.len() > 0 ==> is_bbox(cs, r.lo(), r.hi()))
    &&& (forall|i: int, j: int| r.has(i, j) && lastw(cs, cs.len() as int, i, j) >= 0 ==> r.at(i, j) == cs[lastw(cs, cs.len() as int, i, j)].v())
    &&& (lawful::<T>() ==> forall|i: int, j: int| r.has(i, j) && lastw(cs, cs.len() as int, i, j) < 0 ==> r.at(i, j) == dflt::<T>())
    &&& (forall|k: int| 0 <= k < cs.len() ==> r.has((#[trigger] cs[k]).p().0 as int, cs[k].p().1 as int))
}

/// `r` is the window `src.range(s, e)` (C05: "bounds == (s, e); at(p) == src.at(p) where p in src, default elsewhere")
pub open spec fn window_of<T: CellType>(r: Range<T>, src: Range<T>, s: (u32, u32), e: (u32, u32)) -> bool {
    &&& r.wf()
    &&& r.nonempty() && r.lo() == s && r.hi() == e
    &&& (forall|i: int, j: int| r.has(i, j) && src.has(i, j) ==> r.at(i, j) == src.at(i, j))
    &&& (lawful::<T>() ==> forall|i: int, j: int| r.has(i, j) && !src.has(i, j) ==> r.at(i, j) == dflt::<T>())
}

// TRUSTED: expansion of `#[derive(Default)]` on `struct Range<T>` ((0, 0), (0, 0), Vec::new()); the derive itself is dropped by the
// extractor (Verus rejects derives on generic structs). Only the observable fact "the default range is empty and well-formed" is used.
impl<T: CellType> Default for Range<T> {
    fn default() -> (r: Self)
        ensures r.wf() && !r.nonempty(),
    {
        Range { start: (0, 0), end: (0, 0), inner: Vec::new() }
    }
}
// TRUSTED: `#[derive(Clone)]` on `struct Range<T>` is a field-wise clone; with a lawful `T::clone` the copy equals the original.
impl<T: Clone> Clone for Range<T> {
    #[verifier::external_body]
    fn clone(&self) -> (r: Self)
        ensures r == *self,
    {
        Range { start: self.start, end: self.end, inner: self.inner.clone() }
    }
}

//@@ impl src/lib.rs Cell
//@@ fn src/lib.rs Cell::new props=C05 ret=c
//@@ sig
    ensures
        //# C05.cell_new
        c.p() == position && c.v() == value,
//@@ end
//@@ endimpl

//@@ impl src/lib.rs Range
// ASSUMED here (external_body), PROVED in unit range under the same clause text: Range::new
//@@ fn src/lib.rs Range::new props=C05 ret=r external_body
//@@ sig
    requires
        //# C05.new_bounds_ordered
        start.0 <= end.0, start.1 <= end.1,
    ensures
        r.wf(),
        r.nonempty() && r.lo() == start && r.hi() == end,
        lawful::<T>() ==> forall|i: int, j: int| r.has(i, j) ==> r.at(i, j) == dflt::<T>(),
//@@ end
//@@ fn src/lib.rs Range::empty props=C05 ret=r
//@@ sig
    ensures
        //# C05.empty_wf
        r.wf(),
        //# C05.empty_is_empty
        !r.nonempty(),
//@@ end
//@@ fn src/lib.rs Range::is_empty props=C05 ret=r
//@@ sig
    ensures
        //# C05.is_empty
        r == !self.nonempty(),
//@@ end
//@@ fn src/lib.rs Range::start props=C05 ret=r
//@@ sig
    ensures
        //# C05.start
        r == (if self.nonempty() { Some(self.lo()) } else { None }),
//@@ end
//@@ fn src/lib.rs Range::end props=C05 ret=r
//@@ sig
    ensures
        //# C05.end
        r == (if self.nonempty() { Some(self.hi()) } else { None }),
//@@ end
// ASSUMED here (external_body), PROVED in unit range under the same clause text: Range::width (needed only so that `range` compiles)
//@@ fn src/lib.rs Range::width props=C05 ret=r external_body
//@@ sig
    requires self.wf(),
    ensures
        //# C05.width  (unit range proves `r == sw()`: the width of a non-empty range, 0 for the empty one)
        r == (if self.nonempty() { self.w() } else { 0 }),
//@@ end
// ASSUMED here (external_body), PROVED in unit range under the clause C05.height: Range::height (so that glue code which asks a range for
// its number of rows -- e.g. a header-row guard written with `height()` -- is decided instead of being rejected as an unknown method)
//@@ fn src/lib.rs Range::height props=C05 ret=r external_body
//@@ sig
    requires self.wf(),
    ensures
        //# C05.height
        r == (if self.nonempty() { self.h() } else { 0 }),
//@@ end
// ASSUMED here (external_body), PROVED in unit range (clauses C05.sparse_*): Range::from_sparse. No precondition: the cells may come in
// any order (row and column bounds are the minimum / maximum over all cells).
//@@ fn src/lib.rs Range::from_sparse props=C05 ret=r external_body
//@@ sig
    ensures
        sparse_of(r, cells@),
//@@ end
// ASSUMED (external_body; iterator chain chunks/take/skip/zip/clone_from_slice is outside Verus; DESIGN C05: "assumed in Verus, checked
// bounded by Kani"): Range::range. Documented precondition: that of Range::new ("Panics if start.0 > end.0 or start.1 > end.1").
// Same requires / ensures as unit range (C05.range_wf / range_bounds / range_values, bundled in window_of). The source may be empty (then
// `src.has` is false everywhere and the window is all default) -- consistent with the fix `if self.is_empty() { return other; }`.
//@@ fn src/lib.rs Range::range props=C05 ret=r external_body
//@@ sig
    requires
        self.wf(),
        //# C08,C06.range_window_rows_ordered
        start.0 <= end.0,
        //# C08,C06.range_window_cols_ordered
        start.1 <= end.1,
    ensures
        window_of(r, *self, start, end),
//@@ end
//@@ endimpl
