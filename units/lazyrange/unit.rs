//@@ unit props=C08,C07,C01,C03,C06
// Unit lazyrange: from a stream of cells to the returned range in the four readers, and the header-row option.
#![allow(unused_imports, dead_code, unused_variables, unused_mut, unused_assignments, unexpected_cfgs)]
use vstd::prelude::*;
use std::cmp::{max, min};
use std::io::{Read, Seek};
use std::marker::PhantomData;

verus! {

// ---- stand-ins for foreign types (opaque plumbing; never inspected by the verified code)
pub mod quick_xml {
    pub struct Error;
    pub mod events { pub mod attributes { pub struct AttrError; } }
    pub mod encoding { pub struct EncodingError; }
}
pub mod zip { pub mod result { pub struct ZipError; } }
pub mod vba { pub struct VbaError; }
pub mod cfb { pub struct CfbError; }
/// stand-in for zip::read::ZipArchive<RS> (field `zip` of Xlsx / Xlsb; only its identity matters: frame conditions)
pub struct ZipArchive<RS> { pub reader: RS }
/// stand-in for crate::vba::VbaProject (field `vba` of Xls; frame only)
pub struct VbaProject { _opaque: u8 }
#[verifier::external_type_specification] #[verifier::external_body] pub struct ExIoError(std::io::Error);
#[verifier::external_type_specification] #[verifier::external_body] pub struct ExParseFloatError(std::num::ParseFloatError);
#[verifier::external_type_specification] #[verifier::external_body] pub struct ExParseIntError(std::num::ParseIntError);
#[verifier::external_trait_specification] pub trait ExRead { type ExternalTraitSpecificationFor: std::io::Read; }
#[verifier::external_trait_specification] pub trait ExSeek { type ExternalTraitSpecificationFor: std::io::Seek; }

//@@ item src/xlsx/mod.rs enum XlsxError
//@@ item src/lib.rs enum CellErrorType
//@@ item src/lib.rs struct Dimensions keep_attrs
//@@ item src/lib.rs enum SheetType
//@@ item src/lib.rs enum SheetVisible
//@@ item src/lib.rs struct Sheet
//@@ item src/lib.rs struct Metadata
//@@ item src/lib.rs enum HeaderRow keep_attrs
//@@ item src/datatype.rs enum ExcelDateTimeType
//@@ item src/datatype.rs struct ExcelDateTime
//@@ item src/datatype.rs enum Data
//@@ item src/datatype.rs enum DataRef
//@@ item src/formats.rs enum CellFormat
//@@ item src/xlsx/mod.rs type Tables
//@@ item src/xlsx/mod.rs struct Xlsx cfg_off=picture
//@@ item src/xlsx/mod.rs struct XlsxOptions

//@@ include lazyrange/range_api.rs

} // verus!
fn main() {}
