//@@ unit props=C08,C07,C01,C03,C06,C02,C04
// Unit lazyrange: from a stream of cells to the returned range in the four readers, and the header-row option.
//
// Real text under contract (verbatim): Xlsx/Xlsb `worksheet_range_ref` (filter + pad loops), Xlsx/Xlsb `worksheet_range` (cell-by-cell
// conversion), Xls/Ods `worksheet_range` (window of the stored range), `with_header_row` of the four readers, `From<DataRef> for Data`,
// `Dimensions::len`, `Range::{empty,is_empty,start,end}`, `Cell::new`.  Assumed (see `// TRUSTED:` / range_api.rs): the contracts of
// `Range::{new,from_sparse,range,width}` (proved / to be proved in unit range), the cell readers as ghost cell streams,
// `worksheet_cells_reader`, derives on Data/DataRef/Range, String-keyed BTreeMap lookup, `String: From<&str>`, `Option::map_or`, `to_owned`.
//
// Structure of the argument for C08:
//   lazy formats : worksheet_range_ref ensures  result == from_sparse(lazy_cells(option, stream))      [loops, per format]
//                  header_row_lemma / default_row_lemma: what that range shows, in the words of the property  [proved once]
//   eager formats: worksheet_range ensures      result == window_of(stored range, (n, start.1), end)    [per format]
//                  eager_header_row_lemma: the same statements for the window
//   option       : with_header_row sets the option and nothing else; option_history_*: it can be changed back
//
// Rules used beyond the README: R-mono (see VerifRs), reduced stand-in traits `Reader` / `ReaderRef` (+ a spec-only `inv`).
#![allow(unused_imports, dead_code, unused_variables, unused_mut, unused_assignments, unexpected_cfgs)]
use vstd::prelude::*;
use std::cmp::{max, min};
use std::io::{Read, Seek};
use std::marker::PhantomData;
use std::collections::BTreeMap;
use vstd::std_specs::btree::{maps_borrowed_key_to_value, contains_borrowed_key, borrowed_key_ordering_matches};

verus! {

// ---- stand-ins for foreign types (opaque plumbing; never inspected by the verified code)
pub mod quick_xml {
    pub struct Error;
    pub mod events { pub mod attributes { pub struct AttrError; } }
    pub mod encoding { pub struct EncodingError; }
}
pub mod zip { pub mod result { pub struct ZipError; } }
pub mod vba { pub struct VbaError; }
pub mod cfb { pub struct CfbError; }
/// stand-in for zip::read::ZipArchive<RS> (field `zip` of Xlsx / Xlsb; only its identity matters: frame conditions)
pub struct ZipArchive<RS> { pub reader: RS }
/// stand-in for crate::vba::VbaProject (field `vba` of Xls; frame only)
pub struct VbaProject { _opaque: u8 }
#[verifier::external_type_specification] #[verifier::external_body] pub struct ExIoError(std::io::Error);
#[verifier::external_type_specification] #[verifier::external_body] pub struct ExParseFloatError(std::num::ParseFloatError);
#[verifier::external_type_specification] #[verifier::external_body] pub struct ExParseIntError(std::num::ParseIntError);
#[verifier::external_trait_specification] pub trait ExRead { type ExternalTraitSpecificationFor: std::io::Read; }
#[verifier::external_trait_specification] pub trait ExSeek { type ExternalTraitSpecificationFor: std::io::Seek; }

//@@ item src/xlsx/mod.rs enum XlsxError
//@@ item src/lib.rs enum CellErrorType keep_attrs
//@@ item src/lib.rs struct Dimensions keep_attrs
//@@ item src/lib.rs enum SheetType
//@@ item src/lib.rs enum SheetVisible
//@@ item src/lib.rs struct Sheet
//@@ item src/lib.rs struct Metadata
//@@ item src/lib.rs enum HeaderRow keep_attrs
//@@ item src/datatype.rs enum ExcelDateTimeType keep_attrs
//@@ item src/datatype.rs struct ExcelDateTime keep_attrs
//@@ item src/datatype.rs enum Data keep_attrs
//@@ item src/datatype.rs enum DataRef keep_attrs
//@@ item src/formats.rs enum CellFormat
//@@ item src/xlsx/mod.rs type Tables
//@@ item src/xlsx/mod.rs struct Xlsx cfg_off=picture
//@@ item src/xlsx/mod.rs struct XlsxOptions
//@@ item src/xlsb/mod.rs enum XlsbError
//@@ item src/xlsb/mod.rs struct XlsbOptions
//@@ item src/xlsb/mod.rs struct Xlsb cfg_off=picture
//@@ item src/xls.rs enum XlsError cfg_off=picture
//@@ item src/xls.rs struct XlsOptions
//@@ item src/xls.rs struct SheetData
//@@ item src/xls.rs struct Xls cfg_off=picture
//@@ item src/ods.rs enum OdsError
//@@ item src/ods.rs struct OdsOptions
//@@ item src/ods.rs struct Ods cfg_off=picture
impl CellType for String {}
#[verifier::external_type_specification] #[verifier::external_body] pub struct ExParseBoolError(std::str::ParseBoolError);

// TRUSTED: `#[derive(Clone)]` / `#[derive(Default)]` + `#[default] Empty` on Data and DataRef: the clone equals the original, the default
// value is `Empty` (Verus adds no specification to these derives by itself: "autoderive Clone impl does not take the form Verus expects")
// ASSUMED (std): std::mem::take moves the old value out; what is left behind (`T::default()`) is left unconstrained (only weakens the
// assumption). Lets glue that parks an option and must put it back be checked on every exit instead of being rejected.
pub assume_specification<T: core::default::Default>[ core::mem::take::<T> ](dest: &mut T) -> (r: T)
    ensures r == *old(dest);
pub assume_specification<'a>[ <DataRef<'a> as Default>::default ]() -> (r: DataRef<'a>) ensures r == DataRef::<'a>::Empty;
pub assume_specification[ <Data as Default>::default ]() -> (r: Data) ensures r == Data::Empty;
impl CellType for Data {}
impl<'a> CellType for DataRef<'a> {}
//@@ include lazyrange/range_api.rs

// TRUSTED: `#[derive(Clone)]` on Data / DataRef yields a value equal to the original (Verus verifies the derived impls but attaches no
// specification to them), and `default()` does return (Verus only gives call_ensures ==> ensures, never the existence of a result);
// together with the Default specification above this is `lawful` / `dflt` of unit range for the two cell types.
#[verifier::external_body]
pub proof fn axiom_cell_type_derives<'a>()
    ensures
        forall|a: DataRef<'a>, b: DataRef<'a>| call_ensures(<DataRef<'a> as Clone>::clone, (&a,), b) ==> a == b,
        forall|a: Data, b: Data| call_ensures(<Data as Clone>::clone, (&a,), b) ==> a == b,
        call_ensures(<DataRef<'a> as Default>::default, (), DataRef::<'a>::Empty),
        call_ensures(<Data as Default>::default, (), Data::Empty),
{}

pub proof fn lemma_lawful_cells<'a>()
    ensures
        lawful::<DataRef<'a>>(), dflt::<DataRef<'a>>() == DataRef::<'a>::Empty,
        lawful::<Data>(), dflt::<Data>() == Data::Empty,
{
    axiom_cell_type_derives();
}


// =====================================================================================================================
// Specification (mathematics, from properties C08 / C01 / C03): which cells of the stream make the range
// =====================================================================================================================
/// a cell counts for the header-row-n read: it is non-empty (Empty is the default value of the cell type) and not above row n
pub closed spec fn wanted<T: CellType>(c: Cell<T>, n: int) -> bool { c.val != dflt::<T>() && c.pos.0 >= n }
/// filter(wanted(_, n), cs), order preserved
pub closed spec fn keep<T: CellType>(cs: Seq<Cell<T>>, n: int) -> Seq<Cell<T>>
    decreases cs.len()
{
    if cs.len() == 0 { Seq::empty() } else {
        let k = keep(cs.drop_last(), n);
        if wanted(cs.last(), n) { k.push(cs.last()) } else { k }
    }
}
/// pad_n: an Empty cell at (n, column of the first kept cell) is put in front iff the first kept cell is not in row n
pub closed spec fn pad<T: CellType>(ks: Seq<Cell<T>>, n: u32) -> Seq<Cell<T>> {
    if ks.len() > 0 && ks[0].pos.0 != n { seq![Cell { pos: (n, ks[0].pos.1), val: dflt::<T>() }] + ks } else { ks }
}
/// the cells handed to from_sparse, per option value
pub closed spec fn lazy_cells<T: CellType>(hr: HeaderRow, cs: Seq<Cell<T>>) -> Seq<Cell<T>> {
    match hr {
        HeaderRow::FirstNonEmptyRow => keep(cs, 0),
        HeaderRow::Row(n) => pad(keep(cs, n as int), n),
    }
}
/// value of the last cell of cs at (r, c), if any
pub closed spec fn last_val<T: CellType>(cs: Seq<Cell<T>>, r: int, c: int) -> Option<T>
    decreases cs.len()
{
    if cs.len() == 0 { None } else if cell_at(cs.last(), r, c) { Some(cs.last().val) } else { last_val(cs.drop_last(), r, c) }
}
pub open spec fn or_dflt<T: CellType>(o: Option<T>) -> T { match o { Some(v) => v, None => dflt::<T>() } }

proof fn lemma_lastw_last_val<T: CellType>(cs: Seq<Cell<T>>, k: int, r: int, c: int)
    requires 0 <= k <= cs.len(),
    ensures
        lastw(cs, k, r, c) >= 0 ==> last_val(cs.take(k), r, c) == Some(cs[lastw(cs, k, r, c)].val),
        lastw(cs, k, r, c) < 0 ==> last_val(cs.take(k), r, c) is None,
    decreases k,
{
    lemma_lastw(cs, k, r, c);
    if k > 0 {
        lemma_lastw_last_val(cs, k - 1, r, c);
        assert(cs.take(k).drop_last() =~= cs.take(k - 1));
        assert(cs.take(k).last() == cs[k - 1]);
    }
}
proof fn lemma_last_val_some<T: CellType>(cs: Seq<Cell<T>>, r: int, c: int)
    ensures
        last_val(cs, r, c) is Some <==> exists|k: int| 0 <= k < cs.len() && cell_at(#[trigger] cs[k], r, c),
    decreases cs.len(),
{
    if cs.len() > 0 {
        let d = cs.drop_last();
        lemma_last_val_some(d, r, c);
        if cell_at(cs.last(), r, c) {
            assert(cell_at(cs[cs.len() - 1], r, c));
        } else {
            if last_val(d, r, c) is Some {
                let k = choose|k: int| 0 <= k < d.len() && cell_at(#[trigger] d[k], r, c);
                assert(cell_at(cs[k], r, c));
            }
            if exists|k: int| 0 <= k < cs.len() && cell_at(#[trigger] cs[k], r, c) {
                let k = choose|k: int| 0 <= k < cs.len() && cell_at(#[trigger] cs[k], r, c);
                assert(k < cs.len() - 1);
                assert(cell_at(d[k], r, c));
            }
        }
    }
}
proof fn lemma_last_val_prepend<T: CellType>(a: Cell<T>, s: Seq<Cell<T>>, r: int, c: int)
    ensures
        last_val(seq![a] + s, r, c) == (match last_val(s, r, c) { Some(v) => Some(v), None => if cell_at(a, r, c) { Some(a.val) } else { None } }),
    decreases s.len(),
{
    let t = seq![a] + s;
    if s.len() == 0 {
        assert(t =~= seq![a]);
        assert(t.last() == a);
        assert(t.drop_last() =~= Seq::<Cell<T>>::empty());
        assert(last_val(t.drop_last(), r, c) is None);
    } else {
        assert(t.last() == s.last());
        assert(t.drop_last() =~= seq![a] + s.drop_last());
        lemma_last_val_prepend(a, s.drop_last(), r, c);
    }
}
/// the value a from_sparse range shows at an absolute position, absent positions counting as Empty
proof fn lemma_sparse_val_at<T: CellType>(rg: Range<T>, cs: Seq<Cell<T>>, r: int, c: int)
    requires sparse_of(rg, cs), lawful::<T>(),
    ensures
        rg.val_at(r, c) == or_dflt(last_val(cs, r, c)),
        last_val(cs, r, c) is Some ==> rg.has(r, c),
{
    lemma_lastw_last_val(cs, cs.len() as int, r, c);
    assert(cs.take(cs.len() as int) =~= cs);
    lemma_lastw(cs, cs.len() as int, r, c);
    let lw = lastw(cs, cs.len() as int, r, c);
    if lw >= 0 {
        assert(cell_at(cs[lw], r, c));
        assert(rg.has(cs[lw].p().0 as int, cs[lw].p().1 as int));
    }
}

proof fn lemma_push_contains<A>(s: Seq<A>, a: A, x: A)
    ensures s.push(a).contains(x) <==> (s.contains(x) || x == a),
{
    let t = s.push(a);
    if t.contains(x) {
        let i = choose|i: int| 0 <= i < t.len() && t[i] == x;
        if i < s.len() { assert(s[i] == x); }
    }
    if s.contains(x) {
        let i = choose|i: int| 0 <= i < s.len() && s[i] == x;
        assert(t[i] == x);
    }
    if x == a { assert(t[s.len() as int] == x); }
}
/// keep is the filter: membership
proof fn lemma_keep_props<T: CellType>(cs: Seq<Cell<T>>, n: int)
    ensures
        forall|x: Cell<T>| #[trigger] keep(cs, n).contains(x) <==> (cs.contains(x) && wanted(x, n)),
        keep(cs, n).len() <= cs.len(),
    decreases cs.len(),
{
    if cs.len() == 0 {
        assert forall|x: Cell<T>| #[trigger] keep(cs, n).contains(x) <==> (cs.contains(x) && wanted(x, n)) by {
            if keep(cs, n).contains(x) { let i = choose|i: int| 0 <= i < keep(cs, n).len() && keep(cs, n)[i] == x; }
            if cs.contains(x) { let i = choose|i: int| 0 <= i < cs.len() && cs[i] == x; }
        }
    } else {
        let d = cs.drop_last();
        let l = cs.last();
        lemma_keep_props(d, n);
        assert(cs =~= d.push(l));
        assert forall|x: Cell<T>| #[trigger] keep(cs, n).contains(x) <==> (cs.contains(x) && wanted(x, n)) by {
            lemma_push_contains(d, l, x);
            lemma_push_contains(keep(d, n), l, x);
        }
    }
}
/// cells at a position not above row n are the same in both filters, in the same order
proof fn lemma_keep_last_val<T: CellType>(cs: Seq<Cell<T>>, n: int, r: int, c: int)
    requires 0 <= n <= r,
    ensures last_val(keep(cs, n), r, c) == last_val(keep(cs, 0), r, c),
    decreases cs.len(),
{
    if cs.len() > 0 {
        let d = cs.drop_last();
        let l = cs.last();
        lemma_keep_last_val(d, n, r, c);
        if wanted(l, n) {
            assert(wanted(l, 0));
            assert(keep(d, n).push(l).drop_last() =~= keep(d, n));
            assert(keep(d, 0).push(l).drop_last() =~= keep(d, 0));
        } else if wanted(l, 0) {
            assert(!cell_at(l, r, c));
            assert(keep(d, 0).push(l).drop_last() =~= keep(d, 0));
        }
    }
}

proof fn lemma_take_step<T: CellType>(s: Seq<Cell<T>>, k: int, n: int)
    requires 0 <= k < s.len(),
    ensures keep(s.take(k + 1), n) == (if wanted(s[k], n) { keep(s.take(k), n).push(s[k]) } else { keep(s.take(k), n) }),
{
    assert(s.take(k + 1).drop_last() =~= s.take(k));
    assert(s.take(k + 1).last() == s[k]);
}

// ---------------------------------------------------------------------------------------------------------------------
// C08, the heart: what the Row(n) read shows, relative to the default read of the same sheet
// ---------------------------------------------------------------------------------------------------------------------
//@@ props C08
/// For a cell stream `cs` (rows in any order): rn = from_sparse(pad_n(filter(nonempty /\ row >= n))) and r0 = from_sparse(filter(nonempty)).
pub proof fn header_row_lemma<T: CellType>(cs: Seq<Cell<T>>, n: u32, r0: Range<T>, rn: Range<T>)
    requires
        lawful::<T>(),
        sparse_of(r0, lazy_cells(HeaderRow::FirstNonEmptyRow, cs)),
        sparse_of(rn, lazy_cells(HeaderRow::Row(n), cs)),
    ensures
        //# C08.lazy_header_row_empty_iff_nothing_at_or_below_n
        rn.nonempty() <==> exists|i: int| 0 <= i < cs.len() && (#[trigger] cs[i]).v() != dflt::<T>() && cs[i].p().0 >= n,
        //# C08.lazy_header_row_starts_at_n
        rn.nonempty() ==> rn.lo().0 == n,
        //# C08.lazy_header_row_same_values_from_n_on
        forall|r: int, c: int| r >= n ==> #[trigger] rn.val_at(r, c) == r0.val_at(r, c),
        //# C08.lazy_header_row_nothing_above_n
        forall|r: int, c: int| #[trigger] rn.has(r, c) ==> r >= n,
{
    let k = keep(cs, n as int);
    let d = keep(cs, 0);
    let p = pad(k, n);
    lemma_keep_props(cs, n as int);
    lemma_keep_props(cs, 0);
    // (a) empty iff nothing wanted
    if k.len() > 0 {
        assert(k.contains(k[0]));
        let i = choose|i: int| 0 <= i < cs.len() && cs[i] == k[0];
        assert(wanted(cs[i], n as int));
    }
    if exists|i: int| 0 <= i < cs.len() && (#[trigger] cs[i]).v() != dflt::<T>() && cs[i].p().0 >= n {
        let i = choose|i: int| 0 <= i < cs.len() && (#[trigger] cs[i]).v() != dflt::<T>() && cs[i].p().0 >= n;
        assert(cs.contains(cs[i]));
        assert(k.contains(cs[i]));
        assert(k.len() > 0);
    }
    assert(p.len() > 0 <==> k.len() > 0);
    // every cell of p sits in a row >= n, and the first one in row n
    assert forall|j: int| 0 <= j < k.len() implies (#[trigger] k[j]).pos.0 >= n by { assert(k.contains(k[j])); }
    assert forall|j: int| 0 <= j < p.len() implies (#[trigger] p[j]).pos.0 >= n by {
        if p.len() != k.len() { if j > 0 { assert(p[j] == k[j - 1]); } }
    }
    if rn.nonempty() {
        assert(p[0].pos.0 == n);
        let i = choose|i: int| 0 <= i < p.len() && (#[trigger] p[i]).pos.0 == rn.lo().0;
        assert(p[i].pos.0 >= n);
    }
    // (c) same values from row n on
    assert forall|r: int, c: int| r >= n implies #[trigger] rn.val_at(r, c) == r0.val_at(r, c) by {
        lemma_sparse_val_at(rn, p, r, c);
        lemma_sparse_val_at(r0, d, r, c);
        lemma_keep_last_val(cs, n as int, r, c);
        if p.len() != k.len() {
            let pc = Cell { pos: (n, k[0].pos.1), val: dflt::<T>() };
            // the padding cell comes first and holds the default value: a kept cell at its position overrides it, and without one
            // the position shows the default value either way
            lemma_last_val_prepend(pc, k, r, c);
        }
    }
}

/// C08 default option / C01 / C03: the range is exactly the bounding rectangle of the non-empty cells (first row = first row holding
/// a non-empty cell), every position shows the last non-empty cell written there, Empty elsewhere.
pub proof fn default_row_lemma<T: CellType>(cs: Seq<Cell<T>>, r0: Range<T>)
    requires
        lawful::<T>(),
        sparse_of(r0, lazy_cells(HeaderRow::FirstNonEmptyRow, cs)),
    ensures
        //# C08.default_empty_iff_no_nonempty_cell
        r0.nonempty() <==> exists|i: int| 0 <= i < cs.len() && (#[trigger] cs[i]).v() != dflt::<T>(),
        //# C01,C03,C08.default_bbox_encloses_nonempty_cells
        forall|i: int| 0 <= i < cs.len() && (#[trigger] cs[i]).v() != dflt::<T>() ==>
            r0.lo().0 <= cs[i].p().0 <= r0.hi().0 && r0.lo().1 <= cs[i].p().1 <= r0.hi().1,
        //# C01,C03,C08.default_bbox_is_tight
        r0.nonempty() ==> {
            &&& exists|i: int| 0 <= i < cs.len() && (#[trigger] cs[i]).v() != dflt::<T>() && cs[i].p().0 == r0.lo().0
            &&& exists|i: int| 0 <= i < cs.len() && (#[trigger] cs[i]).v() != dflt::<T>() && cs[i].p().0 == r0.hi().0
            &&& exists|i: int| 0 <= i < cs.len() && (#[trigger] cs[i]).v() != dflt::<T>() && cs[i].p().1 == r0.lo().1
            &&& exists|i: int| 0 <= i < cs.len() && (#[trigger] cs[i]).v() != dflt::<T>() && cs[i].p().1 == r0.hi().1
        },
        //# C01,C03.default_values
        forall|r: int, c: int| #[trigger] r0.val_at(r, c) == or_dflt(last_val(keep(cs, 0), r, c)),
{
    let d = keep(cs, 0);
    lemma_keep_props(cs, 0);
    if d.len() > 0 {
        assert(d.contains(d[0]));
        let i = choose|i: int| 0 <= i < cs.len() && cs[i] == d[0];
        assert(wanted(cs[i], 0));
    }
    if exists|i: int| 0 <= i < cs.len() && (#[trigger] cs[i]).v() != dflt::<T>() {
        let i = choose|i: int| 0 <= i < cs.len() && (#[trigger] cs[i]).v() != dflt::<T>();
        assert(cs.contains(cs[i]));
        assert(d.contains(cs[i]));
    }
    assert forall|i: int| 0 <= i < cs.len() && (#[trigger] cs[i]).v() != dflt::<T>() implies
        r0.lo().0 <= cs[i].p().0 <= r0.hi().0 && r0.lo().1 <= cs[i].p().1 <= r0.hi().1 by {
        assert(cs.contains(cs[i]));
        assert(d.contains(cs[i]));
        let j = choose|j: int| 0 <= j < d.len() && d[j] == cs[i];
        assert(r0.lo().0 <= d[j].pos.0);
    }
    if r0.nonempty() {
        let a = choose|a: int| 0 <= a < d.len() && (#[trigger] d[a]).pos.0 == r0.lo().0;
        assert(d.contains(d[a])); let ia = choose|i: int| 0 <= i < cs.len() && cs[i] == d[a]; assert(wanted(cs[ia], 0));
        let b = choose|b: int| 0 <= b < d.len() && (#[trigger] d[b]).pos.0 == r0.hi().0;
        assert(d.contains(d[b])); let ib = choose|i: int| 0 <= i < cs.len() && cs[i] == d[b]; assert(wanted(cs[ib], 0));
        let e = choose|e: int| 0 <= e < d.len() && (#[trigger] d[e]).pos.1 == r0.lo().1;
        assert(d.contains(d[e])); let ie = choose|i: int| 0 <= i < cs.len() && cs[i] == d[e]; assert(wanted(cs[ie], 0));
        let f = choose|f: int| 0 <= f < d.len() && (#[trigger] d[f]).pos.1 == r0.hi().1;
        assert(d.contains(d[f])); let i_f = choose|i: int| 0 <= i < cs.len() && cs[i] == d[f]; assert(wanted(cs[i_f], 0));
    }
    assert forall|r: int, c: int| #[trigger] r0.val_at(r, c) == or_dflt(last_val(d, r, c)) by {
        lemma_sparse_val_at(r0, d, r, c);
    }
}

//@@ props C01,C03
/// The from_sparse contract determines the range extensionally: two reads of the same cells (whatever `<dimension>` / BrtWsDim said)
/// have the same bounds and show the same value at every absolute position.
pub proof fn lemma_range_determined_by_cells<T: CellType>(cs: Seq<Cell<T>>, r1: Range<T>, r2: Range<T>)
    requires lawful::<T>(), sparse_of(r1, cs), sparse_of(r2, cs),
    ensures
        //# C01,C03.bbox_independent_of_dimension
        r1.nonempty() == r2.nonempty() && (r1.nonempty() ==> r1.lo() == r2.lo() && r1.hi() == r2.hi()),
        //# C01,C03.values_independent_of_dimension
        forall|r: int, c: int| #[trigger] r1.val_at(r, c) == r2.val_at(r, c),
{
    if cs.len() > 0 {
        let a1 = choose|i: int| 0 <= i < cs.len() && (#[trigger] cs[i]).pos.0 == r1.lo().0;
        let a2 = choose|i: int| 0 <= i < cs.len() && (#[trigger] cs[i]).pos.0 == r2.lo().0;
        assert(r1.lo().0 <= cs[a2].pos.0 && r2.lo().0 <= cs[a1].pos.0);
        let b1 = choose|i: int| 0 <= i < cs.len() && (#[trigger] cs[i]).pos.0 == r1.hi().0;
        let b2 = choose|i: int| 0 <= i < cs.len() && (#[trigger] cs[i]).pos.0 == r2.hi().0;
        assert(r1.hi().0 >= cs[b2].pos.0 && r2.hi().0 >= cs[b1].pos.0);
        let c1 = choose|i: int| 0 <= i < cs.len() && (#[trigger] cs[i]).pos.1 == r1.lo().1;
        let c2 = choose|i: int| 0 <= i < cs.len() && (#[trigger] cs[i]).pos.1 == r2.lo().1;
        assert(r1.lo().1 <= cs[c2].pos.1 && r2.lo().1 <= cs[c1].pos.1);
        let d1 = choose|i: int| 0 <= i < cs.len() && (#[trigger] cs[i]).pos.1 == r1.hi().1;
        let d2 = choose|i: int| 0 <= i < cs.len() && (#[trigger] cs[i]).pos.1 == r2.hi().1;
        assert(r1.hi().1 >= cs[d2].pos.1 && r2.hi().1 >= cs[d1].pos.1);
    }
    assert forall|r: int, c: int| #[trigger] r1.val_at(r, c) == r2.val_at(r, c) by {
        lemma_sparse_val_at(r1, cs, r, c);
        lemma_sparse_val_at(r2, cs, r, c);
    }
}
//@@ props C08,C07,C01,C03,C06


/// C07 "converted cell-by-cell": DataRef -> Data keeps the variant and the payload; SharedString(s) becomes String(s)
pub open spec fn to_data<'a>(value: DataRef<'a>) -> Data {
    match value {
        DataRef::Int(v) => Data::Int(v),
        DataRef::Float(v) => Data::Float(v),
        DataRef::String(v) => Data::String(v),
        DataRef::SharedString(v) => Data::String(<String as vstd::std_specs::convert::FromSpec<&str>>::from_spec(v)),
        DataRef::Bool(v) => Data::Bool(v),
        DataRef::DateTime(v) => Data::DateTime(v),
        DataRef::DateTimeIso(v) => Data::DateTimeIso(v),
        DataRef::DurationIso(v) => Data::DurationIso(v),
        DataRef::Error(v) => Data::Error(v),
        DataRef::Empty => Data::Empty,
    }
}
/// vstd's specification hook of the From trait (`x.into()` / `Data::from(x)` yield from_spec(x))
impl<'a> vstd::std_specs::convert::FromSpecImpl<DataRef<'a>> for Data {
    open spec fn obeys_from_spec() -> bool { true }
    open spec fn from_spec(value: DataRef<'a>) -> Data { to_data(value) }
}
// TRUSTED: `String::from(&str)` / `<&str as Into<String>>::into` copies the characters (std: "Converts a &str into a String. The result is
// allocated on the heap"); vstd has no specification for this instance.
#[verifier::external_body]
pub proof fn axiom_string_from_str()
    ensures
        <String as vstd::std_specs::convert::FromSpec<&str>>::obeys_from_spec(),
        forall|s: &str| (#[trigger] <String as vstd::std_specs::convert::FromSpec<&str>>::from_spec(s))@ == s@,
{}

//@@ impl src/datatype.rs "From<DataRef<'a>> for Data"
//@@ fn src/datatype.rs "From<DataRef<'a>> for Data::from" props=C07,C01,C03 ret=d
//@@ sig
    ensures
        //# C07,C01,C03.dataref_to_data_variant_preserving
        d == to_data(value),
        //# C07,C01,C03.shared_string_becomes_string
        value is SharedString ==> d is String && d->String_0@ == value->SharedString_0@,
//@@ body
        proof { axiom_string_from_str(); }
//@@ end
//@@ endimpl

pub open spec fn data_seq(v: &Vec<Data>) -> Seq<Data> { v@ }
/// `d` is `g` converted cell by cell: identical bounds, inner == map(From::from, g.inner)
pub closed spec fn converted<'a>(d: Range<Data>, g: Range<DataRef<'a>>) -> bool {
    &&& d.start == g.start && d.end == g.end
    &&& d.inner@.len() == g.inner@.len()
    &&& forall|i: int| 0 <= i < g.inner@.len() ==> #[trigger] d.inner@[i] == to_data(g.inner@[i])
}
pub open spec fn converted_result<'a, E>(r: Result<Range<Data>, E>, rr: Result<Range<DataRef<'a>>, E>) -> bool {
    match rr { Ok(g) => r is Ok && converted(r->Ok_0, g), Err(e) => r is Err && r->Err_0 == e }
}
//@@ props C07
/// what `converted` means on the abstract view: same rectangle, every position holds the converted value
pub proof fn lemma_converted_view<'a>(d: Range<Data>, g: Range<DataRef<'a>>)
    requires converted(d, g), g.wf(),
    ensures
        //# C07.converted_same_bounds
        d.wf() && d.nonempty() == g.nonempty() && d.lo() == g.lo() && d.hi() == g.hi(),
        //# C07.converted_same_cells
        forall|r: int, c: int| #[trigger] g.has(r, c) ==> d.has(r, c) && d.at(r, c) == to_data(g.at(r, c)),
        //# C07.converted_absent_is_empty
        forall|r: int, c: int| #[trigger] d.val_at(r, c) == to_data(g.val_at(r, c)),
{
    lemma_lawful_cells();
    assert forall|r: int, c: int| #[trigger] g.has(r, c) implies d.has(r, c) && d.at(r, c) == to_data(g.at(r, c)) by {
        let i = r - g.start.0; let j = c - g.start.1;
        assert(0 <= i * g.w() + j < g.h() * g.w()) by (nonlinear_arith) requires 0 <= i < g.h(), 0 <= j < g.w();
    }
    assert forall|r: int, c: int| #[trigger] d.val_at(r, c) == to_data(g.val_at(r, c)) by {
        if g.has(r, c) {} else { assert(!d.has(r, c)); }
    }
}
//@@ props C08,C07,C01,C03,C06

/// What a lazy reader must return for the sheet source `src` under option `hr` (C08 / C01 / C03 / C07); `naw`: the open error says the
/// part is not a worksheet (xlsx chart sheets: empty range instead of an error; never for xlsb).
pub open spec fn lazy_result_ok<T: CellType, E>(src: LazySrc<Cell<T>, E>, naw: bool, hr: HeaderRow, r: Result<Range<T>, E>) -> bool {
    match src {
        LazySrc::OpenErr(e) => if naw { r is Ok && r->Ok_0.wf() && !r->Ok_0.nonempty() } else { r is Err && r->Err_0 == e },
        LazySrc::Stream { cells, end: Some(e), dims } => r is Err && r->Err_0 == e,
        LazySrc::Stream { cells, end: None, dims } => r is Ok && sparse_of(r->Ok_0, lazy_cells(hr, cells)),
    }
}


// ---- witnesses: the hypotheses of the lemmas are satisfiable (a one-cell sheet read with header row 2 and with the default option)
fn witness_header_row_lemma() {
    proof { lemma_lawful_cells(); }
    let c = Cell::new((3u32, 1u32), DataRef::Int(7));
    let pc = Cell::new((2u32, 1u32), DataRef::Empty);
    let ghost stream: Seq<Cell<DataRef<'static>>> = seq![c];
    let mut v0: Vec<Cell<DataRef<'static>>> = Vec::new();
    v0.push(Cell::new((3u32, 1u32), DataRef::Int(7)));
    let mut vn: Vec<Cell<DataRef<'static>>> = Vec::new();
    vn.push(pc);
    vn.push(Cell::new((3u32, 1u32), DataRef::Int(7)));
    proof {
        reveal_with_fuel(keep, 3);
        assert(stream.drop_last() =~= Seq::<Cell<DataRef<'static>>>::empty());
        assert(stream.last() == c);
        assert(wanted(c, 0) && wanted(c, 2));
        assert(keep(stream, 0) =~= seq![c]);
        assert(keep(stream, 2) =~= seq![c]);
        assert(v0@ =~= lazy_cells(HeaderRow::FirstNonEmptyRow, stream));
        assert(pad(seq![c], 2) =~= seq![pc, c]);
        assert(vn@ =~= lazy_cells(HeaderRow::Row(2), stream));
    }
    let r0 = Range::from_sparse(v0);
    let rn = Range::from_sparse(vn);
    proof {
        header_row_lemma(stream, 2, r0, rn);
        default_row_lemma(stream, r0);
        lemma_range_determined_by_cells(lazy_cells(HeaderRow::FirstNonEmptyRow, stream), r0, r0);
        assert(rn.nonempty() && rn.lo().0 == 2);
        assert(rn.val_at(3, 1) == r0.val_at(3, 1));
    }
}
fn witness_eager_header_row_lemma() {
    proof { lemma_lawful_cells(); }
    let sheet: Range<Data> = Range::new((1, 0), (4, 2));
    let w = sheet.range((2, 0), (4, 2));
    proof {
        eager_header_row_lemma(sheet, 2, w);
        assert(w.lo().0 == 2);
    }
}

// =====================================================================================================================
// Stand-ins for the cell readers and the reader traits
// =====================================================================================================================
/// Where the cells of a sheet come from, as the range builder sees it: either the reader cannot be opened, or it yields a finite
/// sequence of cells followed by a clean end (`end` None: `</sheetData>` / BrtEndSheetData) or by an error; `dims` is what the
/// `<dimension>` element / BrtWsDim record claims.
pub enum LazySrc<C, E> {
    OpenErr(E),
    Stream { cells: Seq<C>, end: Option<E>, dims: Dimensions },
}

// TRUSTED: ghost cell stream stands for the XML reader of one sheet part. `remaining()` is the finite sequence of cells the reader
// will still deliver (a sheet part is a finite file and every next_cell call consumes input: this is what gives the loops a measure),
// `terminal()` how the stream ends, `dims()` the parsed `<dimension ref>`. next_cell itself (position / value decoding of one `<c>`)
// is under contract in the units a1 / xlsxxml, not here.
#[verifier::external_body]
pub struct XlsxCellReader<'a> { _p: PhantomData<&'a u8> }
impl<'a> XlsxCellReader<'a> {
    pub uninterp spec fn remaining(&self) -> Seq<Cell<DataRef<'a>>>;
    pub uninterp spec fn terminal(&self) -> Option<XlsxError>;
    pub uninterp spec fn dims(&self) -> Dimensions;
    // TRUSTED: signature of src/xlsx/cells_reader.rs XlsxCellReader::dimensions (returns the stored field)
    #[verifier::external_body]
    pub fn dimensions(&self) -> (d: Dimensions)
        ensures d == self.dims(),
    { unimplemented!() }
    // TRUSTED: signature of src/xlsx/cells_reader.rs XlsxCellReader::next_cell; pops the head of the ghost stream
    #[verifier::external_body]
    pub fn next_cell(&mut self) -> (r: Result<Option<Cell<DataRef<'a>>>, XlsxError>)
        ensures
            final(self).terminal() == old(self).terminal() && final(self).dims() == old(self).dims(),
            match r {
                Ok(Some(c)) => old(self).remaining().len() > 0 && c == old(self).remaining()[0]
                    && final(self).remaining() == old(self).remaining().skip(1),
                Ok(None) => old(self).remaining().len() == 0 && old(self).terminal() is None && final(self).remaining() == old(self).remaining(),
                Err(e) => old(self).remaining().len() == 0 && old(self).terminal() == Some(e) && final(self).remaining() == old(self).remaining(),
            },
    { unimplemented!() }
}

impl<RS> Xlsx<RS> {
    /// the option
    pub closed spec fn hr(&self) -> HeaderRow { self.options.header_row }
    /// everything but the option (frame of with_header_row)
    pub closed spec fn rest(&self) -> (ZipArchive<RS>, Vec<String>, Vec<(String, String)>, Tables, Vec<CellFormat>, bool, Metadata, Option<Vec<(String, String, Dimensions)>>) {
        (self.zip, self.strings, self.sheets, self.tables, self.formats, self.is_1904, self.metadata, self.merged_regions)
    }
    /// what `worksheet_cells_reader(name)` makes of the workbook (zip lookup + XML prologue of the sheet part): not modelled further
    pub uninterp spec fn sheet_src<'a>(&self, name: Seq<char>) -> LazySrc<Cell<DataRef<'a>>, XlsxError>;
    /// the open error is XlsxError::NotAWorksheet (chart sheet, dialog sheet ...)
    pub open spec fn naw(&self, name: Seq<char>) -> bool {
        self.sheet_src(name) is OpenErr && self.sheet_src(name)->OpenErr_0 is NotAWorksheet
    }
    /// `name` is one of the sheets listed in workbook.xml
    pub closed spec fn knows(&self, name: Seq<char>) -> bool { exists|i: int| 0 <= i < self.sheets@.len() && (#[trigger] self.sheets@[i]).0@ == name }
}

impl<RS: Read + Seek> Xlsx<RS> {
    // TRUSTED: stand-in for src/xlsx/mod.rs Xlsx::worksheet_cells_reader (sheet path lookup in `self.sheets`, zip entry, XML prologue up
    // to `<sheetData>`): the reader it returns is the ghost stream `sheet_src(name)`; an unknown name is WorksheetNotFound (first
    // statement of the real function: `.find(|&(n, _)| n == name).ok_or_else(|| XlsxError::WorksheetNotFound(name.into()))?`).
    #[verifier::external_body]
    pub fn worksheet_cells_reader<'a>(&'a mut self, name: &str) -> (r: Result<XlsxCellReader<'a>, XlsxError>)
        ensures
            match r {
                Ok(rd) => old(self).sheet_src(name@) == (LazySrc::Stream { cells: rd.remaining(), end: rd.terminal(), dims: rd.dims() }),
                Err(e) => old(self).sheet_src(name@) == LazySrc::<Cell<DataRef<'a>>, XlsxError>::OpenErr(e),
            },
            !old(self).knows(name@) ==> r is Err && r->Err_0 is WorksheetNotFound,
    { unimplemented!() }
}

// TRUSTED: ghost cell stream stands for the BIFF12 record reader of one sheet part (same model as XlsbCellsReader). `remaining()` is the finite sequence of cells the reader
// will still deliver (a sheet part is a finite file and every next_cell call consumes input: this is what gives the loops a measure),
// `terminal()` how the stream ends, `dims()` the parsed BrtWsDim record. next_cell itself (decoding of one cell record) is under
// contract in unit xlsbrec, not here.
#[verifier::external_body]
pub struct XlsbCellsReader<'a> { _p: PhantomData<&'a u8> }
impl<'a> XlsbCellsReader<'a> {
    pub uninterp spec fn remaining(&self) -> Seq<Cell<DataRef<'a>>>;
    pub uninterp spec fn terminal(&self) -> Option<XlsbError>;
    pub uninterp spec fn dims(&self) -> Dimensions;
    // TRUSTED: signature of src/xlsb/cells_reader.rs XlsbCellsReader::dimensions (returns the stored field)
    #[verifier::external_body]
    pub fn dimensions(&self) -> (d: Dimensions)
        ensures d == self.dims(),
    { unimplemented!() }
    // TRUSTED: signature of src/xlsb/cells_reader.rs XlsbCellsReader::next_cell; pops the head of the ghost stream
    #[verifier::external_body]
    pub fn next_cell(&mut self) -> (r: Result<Option<Cell<DataRef<'a>>>, XlsbError>)
        ensures
            final(self).terminal() == old(self).terminal() && final(self).dims() == old(self).dims(),
            match r {
                Ok(Some(c)) => old(self).remaining().len() > 0 && c == old(self).remaining()[0]
                    && final(self).remaining() == old(self).remaining().skip(1),
                Ok(None) => old(self).remaining().len() == 0 && old(self).terminal() is None && final(self).remaining() == old(self).remaining(),
                Err(e) => old(self).remaining().len() == 0 && old(self).terminal() == Some(e) && final(self).remaining() == old(self).remaining(),
            },
    { unimplemented!() }
}

impl<RS> Xlsb<RS> {
    /// the option
    pub closed spec fn hr(&self) -> HeaderRow { self.options.header_row }
    /// everything but the option (frame of with_header_row)
    pub closed spec fn rest(&self) -> (ZipArchive<RS>, Vec<String>, Vec<(String, String)>, Vec<String>, Vec<CellFormat>, bool, Metadata) {
        (self.zip, self.extern_sheets, self.sheets, self.strings, self.formats, self.is_1904, self.metadata)
    }
    /// what `worksheet_cells_reader(name)` makes of the workbook (zip lookup + XML prologue of the sheet part): not modelled further
    pub uninterp spec fn sheet_src<'a>(&self, name: Seq<char>) -> LazySrc<Cell<DataRef<'a>>, XlsbError>;
    /// `name` is one of the sheets listed in workbook.bin
    pub closed spec fn knows(&self, name: Seq<char>) -> bool { exists|i: int| 0 <= i < self.sheets@.len() && (#[trigger] self.sheets@[i]).0@ == name }
}

impl<RS: Read + Seek> Xlsb<RS> {
    // TRUSTED: stand-in for src/xlsb/mod.rs Xlsb::worksheet_cells_reader (sheet path lookup in `self.sheets`, zip entry, records up to
    // BrtBeginSheetData): the reader it returns is the ghost stream `sheet_src(name)`; an unknown name is WorksheetNotFound (first
    // statement of the real function: `match self.sheets.iter().find(|&(n, _)| n == name) { .. None => return Err(XlsbError::WorksheetNotFound(name.into())) }`).
    #[verifier::external_body]
    pub fn worksheet_cells_reader<'a>(&'a mut self, name: &str) -> (r: Result<XlsbCellsReader<'a>, XlsbError>)
        ensures
            match r {
                Ok(rd) => old(self).sheet_src(name@) == (LazySrc::Stream { cells: rd.remaining(), end: rd.terminal(), dims: rd.dims() }),
                Err(e) => old(self).sheet_src(name@) == LazySrc::<Cell<DataRef<'a>>, XlsbError>::OpenErr(e),
            },
            !old(self).knows(name@) ==> r is Err && r->Err_0 is WorksheetNotFound,
    { unimplemented!() }
}

// Stand-ins for the traits `Reader` / `ReaderRef` of src/lib.rs, restricted to the methods under contract here (signatures copied; the
// other methods mention foreign types -- Cow, VbaProject, Metadata accessors -- and are not used by the verified code).
pub trait Reader<RS>: Sized
where
    RS: Read + Seek,
{
    type Error;
    /// (spec only, not in the real trait) representation invariant a constructed reader satisfies; trait-impl methods cannot carry their
    /// own `requires` in Verus, so the precondition of the eager `worksheet_range` (stored ranges are well-formed) is routed through here
    spec fn inv(&self) -> bool;
    fn with_header_row(&mut self, header_row: HeaderRow) -> &mut Self;
    fn worksheet_range(&mut self, name: &str) -> Result<Range<Data>, Self::Error>
        requires old(self).inv();
}
pub trait ReaderRef<RS>: Reader<RS>
where
    RS: Read + Seek,
{
    fn worksheet_range_ref<'a>(&'a mut self, name: &str)
        -> Result<Range<DataRef<'a>>, Self::Error>;
}

// TRUSTED: documented behaviour of Option::map_or ("Returns the provided default result (if none), or applies a function to the contained value (if any)")
pub assume_specification<T, U, F>[ Option::<T>::map_or ](o: Option<T>, default: U, f: F) -> (r: U)
    where F: FnOnce(T) -> U
    requires o is Some ==> f.requires((o->Some_0,)),
    ensures o is None ==> r == default, o is Some ==> f.ensures((o->Some_0,), r);

/// a product of two spans (each at most 2^32) exceeds u64 only when both are 2^32
proof fn lemma_u32_product(a: int, b: int)
    requires 0 <= a <= 0x1_0000_0000, 0 <= b <= 0x1_0000_0000,
    ensures 0 <= a * b, (a <= u32::MAX || b <= u32::MAX) ==> a * b <= u64::MAX, a == 0x1_0000_0000 && b == 0x1_0000_0000 ==> a * b > u64::MAX,
{
    assert(0 <= a * b) by (nonlinear_arith) requires 0 <= a, 0 <= b;
    if a <= 0xffff_ffff {
        assert(a * b <= 0xffff_ffff * 0x1_0000_0000) by (nonlinear_arith) requires 0 <= a <= 0xffff_ffff, 0 <= b <= 0x1_0000_0000;
    } else if b <= 0xffff_ffff {
        assert(a * b <= 0x1_0000_0000 * 0xffff_ffff) by (nonlinear_arith) requires 0 <= a <= 0x1_0000_0000, 0 <= b <= 0xffff_ffff;
    } else {
        assert(a * b == 0x1_0000_0000 * 0x1_0000_0000) by (nonlinear_arith) requires a == 0x1_0000_0000, b == 0x1_0000_0000;
    }
}

//@@ impl src/lib.rs Dimensions
//@@ fn src/lib.rs Dimensions::len props=C06 entry ret=r
//@@ sig
    ensures
        //# C06.dimensions_len
        // the number of positions `contains` accepts (none when the corners are reversed), saturated at u64::MAX (2^32 x 2^32 positions)
        r == (if self.start.0 <= self.end.0 && self.start.1 <= self.end.1 {
                let n = (self.end.0 - self.start.0 + 1) * (self.end.1 - self.start.1 + 1);
                if n <= u64::MAX { n } else { u64::MAX as int }
            } else { 0 }),
//@@ body
        proof {
            if self.start.0 <= self.end.0 && self.start.1 <= self.end.1 {
                lemma_u32_product(self.end.0 - self.start.0 + 1, self.end.1 - self.start.1 + 1);
            }
        }
//@@ end
//@@ endimpl

//@@ impl src/xlsx/mod.rs "Reader<RS> for Xlsx<RS>"
//@@ item src/xlsx/mod.rs impl_type "Reader<RS> for Xlsx<RS>::type Error"
//@@ fn src/xlsx/mod.rs "Reader<RS> for Xlsx<RS>::with_header_row" props=C07,C08 ret=r
//@@ sig
    ensures
        //# C07,C08.with_header_row_sets_option
        r.hr() == header_row,
        //# C07,C08.with_header_row_frame
        r.rest() == old(self).rest(),
        //# C07,C08.with_header_row_returns_self
        *final(r) == *final(self),
//@@ end
    open spec fn inv(&self) -> bool { true }
    // stand-in so that the reduced trait is implemented for every RS; the real text of worksheet_range is verified right below at the
    // opaque instance RS := VerifRs (rule R-mono)
    #[verifier::external_body]
    fn worksheet_range(&mut self, name: &str) -> Result<Range<Data>, XlsxError> { unimplemented!() }
//@@ endimpl

//@@ impl src/xlsx/mod.rs "ReaderRef<RS> for Xlsx<RS>"
//@@ fn src/xlsx/mod.rs "ReaderRef<RS> for Xlsx<RS>::worksheet_range_ref" props=C08,C01,C07 entry ret=r
//@@ sig
    ensures
        //# C07.lazy_unknown_sheet_is_error
        !old(self).knows(name@) ==> r is Err,
        //# C07.lazy_open_error_is_returned
        ({ let src = old(self).sheet_src(name@); src is OpenErr && !(src->OpenErr_0 is NotAWorksheet) ==> r is Err && r->Err_0 == src->OpenErr_0 }),
        //# C07.lazy_not_a_worksheet_is_empty_range
        ({ let src = old(self).sheet_src(name@); src is OpenErr && src->OpenErr_0 is NotAWorksheet ==> r is Ok && r->Ok_0.wf() && !r->Ok_0.nonempty() }),
        //# C06.lazy_read_error_is_returned
        ({ let src = old(self).sheet_src(name@); src is Stream && src->end is Some ==> r is Err && r->Err_0 == src->end->Some_0 }),
        //# C08,C01.lazy_filter
        ({ let src = old(self).sheet_src(name@); src is Stream && src->end is None ==>
            r is Ok && sparse_of(r->Ok_0, lazy_cells(old(self).hr(), src->cells)) }),
        //# C07.lazy_result_bundle
        lazy_result_ok(old(self).sheet_src(name@), old(self).naw(name@), old(self).hr(), r),
//@@ before /let len = /
        let ghost stream = cell_reader.remaining();
        proof { lemma_lawful_cells(); }
//@@ before /cells\.reserve\(/
            proof {
                //# C06.reserve_capped
                assert(len < 100_000);
            }
//@@ before /match header_row \{/
        proof { assert(stream.take(0) =~= Seq::<Cell<DataRef<'a>>>::empty()); }
//@@ loop 0
                    invariant
                        cell_reader.remaining().len() <= stream.len(),
                        cell_reader.remaining() == stream.skip(stream.len() - cell_reader.remaining().len()),
                        //# C08,C01.lazy_filter_kept_so_far
                        cells@ == keep(stream.take(stream.len() - cell_reader.remaining().len()), 0),
                        old(self).sheet_src(name@) == (LazySrc::Stream { cells: stream, end: cell_reader.terminal(), dims: cell_reader.dims() }),
                        dflt::<DataRef<'a>>() == DataRef::<'a>::Empty,
                    ensures
                        cell_reader.remaining().len() == 0 && cell_reader.terminal() is None,
                    decreases cell_reader.remaining().len(),
//@@ before /match cell_reader/#0of2
                    proof {
                        let k = stream.len() - cell_reader.remaining().len();
                        if k < stream.len() {
                            lemma_take_step(stream, k, 0);
                            assert(cell_reader.remaining()[0] == stream[k]);
                            assert(cell_reader.remaining().skip(1) =~= stream.skip(k + 1));
                        }
                    }
//@@ loop 1
                    invariant
                        cell_reader.remaining().len() <= stream.len(),
                        cell_reader.remaining() == stream.skip(stream.len() - cell_reader.remaining().len()),
                        //# C08,C01.lazy_filter_kept_so_far
                        cells@ == keep(stream.take(stream.len() - cell_reader.remaining().len()), header_row_idx as int),
                        old(self).sheet_src(name@) == (LazySrc::Stream { cells: stream, end: cell_reader.terminal(), dims: cell_reader.dims() }),
                        dflt::<DataRef<'a>>() == DataRef::<'a>::Empty,
                    ensures
                        cell_reader.remaining().len() == 0 && cell_reader.terminal() is None,
                    decreases cell_reader.remaining().len(),
//@@ before /match cell_reader/#1of2
                    proof {
                        let k = stream.len() - cell_reader.remaining().len();
                        if k < stream.len() {
                            lemma_take_step(stream, k, header_row_idx as int);
                            assert(cell_reader.remaining()[0] == stream[k]);
                            assert(cell_reader.remaining().skip(1) =~= stream.skip(k + 1));
                        }
                    }
//@@ closure 0
    -> (res: bool) ensures
        //# C08.lazy_pad_condition
        res == (c.pos.0 != header_row_idx)
//@@ before /if [^{;]*cells\.first\(\)/
                let ghost kept = cells@;
                proof { assert(stream.take(stream.len() as int) =~= stream); }
//@@ before /Ok\(Range::from_sparse/
        proof {
            assert(stream.take(stream.len() as int) =~= stream);
            match header_row {
                HeaderRow::FirstNonEmptyRow => {}
                HeaderRow::Row(n) => {
                    let ks = keep(stream, n as int);
                    if ks.len() > 0 && ks[0].pos.0 != n {
                        //# C08.lazy_pad_cell_in_front
                        assert(cells@ =~= seq![Cell { pos: (n, ks[0].pos.1), val: DataRef::<'a>::Empty }] + ks);
                    }
                }
            }
            //# C08.lazy_cells_handed_to_from_sparse
            assert(cells@ == lazy_cells(header_row, stream));
        }
//@@ end
//@@ endimpl

// R-mono (documented mechanical rule, needed for `worksheet_range` of Xlsx / Xlsb only): Verus 0.2026.09.13 loses vstd's specification of
// `Iterator::map(closure)` when the closure is created inside a function with type parameters (probed: the same chain verifies in a
// non-generic fn, fails in `fn f<RS>`). The method text is therefore verified, verbatim, as a method of `Xlsx<VerifRs>` for an opaque
// reader type VerifRs; the method never touches RS (it only calls worksheet_range_ref), so by parametricity the instance stands for all RS.
pub struct VerifRs { _opaque: u8 }
impl Xlsx<VerifRs> {
//@@ fn src/xlsx/mod.rs "Reader<RS> for Xlsx<RS>::worksheet_range" props=C07,C01,C08 entry ret=r
//@@ sig
    ensures
        //# C07,C01,C08.range_is_converted_ref
        exists|rr: Result<Range<DataRef<'static>>, XlsxError>|
            #[trigger] lazy_result_ok(old(self).sheet_src(name@), old(self).naw(name@), old(self).hr(), rr) && converted_result(r, rr),
//@@ closure 0
    -> (res: Data) ensures
        //# C07,C01.range_cell_conversion
        res == to_data(v)
//@@ before /Ok\(Range \{/
        proof {
            let iv = data_seq(&inner);   // (also tells rustc the type of `inner`, which the source leaves to the struct literal below)
            assert(iv.len() == rge.inner@.len());
            assert(forall|i: int| 0 <= i < iv.len() ==> iv[i] == to_data(rge.inner@[i]));
            let d = Range { start: rge.start, end: rge.end, inner: inner };
            assert(converted(d, rge));
            let rr: Result<Range<DataRef<'static>>, XlsxError> = Ok(rge);
            assert(lazy_result_ok(old(self).sheet_src(name@), old(self).naw(name@), old(self).hr(), rr));
            assert(converted_result(Ok::<Range<Data>, XlsxError>(d), rr));
        }
//@@ end
}


//@@ impl src/xlsb/mod.rs "Reader<RS> for Xlsb<RS>"
//@@ item src/xlsb/mod.rs impl_type "Reader<RS> for Xlsb<RS>::type Error"
//@@ fn src/xlsb/mod.rs "Reader<RS> for Xlsb<RS>::with_header_row" props=C07,C08 ret=r
//@@ sig
    ensures
        //# C07,C08.with_header_row_sets_option
        r.hr() == header_row,
        //# C07,C08.with_header_row_frame
        r.rest() == old(self).rest(),
        //# C07,C08.with_header_row_returns_self
        *final(r) == *final(self),
//@@ end
    open spec fn inv(&self) -> bool { true }
    // stand-in so that the reduced trait is implemented for every RS; the real text of worksheet_range is verified right below at the
    // opaque instance RS := VerifRs (rule R-mono)
    #[verifier::external_body]
    fn worksheet_range(&mut self, name: &str) -> Result<Range<Data>, XlsbError> { unimplemented!() }
//@@ endimpl

//@@ impl src/xlsb/mod.rs "ReaderRef<RS> for Xlsb<RS>"
//@@ fn src/xlsb/mod.rs "ReaderRef<RS> for Xlsb<RS>::worksheet_range_ref" props=C08,C03,C07 entry ret=r
//@@ sig
    ensures
        //# C07.lazy_unknown_sheet_is_error
        !old(self).knows(name@) ==> r is Err,
        //# C07.lazy_open_error_is_returned
        ({ let src = old(self).sheet_src(name@); src is OpenErr ==> r is Err && r->Err_0 == src->OpenErr_0 }),
        //# C06.lazy_read_error_is_returned
        ({ let src = old(self).sheet_src(name@); src is Stream && src->end is Some ==> r is Err && r->Err_0 == src->end->Some_0 }),
        //# C08,C03.lazy_filter
        ({ let src = old(self).sheet_src(name@); src is Stream && src->end is None ==>
            r is Ok && sparse_of(r->Ok_0, lazy_cells(old(self).hr(), src->cells)) }),
        //# C07.lazy_result_bundle
        lazy_result_ok(old(self).sheet_src(name@), false, old(self).hr(), r),
//@@ before /let len = /
        let ghost stream = cell_reader.remaining();
        proof { lemma_lawful_cells(); }
//@@ before /cells\.reserve\(/
            proof {
                //# C06.reserve_capped
                assert(len < 100_000);
            }
//@@ before /match header_row \{/
        proof { assert(stream.take(0) =~= Seq::<Cell<DataRef<'a>>>::empty()); }
//@@ loop 0
                    invariant
                        cell_reader.remaining().len() <= stream.len(),
                        cell_reader.remaining() == stream.skip(stream.len() - cell_reader.remaining().len()),
                        //# C08,C03.lazy_filter_kept_so_far
                        cells@ == keep(stream.take(stream.len() - cell_reader.remaining().len()), 0),
                        old(self).sheet_src(name@) == (LazySrc::Stream { cells: stream, end: cell_reader.terminal(), dims: cell_reader.dims() }),
                        dflt::<DataRef<'a>>() == DataRef::<'a>::Empty,
                    ensures
                        cell_reader.remaining().len() == 0 && cell_reader.terminal() is None,
                    decreases cell_reader.remaining().len(),
//@@ before /match cell_reader/#0of2
                    proof {
                        let k = stream.len() - cell_reader.remaining().len();
                        if k < stream.len() {
                            lemma_take_step(stream, k, 0);
                            assert(cell_reader.remaining()[0] == stream[k]);
                            assert(cell_reader.remaining().skip(1) =~= stream.skip(k + 1));
                        }
                    }
//@@ loop 1
                    invariant
                        cell_reader.remaining().len() <= stream.len(),
                        cell_reader.remaining() == stream.skip(stream.len() - cell_reader.remaining().len()),
                        //# C08,C03.lazy_filter_kept_so_far
                        cells@ == keep(stream.take(stream.len() - cell_reader.remaining().len()), header_row_idx as int),
                        old(self).sheet_src(name@) == (LazySrc::Stream { cells: stream, end: cell_reader.terminal(), dims: cell_reader.dims() }),
                        dflt::<DataRef<'a>>() == DataRef::<'a>::Empty,
                    ensures
                        cell_reader.remaining().len() == 0 && cell_reader.terminal() is None,
                    decreases cell_reader.remaining().len(),
//@@ before /match cell_reader/#1of2
                    proof {
                        let k = stream.len() - cell_reader.remaining().len();
                        if k < stream.len() {
                            lemma_take_step(stream, k, header_row_idx as int);
                            assert(cell_reader.remaining()[0] == stream[k]);
                            assert(cell_reader.remaining().skip(1) =~= stream.skip(k + 1));
                        }
                    }
//@@ closure 0
    -> (res: bool) ensures
        //# C08.lazy_pad_condition
        res == (c.pos.0 != header_row_idx)
//@@ before /if [^{;]*cells\.first\(\)/
                let ghost kept = cells@;
                proof { assert(stream.take(stream.len() as int) =~= stream); }
//@@ before /Ok\(Range::from_sparse/
        proof {
            assert(stream.take(stream.len() as int) =~= stream);
            match header_row {
                HeaderRow::FirstNonEmptyRow => {}
                HeaderRow::Row(n) => {
                    let ks = keep(stream, n as int);
                    if ks.len() > 0 && ks[0].pos.0 != n {
                        //# C08.lazy_pad_cell_in_front
                        assert(cells@ =~= seq![Cell { pos: (n, ks[0].pos.1), val: DataRef::<'a>::Empty }] + ks);
                    }
                }
            }
            //# C08.lazy_cells_handed_to_from_sparse
            assert(cells@ == lazy_cells(header_row, stream));
        }
//@@ end
//@@ endimpl

// R-mono, as for Xlsx
impl Xlsb<VerifRs> {
//@@ fn src/xlsb/mod.rs "Reader<RS> for Xlsb<RS>::worksheet_range" props=C07,C03,C08 entry ret=r
//@@ sig
    ensures
        //# C07,C03,C08.range_is_converted_ref
        exists|rr: Result<Range<DataRef<'static>>, XlsbError>|
            #[trigger] lazy_result_ok(old(self).sheet_src(name@), false, old(self).hr(), rr) && converted_result(r, rr),
//@@ closure 0
    -> (res: Data) ensures
        //# C07,C03.range_cell_conversion
        res == to_data(v)
//@@ before /Ok\(Range \{/
        proof {
            let iv = data_seq(&inner);   // (also tells rustc the type of `inner`, which the source leaves to the struct literal below)
            assert(iv.len() == rge.inner@.len());
            assert(forall|i: int| 0 <= i < iv.len() ==> iv[i] == to_data(rge.inner@[i]));
            let d = Range { start: rge.start, end: rge.end, inner: inner };
            assert(converted(d, rge));
            let rr: Result<Range<DataRef<'static>>, XlsbError> = Ok(rge);
            assert(lazy_result_ok(old(self).sheet_src(name@), false, old(self).hr(), rr));
            assert(converted_result(Ok::<Range<Data>, XlsbError>(d), rr));
        }
//@@ end
}


// =====================================================================================================================
// Eager formats (xls, ods): the sheet is stored as a Range; Row(n) takes a window of it
// =====================================================================================================================
// TRUSTED: `String` keys looked up by `&str` (std: "`Borrow<str> for String`: Eq, Ord and Hash are equivalent for borrowed and owned
// values"; String's Ord is the lawful lexicographic order) -- vstd leaves both predicates uninterpreted for String/str -- and a map holds
// at most one value per key, which it does contain.
#[verifier::external_body]
pub proof fn axiom_string_keyed_map<V>(m: Map<String, V>, k: &str)
    ensures
        vstd::laws_cmp::obeys_cmp::<String>(),
        borrowed_key_ordering_matches::<String, str>(),
        forall|v1: V, v2: V| maps_borrowed_key_to_value(m, k, v1) && maps_borrowed_key_to_value(m, k, v2) ==> v1 == v2,
        forall|v: V| maps_borrowed_key_to_value(m, k, v) ==> contains_borrowed_key(m, k),
{}
/// the value stored under `name`, if any
pub open spec fn named<V>(m: Map<String, V>, name: &str) -> Option<V> {
    if exists|v: V| maps_borrowed_key_to_value(m, name, v) { Some(choose|v: V| maps_borrowed_key_to_value(m, name, v)) } else { None }
}
// TRUSTED: blanket `impl<T: Clone> ToOwned for T` -- "to_owned() is clone()"
pub assume_specification<T: Clone>[ <T as std::borrow::ToOwned>::to_owned ](s: &T) -> (r: T)
    ensures call_ensures(T::clone, (s,), r);

/// the range an eager reader must return for the stored sheet range `sheet` (property C08: starts at row n if the sheet reaches row n,
/// "otherwise it is empty"; never a panic)
pub open spec fn eager_result_ok(hr: HeaderRow, sheet: Range<Data>, r: Range<Data>) -> bool {
    match hr {
        HeaderRow::FirstNonEmptyRow => r == sheet,
        HeaderRow::Row(n) =>
            if !sheet.nonempty() { r == sheet }
            else if n <= sheet.hi().0 { window_of(r, sheet, (n, sheet.lo().1), sheet.hi()) }
            else { r.wf() && !r.nonempty() },   // no cell at or below row n: "otherwise it is empty"
    }
}

//@@ props C08
/// what the window means in the words of the property
pub proof fn eager_header_row_lemma<T: CellType>(sheet: Range<T>, n: u32, w: Range<T>)
    requires
        lawful::<T>(), sheet.wf(), sheet.nonempty(), n <= sheet.hi().0,
        window_of(w, sheet, (n, sheet.lo().1), sheet.hi()),
    ensures
        //# C08.eager_header_row_starts_at_n
        w.nonempty() && w.lo().0 == n,
        //# C08.eager_header_row_same_values_from_n_on
        forall|r: int, c: int| r >= n ==> #[trigger] w.val_at(r, c) == sheet.val_at(r, c),
        //# C08.eager_header_row_nothing_above_n
        forall|r: int, c: int| #[trigger] w.has(r, c) ==> r >= n,
{
    assert forall|r: int, c: int| r >= n implies #[trigger] w.val_at(r, c) == sheet.val_at(r, c) by {
        if w.has(r, c) {
            if sheet.has(r, c) {} else {}
        } else {
            assert(!sheet.has(r, c));
        }
    }
}
//@@ props C08,C07,C01,C03,C06

impl<RS> Xls<RS> {
    pub closed spec fn hr(&self) -> HeaderRow { self.options.header_row }
    pub closed spec fn rest(&self) -> (BTreeMap<String, SheetData>, Option<VbaProject>, Metadata, PhantomData<RS>, Option<u16>, Vec<CellFormat>, bool) {
        (self.sheets, self.vba, self.metadata, self.marker, self.options.force_codepage, self.formats, self.is_1904)
    }
    /// the stored range of the sheet called `name`
    pub closed spec fn sheet_range(&self, name: &str) -> Option<Range<Data>> {
        match named(self.sheets@, name) { Some(sd) => Some(sd.range), None => None }
    }
    pub closed spec fn ranges_wf(&self) -> bool {
        forall|name: &str, sd: SheetData| #[trigger] maps_borrowed_key_to_value(self.sheets@, name, sd) ==> sd.range.wf()
    }
}
impl<RS> Ods<RS> {
    pub closed spec fn hr(&self) -> HeaderRow { self.options.header_row }
    pub closed spec fn rest(&self) -> (BTreeMap<String, (Range<Data>, Range<String>)>, Metadata, PhantomData<RS>) {
        (self.sheets, self.metadata, self.marker)
    }
    pub closed spec fn sheet_range(&self, name: &str) -> Option<Range<Data>> {
        match named(self.sheets@, name) { Some(sd) => Some(sd.0), None => None }
    }
    pub closed spec fn ranges_wf(&self) -> bool {
        forall|name: &str, sd: (Range<Data>, Range<String>)| #[trigger] maps_borrowed_key_to_value(self.sheets@, name, sd) ==> sd.0.wf()
    }
}

//@@ impl src/xls.rs "Reader<RS> for Xls<RS>"
//@@ item src/xls.rs impl_type "Reader<RS> for Xls<RS>::type Error"
    /// stored sheet ranges are well-formed (they are built by Range::from_sparse / Range::new, whose contracts ensure wf: unit range)
    open spec fn inv(&self) -> bool { self.ranges_wf() }
//@@ fn src/xls.rs "Reader<RS> for Xls<RS>::with_header_row" props=C07,C08 ret=r
//@@ sig
    ensures
        //# C07,C08.with_header_row_sets_option
        r.hr() == header_row,
        //# C07,C08.with_header_row_frame
        r.rest() == old(self).rest(),
        //# C07,C08.with_header_row_returns_self
        *final(r) == *final(self),
//@@ end
//@@ fn src/xls.rs "Reader<RS> for Xls<RS>::worksheet_range" props=C08,C07,C02,C06 ret=r
//@@ sig
    ensures
        //# C07.eager_read_is_pure
        *final(self) == *old(self),
        //# C07.eager_unknown_sheet_is_error
        old(self).sheet_range(name) is None ==> r is Err && r->Err_0 is WorksheetNotFound,
        //# C08,C02.eager_window
        old(self).sheet_range(name) is Some ==> r is Ok && eager_result_ok(old(self).hr(), old(self).sheet_range(name)->Some_0, r->Ok_0),
//@@ body
        proof { axiom_string_keyed_map(self.sheets@, name); lemma_lawful_cells(); }
//@@ closure 0
    -> (res: Range<Data>) ensures
        //# C08,C02.eager_takes_the_data_range
        res == r.range
//@@ closure 1
    -> (res: XlsError) ensures
        //# C07.eager_unknown_sheet_error_kind
        res is WorksheetNotFound
//@@ end
//@@ endimpl

//@@ impl src/ods.rs "Reader<RS> for Ods<RS>"
//@@ item src/ods.rs impl_type "Reader<RS> for Ods<RS>::type Error"
    /// stored sheet ranges are well-formed (built by Range::from_sparse: unit range / unit ods)
    open spec fn inv(&self) -> bool { self.ranges_wf() }
//@@ fn src/ods.rs "Reader<RS> for Ods<RS>::with_header_row" props=C07,C08 ret=r
//@@ sig
    ensures
        //# C07,C08.with_header_row_sets_option
        r.hr() == header_row,
        //# C07,C08.with_header_row_frame
        r.rest() == old(self).rest(),
        //# C07,C08.with_header_row_returns_self
        *final(r) == *final(self),
//@@ end
//@@ fn src/ods.rs "Reader<RS> for Ods<RS>::worksheet_range" props=C08,C07,C04,C06 ret=r
//@@ sig
    ensures
        //# C07.eager_read_is_pure
        *final(self) == *old(self),
        //# C07.eager_unknown_sheet_is_error
        old(self).sheet_range(name) is None ==> r is Err && r->Err_0 is WorksheetNotFound,
        //# C08,C04.eager_window
        old(self).sheet_range(name) is Some ==> r is Ok && eager_result_ok(old(self).hr(), old(self).sheet_range(name)->Some_0, r->Ok_0),
//@@ body
        proof { axiom_string_keyed_map(self.sheets@, name); lemma_lawful_cells(); }
//@@ closure 0
    -> (res: OdsError) ensures
        //# C07.eager_unknown_sheet_error_kind
        res is WorksheetNotFound
//@@ end
//@@ endimpl


// =====================================================================================================================
// C08 "Changing the option affects only subsequent reads and can be changed back": the with_header_row contracts compose; every read
// contract above is a function of (sheet source, old(self).hr()) only, i.e. of the option value at the time of the call.
// =====================================================================================================================
//@@ props C08
fn option_history_xlsx<RS: Read + Seek>(wb: &mut Xlsx<RS>, h: HeaderRow)
    ensures
        //# C08.option_can_be_changed_back
        final(wb).hr() == old(wb).hr() && final(wb).rest() == old(wb).rest(),
{
    let h0 = wb.options.header_row;
    wb.with_header_row(h);
    //# C08.option_change_touches_only_the_option
    assert(wb.hr() == h && wb.rest() == old(wb).rest());
    wb.with_header_row(h0);
}
fn option_history_xlsb<RS: Read + Seek>(wb: &mut Xlsb<RS>, h: HeaderRow)
    ensures
        //# C08.option_can_be_changed_back
        final(wb).hr() == old(wb).hr() && final(wb).rest() == old(wb).rest(),
{
    let h0 = wb.options.header_row;
    wb.with_header_row(h);
    //# C08.option_change_touches_only_the_option
    assert(wb.hr() == h && wb.rest() == old(wb).rest());
    wb.with_header_row(h0);
}
fn option_history_xls<RS: Read + Seek>(wb: &mut Xls<RS>, h: HeaderRow)
    ensures
        //# C08.option_can_be_changed_back
        final(wb).hr() == old(wb).hr() && final(wb).rest() == old(wb).rest(),
{
    let h0 = wb.options.header_row;
    wb.with_header_row(h);
    //# C08.option_change_touches_only_the_option
    assert(wb.hr() == h && wb.rest() == old(wb).rest());
    wb.with_header_row(h0);
}
fn option_history_ods<RS: Read + Seek>(wb: &mut Ods<RS>, h: HeaderRow)
    ensures
        //# C08.option_can_be_changed_back
        final(wb).hr() == old(wb).hr() && final(wb).rest() == old(wb).rest(),
{
    let h0 = wb.options.header_row;
    wb.with_header_row(h);
    //# C08.option_change_touches_only_the_option
    assert(wb.hr() == h && wb.rest() == old(wb).rest());
    wb.with_header_row(h0);
}
//@@ props C08,C07,C01,C03,C06

} // verus!
impl Read for VerifRs { fn read(&mut self, _buf: &mut [u8]) -> std::io::Result<usize> { unimplemented!() } }
impl Seek for VerifRs { fn seek(&mut self, _pos: std::io::SeekFrom) -> std::io::Result<u64> { unimplemented!() } }
fn main() {}
