// A-enc discharge (arithmetic half): `XlsEncoding::decode_to` on the REAL function with the foreign decoder
// `encoding_rs::Encoding::decode_without_bom_handling` stubbed by a recorder. Proved: the returned pair (l, ub), and the exact byte string handed to
// the decoder (prefix of the stream for raw/16-bit storage, zero-extended prefix for 8-bit compressed storage).
// What stays assumed (A-enc): what encoding_rs makes of those bytes.
static mut CAP: [u8; 16] = [0; 16];
static mut CAP_LEN: usize = usize::MAX;
static mut CAP_CALLS: usize = 0;

fn decode_stub<'a>(e: &'static Encoding, bytes: &'a [u8]) -> (Cow<'a, str>, bool) {
    unsafe {
        CAP_CALLS += 1;
        CAP_LEN = bytes.len();
        let mut i = 0;
        while i < bytes.len() && i < 16 {
            CAP[i] = bytes[i];
            i += 1;
        }
    }
    (Cow::Borrowed(""), false)
}

/// the four kinds of code page `high_byte(None)` distinguishes: UTF-16LE (BIFF8), single byte, UTF-8, multi-byte legacy
fn enc_of(k: u8) -> XlsEncoding {
    XlsEncoding {
        encoding: match k {
            0 => UTF_16LE,
            1 => encoding_rs::WINDOWS_1252,
            2 => UTF_8,
            _ => encoding_rs::SHIFT_JIS,
        },
    }
}

/// [MS-XLS] 2.5.293: fHighByte = 1: 2 bytes per character; 0: 1 byte per character (high byte 0 implied)
fn spec_l_ub(eff: Option<bool>, n: usize, len: usize) -> (usize, usize) {
    match eff {
        Some(true) => {
            let l = if n / 2 < len { n / 2 } else { len };
            (l, 2 * l)
        }
        _ => {
            let l = if n < len { n } else { len };
            (l, l)
        }
    }
}

fn decode_to_case(k: u8, hb: Option<bool>, eff: Option<bool>) {
    const N: usize = 6;
    let buf: [u8; N] = kani::any();
    let n: usize = kani::any();
    kani::assume(n <= N);
    let len: usize = kani::any();
    let e = enc_of(k);
    let mut s = String::new();
    let (l, ub) = e.decode_to(&buf[..n], len, &mut s, hb);
    let (sl, sub) = spec_l_ub(eff, n, len);
    assert!(l == sl && ub == sub);
    assert!(ub <= n);
    unsafe {
        assert!(CAP_CALLS == 1);
        match eff {
            Some(false) => {
                assert!(CAP_LEN == 2 * l);
                let mut i = 0;
                while i < l {
                    assert!(CAP[2 * i] == buf[i] && CAP[2 * i + 1] == 0);
                    i += 1;
                }
            }
            _ => {
                assert!(CAP_LEN == ub);
                let mut i = 0;
                while i < ub {
                    assert!(CAP[i] == buf[i]);
                    i += 1;
                }
            }
        }
    }
    kani::cover!(l == 3 && n == 6);
    kani::cover!(l < len && len < 4);
}

#[kani::proof]
#[kani::stub(encoding_rs::Encoding::decode_without_bom_handling, decode_stub)]
#[kani::unwind(14)]
fn decode_to_wide() {
    let k: u8 = kani::any();
    kani::assume(k < 4);
    decode_to_case(k, Some(true), Some(true));
}
#[kani::proof]
#[kani::stub(encoding_rs::Encoding::decode_without_bom_handling, decode_stub)]
#[kani::unwind(14)]
fn decode_to_compressed() {
    let k: u8 = kani::any();
    kani::assume(k < 4);
    decode_to_case(k, Some(false), Some(false));
}
#[kani::proof]
#[kani::stub(encoding_rs::Encoding::decode_without_bom_handling, decode_stub)]
#[kani::unwind(14)]
fn decode_to_default_raw() {
    // no flag byte (BIFF5 and older): single-byte code pages and UTF-8 are decoded from the raw bytes
    let k: u8 = kani::any();
    kani::assume(k == 1 || k == 2);
    decode_to_case(k, None, None);
}
#[kani::proof]
#[kani::stub(encoding_rs::Encoding::decode_without_bom_handling, decode_stub)]
#[kani::unwind(14)]
fn decode_to_default_wide() {
    // no flag byte, multi-byte code page: treated as compressed storage
    let k: u8 = kani::any();
    kani::assume(k == 0 || k == 3);
    decode_to_case(k, None, Some(false));
}
/// `high_byte` (loop-free): an explicit flag wins; without flag the code page decides
#[kani::proof]
fn high_byte_spec() {
    let k: u8 = kani::any();
    kani::assume(k < 4);
    let hb: Option<bool> = kani::any();
    let r = enc_of(k).high_byte(hb);
    match hb {
        Some(b) => assert!(r == Some(b)),
        None => assert!(r == if k == 1 || k == 2 { None } else { Some(false) }),
    }
}
