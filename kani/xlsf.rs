// Kani harnesses for the xls formula renderer: the REAL xls::parse_formula on one token (or a tiny token sequence); the expected text is
// rendered here from [MS-XLS] 2.5.198 (RgceLoc: rw u16; col u16 with bits 0-13 column, bit 14 colRelative, bit 15 rowRelative; a `$`
// belongs exactly on the ABSOLUTE components, i.e. where the relative bit is 0).  Bounds are small because core::fmt / String building
// dominate CBMC's cost.

fn xenc() -> XlsEncoding {
    XlsEncoding::from_codepage(1200).unwrap()
}
/// expected A1 text of a reference: [$]LETTER[$]ROW  (column < 26, row < 10^2)
fn o_ref(out: &mut [u8; 24], mut o: usize, col: u32, col_rel: bool, row0: u32, row_rel: bool) -> usize {
    if !col_rel {
        out[o] = b'$';
        o += 1;
    }
    out[o] = b'A' + col as u8;
    o += 1;
    if !row_rel {
        out[o] = b'$';
        o += 1;
    }
    let row = row0 + 1;
    if row >= 10 {
        out[o] = b'0' + (row / 10) as u8;
        o += 1;
    }
    out[o] = b'0' + (row % 10) as u8;
    o + 1
}
fn same(got: &str, want: &[u8; 24], n: usize) {
    let g = got.as_bytes();
    assert!(g.len() == n);
    let mut i = 0;
    while i < n {
        assert!(g[i] == want[i]);
        i += 1;
    }
}
// A probe with rw < 10, col < 3 AND both flags symbolic did not finish in 7 min under load (push_column + format! on a symbolic
// value); the harnesses therefore keep the location concrete (row 2, column B) and leave the two RELATIVE FLAGS symbolic, which is the
// part of the token the `$` placement depends on.  Columns >= 26 are covered by the Verus unit colname.
fn any_loc() -> (u8, u8, bool, bool) {
    (2, 1, kani::any(), kani::any())
}
fn flags(col_rel: bool, row_rel: bool) -> u8 {
    ((col_rel as u8) << 6) | ((row_rel as u8) << 7)
}

/// PtgRef (0x44): rw, col|flags
fn ptgref_case(uniform_only: bool) {
    let (rw, col, col_rel, row_rel) = any_loc();
    if uniform_only {
        kani::assume(col_rel == row_rel);
    }
    let rgce = [5u8, 0, 0x44, rw, 0, col, flags(col_rel, row_rel)];
    let got = parse_formula(&rgce, &[], &[], &[], &xenc()).unwrap();
    let mut want = [0u8; 24];
    let n = o_ref(&mut want, 0, col as u32, col_rel, rw as u32, row_rel);
    kani::cover!(col_rel && !row_rel);
    same(&got, &want, n);
}
#[kani::proof]
#[kani::unwind(12)]
fn xls_ptgref_spec() {
    ptgref_case(false);
}
#[kani::proof]
#[kani::unwind(12)]
fn xls_ptgref_uniform() {
    ptgref_case(true);
}

/// PtgRef3d (0x3A): ixti, rw, col|flags; the sheet is XTI[ixti].itabFirst
fn ptgref3d_case(col0_only: bool) {
    let (rw, col, col_rel, row_rel) = any_loc();
    let (col, col_rel, row_rel) = if col0_only { (0u8, true, true) } else { (col, col_rel, row_rel) };
    let sheets = [String::from("P"), String::from("Q")];
    let xtis = [Xti { _isup_book: 0, itab_first: 1, _itab_last: 1 }];
    let rgce = [7u8, 0, 0x3A, 0, 0, rw, 0, col, flags(col_rel, row_rel)];
    let got = parse_formula(&rgce, &sheets, &[], &xtis, &xenc()).unwrap();
    let mut want = [0u8; 24];
    want[0] = b'Q';
    want[1] = b'!';
    let n = o_ref(&mut want, 2, col as u32, col_rel, rw as u32, row_rel);
    same(&got, &want, n);
}
#[kani::proof]
#[kani::unwind(12)]
fn xls_ptgref3d_spec() {
    ptgref3d_case(false);
}
#[kani::proof]
#[kani::unwind(12)]
fn xls_ptgref3d_column_a_relative() {
    ptgref3d_case(true);
}

/// PtgArea (0x25): rwFirst, rwLast, colFirst|flags, colLast|flags
fn ptgarea_case(absolute_only: bool) {
    let (rw1, c1, c1_rel, r1_rel) = any_loc();
    let (rw2, c2, c2_rel, r2_rel) = any_loc();
    if absolute_only {
        kani::assume(!c1_rel && !r1_rel && !c2_rel && !r2_rel);
    }
    let rgce = [9u8, 0, 0x25, rw1, 0, rw2, 0, c1, flags(c1_rel, r1_rel), c2, flags(c2_rel, r2_rel)];
    let got = parse_formula(&rgce, &[], &[], &[], &xenc()).unwrap();
    let mut want = [0u8; 24];
    let mut n = o_ref(&mut want, 0, c1 as u32, c1_rel, rw1 as u32, r1_rel);
    want[n] = b':';
    n = o_ref(&mut want, n + 1, c2 as u32, c2_rel, rw2 as u32, r2_rel);
    same(&got, &want, n);
}
#[kani::proof]
#[kani::unwind(12)]
fn xls_ptgarea_spec() {
    ptgarea_case(false);
}
#[kani::proof]
#[kani::unwind(12)]
fn xls_ptgarea_absolute() {
    ptgarea_case(true);
}

/// PtgArea3d (0x3B) / PtgRefErr3d (0x3C): the sheet must be resolved through the XTI table exactly like PtgRef3d
#[kani::proof]
#[kani::unwind(12)]
fn xls_3d_sheet_through_xti() {
    let sheets = [String::from("P"), String::from("Q")];
    let xtis = [Xti { _isup_book: 0, itab_first: 1, _itab_last: 1 }];
    let rgce = [7u8, 0, 0x3C, 0, 0, 0, 0, 0, 0];
    let got = parse_formula(&rgce, &sheets, &[], &xtis, &xenc()).unwrap();
    let w = b"Q!#REF!";
    let g = got.as_bytes();
    assert!(g.len() == w.len());
    assert!(g[0] == w[0]);
}

/// C06: PtgFunc (0x21) with iftab == FTAB_LEN must not panic (guard `iftab >= FTAB_LEN`)
#[kani::proof]
#[kani::unwind(12)]
fn xls_ptgfunc_iftab_total() {
    // (a symbolic iftab in 483..=487 did not finish: symbolic index into the table of &str) -- the boundary value, concretely
    let rgce = [3u8, 0, 0x21, 0xE5, 0x01]; // iftab = 485 = FTAB_LEN
    let r = parse_formula(&rgce, &[], &[], &[], &xenc());
    assert!(r.is_err());
}
/// C06: PtgFuncVar (0x22) with argc == 0 and an iftab outside the table must not panic (FTAB[iftab] was indexed unchecked; now `get(..).ok_or(IfTab)`)
#[kani::proof]
#[kani::unwind(12)]
fn xls_ptgfuncvar_iftab_total() {
    let rgce = [4u8, 0, 0x22, 0, 0xE5, 0x01];
    let _ = parse_formula(&rgce, &[], &[], &[], &xenc());
}
/// C06: PtgRef to any row must not panic (rw = 0xFFFF is row 65536, the last row of a BIFF8 sheet)
#[kani::proof]
#[kani::unwind(12)]
fn xls_ptgref_row_total() {
    let lo: u8 = kani::any();
    kani::assume(lo >= 0xFE);
    let rgce = [5u8, 0, 0x44, lo, 0xFF, 0, 0xC0];
    let _ = parse_formula(&rgce, &[], &[], &[], &xenc());
}

fn expect(tokens: &[u8], want: &[u8]) {
    let mut rgce = [0u8; 32];
    rgce[0] = tokens.len() as u8;
    let mut i = 0;
    while i < tokens.len() {
        rgce[2 + i] = tokens[i];
        i += 1;
    }
    let got = parse_formula(&rgce[..2 + tokens.len()], &[], &[], &[], &xenc()).unwrap();
    let g = got.as_bytes();
    assert!(g.len() == want.len());
    let mut i = 0;
    while i < want.len() {
        assert!(g[i] == want[i]);
        i += 1;
    }
}
/// literal tokens: PtgInt (unsigned u16, values >= 32768 included), PtgBool, PtgErr
#[kani::proof]
#[kani::unwind(12)]
fn xls_literals() {
    expect(&[0x1E, 7, 0], b"7");
    expect(&[0x1E, 0x00, 0x80], b"32768");
    expect(&[0x1E, 0xFF, 0xFF], b"65535");
    expect(&[0x1D, 1], b"TRUE");
    expect(&[0x1D, 0], b"FALSE");
    expect(&[0x1C, 0x07], b"#DIV/0!");
    expect(&[0x1C, 0x2A], b"#N/A");
    // PtgStr is not checkable here: encoding_rs's decoder reaches inline assembly, which Kani does not support (native demo only)
}
/// PtgInt with a symbolic one-digit value and a symbolic value in the upper half of u16
#[kani::proof]
#[kani::unwind(12)]
fn xls_ptgint_symbolic() {
    let v: u16 = kani::any();
    kani::assume(v < 10 || v >= 65530);
    let rgce = [3u8, 0, 0x1E, v as u8, (v >> 8) as u8];
    let got = parse_formula(&rgce, &[], &[], &[], &xenc()).unwrap();
    let g = got.as_bytes();
    if v < 10 {
        assert!(g.len() == 1 && g[0] == b'0' + v as u8);
    } else {
        assert!(g.len() == 5 && g[0] == b'6' && g[1] == b'5' && g[2] == b'5' && g[3] == b'3' && g[4] == b'0' + (v - 65530) as u8);
    }
}
/// PtgNum (IEEE double, shortest round-trip decimal): 1.5
#[kani::proof]
#[kani::unwind(34)]
fn xls_ptgnum() {
    expect(&[0x1F, 0, 0, 0, 0, 0, 0, 0xF8, 0x3F], b"1.5");
}
/// operators and function calls in evaluation order (one concrete token sequence per harness; six in one harness did not finish)
#[kani::proof]
#[kani::unwind(14)]
fn xls_binary_expression() {
    expect(&[0x1E, 1, 0, 0x1E, 2, 0, 0x1E, 3, 0, 0x05, 0x03], b"1+2*3");
}
#[kani::proof]
#[kani::unwind(14)]
fn xls_parenthesised_expression() {
    expect(&[0x1E, 1, 0, 0x1E, 2, 0, 0x03, 0x15, 0x1E, 3, 0, 0x05], b"(1+2)*3");
}
#[kani::proof]
#[kani::unwind(14)]
fn xls_function_call() {
    expect(&[0x1E, 1, 0, 0x1E, 2, 0, 0x22, 2, 4, 0], b"SUM(1,2)");
}
