// Kani harnesses for the xlsb formula renderer: the REAL xlsb::parse_formula on one token (or a tiny token sequence); the expected text
// is rendered here from [MS-XLSB] 2.5.97 (RgceLoc: row u32; col u16 with bits 0-13 column, bit 14 fColRel, bit 15 fRwRel; a `$` belongs
// exactly on the ABSOLUTE components).  `sheets` is the extern-sheet list (already resolved per XTI by read_workbook).

fn o_ref(out: &mut [u8; 24], mut o: usize, col: u32, col_rel: bool, row0: u32, row_rel: bool) -> usize {
    if !col_rel {
        out[o] = b'$';
        o += 1;
    }
    out[o] = b'A' + col as u8;
    o += 1;
    if !row_rel {
        out[o] = b'$';
        o += 1;
    }
    let row = row0 + 1;
    if row >= 10 {
        out[o] = b'0' + (row / 10) as u8;
        o += 1;
    }
    out[o] = b'0' + (row % 10) as u8;
    o + 1
}
fn same(got: &str, want: &[u8; 24], n: usize) {
    let g = got.as_bytes();
    assert!(g.len() == n);
    let mut i = 0;
    while i < n {
        assert!(g[i] == want[i]);
        i += 1;
    }
}
// As for xls (kani/xlsf.rs): location concrete (row 2, column B), the two RELATIVE FLAGS symbolic; a symbolic location did not finish.
fn any_loc() -> (u8, u8, bool, bool) {
    (2, 1, kani::any(), kani::any())
}
fn flags(col_rel: bool, row_rel: bool) -> u8 {
    ((col_rel as u8) << 6) | ((row_rel as u8) << 7)
}

fn ptgref_case(uniform_only: bool) {
    let (rw, col, col_rel, row_rel) = any_loc();
    if uniform_only {
        kani::assume(col_rel == row_rel);
    }
    let rgce = [0x44u8, rw, 0, 0, 0, col, flags(col_rel, row_rel)];
    let got = parse_formula(&rgce, &[], &[]).unwrap();
    let mut want = [0u8; 24];
    let n = o_ref(&mut want, 0, col as u32, col_rel, rw as u32, row_rel);
    kani::cover!(col_rel && !row_rel);
    same(&got, &want, n);
}
#[kani::proof]
#[kani::unwind(12)]
fn xlsb_ptgref_spec() {
    ptgref_case(false);
}
#[kani::proof]
#[kani::unwind(12)]
fn xlsb_ptgref_uniform() {
    ptgref_case(true);
}

/// PtgRef3d (0x3A): ixti u16, row u32, col|flags
fn ptgref3d_case(absolute_only: bool) {
    let (rw, col, col_rel, row_rel) = any_loc();
    if absolute_only {
        kani::assume(!col_rel && !row_rel);
    }
    let sheets = [String::from("P"), String::from("Q")];
    let rgce = [0x3Au8, 1, 0, rw, 0, 0, 0, col, flags(col_rel, row_rel)];
    let got = parse_formula(&rgce, &sheets, &[]).unwrap();
    let mut want = [0u8; 24];
    want[0] = b'Q';
    want[1] = b'!';
    let n = o_ref(&mut want, 2, col as u32, col_rel, rw as u32, row_rel);
    same(&got, &want, n);
}
#[kani::proof]
#[kani::unwind(12)]
fn xlsb_ptgref3d_spec() {
    ptgref3d_case(false);
}
#[kani::proof]
#[kani::unwind(12)]
fn xlsb_ptgref3d_absolute() {
    ptgref3d_case(true);
}

/// PtgArea (0x25): rowFirst u32, rowLast u32, colFirst|flags, colLast|flags
fn ptgarea_case(absolute_only: bool) {
    let (rw1, c1, c1_rel, r1_rel) = any_loc();
    let (rw2, c2, c2_rel, r2_rel) = any_loc();
    if absolute_only {
        kani::assume(!c1_rel && !r1_rel && !c2_rel && !r2_rel);
    }
    let rgce = [0x25u8, rw1, 0, 0, 0, rw2, 0, 0, 0, c1, flags(c1_rel, r1_rel), c2, flags(c2_rel, r2_rel)];
    let got = parse_formula(&rgce, &[], &[]).unwrap();
    let mut want = [0u8; 24];
    let mut n = o_ref(&mut want, 0, c1 as u32, c1_rel, rw1 as u32, r1_rel);
    want[n] = b':';
    n = o_ref(&mut want, n + 1, c2 as u32, c2_rel, rw2 as u32, r2_rel);
    same(&got, &want, n);
}
#[kani::proof]
#[kani::unwind(12)]
fn xlsb_ptgarea_spec() {
    ptgarea_case(false);
}
#[kani::proof]
#[kani::unwind(12)]
fn xlsb_ptgarea_absolute() {
    ptgarea_case(true);
}

/// C06: PtgFunc with any iftab near the end of the table / 3-D token with any ixti must not panic
#[kani::proof]
#[kani::unwind(12)]
fn xlsb_ptgfunc_iftab_total() {
    let rgce = [0x21u8, 0xE5, 0x01]; // iftab = 485 = FTAB_LEN (a symbolic iftab did not finish)
    let r = parse_formula(&rgce, &[], &[]);
    assert!(r.is_err());
}
/// C06: PtgFuncVar (0x22) with an iftab outside the table must return Err
#[kani::proof]
#[kani::unwind(12)]
fn xlsb_ptgfuncvar_iftab_total() {
    let rgce = [0x22u8, 0, 0xE5, 0x01];
    let r = parse_formula(&rgce, &[], &[]);
    assert!(r.is_err());
}
/// C06: a 3-D token whose ixti is outside the extern-sheet list must return Err (concrete value and an empty extern-sheet list: a symbolic
/// ixti / a list of Strings does not finish once the in-range case renders the sheet name instead of panicking)
#[kani::proof]
#[kani::unwind(12)]
fn xlsb_3d_ixti_total() {
    let r = parse_formula(&[0x3Cu8, 0, 0, 0, 0, 0, 0, 0, 0], &[], &[]);
    assert!(r.is_err());
}

fn expect(tokens: &[u8], names: &[(String, String)], want: &[u8]) {
    let got = parse_formula(tokens, &[], names).unwrap();
    let g = got.as_bytes();
    assert!(g.len() == want.len());
    let mut i = 0;
    while i < want.len() {
        assert!(g[i] == want[i]);
        i += 1;
    }
}
/// literal tokens: PtgInt (unsigned u16, values >= 32768 included), PtgBool, PtgErr
#[kani::proof]
#[kani::unwind(12)]
fn xlsb_literals() {
    expect(&[0x1E, 7, 0], &[], b"7");
    expect(&[0x1E, 0x00, 0x80], &[], b"32768");
    expect(&[0x1E, 0xFF, 0xFF], &[], b"65535");
    expect(&[0x1D, 1], &[], b"TRUE");
    expect(&[0x1D, 0], &[], b"FALSE");
    expect(&[0x1C, 0x07], &[], b"#DIV/0!");
    // PtgStr is not checkable here: encoding_rs's UTF-16 decoder reaches inline assembly, which Kani does not support (native demo only)
}
/// PtgName (0x23): ONE-based index into the defined-names list (declaration order)
#[kani::proof]
#[kani::unwind(12)]
fn xlsb_ptgname() {
    let names = [(String::from("N1"), String::new()), (String::from("N2"), String::from("1"))];
    expect(&[0x23, 1, 0, 0, 0], &names, b"N1");
    expect(&[0x23, 2, 0, 0, 0], &names, b"N2");
}
#[kani::proof]
#[kani::unwind(34)]
fn xlsb_ptgnum() {
    expect(&[0x1F, 0, 0, 0, 0, 0, 0, 0xF8, 0x3F], &[], b"1.5");
}
/// operators and function calls in evaluation order (one concrete token sequence per harness)
#[kani::proof]
#[kani::unwind(14)]
fn xlsb_binary_expression() {
    expect(&[0x1E, 1, 0, 0x1E, 2, 0, 0x1E, 3, 0, 0x05, 0x03], &[], b"1+2*3");
}
#[kani::proof]
#[kani::unwind(14)]
fn xlsb_function_call() {
    expect(&[0x1E, 1, 0, 0x1E, 2, 0, 0x22, 2, 4, 0], &[], b"SUM(1,2)");
}
