// C10: built-in number-format ids and the typing of numbers by format class.
//
// Oracle (ECMA-376 Part 1, 18.8.30 numFmt, table of implied built-in formats):
//   14 mm-dd-yy | 15 d-mmm-yy | 16 d-mmm | 17 mmm-yy | 18 h:mm AM/PM | 19 h:mm:ss AM/PM | 20 h:mm | 21 h:mm:ss |
//   22 m/d/yy h:mm | 45 mm:ss | 47 mmss.0   -> date/time
//   46 [h]:mm:ss                              -> elapsed time
//   every other id (0..13 General/number/percent/fraction/scientific, 37..40 accounting, 48 ##0.0E+0, 49 @, and all
//   ids that are not assigned)                -> not a date
use crate::datatype::verif_kani_datatype::edt_parts;

const ECMA_DATE_IDS: [u32; 11] = [14, 15, 16, 17, 18, 19, 20, 21, 22, 45, 47];
const ECMA_ELAPSED_ID: u32 = 46;

/// 0 = not a date, 1 = date/time, 2 = elapsed time
fn ecma_class(n: u32) -> u8 {
    let mut i = 0;
    while i < ECMA_DATE_IDS.len() {
        if ECMA_DATE_IDS[i] == n {
            return 1;
        }
        i += 1;
    }
    if n == ECMA_ELAPSED_ID {
        2
    } else {
        0
    }
}
fn class_of(f: CellFormat) -> u8 {
    match f {
        CellFormat::Other => 0,
        CellFormat::DateTime => 1,
        CellFormat::TimeDelta => 2,
    }
}

/// all 65536 codes (xls FORMAT ifmt / xlsb BrtFmt ifmt)
#[kani::proof]
#[kani::unwind(13)]
fn builtin_by_code_ecma() {
    let code: u16 = kani::any();
    kani::cover!(code == 46);
    kani::cover!(code == 22);
    assert!(class_of(builtin_format_by_code(code)) == ecma_class(code as u32));
}

/// value of a canonical decimal numeral (digits only, no sign, no leading zero unless "0"), else None
fn canonical_decimal(b: &[u8]) -> Option<u32> {
    if b.is_empty() || (b.len() > 1 && b[0] == b'0') {
        return None;
    }
    let mut v = 0u32;
    let mut i = 0;
    while i < b.len() {
        if b[i] < b'0' || b[i] > b'9' {
            return None;
        }
        v = v * 10 + (b[i] - b'0') as u32;
        i += 1;
    }
    Some(v)
}

/// xlsx `numFmtId` attribute bytes: ALL byte strings of length <= 5.
/// This is a complete case split for the claim "by_id(id) is a date class only for the decimal numerals of 14-22,45,46,47":
/// `builtin_format_by_id` is a single `match` of the slice against 2-byte literals; a slice pattern `b"14"` can only match
/// a slice of length exactly 2, so every id longer than 2 bytes takes the `_` arm exactly as the ids of length 3..5
/// explored here do (there is no loop, no indexing and no other use of `id`).
#[kani::proof]
#[kani::unwind(13)]
fn builtin_by_id_all_short_ids() {
    let buf: [u8; 5] = kani::any();
    let len: usize = kani::any();
    kani::assume(len <= 5);
    let id = &buf[..len];
    let got = class_of(builtin_format_by_id(id));
    match canonical_decimal(id) {
        Some(n) => {
            kani::cover!(n == 46);
            kani::cover!(n == 14);
            kani::cover!(n == 99999);
            assert!(got == ecma_class(n));
        }
        // not the numeral of any id: no date class may be invented
        None => {
            kani::cover!(len == 0);
            kani::cover!(len == 3 && buf[0] == b'0');
            assert!(got == 0);
        }
    }
}

/// cross clause: the textual and the numeric entry point agree on every u16 code (5 decimal digits at most)
#[kani::proof]
#[kani::unwind(13)]
fn builtin_by_id_agrees_with_by_code() {
    let n: u16 = kani::any();
    let mut digits = [0u8; 5];
    let mut k = 5usize;
    let mut m = n;
    // decimal digits of n, most significant first, in digits[k..5]
    loop {
        k -= 1;
        digits[k] = b'0' + (m % 10) as u8;
        m /= 10;
        if m == 0 {
            break;
        }
    }
    kani::cover!(n == 46 && k == 3);
    kani::cover!(n == 65535 && k == 0);
    assert!(builtin_format_by_id(&digits[k..]) == builtin_format_by_code(n));
}

fn any_format() -> (Option<CellFormat>, u8) {
    let sel: u8 = kani::any();
    kani::assume(sel < 4);
    match sel {
        0 => (None, 0),
        1 => (Some(CellFormat::Other), 0),
        2 => (Some(CellFormat::DateTime), 1),
        _ => (Some(CellFormat::TimeDelta), 2),
    }
}

/// i64 number (xls RK / MulRk integers): DateTime exactly for a date/elapsed format, serial = the integer as f64 (bits),
/// date system carried through
#[kani::proof]
fn format_excel_i64_complete() {
    let v: i64 = kani::any();
    let is_1904: bool = kani::any();
    let (fmt, want) = any_format();
    let r = format_excel_i64(v, fmt.as_ref(), is_1904);
    kani::cover!(want == 2 && is_1904);
    match r {
        Data::Int(x) => assert!(want == 0 && x == v),
        Data::DateTime(e) => {
            let (bits, ty, d1904) = edt_parts(&e);
            assert!(want != 0 && ty == want && d1904 == is_1904 && bits == (v as f64).to_bits());
        }
        _ => assert!(false),
    }
}

/// f64 number (xlsx <v>, xlsb BrtCellReal/BrtFmlaNum/BrtCellRk): same, value bit-identical (NaN payloads included)
#[kani::proof]
fn format_excel_f64_ref_complete() {
    let v: f64 = kani::any();
    let is_1904: bool = kani::any();
    let (fmt, want) = any_format();
    let r = format_excel_f64_ref(v, fmt.as_ref(), is_1904);
    kani::cover!(want == 1 && !is_1904 && v.is_nan());
    match r {
        DataRef::Float(x) => assert!(want == 0 && x.to_bits() == v.to_bits()),
        DataRef::DateTime(e) => {
            let (bits, ty, d1904) = edt_parts(&e);
            assert!(want != 0 && ty == want && d1904 == is_1904 && bits == v.to_bits());
        }
        _ => assert!(false),
    }
}

/// owned variant used by xls (goes through `From<DataRef> for Data`)
#[kani::proof]
fn format_excel_f64_complete() {
    let v: f64 = kani::any();
    let is_1904: bool = kani::any();
    let (fmt, want) = any_format();
    let r = format_excel_f64(v, fmt.as_ref(), is_1904);
    kani::cover!(want == 2 && is_1904);
    match r {
        Data::Float(x) => assert!(want == 0 && x.to_bits() == v.to_bits()),
        Data::DateTime(e) => {
            let (bits, ty, d1904) = edt_parts(&e);
            assert!(want != 0 && ty == want && d1904 == is_1904 && bits == v.to_bits());
        }
        _ => assert!(false),
    }
}

/// discharges the Verus assume_specification for char::eq_ignore_ascii_case (units/formats): for ALL pairs of chars the
/// std implementation equals "equal after mapping 'A'..='Z' to 'a'..='z'"
fn ascii_lower_model(c: char) -> u32 {
    let v = c as u32;
    if v >= 'A' as u32 && v <= 'Z' as u32 {
        v + 32
    } else {
        v
    }
}
#[kani::proof]
fn char_eq_ignore_ascii_case_spec() {
    let a: char = kani::any();
    let b: char = kani::any();
    kani::cover!(a == 'H' && b == 'h');
    kani::cover!(a as u32 == 0x212A && b == 'k'); // KELVIN SIGN is not an ASCII-case match of k
    assert!(a.eq_ignore_ascii_case(&b) == (ascii_lower_model(a) == ascii_lower_model(b)));
}
