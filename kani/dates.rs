use chrono::{Datelike, NaiveDate, NaiveDateTime, NaiveTime, TimeDelta, Timelike};

const DAY_MS: i64 = 86_400_000;

static mut REC_MS: i64 = 0;
static mut REC_CALLS: u32 = 0;

fn rec_milliseconds(ms: i64) -> TimeDelta {
    unsafe {
        REC_MS = ms;
        REC_CALLS += 1;
    }
    TimeDelta::zero()
}

fn ms_of(v: f64, is_1904: bool) -> i64 {
    unsafe {
        REC_CALLS = 0;
    }
    let r = ExcelDateTime::new(v, ExcelDateTimeType::DateTime, is_1904).as_datetime();
    unsafe {
        assert!(REC_CALLS == 1);
        REC_MS
    }
}

fn whole_days_1900(lo: u32, hi: u32) {
    let n: u32 = kani::any();
    kani::assume(lo <= n && n <= hi);
    kani::cover!(n == lo);
    kani::cover!(n == hi);
    let ms = ms_of(n as f64, false);
    let days = if n >= 60 { n as i64 } else { n as i64 + 1 };
    assert!(ms == days * DAY_MS);
}

#[kani::proof]
#[kani::stub(chrono::TimeDelta::milliseconds, rec_milliseconds)]
fn x_days_full() {
    whole_days_1900(0, 2958465);
}
#[kani::proof]
#[kani::stub(chrono::TimeDelta::milliseconds, rec_milliseconds)]
fn x_days_64k() {
    whole_days_1900(65536, 131071);
}
#[kani::proof]
#[kani::stub(chrono::TimeDelta::milliseconds, rec_milliseconds)]
fn x_days_4k() {
    whole_days_1900(65536, 65536 + 4095);
}
#[kani::proof]
#[kani::stub(chrono::TimeDelta::milliseconds, rec_milliseconds)]
fn x_days_exp21() {
    whole_days_1900(1 << 21, 2958465);
}

fn whole_days_1904(lo: u32, hi: u32) {
    let n: u32 = kani::any();
    kani::assume(lo <= n && n <= hi);
    kani::cover!(n == lo);
    kani::cover!(n == hi);
    let ms = ms_of(n as f64, true);
    assert!(ms == (n as i64 + 1462) * DAY_MS);
}
#[kani::proof]
#[kani::stub(chrono::TimeDelta::milliseconds, rec_milliseconds)]
fn x_days04_exp21() {
    whole_days_1904(1 << 21, 2958465);
}
#[kani::proof]
#[kani::stub(chrono::TimeDelta::milliseconds, rec_milliseconds)]
fn x_days04_exp10() {
    whole_days_1904(1 << 10, (1 << 11) - 1);
}

/// v = q / 1024 (exact); the exact product v * 86_400_000 = q * 84375 is an integer
fn dyadic10_1900(lo: u32, hi: u32) {
    let q: u32 = kani::any();
    kani::assume(lo <= q && q <= hi);
    kani::cover!(q == lo);
    kani::cover!(q == hi);
    let v = q as f64 * (1.0 / 1024.0);
    let ms = ms_of(v, false);
    let qq = if q >= 60 * 1024 { q as i64 } else { q as i64 + 1024 };
    assert!(ms == qq * 84375);
}
#[kani::proof]
#[kani::stub(chrono::TimeDelta::milliseconds, rec_milliseconds)]
fn x_dy10_exp31() {
    dyadic10_1900(1 << 31, 2958466 * 1024 - 1);
}
#[kani::proof]
#[kani::stub(chrono::TimeDelta::milliseconds, rec_milliseconds)]
fn x_dy10_exp20() {
    dyadic10_1900(1 << 20, (1 << 21) - 1);
}

/// v = q / 2^20: exact product q * 84375 / 1024, rounded half away from zero
fn dyadic20_1900(lo: u64, hi: u64) {
    let q: u64 = kani::any();
    kani::assume(lo <= q && q <= hi);
    kani::cover!(q == lo);
    kani::cover!(q == hi);
    let v = q as f64 * (1.0 / 1048576.0);
    let ms = ms_of(v, false);
    let qq = if q >= 60 << 20 { q as i64 } else { q as i64 + (1 << 20) };
    assert!(ms == (qq * 84375 + 512) >> 10);
}
#[kani::proof]
#[kani::stub(chrono::TimeDelta::milliseconds, rec_milliseconds)]
fn x_dy20_exp36() {
    dyadic20_1900(1 << 36, (1 << 36) + (1 << 35));
}
#[kani::proof]
#[kani::stub(chrono::TimeDelta::milliseconds, rec_milliseconds)]
fn x_dy20_exp30() {
    dyadic20_1900(1 << 30, (1 << 31) - 1);
}

#[kani::proof]
#[kani::stub(chrono::TimeDelta::milliseconds, rec_milliseconds)]
fn x_mono_quarter() {
    let i: u16 = kani::any();
    let j: u16 = kani::any();
    kani::assume(i <= j && j <= 400);
    let a = i as f64 / 4.0;
    let b = j as f64 / 4.0;
    assert!(ms_of(a, false) <= ms_of(b, false));
}

/// totality, everything real
#[kani::proof]
fn x_total_real() {
    let v: f64 = kani::any();
    let is_1904: bool = kani::any();
    let _ = ExcelDateTime::new(v, ExcelDateTimeType::DateTime, is_1904).as_datetime();
}

static mut ADD_RESULT: Option<NaiveDateTime> = None;
fn rec_checked_add_signed(this: NaiveDateTime, rhs: TimeDelta) -> Option<NaiveDateTime> {
    unsafe { ADD_RESULT }
}
/// totality, real TimeDelta::milliseconds, stubbed calendar addition
#[kani::proof]
#[kani::stub(chrono::NaiveDateTime::checked_add_signed, rec_checked_add_signed)]
fn x_total_realms() {
    let v: f64 = kani::any();
    let is_1904: bool = kani::any();
    let _ = ExcelDateTime::new(v, ExcelDateTimeType::DateTime, is_1904).as_datetime();
}

fn ymd_hms_milli(y: i32, m: u32, d: u32, h: u32, mi: u32, s: u32, ms: u32) -> Option<NaiveDateTime> {
    Some(NaiveDate::from_ymd_opt(y, m, d).unwrap().and_hms_milli_opt(h, mi, s, ms).unwrap())
}
#[kani::proof]
fn x_anchor_1() {
    assert!(ExcelDateTime::new(1.0, ExcelDateTimeType::DateTime, false).as_datetime() == ymd_hms_milli(1900, 1, 1, 0, 0, 0, 0));
    assert!(ExcelDateTime::new(2958465.0, ExcelDateTimeType::DateTime, false).as_datetime() == ymd_hms_milli(9999, 12, 31, 0, 0, 0, 0));
    assert!(ExcelDateTime::new(0.0, ExcelDateTimeType::DateTime, true).as_datetime() == ymd_hms_milli(1904, 1, 1, 0, 0, 0, 0));
    assert!(ExcelDateTime::new(1e20, ExcelDateTimeType::DateTime, true).as_datetime() == None);
}

/// |ms * 2^s - N| <= 2^s * (1/2 + 1/16) where N / 2^s is the exact real product f * 86_400_000
fn tol_1900(e_lo: i32, e_hi: i32) {
    let e: i32 = kani::any();
    kani::assume(e_lo <= e && e <= e_hi);
    let m: u64 = kani::any();
    kani::assume(m < (1u64 << 52));
    let v = f64::from_bits((((1023 + e) as u64) << 52) | m);
    kani::assume(v < 2958466.0);
    kani::cover!(v == 59.5);
    let ms = ms_of(v, false);
    // exact value of v: (2^52 + m) * 2^(e-52); shim adds 1 below 60
    let s = (52 - e) as u32; // v = mant / 2^s, s in 31..=80
    let mant = (1u128 << 52) + m as u128;
    // exact f * 2^s
    let fnum: u128 = if v >= 60.0 { mant } else { mant + (1u128 << s) };
    // exact product * 2^s = fnum * 84375 * 1024 ; compare ms * 2^s
    let lhs: u128 = (ms as u128) << s;
    let rhs: u128 = fnum * 84375 * 1024;
    let tol: u128 = (1u128 << (s - 1)) + (1u128 << (s - 4));
    assert!(ms >= 0);
    assert!(lhs <= rhs + tol && rhs <= lhs + tol);
}
#[kani::proof]
#[kani::stub(chrono::TimeDelta::milliseconds, rec_milliseconds)]
fn x_tol_e15() {
    tol_1900(15, 15);
}
#[kani::proof]
#[kani::stub(chrono::TimeDelta::milliseconds, rec_milliseconds)]
fn x_tol_e5() {
    tol_1900(5, 5);
}
#[kani::proof]
#[kani::stub(chrono::TimeDelta::milliseconds, rec_milliseconds)]
fn x_tol_all() {
    tol_1900(-28, 21);
}

#[kani::proof]
#[kani::stub(chrono::TimeDelta::milliseconds, rec_milliseconds)]
fn x_mono_f64() {
    let a: f64 = kani::any();
    let b: f64 = kani::any();
    kani::assume(61.0 <= a && a <= b && b < 2958466.0);
    assert!(ms_of(a, false) <= ms_of(b, false));
}
#[kani::proof]
#[kani::stub(chrono::TimeDelta::milliseconds, rec_milliseconds)]
fn x_mono_quarter_all() {
    let i: u32 = kani::any();
    let j: u32 = kani::any();
    kani::assume(i <= j && j <= 2958466 * 4);
    kani::assume(!(59 * 4 <= i && i < 61 * 4) && !(59 * 4 <= j && j < 61 * 4));
    let a = i as f64 / 4.0;
    let b = j as f64 / 4.0;
    assert!(ms_of(a, false) <= ms_of(b, false));
}

fn dyadic14_1900(lo: u64, hi: u64) {
    let q: u64 = kani::any();
    kani::assume(lo <= q && q <= hi);
    kani::cover!(q == lo);
    kani::cover!(q == hi);
    let v = q as f64 * (1.0 / 16384.0);
    let ms = ms_of(v, false);
    let qq = if q >= 60 << 14 { q as i64 } else { q as i64 + (1 << 14) };
    assert!(ms == (qq * 84375 + 8) >> 4);
}
#[kani::proof]
#[kani::stub(chrono::TimeDelta::milliseconds, rec_milliseconds)]
fn x_dy14_hi() {
    dyadic14_1900(1 << 30, (2958466 << 14) - 1);
}
#[kani::proof]
#[kani::stub(chrono::TimeDelta::milliseconds, rec_milliseconds)]
fn x_dy14_all() {
    dyadic14_1900(0, (2958466 << 14) - 1);
}

#[kani::proof]
fn x_total_excl() {
    let v: f64 = kani::any();
    let is_1904: bool = kani::any();
    kani::assume(!(v <= -1.0e11));
    let _ = ExcelDateTime::new(v, ExcelDateTimeType::DateTime, is_1904).as_datetime();
}

static mut REC_SELF: (u64, u8, bool) = (0, 0, false);
static mut STUB_DT: Option<NaiveDateTime> = None;
fn rec_as_datetime(this: &ExcelDateTime) -> Option<NaiveDateTime> {
    unsafe {
        REC_CALLS += 1;
        REC_SELF = crate::datatype::verif_kani_datatype::edt_parts(this);
        STUB_DT
    }
}
fn any_naive_datetime() -> NaiveDateTime {
    let y: i32 = kani::any();
    let o: u32 = kani::any();
    kani::assume(-10000 <= y && y <= 10000 && 1 <= o && o <= 365);
    let s: u32 = kani::any();
    let n: u32 = kani::any();
    kani::assume(s < 86400 && n < 1_000_000_000);
    NaiveDate::from_yo_opt(y, o).unwrap().and_time(NaiveTime::from_num_seconds_from_midnight_opt(s, n).unwrap())
}
#[kani::proof]
#[kani::stub(crate::datatype::ExcelDateTime::as_datetime, rec_as_datetime)]
fn x_trait_float() {
    let dt = if kani::any() { Some(any_naive_datetime()) } else { None };
    unsafe {
        STUB_DT = dt;
        REC_CALLS = 0;
    }
    let f: f64 = kani::any();
    let r = Data::Float(f).as_datetime();
    unsafe {
        assert!(REC_CALLS == 1);
        assert!(REC_SELF == (f.to_bits(), 1, false));
    }
    assert!(r == dt);
    assert!(Data::Float(f).as_date() == dt.map(|d| d.date()));
    assert!(Data::Float(f).as_time() == dt.map(|d| d.time()));
}

fn mono_bucket(e: i32, excl: bool) {
    let ma: u64 = kani::any();
    let mb: u64 = kani::any();
    kani::assume(ma <= mb && mb < (1u64 << 52));
    let a = f64::from_bits((((1023 + e) as u64) << 52) | ma);
    let b = f64::from_bits((((1023 + e) as u64) << 52) | mb);
    if excl {
        kani::assume(!(59.0 <= a && a < 61.0) && !(59.0 <= b && b < 61.0));
    }
    assert!(ms_of(a, false) <= ms_of(b, false));
}
#[kani::proof]
#[kani::stub(chrono::TimeDelta::milliseconds, rec_milliseconds)]
fn x_mono_e15() {
    mono_bucket(15, false);
}
#[kani::proof]
#[kani::stub(chrono::TimeDelta::milliseconds, rec_milliseconds)]
fn x_mono_e5_excl() {
    mono_bucket(5, true);
}
#[kani::proof]
#[kani::stub(chrono::TimeDelta::milliseconds, rec_milliseconds)]
fn x_days_lo() {
    whole_days_1900(0, 1023);
}
#[kani::proof]
#[kani::stub(chrono::TimeDelta::milliseconds, rec_milliseconds)]
fn x_days_mid() {
    whole_days_1900(1024, 65535);
}

/// days since 1970-01-01 -> proleptic Gregorian (y, m, d); H. Hinnant's civil_from_days, independent of chrono
fn civil_from_days(z: i64) -> (i64, u32, u32) {
    let z = z + 719468;
    let era = (if z >= 0 { z } else { z - 146096 }) / 146097;
    let doe = (z - era * 146097) as u64;
    let yoe = (doe - doe / 1460 + doe / 36524 - doe / 146096) / 365;
    let y = yoe as i64 + era * 400;
    let doy = doe - (365 * yoe + yoe / 4 - yoe / 100);
    let mp = (5 * doy + 2) / 153;
    let d = (doy - (153 * mp + 2) / 5 + 1) as u32;
    let m = if mp < 10 { mp + 3 } else { mp - 9 } as u32;
    (if m <= 2 { y + 1 } else { y }, m, d)
}
fn civil_range(lo: u32, hi: u32) {
    let n: u32 = kani::any();
    kani::assume(lo <= n && n <= hi);
    let r = ExcelDateTime::new(n as f64, ExcelDateTimeType::DateTime, false).as_datetime();
    let (y, m, d) = civil_from_days(n as i64 - 25569);
    let dt = r.unwrap();
    assert!(dt.year() as i64 == y && dt.month() == m && dt.day() == d);
    assert!(dt.time() == NaiveTime::MIN);
}
#[kani::proof]
fn x_civil_0() {
    civil_range(61, 65535);
}
#[kani::proof]
fn x_civil_4k() {
    civil_range(40000, 44095);
}

fn dur_ms_of(v: f64) -> i64 {
    unsafe {
        REC_CALLS = 0;
    }
    let r = ExcelDateTime::new(v, ExcelDateTimeType::TimeDelta, kani::any()).as_duration();
    unsafe {
        assert!(REC_CALLS == 1);
        assert!(r.is_some());
        REC_MS
    }
}
fn dur_tol(e: i32) {
    let m: u64 = kani::any();
    kani::assume(m < (1u64 << 52));
    let neg: bool = kani::any();
    let v = f64::from_bits(((neg as u64) << 63) | (((1023 + e) as u64) << 52) | m);
    let ms = dur_ms_of(v);
    let s = (52 - e) as u32;
    let mant = (1u128 << 52) + m as u128;
    assert!(if neg { ms <= 0 } else { ms >= 0 });
    let lhs: u128 = (ms.unsigned_abs() as u128) << s;
    let rhs: u128 = mant * 84375 * 1024;
    let tol: u128 = (1u128 << (s - 1)) + (1u128 << (s - 4));
    assert!(lhs <= rhs + tol && rhs <= lhs + tol);
}
#[kani::proof]
#[kani::stub(chrono::TimeDelta::milliseconds, rec_milliseconds)]
fn x_dur_tol_e15() {
    dur_tol(15);
}

fn tol_1904(e: i32) {
    let m: u64 = kani::any();
    kani::assume(m < (1u64 << 52));
    let v = f64::from_bits((((1023 + e) as u64) << 52) | m);
    kani::assume(v < 2958466.0);
    let ms = ms_of(v, true);
    let s = (52 - e) as u32;
    let mant = (1u128 << 52) + m as u128;
    let fnum: u128 = mant + (1462u128 << s);
    let lhs: u128 = (ms as u128) << s;
    let rhs: u128 = fnum * 84375 * 1024;
    let tol: u128 = (1u128 << (s - 1)) + (1u128 << (s - 4));
    assert!(ms >= 0);
    assert!(lhs <= rhs + tol && rhs <= lhs + tol);
}
#[kani::proof]
#[kani::stub(chrono::TimeDelta::milliseconds, rec_milliseconds)]
fn x_tol04_e15() {
    tol_1904(15);
}
#[kani::proof]
#[kani::stub(chrono::TimeDelta::milliseconds, rec_milliseconds)]
fn x_tol04_em20() {
    tol_1904(-20);
}
