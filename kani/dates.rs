use chrono::{Datelike, NaiveDate, NaiveDateTime, NaiveTime, TimeDelta, Timelike};

const DAY_MS: i64 = 86_400_000;

static mut REC_MS: i64 = 0;
static mut REC_CALLS: u32 = 0;

fn rec_milliseconds(ms: i64) -> TimeDelta {
    unsafe {
        REC_MS = ms;
        REC_CALLS += 1;
    }
    TimeDelta::zero()
}

fn ms_of(v: f64, is_1904: bool) -> i64 {
    unsafe {
        REC_CALLS = 0;
    }
    let r = ExcelDateTime::new(v, ExcelDateTimeType::DateTime, is_1904).as_datetime();
    unsafe {
        assert!(REC_CALLS == 1);
        REC_MS
    }
}

fn whole_days_1900(lo: u32, hi: u32) {
    let n: u32 = kani::any();
    kani::assume(lo <= n && n <= hi);
    kani::cover!(n == lo);
    kani::cover!(n == hi);
    let ms = ms_of(n as f64, false);
    let days = if n >= 60 { n as i64 } else { n as i64 + 1 };
    assert!(ms == days * DAY_MS);
}

#[kani::proof]
#[kani::stub(chrono::TimeDelta::milliseconds, rec_milliseconds)]
fn x_days_full() {
    whole_days_1900(0, 2958465);
}
#[kani::proof]
#[kani::stub(chrono::TimeDelta::milliseconds, rec_milliseconds)]
fn x_days_64k() {
    whole_days_1900(65536, 131071);
}
#[kani::proof]
#[kani::stub(chrono::TimeDelta::milliseconds, rec_milliseconds)]
fn x_days_4k() {
    whole_days_1900(65536, 65536 + 4095);
}
#[kani::proof]
#[kani::stub(chrono::TimeDelta::milliseconds, rec_milliseconds)]
fn x_days_exp21() {
    whole_days_1900(1 << 21, 2958465);
}
