// C11 -- serial date-times -> calendar date, time, duration (feature `dates`).
//
// Decomposition (see DESIGN.md "C11"):
//  (A) calamine's arithmetic. `ExcelDateTime::as_datetime` hands chrono exactly one number: the millisecond offset
//      `ms` from 1899-12-30T00:00 (`Duration::milliseconds(ms)`, i.e. `expect(try_milliseconds(ms))`); `as_duration` likewise. Harnesses marked
//      `#[kani::stub(chrono::TimeDelta::try_milliseconds, rec_try_milliseconds)]` run the REAL calamine function and observe that number.
//      Specifications are integer/rational statements derived from the property text:
//        1900 system: day offset = serial (+1 below serial 60: serial 1 = 1900-01-01 = epoch + 2 days),
//        1904 system: day offset = serial + 1462 (serial 0 = 1904-01-01),
//        ms = exact real product (day offset * 86_400_000) rounded to the nearest integer, ties away from zero.
//      Every f64 is m * 2^k, so the exact product is a rational with a power-of-two denominator and all comparisons are done
//      in u128 integer arithmetic -- no float operation of the code is repeated on the specification side.
//  (B) chrono's calendar (epoch + k days is the civil date k days later) is ASSUMED; anchored by concrete runs of the real,
//      unstubbed function and (thorough tier) compared with an independent days-to-civil oracle on sub-ranges.
//  (C) trait-level conversions: `ExcelDateTime::as_datetime/as_duration` are replaced by recording stubs that return a symbolic
//      value, so the harness sees exactly which ExcelDateTime the trait method builds and what it does with the result.
use chrono::{Datelike, NaiveDate, NaiveDateTime, NaiveTime, TimeDelta, Timelike};

const DAY_MS: i64 = 86_400_000; // 24 h in ms = 84375 * 2^10
const LAST_SERIAL: f64 = 2958466.0; // first serial after 9999-12-31 (supported span: 0 <= v < LAST_SERIAL)

// ------------------------------------------------------------------ observables
static mut REC_MS: i64 = 0;
static mut REC_CALLS: u32 = 0;

/// recording stub for `chrono::TimeDelta::try_milliseconds` (the real `TimeDelta::milliseconds` is `expect(try_milliseconds(ms))`, so
/// this observes the argument whether the code under test calls `milliseconds` or `try_milliseconds`). It does not model chrono's
/// range check (None below -i64::MAX): totality / None paths are the business of the unstubbed harnesses in (A4).
/// It returns a fixed, distinctive delta (1 d 01:01:01.007) so that the harness can also check what the code does with the value.
fn rec_try_milliseconds(ms: i64) -> Option<TimeDelta> {
    unsafe {
        REC_MS = ms;
        REC_CALLS += 1;
    }
    stub_delta()
}
fn stub_delta() -> Option<TimeDelta> {
    TimeDelta::new(86_400 + 3_661, 7_000_000)
}

/// the millisecond offset the real `as_datetime` passes to chrono
fn ms_of(v: f64, is_1904: bool) -> i64 {
    unsafe {
        REC_CALLS = 0;
    }
    let r = ExcelDateTime::new(v, ExcelDateTimeType::DateTime, is_1904).as_datetime();
    unsafe {
        assert!(REC_CALLS == 1);
    }
    // the result is the real chrono sum of the epoch 1899-12-30T00:00:00 and the delta obtained for `ms` (here: the stub's)
    assert!(r == NaiveDate::from_ymd_opt(1899, 12, 31).unwrap().and_hms_milli_opt(1, 1, 1, 7));
    unsafe { REC_MS }
}

/// the millisecond count the real `as_duration` passes to chrono (type tag and date system must not matter)
fn dur_ms_of(v: f64) -> i64 {
    unsafe {
        REC_CALLS = 0;
    }
    let ty = if kani::any() { ExcelDateTimeType::TimeDelta } else { ExcelDateTimeType::DateTime };
    let r = ExcelDateTime::new(v, ty, kani::any()).as_duration();
    unsafe {
        assert!(REC_CALLS == 1);
        assert!(r == stub_delta()); // as_duration returns exactly the delta obtained for `ms`
        REC_MS
    }
}

/// positive normal double with unbiased exponent `e` and 52-bit fraction `m`: value (2^52 + m) * 2^(e-52)
fn mk(e: i32, m: u64, neg: bool) -> f64 {
    f64::from_bits(((neg as u64) << 63) | (((1023 + e) as u64) << 52) | m)
}

// ------------------------------------------------------------------ (A1) whole days
/// whole-day serial n = 2^e + k built from its IEEE-754 fields (value (2^52 + m) * 2^(e-52) with the low 52-e fraction bits zero),
/// exponent symbolic: every n in 2^e_lo ..= min(2^(e_hi+1) - 1, 2958465). 1900 system.
fn days_sym_1900(e_lo: i32, e_hi: i32) {
    let e: i32 = kani::any();
    kani::assume(e_lo <= e && e <= e_hi);
    let m: u64 = kani::any();
    kani::assume(m < (1u64 << 52));
    let s = (52 - e) as u32;
    kani::assume(m & ((1u64 << s) - 1) == 0);
    let v = mk(e, m, false);
    kani::assume(v <= 2958465.0);
    let mant = (1u128 << 52) + m as u128;
    let n = (mant >> s) as u64; // v == n
    kani::cover!(n == 1);
    kani::cover!(n == 59);
    kani::cover!(n == 60);
    kani::cover!(n == 61);
    kani::cover!(n == 2958465);
    let ms = ms_of(v, false);
    // serial 1 is 1900-01-01 = 1899-12-30 + 2 days; from serial 61 (1900-03-01 = 1899-12-30 + 61 days) one day per unit;
    // serial 60 is the fictitious 1900-02-29: no calendar date; all the property fixes is that it lies between its neighbours
    if n == 60 {
        assert!(60 * DAY_MS <= ms && ms <= 61 * DAY_MS);
        return;
    }
    let days = if n >= 60 { n } else { n + 1 };
    // ms == days * 86_400_000, stated on the common scale 2^s: days * 2^s = mant (+ 2^s below serial 60)
    let days_scaled: u128 = if n >= 60 { mant } else { mant + (1u128 << s) };
    assert!(days_scaled == (days as u128) << s);
    assert!(ms >= 0 && (ms as u128) << s == days_scaled * 84375 * 1024);
}
/// the same for the 1904 system: serial 0 is 1904-01-01 = 1899-12-30 + 1462 days
fn days_sym_1904(e_lo: i32, e_hi: i32) {
    let e: i32 = kani::any();
    kani::assume(e_lo <= e && e <= e_hi);
    let m: u64 = kani::any();
    kani::assume(m < (1u64 << 52));
    let s = (52 - e) as u32;
    kani::assume(m & ((1u64 << s) - 1) == 0);
    let v = mk(e, m, false);
    kani::assume(v <= 2958465.0);
    let n = (((1u128 << 52) + m as u128) >> s) as u64;
    kani::cover!(n == 1);
    kani::cover!(n == 2958465);
    let ms = ms_of(v, true);
    // n + 1462 is a whole number below 2^53, hence a double; its fields are taken from a float addition and checked as integers
    let fb = (v + 1462.0).to_bits();
    let ef = ((fb >> 52) & 0x7ff) as i32 - 1023;
    let mf = (1u128 << 52) + (fb & ((1u64 << 52) - 1)) as u128;
    let sf = (52 - ef) as u32;
    assert!(ef >= 10 && ef <= 21 && (fb >> 63) == 0);
    assert!(mf == ((n + 1462) as u128) << sf);
    assert!(ms >= 0 && (ms as u128) << sf == mf * 84375 * 1024);
}
/// serial 0 (not a normal double): 1899-12-31 in the 1900 system (one day before serial 1), 1904-01-01 in the 1904 system
fn days_zero() {
    assert!(ms_of(0.0, false) == DAY_MS);
    assert!(ms_of(0.0, true) == 1462 * DAY_MS);
}
/// the same statements with the serial produced by an integer-to-float conversion (`n as f64`, the `Data::Int` path)
fn whole_days_1900(lo: u32, hi: u32) {
    let n: u32 = kani::any();
    kani::assume(lo <= n && n <= hi);
    kani::cover!(n == lo);
    kani::cover!(n == hi);
    let ms = ms_of(n as f64, false);
    if n == 60 {
        assert!(60 * DAY_MS <= ms && ms <= 61 * DAY_MS);
        return;
    }
    let days = if n >= 60 { n as i64 } else { n as i64 + 1 };
    assert!(ms == days * DAY_MS);
}
fn whole_days_1904(lo: u32, hi: u32) {
    let n: u32 = kani::any();
    kani::assume(lo <= n && n <= hi);
    kani::cover!(n == lo);
    kani::cover!(n == hi);
    let ms = ms_of(n as f64, true);
    assert!(ms == (n as i64 + 1462) * DAY_MS);
}

// ------------------------------------------------------------------ (A2) all f64 serials, rounding to the millisecond
/// every double v in [2^e_lo, 2^(e_hi+1)), v < LAST_SERIAL (exponent symbolic, all 2^52 fractions):
///     | ms - (v + c) * 86_400_000 | <= 1/2 + 1/16 ms,   c = 1462 (1904 system) | 0 (1900 system, v >= 61) | 1 (1900 system, v < 60)
/// (1900 system, 60 <= v < 61, the fictitious 1900-02-29: only 60 d <= ms <= 61 d.)
/// (1/2: rounding to the millisecond; 1/16 ms: allowance for the binary64 rounding of the sum and of the product.) Proved in two
/// integer steps that add up by the triangle inequality (1/2 + 1/32 + 0.0201 < 1/2 + 1/16):
///   (B) the double f nearest to v + c -- taken from a float addition in the harness and checked here against exact integer
///       arithmetic -- differs from v + c by at most 2^-32 day = 0.0201 ms;
///   (A) | ms - f * 86_400_000 | <= 1/2 + 1/32 ms, f * 86_400_000 being the exact rational mantissa(f) * 84375 * 2^10 / 2^sf.
/// For whole-day v both sides are integers, so the bound implies equality.
fn tol_sym(e_lo: i32, e_hi: i32, is_1904: bool) {
    let e: i32 = kani::any();
    kani::assume(e_lo <= e && e <= e_hi);
    let m: u64 = kani::any();
    kani::assume(m < (1u64 << 52));
    let v = mk(e, m, false);
    kani::assume(v < LAST_SERIAL);
    kani::cover!(m == 0 && e == e_lo);
    kani::cover!(m == 1 && e == e_hi);
    let ms = ms_of(v, is_1904);
    if !is_1904 && 60.0 <= v && v < 61.0 {
        // the fictitious 1900-02-29: only "between serial 59.999.. (offset 61 days - 0) and serial 61 (offset 61 days)" can be
        // demanded, and that is the monotonicity obligation; here merely: not before 1900-02-28T00:00, not after 1900-03-01T00:00
        assert!(60 * DAY_MS <= ms && ms <= 61 * DAY_MS);
        return;
    }
    let c: u128 = if is_1904 { 1462 } else if v >= 60.0 { 0 } else { 1 };
    let f = if is_1904 { v + 1462.0 } else if v >= 60.0 { v } else { v + 1.0 };
    let fb = f.to_bits();
    let ef = ((fb >> 52) & 0x7ff) as i32 - 1023;
    let mf = (1u128 << 52) + (fb & ((1u64 << 52) - 1)) as u128;
    assert!((fb >> 63) == 0 && ef >= e && ef <= 21 && ef >= 0);
    let sv = (52 - e) as u32; // v = mant / 2^sv
    let sf = (52 - ef) as u32; // f = mf / 2^sf
    let mant = (1u128 << 52) + m as u128;
    // (B) on the scale 2^sv
    let fs = mf << (sv - sf);
    let exact = mant + (c << sv);
    let tolb: u128 = if sv >= 32 { 1u128 << (sv - 32) } else { 0 };
    assert!(fs <= exact + tolb && exact <= fs + tolb);
    // (A) on the scale 2^sf
    assert!(ms >= 0);
    let lhs: u128 = (ms as u128) << sf;
    let rhs: u128 = mf * 84375 * 1024;
    let tola: u128 = (1u128 << (sf - 1)) + (1u128 << (sf - 5));
    assert!(lhs <= rhs + tola && rhs <= lhs + tola);
}
/// |v| < 2^-28 day (0.32 ms), zeros and subnormals included: serial 0, i.e. 1899-12-31T00:00:00.000 / 1904-01-01T00:00:00.000 exactly
fn tiny_serial() {
    let bits: u64 = kani::any();
    kani::assume(((bits >> 52) & 0x7ff) < (1023 - 28));
    let v = f64::from_bits(bits);
    kani::cover!(v == 0.0);
    kani::cover!(v < 0.0);
    kani::cover!(v > 0.0);
    assert!(ms_of(v, false) == DAY_MS);
    assert!(ms_of(v, true) == 1462 * DAY_MS);
}
/// 1904 system: same instant as the 1900-system serial v + 1462 (for every f64 whose shifted value is not below 60; +inf included,
/// NaN has no instant at all: `as_datetime_nan_is_none`)
fn sys1904_link() {
    let v: f64 = kani::any();
    kani::assume(v + 1462.0 >= 60.0);
    kani::cover!(v == 0.0);
    kani::cover!(v == f64::INFINITY);
    assert!(ms_of(v, true) == ms_of(v + 1462.0, false));
}
/// 1900 system, any f64 in the supported span outside [60,61): the offset from 1899-12-30 is the duration ("serial times 24h") of the serial, shifted by one day below 60
fn shim_link() {
    let v: f64 = kani::any();
    kani::assume(v >= 0.0 && v < LAST_SERIAL);
    kani::assume(!(60.0 <= v && v < 61.0)); // fictitious 1900-02-29: see the monotonicity obligation
    kani::cover!(v == 59.0);
    kani::cover!(v == 61.0);
    let f = if v >= 60.0 { v } else { v + 1.0 };
    assert!(ms_of(v, false) == dur_ms_of(f));
}

// ------------------------------------------------------------------ (A3) exact lattice: ties away from zero
/// every double v in [2^e_lo, 2^(e_hi+1)) (exponent symbolic), v < LAST_SERIAL, such that the day offset v + c (c as in (A2)) is a
/// double with at most 36 significant bits: then (v + c) * 86_400_000 = mantissa * 84375 * 2^10 / 2^sf is exact in binary64 and
///     ms == floor((v + c) * 86_400_000 + 1/2)      (round to nearest millisecond, ties away from zero)
/// The lattice contains all whole days, all multiples of 2^-14 day (5.3 s) up to 9999-12-31, of 2^-20 day (82 ms) up to 2079,
/// of 2^-30 day (0.08 ms) below serial 63 (1900 system), and products with fractional part exactly 1/2 (cover).
/// Both lattice conditions are checked in integer arithmetic on the IEEE-754 fields of the harness-side sum f.
fn exact_sym(e_lo: i32, e_hi: i32, is_1904: bool) {
    let e: i32 = kani::any();
    kani::assume(e_lo <= e && e <= e_hi);
    let m: u64 = kani::any();
    kani::assume(m < (1u64 << 52));
    let v = mk(e, m, false);
    kani::assume(v < LAST_SERIAL);
    kani::assume(is_1904 || !(60.0 <= v && v < 61.0)); // fictitious 1900-02-29: see (A2) / monotonicity
    let c: u128 = if is_1904 { 1462 } else if v >= 60.0 { 0 } else { 1 };
    let f = if is_1904 { v + 1462.0 } else if v >= 60.0 { v } else { v + 1.0 };
    let fb = f.to_bits();
    let ef = ((fb >> 52) & 0x7ff) as i32 - 1023;
    let mf = (1u128 << 52) + (fb & ((1u64 << 52) - 1)) as u128;
    kani::assume((fb >> 63) == 0 && ef >= e && ef <= 21 && ef >= 0);
    let sv = (52 - e) as u32;
    let sf = (52 - ef) as u32;
    let mant = (1u128 << 52) + m as u128;
    kani::assume(mf << (sv - sf) == mant + (c << sv)); // f is exactly v + c
    kani::assume(mf & ((1u128 << 17) - 1) == 0); // at most 36 significant bits
    kani::cover!(e == e_lo);
    kani::cover!(e == e_hi);
    kani::cover!((mf * 84375 * 1024) & ((1u128 << sf) - 1) == (1u128 << (sf - 1))); // a tie
    let ms = ms_of(v, is_1904);
    assert!(ms >= 0 && ms as u128 == (mf * 84375 * 1024 + (1u128 << (sf - 1))) >> sf);
}

// ------------------------------------------------------------------ (A4) totality and None paths (real chrono, nothing stubbed)
/// any f64 (NaN, +-inf, huge, negative), both systems: returns, never panics
fn total_datetime() {
    let v: f64 = kani::any();
    let is_1904: bool = kani::any();
    kani::cover!(v.is_nan());
    kani::cover!(v == f64::INFINITY);
    kani::cover!(v == f64::NEG_INFINITY);
    kani::cover!(v <= -1.0e300);
    let _ = ExcelDateTime::new(v, ExcelDateTimeType::DateTime, is_1904).as_datetime();
}
/// chrono's NaiveDate spans years -262143..=262142, i.e. fewer than 1.0e8 days either side of 1899-12-30
fn beyond_calendar() {
    let v: f64 = kani::any();
    let is_1904: bool = kani::any();
    kani::assume(v >= 1.0e8 || v <= -1.01e8);
    kani::cover!(v == f64::INFINITY);
    kani::cover!(v == f64::NEG_INFINITY);
    kani::cover!(v <= -1.0e300);
    assert!(ExcelDateTime::new(v, ExcelDateTimeType::DateTime, is_1904).as_datetime().is_none());
}
fn span_is_some() {
    let v: f64 = kani::any();
    let is_1904: bool = kani::any();
    kani::assume(v >= 0.0 && v < LAST_SERIAL);
    kani::cover!(v == 0.0);
    assert!(ExcelDateTime::new(v, ExcelDateTimeType::DateTime, is_1904).as_datetime().is_some());
}
fn nan_is_none() {
    let v: f64 = kani::any();
    kani::assume(v.is_nan());
    kani::cover!(true);
    assert!(ExcelDateTime::new(v, ExcelDateTimeType::DateTime, kani::any()).as_datetime().is_none());
}
/// any f64: returns, never panics; every duration of fewer than 1.0e11 days (2^63 ms is 1.0675e11 days) is representable: Some
fn total_duration() {
    let v: f64 = kani::any();
    kani::cover!(v.is_nan());
    kani::cover!(v == f64::NEG_INFINITY);
    kani::cover!(v <= -1.0e300);
    let r = ExcelDateTime::new(v, ExcelDateTimeType::TimeDelta, kani::any()).as_duration();
    assert!(r.is_some() || !(v > -1.0e11 && v < 1.0e11));
}

// ------------------------------------------------------------------ (A5) monotonicity of the observable on grids i/den
fn mono_grid(den: u32, lo: u32, hi: u32, outside_59_61: bool) {
    let i: u32 = kani::any();
    let j: u32 = kani::any();
    kani::assume(lo <= i && i <= j && j <= hi);
    if outside_59_61 {
        kani::assume(!(59 * den <= i && i < 61 * den) && !(59 * den <= j && j < 61 * den));
    }
    kani::cover!(i < j);
    let a = i as f64 / den as f64;
    let b = j as f64 / den as f64;
    assert!(ms_of(a, false) <= ms_of(b, false));
}

// ------------------------------------------------------------------ (D) as_duration
fn dur_whole_days(lo: u32, hi: u32) {
    let n: u32 = kani::any();
    kani::assume(lo <= n && n <= hi);
    let neg: bool = kani::any();
    kani::cover!(n == lo && neg);
    kani::cover!(n == hi && !neg);
    let v = if neg { -(n as f64) } else { n as f64 };
    let ms = dur_ms_of(v);
    assert!(ms == if neg { -(n as i64) * DAY_MS } else { n as i64 * DAY_MS });
}
/// whole-day durations +-n, n = 2^e + k built from IEEE-754 fields (exponent symbolic): exactly n * 24 h
fn dur_days_sym(e_lo: i32, e_hi: i32) {
    let e: i32 = kani::any();
    kani::assume(e_lo <= e && e <= e_hi);
    let m: u64 = kani::any();
    kani::assume(m < (1u64 << 52));
    let s = (52 - e) as u32;
    kani::assume(m & ((1u64 << s) - 1) == 0);
    let neg: bool = kani::any();
    let v = mk(e, m, neg);
    let mant = (1u128 << 52) + m as u128;
    let n = (mant >> s) as i64; // |v| == n
    kani::assume(n <= 2958465);
    kani::cover!(n == 2958465 && neg);
    kani::cover!(n == 1 && !neg);
    let ms = dur_ms_of(v);
    assert!(if neg { ms <= 0 } else { ms >= 0 });
    // |ms| == n * 86_400_000 on the scale 2^s (n * 2^s = mant)
    assert!(mant == (n as u128) << s);
    assert!((ms.unsigned_abs() as u128) << s == mant * 84375 * 1024);
}
/// |v| in [2^e_lo, 2^(e_hi+1)) (exponent symbolic), either sign: | ms - v * 86_400_000 | <= 1/2 + 1/16
fn dur_tol(e_lo: i32, e_hi: i32) {
    let e: i32 = kani::any();
    kani::assume(e_lo <= e && e <= e_hi);
    let m: u64 = kani::any();
    kani::assume(m < (1u64 << 52));
    let neg: bool = kani::any();
    let v = mk(e, m, neg);
    kani::cover!(neg);
    kani::cover!(!neg);
    let ms = dur_ms_of(v);
    let s = (52 - e) as u32;
    let mant = (1u128 << 52) + m as u128;
    assert!(if neg { ms <= 0 } else { ms >= 0 });
    let lhs: u128 = (ms.unsigned_abs() as u128) << s;
    let rhs: u128 = mant * 84375 * 1024;
    let tol: u128 = (1u128 << (s - 1)) + (1u128 << (s - 4));
    assert!(lhs <= rhs + tol && rhs <= lhs + tol);
}
fn dur_tiny() {
    let bits: u64 = kani::any();
    kani::assume(((bits >> 52) & 0x7ff) < (1023 - 28));
    let v = f64::from_bits(bits);
    kani::cover!(v < 0.0);
    assert!(dur_ms_of(v) == 0);
}

// ------------------------------------------------------------------ (C) trait-level conversions
static mut REC_SELF: (u64, u8, bool) = (0, 0, false);
static mut STUB_DT: Option<NaiveDateTime> = None;
static mut STUB_DUR: Option<TimeDelta> = None;
static mut REC_DUR_CALLS: u32 = 0;
fn rec_as_datetime(this: &ExcelDateTime) -> Option<NaiveDateTime> {
    unsafe {
        REC_CALLS += 1;
        REC_SELF = crate::datatype::verif_kani_datatype::edt_parts(this);
        STUB_DT
    }
}
fn rec_as_duration(this: &ExcelDateTime) -> Option<TimeDelta> {
    unsafe {
        REC_DUR_CALLS += 1;
        REC_SELF = crate::datatype::verif_kani_datatype::edt_parts(this);
        STUB_DUR
    }
}
fn any_naive_datetime() -> NaiveDateTime {
    let y: i32 = kani::any();
    let o: u32 = kani::any();
    kani::assume(-10000 <= y && y <= 10000 && 1 <= o && o <= 365);
    let s: u32 = kani::any();
    let n: u32 = kani::any();
    kani::assume(s < 86400 && n < 1_000_000_000);
    NaiveDate::from_yo_opt(y, o).unwrap().and_time(NaiveTime::from_num_seconds_from_midnight_opt(s, n).unwrap())
}
fn any_edt() -> ExcelDateTime {
    let ty = if kani::any() { ExcelDateTimeType::TimeDelta } else { ExcelDateTimeType::DateTime };
    ExcelDateTime::new(kani::any(), ty, kani::any())
}
fn setup_stub_dt() -> Option<NaiveDateTime> {
    let dt = if kani::any() { Some(any_naive_datetime()) } else { None };
    unsafe {
        STUB_DT = dt;
    }
    dt
}
fn setup_stub_dur() -> Option<TimeDelta> {
    let s: i32 = kani::any();
    let n: u32 = kani::any();
    kani::assume(n < 1_000_000_000);
    let d = if kani::any() { TimeDelta::new(s as i64, n) } else { None };
    unsafe {
        STUB_DUR = d;
    }
    d
}
fn calls() -> u32 {
    unsafe { REC_CALLS }
}
fn reset_calls() {
    unsafe {
        REC_CALLS = 0;
        REC_DUR_CALLS = 0;
    }
}
/// a plain Int/Float cell converts like the 1900-system date-time with the same value:
/// as_datetime is exactly `ExcelDateTime{value, DateTime, 1900}.as_datetime()`, as_date / as_time are its components
fn trait_plain_datetime<D: DataType>(cell: D, value_bits: u64) {
    let dt = setup_stub_dt();
    kani::cover!(dt.is_some());
    kani::cover!(dt.is_none());
    reset_calls();
    let r = cell.as_datetime();
    assert!(calls() == 1);
    assert!(unsafe { REC_SELF } == (value_bits, 1, false));
    assert!(r == dt);
    reset_calls();
    let d = cell.as_date();
    assert!(calls() == 1 && unsafe { REC_SELF } == (value_bits, 1, false));
    assert!(d == dt.map(|x| x.date()));
    reset_calls();
    let t = cell.as_time();
    assert!(calls() == 1 && unsafe { REC_SELF } == (value_bits, 1, false));
    assert!(t == dt.map(|x| x.time()));
}
/// a DateTime cell converts through its own ExcelDateTime (value, type tag and date system untouched)
fn trait_datetime_cell<D: DataType>(cell: D, e: ExcelDateTime) {
    let parts = crate::datatype::verif_kani_datatype::edt_parts(&e);
    let dt = setup_stub_dt();
    let du = setup_stub_dur();
    kani::cover!(dt.is_some() && du.is_some());
    reset_calls();
    assert!(cell.as_datetime() == dt);
    assert!(calls() == 1 && unsafe { REC_SELF } == parts);
    reset_calls();
    assert!(cell.as_date() == dt.map(|x| x.date()));
    assert!(calls() == 1 && unsafe { REC_SELF } == parts);
    reset_calls();
    assert!(cell.as_time() == dt.map(|x| x.time()));
    assert!(calls() == 1 && unsafe { REC_SELF } == parts);
    reset_calls();
    assert!(cell.as_duration() == du);
    assert!(unsafe { REC_DUR_CALLS } == 1 && unsafe { REC_SELF } == parts);
}
/// "plain Int/Float cells convert like 1900-system date-times", read for as_duration: same result as the DateTime cell of that value
fn trait_plain_duration<D: DataType>(float_cell: D, int_cell: D) {
    let du = setup_stub_dur();
    kani::cover!(du.is_some());
    reset_calls();
    assert!(float_cell.as_duration() == du);
    assert!(int_cell.as_duration() == du);
}

fn trait_plain_datetime_all() {
    let f: f64 = kani::any();
    let i: i64 = kani::any();
    let sel: u8 = kani::any();
    kani::assume(sel < 4);
    match sel {
        0 => trait_plain_datetime(Data::Float(f), f.to_bits()),
        1 => trait_plain_datetime(Data::Int(i), (i as f64).to_bits()),
        2 => trait_plain_datetime(DataRef::Float(f), f.to_bits()),
        _ => trait_plain_datetime(DataRef::Int(i), (i as f64).to_bits()),
    }
}
fn trait_datetime_cell_all() {
    let e = any_edt();
    if kani::any() {
        trait_datetime_cell(Data::DateTime(e), e)
    } else {
        trait_datetime_cell(DataRef::DateTime(e), e)
    }
}
fn trait_plain_duration_all() {
    let f: f64 = kani::any();
    let i: i64 = kani::any();
    if kani::any() {
        trait_plain_duration(Data::Float(f), Data::Int(i))
    } else {
        trait_plain_duration(DataRef::Float(f), DataRef::Int(i))
    }
}

// ------------------------------------------------------------------ (B) anchors on the real, unstubbed function
fn anchor(v: f64, is_1904: bool, y: i32, mo: u32, d: u32, h: u32, mi: u32, s: u32, ms: u32) {
    let want = NaiveDate::from_ymd_opt(y, mo, d).unwrap().and_hms_milli_opt(h, mi, s, ms).unwrap();
    assert!(ExcelDateTime::new(v, ExcelDateTimeType::DateTime, is_1904).as_datetime() == Some(want));
}
fn anchor_none(v: f64, is_1904: bool) {
    assert!(ExcelDateTime::new(v, ExcelDateTimeType::DateTime, is_1904).as_datetime().is_none());
}
fn check_anchors_components() {
    let d = NaiveDate::from_ymd_opt(2021, 10, 15);
    let t = NaiveTime::from_hms_milli_opt(19, 0, 0, 0);
    assert!(Data::Float(44484.7916666667).as_date() == d && Data::Float(44484.7916666667).as_time() == t);
    assert!(DataRef::Float(44484.7916666667).as_date() == d && DataRef::Float(44484.7916666667).as_time() == t);
    assert!(Data::Int(25569).as_date() == NaiveDate::from_ymd_opt(1970, 1, 1) && Data::Int(25569).as_time() == Some(NaiveTime::MIN));
    assert!(DataRef::Int(1).as_date() == NaiveDate::from_ymd_opt(1900, 1, 1));
    let c = Data::DateTime(ExcelDateTime::new(0.5, ExcelDateTimeType::DateTime, true));
    assert!(c.as_date() == NaiveDate::from_ymd_opt(1904, 1, 1) && c.as_time() == NaiveTime::from_hms_opt(12, 0, 0));
    assert!(Data::Float(1e20).as_date().is_none() && Data::Float(1e20).as_time().is_none());
}
fn check_anchors_duration() {
    let e = |v: f64| ExcelDateTime::new(v, ExcelDateTimeType::TimeDelta, false).as_duration();
    assert!(e(1.0) == Some(TimeDelta::hours(24)));
    assert!(e(1.5) == Some(TimeDelta::hours(36)));
    assert!(e(-0.25) == Some(TimeDelta::hours(-6)));
    assert!(e(3.0 / 2048.0) == Some(TimeDelta::milliseconds(126563))); // 126562.5 ms, tie away from zero
    assert!(e(-3.0 / 2048.0) == Some(TimeDelta::milliseconds(-126563)));
    assert!(e(0.0) == Some(TimeDelta::zero()));
    let c = Data::DateTime(ExcelDateTime::new(2.0, ExcelDateTimeType::TimeDelta, true));
    assert!(c.as_duration() == Some(TimeDelta::hours(48)));
}
/// days since 1970-01-01 -> proleptic Gregorian (y, m, d): H. Hinnant's `civil_from_days`, independent of chrono
fn civil_from_days(z: i64) -> (i64, u32, u32) {
    let z = z + 719468;
    let era = (if z >= 0 { z } else { z - 146096 }) / 146097;
    let doe = (z - era * 146097) as u64;
    let yoe = (doe - doe / 1460 + doe / 36524 - doe / 146096) / 365;
    let y = yoe as i64 + era * 400;
    let doy = doe - (365 * yoe + yoe / 4 - yoe / 100);
    let mp = (5 * doy + 2) / 153;
    let d = (doy - (153 * mp + 2) / 5 + 1) as u32;
    let m = (if mp < 10 { mp + 3 } else { mp - 9 }) as u32;
    (if m <= 2 { y + 1 } else { y }, m, d)
}
/// serial n >= 61 is the civil date n - 25569 days after 1970-01-01 (serial 25569), at 00:00:00.000
fn civil_range(lo: u32, hi: u32) {
    let n: u32 = kani::any();
    kani::assume(lo <= n && n <= hi && n >= 61);
    kani::cover!(n == hi);
    let r = ExcelDateTime::new(n as f64, ExcelDateTimeType::DateTime, false).as_datetime();
    let (y, m, d) = civil_from_days(n as i64 - 25569);
    let dt = r.unwrap();
    assert!(dt.year() as i64 == y && dt.month() == m && dt.day() == d);
    assert!(dt.time() == NaiveTime::MIN);
}

// ===================== harness instantiations (one #[kani::proof] per registered obligation) =====================
#[kani::proof]
#[kani::stub(chrono::TimeDelta::try_milliseconds, rec_try_milliseconds)]
fn days1900_all() {
    days_sym_1900(0, 21);
}
#[kani::proof]
#[kani::stub(chrono::TimeDelta::try_milliseconds, rec_try_milliseconds)]
fn days1904_all() {
    days_sym_1904(0, 21);
}
#[kani::proof]
#[kani::stub(chrono::TimeDelta::try_milliseconds, rec_try_milliseconds)]
fn days_serial_zero() {
    days_zero();
}
#[kani::proof]
#[kani::stub(chrono::TimeDelta::try_milliseconds, rec_try_milliseconds)]
fn days1900_cast_e0() {
    whole_days_1900(0, 1);
}
#[kani::proof]
#[kani::stub(chrono::TimeDelta::try_milliseconds, rec_try_milliseconds)]
fn days1900_cast_e1() {
    whole_days_1900(2, 3);
}
#[kani::proof]
#[kani::stub(chrono::TimeDelta::try_milliseconds, rec_try_milliseconds)]
fn days1900_cast_e2() {
    whole_days_1900(4, 7);
}
#[kani::proof]
#[kani::stub(chrono::TimeDelta::try_milliseconds, rec_try_milliseconds)]
fn days1900_cast_e3() {
    whole_days_1900(8, 15);
}
#[kani::proof]
#[kani::stub(chrono::TimeDelta::try_milliseconds, rec_try_milliseconds)]
fn days1900_cast_e4() {
    whole_days_1900(16, 31);
}
#[kani::proof]
#[kani::stub(chrono::TimeDelta::try_milliseconds, rec_try_milliseconds)]
fn days1900_cast_e5() {
    whole_days_1900(32, 63);
}
#[kani::proof]
#[kani::stub(chrono::TimeDelta::try_milliseconds, rec_try_milliseconds)]
fn days1900_cast_e6() {
    whole_days_1900(64, 127);
}
#[kani::proof]
#[kani::stub(chrono::TimeDelta::try_milliseconds, rec_try_milliseconds)]
fn days1900_cast_e7() {
    whole_days_1900(128, 255);
}
#[kani::proof]
#[kani::stub(chrono::TimeDelta::try_milliseconds, rec_try_milliseconds)]
fn days1900_cast_e8() {
    whole_days_1900(256, 511);
}
#[kani::proof]
#[kani::stub(chrono::TimeDelta::try_milliseconds, rec_try_milliseconds)]
fn days1900_cast_e9() {
    whole_days_1900(512, 1023);
}
#[kani::proof]
#[kani::stub(chrono::TimeDelta::try_milliseconds, rec_try_milliseconds)]
fn days1900_cast_e10() {
    whole_days_1900(1024, 2047);
}
#[kani::proof]
#[kani::stub(chrono::TimeDelta::try_milliseconds, rec_try_milliseconds)]
fn days1900_cast_e11() {
    whole_days_1900(2048, 4095);
}
#[kani::proof]
#[kani::stub(chrono::TimeDelta::try_milliseconds, rec_try_milliseconds)]
fn days1900_cast_e12() {
    whole_days_1900(4096, 8191);
}
#[kani::proof]
#[kani::stub(chrono::TimeDelta::try_milliseconds, rec_try_milliseconds)]
fn days1900_cast_e13() {
    whole_days_1900(8192, 16383);
}
#[kani::proof]
#[kani::stub(chrono::TimeDelta::try_milliseconds, rec_try_milliseconds)]
fn days1900_cast_e14() {
    whole_days_1900(16384, 32767);
}
#[kani::proof]
#[kani::stub(chrono::TimeDelta::try_milliseconds, rec_try_milliseconds)]
fn days1900_cast_e15() {
    whole_days_1900(32768, 65535);
}
#[kani::proof]
#[kani::stub(chrono::TimeDelta::try_milliseconds, rec_try_milliseconds)]
fn days1900_cast_e16() {
    whole_days_1900(65536, 131071);
}
#[kani::proof]
#[kani::stub(chrono::TimeDelta::try_milliseconds, rec_try_milliseconds)]
fn days1900_cast_e17() {
    whole_days_1900(131072, 262143);
}
#[kani::proof]
#[kani::stub(chrono::TimeDelta::try_milliseconds, rec_try_milliseconds)]
fn days1900_cast_e18() {
    whole_days_1900(262144, 524287);
}
#[kani::proof]
#[kani::stub(chrono::TimeDelta::try_milliseconds, rec_try_milliseconds)]
fn days1900_cast_e19() {
    whole_days_1900(524288, 1048575);
}
#[kani::proof]
#[kani::stub(chrono::TimeDelta::try_milliseconds, rec_try_milliseconds)]
fn days1900_cast_e20() {
    whole_days_1900(1048576, 2097151);
}
#[kani::proof]
#[kani::stub(chrono::TimeDelta::try_milliseconds, rec_try_milliseconds)]
fn days1900_cast_e21() {
    whole_days_1900(2097152, 2958465);
}
#[kani::proof]
#[kani::stub(chrono::TimeDelta::try_milliseconds, rec_try_milliseconds)]
fn days1904_cast_e0() {
    whole_days_1904(0, 1);
}
#[kani::proof]
#[kani::stub(chrono::TimeDelta::try_milliseconds, rec_try_milliseconds)]
fn days1904_cast_e1() {
    whole_days_1904(2, 3);
}
#[kani::proof]
#[kani::stub(chrono::TimeDelta::try_milliseconds, rec_try_milliseconds)]
fn days1904_cast_e2() {
    whole_days_1904(4, 7);
}
#[kani::proof]
#[kani::stub(chrono::TimeDelta::try_milliseconds, rec_try_milliseconds)]
fn days1904_cast_e3() {
    whole_days_1904(8, 15);
}
#[kani::proof]
#[kani::stub(chrono::TimeDelta::try_milliseconds, rec_try_milliseconds)]
fn days1904_cast_e4() {
    whole_days_1904(16, 31);
}
#[kani::proof]
#[kani::stub(chrono::TimeDelta::try_milliseconds, rec_try_milliseconds)]
fn days1904_cast_e5() {
    whole_days_1904(32, 63);
}
#[kani::proof]
#[kani::stub(chrono::TimeDelta::try_milliseconds, rec_try_milliseconds)]
fn days1904_cast_e6() {
    whole_days_1904(64, 127);
}
#[kani::proof]
#[kani::stub(chrono::TimeDelta::try_milliseconds, rec_try_milliseconds)]
fn days1904_cast_e7() {
    whole_days_1904(128, 255);
}
#[kani::proof]
#[kani::stub(chrono::TimeDelta::try_milliseconds, rec_try_milliseconds)]
fn days1904_cast_e8() {
    whole_days_1904(256, 511);
}
#[kani::proof]
#[kani::stub(chrono::TimeDelta::try_milliseconds, rec_try_milliseconds)]
fn days1904_cast_e9() {
    whole_days_1904(512, 1023);
}
#[kani::proof]
#[kani::stub(chrono::TimeDelta::try_milliseconds, rec_try_milliseconds)]
fn days1904_cast_e10() {
    whole_days_1904(1024, 2047);
}
#[kani::proof]
#[kani::stub(chrono::TimeDelta::try_milliseconds, rec_try_milliseconds)]
fn days1904_cast_e11() {
    whole_days_1904(2048, 4095);
}
#[kani::proof]
#[kani::stub(chrono::TimeDelta::try_milliseconds, rec_try_milliseconds)]
fn days1904_cast_e12() {
    whole_days_1904(4096, 8191);
}
#[kani::proof]
#[kani::stub(chrono::TimeDelta::try_milliseconds, rec_try_milliseconds)]
fn days1904_cast_e13() {
    whole_days_1904(8192, 16383);
}
#[kani::proof]
#[kani::stub(chrono::TimeDelta::try_milliseconds, rec_try_milliseconds)]
fn days1904_cast_e14() {
    whole_days_1904(16384, 32767);
}
#[kani::proof]
#[kani::stub(chrono::TimeDelta::try_milliseconds, rec_try_milliseconds)]
fn days1904_cast_e15() {
    whole_days_1904(32768, 65535);
}
#[kani::proof]
#[kani::stub(chrono::TimeDelta::try_milliseconds, rec_try_milliseconds)]
fn days1904_cast_e16() {
    whole_days_1904(65536, 131071);
}
#[kani::proof]
#[kani::stub(chrono::TimeDelta::try_milliseconds, rec_try_milliseconds)]
fn days1904_cast_e17() {
    whole_days_1904(131072, 262143);
}
#[kani::proof]
#[kani::stub(chrono::TimeDelta::try_milliseconds, rec_try_milliseconds)]
fn days1904_cast_e18() {
    whole_days_1904(262144, 524287);
}
#[kani::proof]
#[kani::stub(chrono::TimeDelta::try_milliseconds, rec_try_milliseconds)]
fn days1904_cast_e19() {
    whole_days_1904(524288, 1048575);
}
#[kani::proof]
#[kani::stub(chrono::TimeDelta::try_milliseconds, rec_try_milliseconds)]
fn days1904_cast_e20() {
    whole_days_1904(1048576, 2097151);
}
#[kani::proof]
#[kani::stub(chrono::TimeDelta::try_milliseconds, rec_try_milliseconds)]
fn days1904_cast_e21() {
    whole_days_1904(2097152, 2958465);
}
#[kani::proof]
#[kani::stub(chrono::TimeDelta::try_milliseconds, rec_try_milliseconds)]
fn tol1900_em28_em1() {
    tol_sym(-28, -1, false);
}
#[kani::proof]
#[kani::stub(chrono::TimeDelta::try_milliseconds, rec_try_milliseconds)]
fn tol1900_e0_e5() {
    tol_sym(0, 5, false);
}
#[kani::proof]
#[kani::stub(chrono::TimeDelta::try_milliseconds, rec_try_milliseconds)]
fn tol1900_e6_e21() {
    tol_sym(6, 21, false);
}
#[kani::proof]
#[kani::stub(chrono::TimeDelta::try_milliseconds, rec_try_milliseconds)]
fn tol1904_em28_e9() {
    tol_sym(-28, 9, true);
}
#[kani::proof]
#[kani::stub(chrono::TimeDelta::try_milliseconds, rec_try_milliseconds)]
fn tol1904_e10_e21() {
    tol_sym(10, 21, true);
}
#[kani::proof]
#[kani::stub(chrono::TimeDelta::try_milliseconds, rec_try_milliseconds)]
fn tol_tiny() {
    tiny_serial();
}
#[kani::proof]
#[kani::stub(chrono::TimeDelta::try_milliseconds, rec_try_milliseconds)]
fn sys1904_is_1900_plus_1462() {
    sys1904_link();
}
#[kani::proof]
#[kani::stub(chrono::TimeDelta::try_milliseconds, rec_try_milliseconds)]
fn datetime_offset_is_duration_of_shimmed_serial() {
    shim_link();
}
#[kani::proof]
#[kani::stub(chrono::TimeDelta::try_milliseconds, rec_try_milliseconds)]
fn exact1900_em28_e5() {
    exact_sym(-28, 5, false);
}
#[kani::proof]
#[kani::stub(chrono::TimeDelta::try_milliseconds, rec_try_milliseconds)]
fn exact1900_e6_e21() {
    exact_sym(6, 21, false);
}
#[kani::proof]
#[kani::stub(chrono::TimeDelta::try_milliseconds, rec_try_milliseconds)]
fn exact1904_em25_e21() {
    exact_sym(-25, 21, true);
}
#[kani::proof]
fn as_datetime_total_any_f64() {
    total_datetime();
}
#[kani::proof]
fn as_datetime_beyond_calendar() {
    beyond_calendar();
}
#[kani::proof]
fn as_datetime_span_is_some() {
    span_is_some();
}
#[kani::proof]
fn as_datetime_nan_is_none() {
    nan_is_none();
}
/// a NaN serial is not a duration (`NaN.round() as i64` is 0: it must not come back as a zero duration)
fn duration_nan_is_none() {
    let v: f64 = kani::any();
    kani::assume(v.is_nan());
    kani::cover!(true);
    let typ = if kani::any() { ExcelDateTimeType::DateTime } else { ExcelDateTimeType::TimeDelta };
    let is_1904: bool = kani::any();
    assert!(ExcelDateTime::new(v, typ, is_1904).as_duration().is_none());
}
#[kani::proof]
fn as_duration_nan_is_none() {
    duration_nan_is_none();
}
#[kani::proof]
fn as_duration_total_any_f64() {
    total_duration();
}
#[kani::proof]
#[kani::stub(chrono::TimeDelta::try_milliseconds, rec_try_milliseconds)]
fn monotone_quarter_grid_0_100() {
    mono_grid(4, 0, 400, false);
}
#[kani::proof]
#[kani::stub(chrono::TimeDelta::try_milliseconds, rec_try_milliseconds)]
fn monotone_outside_59_61_quarter_grid_0_100() {
    mono_grid(4, 0, 400, true);
}
#[kani::proof]
#[kani::stub(chrono::TimeDelta::try_milliseconds, rec_try_milliseconds)]
fn monotone_outside_59_61_1024_grid_0_128() {
    mono_grid(1024, 0, 128 * 1024 - 1, true);
}
#[kani::proof]
#[kani::stub(chrono::TimeDelta::try_milliseconds, rec_try_milliseconds)]
fn monotone_quarter_grid_e9() {
    mono_grid(4, 512, 1023, true);
}
#[kani::proof]
#[kani::stub(chrono::TimeDelta::try_milliseconds, rec_try_milliseconds)]
fn monotone_quarter_grid_e12() {
    mono_grid(4, 4096, 8191, true);
}
#[kani::proof]
#[kani::stub(chrono::TimeDelta::try_milliseconds, rec_try_milliseconds)]
fn monotone_quarter_grid_e15() {
    mono_grid(4, 32768, 65535, true);
}
#[kani::proof]
#[kani::stub(chrono::TimeDelta::try_milliseconds, rec_try_milliseconds)]
fn monotone_quarter_grid_e17() {
    mono_grid(4, 131072, 262143, true);
}
#[kani::proof]
#[kani::stub(chrono::TimeDelta::try_milliseconds, rec_try_milliseconds)]
fn duration_days_all() {
    dur_days_sym(0, 21);
}
#[kani::proof]
#[kani::stub(chrono::TimeDelta::try_milliseconds, rec_try_milliseconds)]
fn duration_tol_all() {
    dur_tol(-28, 21);
}
#[kani::proof]
#[kani::stub(chrono::TimeDelta::try_milliseconds, rec_try_milliseconds)]
fn duration_tol_tiny() {
    dur_tiny();
}
#[kani::proof]
#[kani::stub(chrono::TimeDelta::try_milliseconds, rec_try_milliseconds)]
fn duration_days_cast_e0() {
    dur_whole_days(0, 1);
}
#[kani::proof]
#[kani::stub(chrono::TimeDelta::try_milliseconds, rec_try_milliseconds)]
fn duration_days_cast_e5() {
    dur_whole_days(32, 63);
}
#[kani::proof]
#[kani::stub(chrono::TimeDelta::try_milliseconds, rec_try_milliseconds)]
fn duration_days_cast_e15() {
    dur_whole_days(32768, 65535);
}
#[kani::proof]
#[kani::stub(chrono::TimeDelta::try_milliseconds, rec_try_milliseconds)]
fn duration_days_cast_e21() {
    dur_whole_days(2097152, 2958465);
}
#[kani::proof]
#[kani::stub(crate::datatype::ExcelDateTime::as_datetime, rec_as_datetime)]
fn trait_plain_cells_datetime() {
    trait_plain_datetime_all();
}
#[kani::proof]
#[kani::stub(crate::datatype::ExcelDateTime::as_datetime, rec_as_datetime)]
#[kani::stub(crate::datatype::ExcelDateTime::as_duration, rec_as_duration)]
fn trait_datetime_cells() {
    trait_datetime_cell_all();
}
#[kani::proof]
#[kani::stub(crate::datatype::ExcelDateTime::as_duration, rec_as_duration)]
fn trait_plain_cells_duration() {
    trait_plain_duration_all();
}
#[kani::proof]
fn anchors_1900() {
    anchor(0.0, false, 1899, 12, 31, 0, 0, 0, 0);
    anchor(1.0, false, 1900, 1, 1, 0, 0, 0, 0);
    anchor(2.0, false, 1900, 1, 2, 0, 0, 0, 0);
    anchor(31.0, false, 1900, 1, 31, 0, 0, 0, 0);
    anchor(32.0, false, 1900, 2, 1, 0, 0, 0, 0);
    anchor(58.0, false, 1900, 2, 27, 0, 0, 0, 0);
    anchor(59.0, false, 1900, 2, 28, 0, 0, 0, 0);
    anchor(61.0, false, 1900, 3, 1, 0, 0, 0, 0);
    anchor(62.0, false, 1900, 3, 2, 0, 0, 0, 0);
    anchor(366.0, false, 1900, 12, 31, 0, 0, 0, 0);
    anchor(367.0, false, 1901, 1, 1, 0, 0, 0, 0);
    anchor(25569.0, false, 1970, 1, 1, 0, 0, 0, 0);
    anchor(2958465.0, false, 9999, 12, 31, 0, 0, 0, 0);
    anchor(36525.0, false, 1999, 12, 31, 0, 0, 0, 0);
    anchor(36526.0, false, 2000, 1, 1, 0, 0, 0, 0);
    anchor(36585.0, false, 2000, 2, 29, 0, 0, 0, 0);
    anchor(36586.0, false, 2000, 3, 1, 0, 0, 0, 0);
    anchor(36891.0, false, 2000, 12, 31, 0, 0, 0, 0);
    anchor(36892.0, false, 2001, 1, 1, 0, 0, 0, 0);
    anchor(73050.0, false, 2099, 12, 31, 0, 0, 0, 0);
    anchor(73051.0, false, 2100, 1, 1, 0, 0, 0, 0);
    anchor(73109.0, false, 2100, 2, 28, 0, 0, 0, 0);
    anchor(73110.0, false, 2100, 3, 1, 0, 0, 0, 0);
    anchor(109575.0, false, 2200, 1, 1, 0, 0, 0, 0);
    anchor(146158.0, false, 2300, 3, 1, 0, 0, 0, 0);
    anchor(693596.0, false, 3798, 12, 30, 0, 0, 0, 0);
    anchor(1521.0, false, 1904, 2, 29, 0, 0, 0, 0);
    anchor(1522.0, false, 1904, 3, 1, 0, 0, 0, 0);
    anchor(1523.0, false, 1904, 3, 2, 0, 0, 0, 0);
}
#[kani::proof]
fn anchors_1904() {
    anchor(0.0, true, 1904, 1, 1, 0, 0, 0, 0);
    anchor(1.0, true, 1904, 1, 2, 0, 0, 0, 0);
    anchor(58.0, true, 1904, 2, 28, 0, 0, 0, 0);
    anchor(59.0, true, 1904, 2, 29, 0, 0, 0, 0);
    anchor(60.0, true, 1904, 3, 1, 0, 0, 0, 0);
    anchor(61.0, true, 1904, 3, 2, 0, 0, 0, 0);
    anchor(365.0, true, 1904, 12, 31, 0, 0, 0, 0);
    anchor(366.0, true, 1905, 1, 1, 0, 0, 0, 0);
    anchor(24107.0, true, 1970, 1, 1, 0, 0, 0, 0);
    anchor(2957003.0, true, 9999, 12, 31, 0, 0, 0, 0);
}
#[kani::proof]
fn anchors_time_of_day() {
    anchor(0.5, false, 1899, 12, 31, 12, 0, 0, 0);
    anchor(0.25, false, 1899, 12, 31, 6, 0, 0, 0);
    anchor(0.75, false, 1899, 12, 31, 18, 0, 0, 0);
    anchor(0.999999, false, 1899, 12, 31, 23, 59, 59, 914);
    anchor(0.00146484375, false, 1899, 12, 31, 0, 2, 6, 563);
    anchor(0.00048828125, false, 1899, 12, 31, 0, 0, 42, 188);
    anchor(0.00244140625, false, 1899, 12, 31, 0, 3, 30, 938);
    anchor(61.00146484375, false, 1900, 3, 1, 0, 2, 6, 563);
    anchor(44484.7916666667, false, 2021, 10, 15, 19, 0, 0, 0);
    anchor(0.187375, false, 1899, 12, 31, 4, 29, 49, 200);
    anchor(0.259517361111111, false, 1899, 12, 31, 6, 13, 42, 300);
    anchor(25569.645833333332, false, 1970, 1, 1, 15, 30, 0, 0);
    anchor(45000.00000000463, false, 2023, 3, 15, 0, 0, 0, 0);
    anchor(45000.00000000694, false, 2023, 3, 15, 0, 0, 0, 1);
    anchor(45000.00001156713, false, 2023, 3, 15, 0, 0, 0, 999);
    anchor(45000.00001156944, false, 2023, 3, 15, 0, 0, 1, 0);
    anchor(45000.99999999306, false, 2023, 3, 15, 23, 59, 59, 999);
    anchor(45000.99999999537, false, 2023, 3, 16, 0, 0, 0, 0);
    anchor(59.5, false, 1900, 2, 28, 12, 0, 0, 0);
    anchor(58.99999999537037, false, 1900, 2, 28, 0, 0, 0, 0);
    anchor(2958465.999999993, false, 9999, 12, 31, 23, 59, 59, 999);
    anchor(0.5, true, 1904, 1, 1, 12, 0, 0, 0);
    anchor(0.00146484375, true, 1904, 1, 1, 0, 2, 6, 563);
    anchor(43000.00000000463, true, 2021, 9, 23, 0, 0, 0, 0);
    anchor(43000.00000000694, true, 2021, 9, 23, 0, 0, 0, 1);
    anchor(43000.99999999537, true, 2021, 9, 24, 0, 0, 0, 0);
}
#[kani::proof]
fn anchors_none_components_duration() {
    anchor_none(1e20, false); anchor_none(1e20, true); anchor_none(f64::MAX, false); anchor_none(f64::INFINITY, false); anchor_none(1.0e8, false); anchor_none(-1.0e8, false); anchor_none(-1.0e10, true);
    check_anchors_components();
    check_anchors_duration();
}
#[kani::proof]
fn civil_oracle_61_4095() {
    civil_range(61, 4095);
}
#[kani::proof]
fn civil_oracle_4096_8191() {
    civil_range(4096, 8191);
}
#[kani::proof]
fn civil_oracle_8192_12287() {
    civil_range(8192, 12287);
}
#[kani::proof]
fn civil_oracle_12288_16383() {
    civil_range(12288, 16383);
}
#[kani::proof]
fn civil_oracle_16384_20479() {
    civil_range(16384, 20479);
}
#[kani::proof]
fn civil_oracle_20480_24575() {
    civil_range(20480, 24575);
}
#[kani::proof]
fn civil_oracle_24576_28671() {
    civil_range(24576, 28671);
}
#[kani::proof]
fn civil_oracle_28672_32767() {
    civil_range(28672, 32767);
}
#[kani::proof]
fn civil_oracle_32768_36863() {
    civil_range(32768, 36863);
}
#[kani::proof]
fn civil_oracle_36864_40959() {
    civil_range(36864, 40959);
}
#[kani::proof]
fn civil_oracle_40960_45055() {
    civil_range(40960, 45055);
}
#[kani::proof]
fn civil_oracle_45056_49151() {
    civil_range(45056, 49151);
}
#[kani::proof]
fn civil_oracle_49152_53247() {
    civil_range(49152, 53247);
}
#[kani::proof]
fn civil_oracle_53248_57343() {
    civil_range(53248, 57343);
}
#[kani::proof]
fn civil_oracle_57344_61439() {
    civil_range(57344, 61439);
}
#[kani::proof]
fn civil_oracle_61440_65535() {
    civil_range(61440, 65535);
}
#[kani::proof]
fn civil_oracle_65536_69631() {
    civil_range(65536, 69631);
}
#[kani::proof]
fn civil_oracle_69632_73727() {
    civil_range(69632, 73727);
}
