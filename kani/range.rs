// Bounded Kani stand-ins for what the Verus unit `range` cannot take (iterator adapter chains over
// chunks/chunks_mut, the iterator structs, Index/IndexMut trait impls).  All on Range<usize>, real code.

/// source range of concrete shape h x w at a symbolic origin (< 3), symbolic contents
fn any_src(h: u32, w: u32) -> Range<usize> {
    let r0: u32 = kani::any();
    let c0: u32 = kani::any();
    kani::assume(r0 < 3 && c0 < 3);
    let mut src: Range<usize> = Range::new((r0, c0), (r0 + h - 1, c0 + w - 1));
    let mut i = 0;
    while i < (h * w) as usize {
        src.inner[i] = kani::any();
        i += 1;
    }
    src
}

/// oracle written from the statement of C05: value of `src` at absolute (i, j), None outside
fn oracle(src: &Range<usize>, i: u32, j: u32) -> Option<usize> {
    if src.inner.is_empty() || i < src.start.0 || i > src.end.0 || j < src.start.1 || j > src.end.1 {
        None
    } else {
        let w = (src.end.1 - src.start.1 + 1) as usize;
        Some(src.inner[(i - src.start.0) as usize * w + (j - src.start.1) as usize])
    }
}

/// `range(s, e)`: bounds (s, e), h*w cells, equals the source where they overlap, default elsewhere
fn check_window(h: u32, w: u32) {
    let src = any_src(h, w);
    let s: (u32, u32) = (kani::any(), kani::any());
    let e: (u32, u32) = (kani::any(), kani::any());
    kani::assume(s.0 <= e.0 && s.1 <= e.1 && e.0 < 5 && e.1 < 5);
    let out = src.range(s, e);
    kani::cover!(s.0 > src.end.0);                       // disjoint window
    kani::cover!(s.0 < src.start.0 && e.0 > src.end.0);  // window strictly contains the source rows
    kani::cover!(s.0 > src.start.0 && e.1 < src.end.1);  // partial overlap
    assert!(out.start == s && out.end == e);
    let ow = (e.1 - s.1 + 1) as usize;
    let oh = (e.0 - s.0 + 1) as usize;
    assert!(out.inner.len() == oh * ow);
    let mut i = 0u32;
    while i < 5 {
        let mut j = 0u32;
        while j < 5 {
            if i >= s.0 && i <= e.0 && j >= s.1 && j <= e.1 {
                let got = out.inner[(i - s.0) as usize * ow + (j - s.1) as usize];
                let want = match oracle(&src, i, j) { Some(v) => v, None => 0 };
                assert!(got == want);
            }
            j += 1;
        }
        i += 1;
    }
}
#[kani::proof]
#[kani::unwind(27)]
fn range_window_1x1() { check_window(1, 1); }
#[kani::proof]
#[kani::unwind(27)]
fn range_window_1x2() { check_window(1, 2); }
#[kani::proof]
#[kani::unwind(27)]
fn range_window_2x1() { check_window(2, 1); }
#[kani::proof]
#[kani::unwind(27)]
fn range_window_2x2() { check_window(2, 2); }

/// rows(): h rows of w cells, row i == inner[i*w .. (i+1)*w]; size_hint exact; next_back yields the last row
fn check_rows(h: u32, w: u32) {
    let src = any_src(h, w);
    let (hh, ww) = (h as usize, w as usize);
    assert!(src.get_size() == (hh, ww));
    let mut it = src.rows();
    assert!(it.size_hint() == (hh, Some(hh)));
    assert!(it.len() == hh);
    let mut n = 0usize;
    while let Some(row) = it.next() {
        assert!(n < hh);
        assert!(row.len() == ww);
        let mut j = 0;
        while j < ww {
            assert!(row[j] == src.inner[n * ww + j]);
            assert!(src[n][j] == row[j]);                       // Index<usize>
            assert!(src[(n, j)] == row[j]);                     // Index<(usize, usize)>
            assert!(src.get((n, j)) == Some(&row[j]));
            assert!(src.get_value((src.start.0 + n as u32, src.start.1 + j as u32)) == Some(&row[j]));
            j += 1;
        }
        n += 1;
        assert!(it.size_hint() == (hh - n, Some(hh - n)));
    }
    assert!(n == hh);
    let mut back = src.rows();
    let last = back.next_back().unwrap();
    assert!(last.len() == ww && last[0] == src.inner[(hh - 1) * ww]);
    assert!(back.len() == hh - 1);
}
#[kani::proof]
#[kani::unwind(5)]
fn range_rows_3x3() { check_rows(3, 3); }
#[kani::proof]
#[kani::unwind(5)]
fn range_rows_2x3() { check_rows(2, 3); }
#[kani::proof]
#[kani::unwind(5)]
fn range_rows_3x1() { check_rows(3, 1); }

/// cells(): enumerates (i / w, i % w, &inner[i]) in order; used_cells(): exactly the non-default ones among them, in order
fn check_cells(h: u32, w: u32) {
    let src = any_src(h, w);
    let (hh, ww) = (h as usize, w as usize);
    let n = hh * ww;
    let mut it = src.cells();
    assert!(it.size_hint() == (n, Some(n)));
    let mut used = src.used_cells();
    assert!(used.size_hint() == (0, Some(n)));
    let mut i = 0usize;
    let mut nused = 0usize;
    while let Some((r, c, v)) = it.next() {
        assert!(i < n);
        assert!(r == i / ww && c == i % ww && *v == src.inner[i]);
        if *v != 0 {
            let u = used.next();
            assert!(u == Some((r, c, v)));
            nused += 1;
        }
        i += 1;
        assert!(it.len() == n - i);
    }
    assert!(i == n);
    assert!(used.next().is_none());
    // double-ended: last cell, last used cell
    let mut b = src.cells();
    let (r, c, v) = b.next_back().unwrap();
    assert!(r == hh - 1 && c == ww - 1 && *v == src.inner[n - 1]);
    let mut ub = src.used_cells();
    match ub.next_back() {
        None => assert!(nused == 0),
        Some((r, c, v)) => {
            assert!(*v != 0 && *v == src.inner[r * ww + c]);
            let mut k = r * ww + c + 1;
            while k < n {
                assert!(src.inner[k] == 0);
                k += 1;
            }
        }
    }
}
#[kani::proof]
#[kani::unwind(11)]
fn range_cells_3x3() { check_cells(3, 3); }
#[kani::proof]
#[kani::unwind(11)]
fn range_cells_2x3() { check_cells(2, 3); }

/// the empty range: no rows, no cells, zero size, no corners
#[kani::proof]
#[kani::unwind(3)]
fn range_empty_iters() {
    let e: Range<usize> = Range::empty();
    assert!(e.rows().next().is_none() && e.rows().size_hint() == (0, Some(0)));
    assert!(e.cells().next().is_none() && e.used_cells().next().is_none());
    assert!(e.get_size() == (0, 0) && e.start().is_none() && e.end().is_none());
    assert!(e.get((0, 0)).is_none() && e.get_value((0, 0)).is_none());
}

/// IndexMut agrees with Index/get; out-of-rectangle (usize, usize) index panics
#[kani::proof]
#[kani::unwind(8)]
fn range_index_mut_2x3() {
    let mut src = any_src(2, 3);
    let i: usize = kani::any();
    let j: usize = kani::any();
    kani::assume(i < 2 && j < 3);
    let v: usize = kani::any();
    let before = src.inner.clone();
    src[(i, j)] = v;
    let mut k = 0;
    while k < 6 {
        assert!(src.inner[k] == if k == i * 3 + j { v } else { before[k] });
        k += 1;
    }
    let w: usize = kani::any();
    src[i][j] = w;
    assert!(src[(i, j)] == w && src.get((i, j)) == Some(&w));
}
#[kani::proof]
#[kani::unwind(8)]
#[kani::should_panic]
fn range_index_oob_panics() {
    let src = any_src(2, 3);
    let i: usize = kani::any();
    let j: usize = kani::any();
    kani::assume(i >= 2 || j >= 3);
    let _ = src[(i, j)];
}

/// Kb twin of the Verus obligation set_value/C05.set_wf (counterexample finder): after set_value the
/// buffer holds exactly height x width cells.  Old shape 1x2 / 2x2 at symbolic origin, target within +2.
fn check_set_value(h: u32, w: u32) {
    let mut src = any_src(h, w);
    let p: (u32, u32) = (kani::any(), kani::any());
    kani::assume(p.0 >= src.start.0 && p.1 >= src.start.1 && p.0 <= src.end.0 + 2 && p.1 <= src.end.1 + 2);
    let v: usize = kani::any();
    src.set_value(p, v);
    let (hh, ww) = src.get_size();
    assert!(src.inner.len() == hh * ww);
}
#[kani::proof]
#[kani::unwind(12)]
fn range_set_value_rect_1x2() { check_set_value(1, 2); }
