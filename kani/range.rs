// Bounded Kani stand-ins for what the Verus unit `range` cannot take (iterator adapter chains over
// chunks/chunks_mut, the iterator structs, Index/IndexMut trait impls).  All on Range<usize>, real code.

/// source range of concrete shape h x w at the concrete origin (1, 2), symbolic contents
/// (CBMC does not cope with buffers of symbolic length, so every shape is concrete and only cell values are symbolic)
fn any_src(h: u32, w: u32) -> Range<usize> {
    let (r0, c0) = (1u32, 2u32);
    let mut src: Range<usize> = Range::new((r0, c0), (r0 + h - 1, c0 + w - 1));
    let mut i = 0;
    while i < (h * w) as usize {
        src.inner[i] = kani::any();
        i += 1;
    }
    src
}

/// oracle written from the statement of C05: value of `src` at absolute (i, j), None outside
fn oracle(src: &Range<usize>, i: u32, j: u32) -> Option<usize> {
    if src.inner.is_empty() || i < src.start.0 || i > src.end.0 || j < src.start.1 || j > src.end.1 {
        None
    } else {
        let w = (src.end.1 - src.start.1 + 1) as usize;
        Some(src.inner[(i - src.start.0) as usize * w + (j - src.start.1) as usize])
    }
}

/// `range(s, e)`: bounds (s, e), h*w cells, equals the source where they overlap, default elsewhere.
/// Every window with corners s <= e inside the grid rows 0..=h+1 x cols 1..=w+2 (one line of margin around the
/// source, which sits at (1, 2)) is enumerated concretely: per axis this covers every relative position of a
/// window interval to the source interval (disjoint before/after, partial overlap, inside, exact, containing).
fn check_window(h: u32, w: u32) {
    let src = any_src(h, w);
    let (r_lo, r_hi, c_lo, c_hi) = (0u32, h + 1, 1u32, w + 2);
    let mut s0 = r_lo;
    while s0 <= r_hi {
        let mut e0 = s0;
        while e0 <= r_hi {
            let mut s1 = c_lo;
            while s1 <= c_hi {
                let mut e1 = s1;
                while e1 <= c_hi {
                    check_one_window(&src, (s0, s1), (e0, e1));
                    e1 += 1;
                }
                s1 += 1;
            }
            e0 += 1;
        }
        s0 += 1;
    }
}
fn check_one_window(src: &Range<usize>, s: (u32, u32), e: (u32, u32)) {
    let out = src.range(s, e);
    assert!(out.start == s && out.end == e);
    let ow = (e.1 - s.1 + 1) as usize;
    let oh = (e.0 - s.0 + 1) as usize;
    assert!(out.inner.len() == oh * ow);
    let mut i = s.0;
    while i <= e.0 {
        let mut j = s.1;
        while j <= e.1 {
            let got = out.inner[(i - s.0) as usize * ow + (j - s.1) as usize];
            let want = match oracle(src, i, j) { Some(v) => v, None => 0 };
            assert!(got == want);
            j += 1;
        }
        i += 1;
    }
}
#[kani::proof]
#[kani::unwind(7)]
fn range_window_1x1() { check_window(1, 1); }
#[kani::proof]
#[kani::unwind(7)]
fn range_window_1x2() { check_window(1, 2); }
#[kani::proof]
#[kani::unwind(7)]
fn range_window_2x1() { check_window(2, 1); }
#[kani::proof]
#[kani::unwind(7)]
fn range_window_2x2() { check_window(2, 2); }

/// quick-tier selection for the 2x2 source at (1, 2): the 10 row intervals inside rows 0..=3 paired with the 10 column
/// intervals inside cols 1..=4 "diagonally" (k-th with k-th and k-th with (9-k)-th): 20 windows, every relative
/// position per axis occurs twice.  The full cross products are the thorough-tier harnesses range_window_HxW.
#[kani::proof]
#[kani::unwind(11)]
fn range_window_2x2_sel() {
    let src = any_src(2, 2);
    let rows: [(u32, u32); 10] = [(0, 0), (0, 1), (0, 2), (0, 3), (1, 1), (1, 2), (1, 3), (2, 2), (2, 3), (3, 3)];
    let cols: [(u32, u32); 10] = [(1, 1), (1, 2), (1, 3), (1, 4), (2, 2), (2, 3), (2, 4), (3, 3), (3, 4), (4, 4)];
    let mut k = 0;
    while k < 10 {
        check_one_window(&src, (rows[k].0, cols[k].0), (rows[k].1, cols[k].1));
        check_one_window(&src, (rows[k].0, cols[9 - k].0), (rows[k].1, cols[9 - k].1));
        k += 1;
    }
}

/// an empty source: every window is all default (regression: windows containing (0, 0) used to panic in chunks(0))
#[kani::proof]
#[kani::unwind(7)]
fn range_window_empty() {
    let src: Range<usize> = Range::empty();
    let mut s0 = 0u32;
    while s0 <= 1 {
        let mut e0 = s0;
        while e0 <= 1 {
            let mut s1 = 0u32;
            while s1 <= 1 {
                let mut e1 = s1;
                while e1 <= 1 {
                    check_one_window(&src, (s0, s1), (e0, e1));
                    e1 += 1;
                }
                s1 += 1;
            }
            e0 += 1;
        }
        s0 += 1;
    }
}

/// rows(): h rows of w cells, row i == inner[i*w .. (i+1)*w]; size_hint exact; next_back yields the last row
fn check_rows(h: u32, w: u32) {
    let src = any_src(h, w);
    let (hh, ww) = (h as usize, w as usize);
    assert!(src.get_size() == (hh, ww));
    let mut it = src.rows();
    assert!(it.size_hint() == (hh, Some(hh)));
    assert!(it.len() == hh);
    let mut n = 0usize;
    while let Some(row) = it.next() {
        assert!(n < hh);
        assert!(row.len() == ww);
        let mut j = 0;
        while j < ww {
            assert!(row[j] == src.inner[n * ww + j]);
            assert!(src[n][j] == row[j]);                       // Index<usize>
            assert!(src[(n, j)] == row[j]);                     // Index<(usize, usize)>
            assert!(src.get((n, j)) == Some(&row[j]));
            assert!(src.get_value((src.start.0 + n as u32, src.start.1 + j as u32)) == Some(&row[j]));
            j += 1;
        }
        n += 1;
        assert!(it.size_hint() == (hh - n, Some(hh - n)));
    }
    assert!(n == hh);
    let mut back = src.rows();
    let last = back.next_back().unwrap();
    assert!(last.len() == ww && last[0] == src.inner[(hh - 1) * ww]);
    assert!(back.len() == hh - 1);
}
#[kani::proof]
#[kani::unwind(11)]
fn range_rows_3x3() { check_rows(3, 3); }
#[kani::proof]
#[kani::unwind(11)]
fn range_rows_2x3() { check_rows(2, 3); }
#[kani::proof]
#[kani::unwind(11)]
fn range_rows_3x1() { check_rows(3, 1); }

/// cells(): enumerates (i / w, i % w, &inner[i]) in order; used_cells(): exactly the non-default ones among them, in order
fn check_cells(h: u32, w: u32) {
    let src = any_src(h, w);
    let (hh, ww) = (h as usize, w as usize);
    let n = hh * ww;
    let mut it = src.cells();
    assert!(it.size_hint() == (n, Some(n)));
    let mut used = src.used_cells();
    assert!(used.size_hint() == (0, Some(n)));
    let mut i = 0usize;
    let mut nused = 0usize;
    while let Some((r, c, v)) = it.next() {
        assert!(i < n);
        assert!(r == i / ww && c == i % ww && *v == src.inner[i]);
        if *v != 0 {
            let u = used.next();
            assert!(u == Some((r, c, v)));
            nused += 1;
        }
        i += 1;
        assert!(it.len() == n - i);
    }
    assert!(i == n);
    assert!(used.next().is_none());
    // double-ended: last cell, last used cell
    let mut b = src.cells();
    let (r, c, v) = b.next_back().unwrap();
    assert!(r == hh - 1 && c == ww - 1 && *v == src.inner[n - 1]);
    let mut ub = src.used_cells();
    match ub.next_back() {
        None => assert!(nused == 0),
        Some((r, c, v)) => {
            assert!(*v != 0 && *v == src.inner[r * ww + c]);
            let mut k = r * ww + c + 1;
            while k < n {
                assert!(src.inner[k] == 0);
                k += 1;
            }
        }
    }
}
#[kani::proof]
#[kani::unwind(11)]
fn range_cells_3x3() { check_cells(3, 3); }
#[kani::proof]
#[kani::unwind(8)]
fn range_cells_2x3() { check_cells(2, 3); }

/// the empty range: no rows, no cells, zero size, no corners
#[kani::proof]
#[kani::unwind(3)]
fn range_empty_iters() {
    let e: Range<usize> = Range::empty();
    assert!(e.rows().next().is_none() && e.rows().size_hint() == (0, Some(0)));
    assert!(e.cells().next().is_none() && e.used_cells().next().is_none());
    assert!(e.get_size() == (0, 0) && e.start().is_none() && e.end().is_none());
    assert!(e.get((0, 0)).is_none() && e.get_value((0, 0)).is_none());
}

/// IndexMut agrees with Index/get; out-of-rectangle (usize, usize) index panics
#[kani::proof]
#[kani::unwind(8)]
fn range_index_mut_2x3() {
    let mut src = any_src(2, 3);
    let i: usize = kani::any();
    let j: usize = kani::any();
    kani::assume(i < 2 && j < 3);
    let v: usize = kani::any();
    let before = src.inner.clone();
    src[(i, j)] = v;
    let mut k = 0;
    while k < 6 {
        assert!(src.inner[k] == if k == i * 3 + j { v } else { before[k] });
        k += 1;
    }
    let w: usize = kani::any();
    src[i][j] = w;
    assert!(src[(i, j)] == w && src.get((i, j)) == Some(&w));
}
#[kani::proof]
#[kani::unwind(8)]
#[kani::should_panic]
fn range_index_oob_panics() {
    let src = any_src(2, 3);
    let i: usize = kani::any();
    let j: usize = kani::any();
    kani::assume(i >= 2 || j >= 3);
    let _ = src[(i, j)];
}

// `should_panic` over a symbolic index only says that SOME out-of-rectangle index panics; the boundary indexes (column == width,
// row == height) are the ones an off-by-one in the guard lets through, so each gets a concrete harness (every execution must panic).
#[kani::proof]
#[kani::unwind(8)]
#[kani::should_panic]
fn range_index_col_eq_width_panics() {
    let src = any_src(2, 3);
    let _ = src[(0, 3)];
}
#[kani::proof]
#[kani::unwind(8)]
#[kani::should_panic]
fn range_index_row_eq_height_panics() {
    let src = any_src(2, 3);
    let _ = src[(2, 0)];
}
#[kani::proof]
#[kani::unwind(8)]
#[kani::should_panic]
fn range_index_mut_col_eq_width_panics() {
    let mut src = any_src(2, 3);
    src[(0, 3)] = 7;
}
#[kani::proof]
#[kani::unwind(8)]
#[kani::should_panic]
fn range_index_mut_row_eq_height_panics() {
    let mut src = any_src(2, 3);
    src[(2, 0)] = 7;
}

/// Kb twin of the Verus obligations set_value/C05.set_* (regression: the row-growth arm used to append one row too many): after set_value the buffer holds
/// exactly height x width cells, the written cell reads back, every other cell keeps its value / is default.
/// Old shape h x w at origin (1, 2); every target position from the start corner to 2 beyond the end corner.
fn check_set_value(h: u32, w: u32) {
    let src = any_src(h, w);
    let v: usize = kani::any();
    let mut p0 = src.start.0;
    while p0 <= src.end.0 + 2 {
        let mut p1 = src.start.1;
        while p1 <= src.end.1 + 2 {
            let mut r = src.clone();
            r.set_value((p0, p1), v);
            let (hh, ww) = r.get_size();
            assert!(r.inner.len() == hh * ww);
            assert!(r.get_value((p0, p1)) == Some(&v));
            let mut i = r.start.0;
            while i <= r.end.0 {
                let mut j = r.start.1;
                while j <= r.end.1 {
                    if (i, j) != (p0, p1) {
                        let want = match oracle(&src, i, j) { Some(x) => x, None => 0 };
                        assert!(r.get_value((i, j)) == Some(&want));
                    }
                    j += 1;
                }
                i += 1;
            }
            p1 += 1;
        }
        p0 += 1;
    }
}
#[kani::proof]
#[kani::unwind(8)]
fn range_set_value_rect_1x2() { check_set_value(1, 2); }

/// set_value on the empty range: the result is the single cell at the position
#[kani::proof]
#[kani::unwind(6)]
fn range_set_value_on_empty() {
    let v: usize = kani::any();
    let ps: [(u32, u32); 4] = [(0, 0), (2, 0), (0, 3), (1, 2)];
    let mut k = 0;
    while k < 4 {
        let mut r: Range<usize> = Range::empty();
        r.set_value(ps[k], v);
        assert!(r.start == ps[k] && r.end == ps[k] && r.inner.len() == 1);
        assert!(r.get_value(ps[k]) == Some(&v) && r.get_size() == (1, 1));
        k += 1;
    }
}
