// Kani bounded stand-in for the GLUE of vba::VbaProject::from_cfb (C18), compositional variants.
// This module is appended to src/vba.rs (it has to construct the private `Module` records); the compound-file images and the models
// of cfb functions come from kani/vbaproj.rs (appended to src/cfb.rs, which can fill the private fields of `Cfb`): "needs": ["vbaproj"].
//
// The three dir-stream parsers called by from_cfb are replaced by MODELS that return what their Verus contracts (unit vbadec:
// read_modules / check_variable_record / ...) say they return for the project  { module "A": stream "SB", TextOffset 0;
// module "B": stream "SA", TextOffset 3 }, no references, code page 1252.  The REAL code that remains is from_cfb itself (the closure
// pipeline `mods.into_iter().map(|m| cfb.get_stream(&m.stream_name, r) ... decompress_stream(&s[m.text_offset..]) ... (m.name, s))
// .collect::<Result<BTreeMap,_>>()`), BTreeMap, the accessors and -- depending on the harness -- Cfb::get_stream / decompress_stream.
//
// STATUS (measured): none of these harnesses terminates within 10..15 minutes either; they are NOT registered ("harnesses": [] in
// kani/vbaprojv.json, measurements under "unfinished").  The blocker that remains when everything else is modelled
// (from_cfb_closure_min) is the std code behind `collect::<Result<BTreeMap<String, Vec<u8>>, _>>()`: the in-place collect makes the
// number of pairs non-constant for CBMC's symbolic execution and BTreeMap::from_iter's stable sort (driftsort, quicksort) is unrolled.

use crate::cfb::verif_kani_vbaproj as img;

/// MODEL of read_dir_information: code page 1252 (`codepage::to_encoding` is stubbed by img::to_encoding_1252_stub)
fn read_dir_information_model(_stream: &mut &[u8]) -> Result<XlsEncoding, VbaError> {
    Ok(XlsEncoding::from_codepage(1252)?)
}

/// MODEL of Reference::from_stream: the project has no references
fn references_model(_stream: &mut &[u8], _encoding: &XlsEncoding) -> Result<Vec<Reference>, VbaError> {
    Ok(Vec::new())
}

/// MODEL of read_modules: the module table of the project (names and stream names CROSSED, different text offsets)
fn read_modules_model(_stream: &mut &[u8], _encoding: &XlsEncoding) -> Result<Vec<Module>, VbaError> {
    Ok(Vec::from([
        Module { name: String::from("A"), stream_name: String::from("SB"), text_offset: 0 },
        Module { name: String::from("B"), stream_name: String::from("SA"), text_offset: 3 },
    ]))
}

/// loop-free slice comparison for expected values of at most 5 bytes
fn same(got: &[u8], want: &[u8]) -> bool {
    assert!(want.len() <= 5);
    got.len() == want.len()
        && (want.len() < 1 || got[0] == want[0])
        && (want.len() < 2 || got[1] == want[1])
        && (want.len() < 3 || got[2] == want[2])
        && (want.len() < 4 || got[3] == want[3])
        && (want.len() < 5 || got[4] == want[4])
}

fn check_project(mut cfb: Cfb, src_a: &[u8], src_b: &[u8]) {
    let mut r: &[u8] = &[];
    let p = match VbaProject::from_cfb(&mut r, &mut cfb) {
        Ok(p) => p,
        Err(_) => {
            assert!(false, "from_cfb must accept the project");
            return;
        }
    };
    // exactly the project's modules, by MODULENAME
    assert!(p.modules.len() == 2);
    let names = p.get_module_names();
    assert!(names.len() == 2);
    assert!(same(names[0].as_bytes(), b"A") && same(names[1].as_bytes(), b"B"));
    // each module's raw content = decompression of the stream named by MODULESTREAMNAME from TextOffset
    match p.get_module_raw("A") {
        Ok(m) => assert!(same(m, src_a), "module A = source stored in stream SB at offset 0"),
        Err(_) => assert!(false, "module A missing"),
    }
    match p.get_module_raw("B") {
        Ok(m) => assert!(same(m, src_b), "module B = source stored in stream SA at offset 3"),
        Err(_) => assert!(false, "module B missing"),
    }
    assert!(p.get_module_raw("SA").is_err() && p.get_module_raw("SB").is_err());
    assert!(p.get_references().is_empty());
}

/// real decompress_stream; module A = 3 symbolic literals, module B = 2 symbolic literals + CopyToken(offset 2, length 3);
/// decoy streams named "A"/"B" present
#[kani::proof]
#[kani::unwind(10)]
#[kani::stub(read_dir_information, read_dir_information_model)]
#[kani::stub(Reference::from_stream, references_model)]
#[kani::stub(read_modules, read_modules_model)]
#[kani::stub(codepage::to_encoding, img::to_encoding_1252_stub)]
pub fn from_cfb_glue_two_modules_crossed_streams() {
    let x: [u8; 3] = kani::any();
    let y: [u8; 2] = kani::any();
    let junk: [u8; 3] = kani::any();
    kani::cover!(x[0] != y[0] && junk[0] == 0x01);
    let cfb = img::image_glue(&x, &y, &junk, true);
    check_project(cfb, &x, &[y[0], y[1], y[0], y[1], y[0]]);
}

/// decompress_stream replaced by the model D (img::decompress_model: D(0x01 ++ d) = d): stream contents fully symbolic
/// (3 junk bytes, 3 + 2 source bytes); decoy streams named "A"/"B" present
#[kani::proof]
#[kani::unwind(7)]
#[kani::stub(read_dir_information, read_dir_information_model)]
#[kani::stub(Reference::from_stream, references_model)]
#[kani::stub(read_modules, read_modules_model)]
#[kani::stub(codepage::to_encoding, img::to_encoding_1252_stub)]
#[kani::stub(crate::cfb::decompress_stream, img::decompress_model)]
pub fn from_cfb_glue_wiring() {
    let x: [u8; 3] = kani::any();
    let y: [u8; 2] = kani::any();
    let junk: [u8; 3] = kani::any();
    kani::cover!(x[0] != y[0] && junk[0] == 0x01);
    let cfb = img::image_model(&x, &y, &junk, true);
    check_project(cfb, &x, &y);
}

/// smallest variant: 3 streams of one mini sector each, no decoys
#[kani::proof]
#[kani::unwind(4)]
#[kani::stub(read_dir_information, read_dir_information_model)]
#[kani::stub(Reference::from_stream, references_model)]
#[kani::stub(read_modules, read_modules_model)]
#[kani::stub(codepage::to_encoding, img::to_encoding_1252_stub)]
#[kani::stub(crate::cfb::decompress_stream, img::decompress_model)]
pub fn from_cfb_glue_wiring_min() {
    let x: [u8; 3] = kani::any();
    let y: [u8; 2] = kani::any();
    let junk: [u8; 3] = kani::any();
    kani::cover!(x[0] != y[0] && junk[0] == 0x01);
    let cfb = img::image_model_min(&x, &y, &junk);
    check_project(cfb, &x, &y);
}

/// closure only: Cfb::get_stream, decompress_stream and the dir-stream parsers all modelled; 3 streams, no decoys
#[kani::proof]
#[kani::unwind(4)]
#[kani::stub(read_dir_information, read_dir_information_model)]
#[kani::stub(Reference::from_stream, references_model)]
#[kani::stub(read_modules, read_modules_model)]
#[kani::stub(codepage::to_encoding, img::to_encoding_1252_stub)]
#[kani::stub(crate::cfb::decompress_stream, img::decompress_model)]
#[kani::stub(crate::cfb::Cfb::get_stream, img::get_stream_model)]
pub fn from_cfb_closure_min() {
    let x: [u8; 3] = kani::any();
    let y: [u8; 2] = kani::any();
    let junk: [u8; 3] = kani::any();
    kani::cover!(x[0] != y[0] && junk[0] == 0x01);
    let cfb = img::image_model_min(&x, &y, &junk);
    check_project(cfb, &x, &y);
}

/// closure only, decoy streams "A"/"B" and the root entry present (6 directory entries)
#[kani::proof]
#[kani::unwind(7)]
#[kani::stub(read_dir_information, read_dir_information_model)]
#[kani::stub(Reference::from_stream, references_model)]
#[kani::stub(read_modules, read_modules_model)]
#[kani::stub(codepage::to_encoding, img::to_encoding_1252_stub)]
#[kani::stub(crate::cfb::decompress_stream, img::decompress_model)]
#[kani::stub(crate::cfb::Cfb::get_stream, img::get_stream_model)]
pub fn from_cfb_closure_decoys() {
    let x: [u8; 3] = kani::any();
    let y: [u8; 2] = kani::any();
    let junk: [u8; 3] = kani::any();
    kani::cover!(x[0] != y[0] && junk[0] == 0x01);
    let cfb = img::image_model(&x, &y, &junk, true);
    check_project(cfb, &x, &y);
}
