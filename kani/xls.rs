use crate::datatype::verif_kani_datatype::edt_parts;

fn any_format() -> CellFormat {
    let k: u8 = kani::any();
    kani::assume(k < 3);
    match k {
        0 => CellFormat::Other,
        1 => CellFormat::DateTime,
        _ => CellFormat::TimeDelta,
    }
}

/// canonical observation of a Data cell: (variant tag, payload bits, datetime type, is_1904)
fn obs(d: &Data) -> (u8, u64, u8, bool) {
    match d {
        Data::Int(v) => (1, *v as u64, 0, false),
        Data::Float(v) => (2, v.to_bits(), 0, false),
        Data::DateTime(e) => {
            let (b, t, f) = edt_parts(e);
            (3, b, t, f)
        }
        Data::Bool(b) => (4, *b as u64, 0, false),
        Data::Error(e) => (5, e.clone() as u64, 0, false),
        Data::Empty => (6, 0, 0, false),
        _ => (7, 0, 0, false),
    }
}

/// what the property says a number `v` looks like under cell format `f`
fn wrap_f64(v: f64, f: Option<CellFormat>, is_1904: bool) -> (u8, u64, u8, bool) {
    match f {
        Some(CellFormat::DateTime) => (3, v.to_bits(), 1, is_1904),
        Some(CellFormat::TimeDelta) => (3, v.to_bits(), 2, is_1904),
        _ => (2, v.to_bits(), 0, false),
    }
}
fn wrap_i64(v: i64, f: Option<CellFormat>, is_1904: bool) -> (u8, u64, u8, bool) {
    match f {
        Some(CellFormat::DateTime) => (3, (v as f64).to_bits(), 1, is_1904),
        Some(CellFormat::TimeDelta) => (3, (v as f64).to_bits(), 2, is_1904),
        _ => (1, v as u64, 0, false),
    }
}

/// [MS-XLS] 2.5.217 RkNumber: bit 0 fX100, bit 1 fInt, bits 2..31 num.
/// fInt: num is a signed 30-bit integer; else num is the 30 most significant bits of an IEEE double.
fn rk_num_case(want_int: bool, want_x100: bool) {
    let rk: [u8; 6] = kani::any();
    kani::assume(((rk[2] & 2) != 0) == want_int && ((rk[2] & 1) != 0) == want_x100);
    let is_1904: bool = kani::any();
    let f0 = any_format();
    let formats = [f0];
    let out = rk_num(&rk, &formats, is_1904);
    let ixfe = (rk[0] as usize) | ((rk[1] as usize) << 8);
    let format = if ixfe == 0 { Some(f0) } else { None };
    let raw = (rk[2] as u32) | ((rk[3] as u32) << 8) | ((rk[4] as u32) << 16) | ((rk[5] as u32) << 24);
    let fx100 = raw & 1 != 0;
    let fint = raw & 2 != 0;
    let num30 = raw >> 2;
    kani::cover!(fint == want_int && fx100 == want_x100);
    let expect = if fint {
        // sign-extend the 30-bit payload
        let n: i64 = if num30 & (1 << 29) != 0 { num30 as i64 - (1i64 << 30) } else { num30 as i64 };
        if !fx100 {
            wrap_i64(n, format, is_1904)
        } else if n % 100 == 0 {
            wrap_i64(n / 100, format, is_1904)
        } else {
            wrap_f64(n as f64 / 100.0, format, is_1904)
        }
    } else {
        let f = f64::from_bits(((raw & 0xFFFF_FFFC) as u64) << 32);
        wrap_f64(if fx100 { f / 100.0 } else { f }, format, is_1904)
    };
    assert!(obs(&out) == expect);
}

#[kani::proof]
fn rk_num_int() { rk_num_case(true, false) }
#[kani::proof]
fn rk_num_int_x100() { rk_num_case(true, true) }
#[kani::proof]
fn rk_num_float() { rk_num_case(false, false) }
#[kani::proof]
fn rk_num_float_x100() { rk_num_case(false, true) }

/// fInt && fX100, payload divisible by 100: the result is the integer quotient (oracle stated by multiplication)
#[kani::proof]
fn rk_num_int_x100_divisible() {
    let rk: [u8; 6] = kani::any();
    kani::assume((rk[2] & 3) == 3);
    let is_1904: bool = kani::any();
    let formats: [CellFormat; 0] = [];
    let raw = (rk[2] as u32) | ((rk[3] as u32) << 8) | ((rk[4] as u32) << 16) | ((rk[5] as u32) << 24);
    let num30 = raw >> 2;
    let n: i64 = if num30 & (1 << 29) != 0 { num30 as i64 - (1i64 << 30) } else { num30 as i64 };
    let q: i32 = kani::any();
    kani::assume((q as i64) * 100 == n);
    kani::cover!(q == -7);
    let out = rk_num(&rk, &formats, is_1904);
    assert!(obs(&out) == (1, q as i64 as u64, 0, false));
}
