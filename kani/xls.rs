use crate::datatype::verif_kani_datatype::edt_parts;

fn any_format() -> CellFormat {
    let k: u8 = kani::any();
    kani::assume(k < 3);
    match k {
        0 => CellFormat::Other,
        1 => CellFormat::DateTime,
        _ => CellFormat::TimeDelta,
    }
}

/// canonical observation of a Data cell: (variant tag, payload bits, datetime type, is_1904)
fn obs(d: &Data) -> (u8, u64, u8, bool) {
    match d {
        Data::Int(v) => (1, *v as u64, 0, false),
        Data::Float(v) => (2, v.to_bits(), 0, false),
        Data::DateTime(e) => {
            let (b, t, f) = edt_parts(e);
            (3, b, t, f)
        }
        Data::Bool(b) => (4, *b as u64, 0, false),
        Data::Error(e) => (5, e.clone() as u64, 0, false),
        Data::Empty => (6, 0, 0, false),
        _ => (7, 0, 0, false),
    }
}

/// what the property says a number `v` looks like under cell format `f`
fn wrap_f64(v: f64, f: Option<CellFormat>, is_1904: bool) -> (u8, u64, u8, bool) {
    match f {
        Some(CellFormat::DateTime) => (3, v.to_bits(), 1, is_1904),
        Some(CellFormat::TimeDelta) => (3, v.to_bits(), 2, is_1904),
        _ => (2, v.to_bits(), 0, false),
    }
}
fn wrap_i64(v: i64, f: Option<CellFormat>, is_1904: bool) -> (u8, u64, u8, bool) {
    match f {
        Some(CellFormat::DateTime) => (3, (v as f64).to_bits(), 1, is_1904),
        Some(CellFormat::TimeDelta) => (3, (v as f64).to_bits(), 2, is_1904),
        _ => (1, v as u64, 0, false),
    }
}

/// [MS-XLS] 2.5.217 RkNumber: bit 0 fX100, bit 1 fInt, bits 2..31 num.
/// fInt: num is a signed 30-bit integer; else num is the 30 most significant bits of an IEEE double.
fn rk_num_case(want_int: bool, want_x100: bool) {
    let rk: [u8; 6] = kani::any();
    kani::assume(((rk[2] & 2) != 0) == want_int && ((rk[2] & 1) != 0) == want_x100);
    let is_1904: bool = kani::any();
    let f0 = any_format();
    let formats = [f0];
    let out = rk_num(&rk, &formats, is_1904);
    let ixfe = (rk[0] as usize) | ((rk[1] as usize) << 8);
    let format = if ixfe == 0 { Some(f0) } else { None };
    let raw = (rk[2] as u32) | ((rk[3] as u32) << 8) | ((rk[4] as u32) << 16) | ((rk[5] as u32) << 24);
    let fx100 = raw & 1 != 0;
    let fint = raw & 2 != 0;
    let num30 = raw >> 2;
    kani::cover!(fint == want_int && fx100 == want_x100);
    let expect = if fint {
        // sign-extend the 30-bit payload
        let n: i64 = if num30 & (1 << 29) != 0 { num30 as i64 - (1i64 << 30) } else { num30 as i64 };
        if !fx100 {
            wrap_i64(n, format, is_1904)
        } else if n % 100 == 0 {
            wrap_i64(n / 100, format, is_1904)
        } else {
            wrap_f64(n as f64 / 100.0, format, is_1904)
        }
    } else {
        let f = f64::from_bits(((raw & 0xFFFF_FFFC) as u64) << 32);
        wrap_f64(if fx100 { f / 100.0 } else { f }, format, is_1904)
    };
    assert!(obs(&out) == expect);
}

#[kani::proof]
fn rk_num_int() { rk_num_case(true, false) }
#[kani::proof]
fn rk_num_int_x100() { rk_num_case(true, true) }
#[kani::proof]
fn rk_num_float() { rk_num_case(false, false) }
#[kani::proof]
fn rk_num_float_x100() { rk_num_case(false, true) }

/// fInt && fX100, payload divisible by 100: the result is the integer quotient (oracle stated by multiplication)
#[kani::proof]
fn rk_num_int_x100_divisible() {
    let rk: [u8; 6] = kani::any();
    kani::assume((rk[2] & 3) == 3);
    let is_1904: bool = kani::any();
    let formats: [CellFormat; 0] = [];
    let raw = (rk[2] as u32) | ((rk[3] as u32) << 8) | ((rk[4] as u32) << 16) | ((rk[5] as u32) << 24);
    let num30 = raw >> 2;
    let n: i64 = if num30 & (1 << 29) != 0 { num30 as i64 - (1i64 << 30) } else { num30 as i64 };
    let q: i32 = kani::any();
    kani::assume((q as i64) * 100 == n);
    kani::cover!(q == -7);
    let out = rk_num(&rk, &formats, is_1904);
    assert!(obs(&out) == (1, q as i64 as u64, 0, false));
}

// ------------------------------------------------------------------------------------------------
// unit xlsrec: harnesses behind the assumed contracts of units/xlsrec and the float-level clauses of C02
// ------------------------------------------------------------------------------------------------

/// C10: `format_excel_f64` wraps a stored double by the cell format and copies the date-system flag;
/// discharges the Verus clause C10.format_f64 and the Float/DateTime arms of `From<DataRef> for Data` used by it.
#[kani::proof]
fn format_excel_f64_spec() {
    let v = f64::from_bits(kani::any::<u64>());
    let is_1904: bool = kani::any();
    let f0 = any_format();
    let has: bool = kani::any();
    let fmt = if has { Some(&f0) } else { None };
    kani::cover!(has && matches!(f0, CellFormat::TimeDelta));
    let out = format_excel_f64(v, fmt, is_1904);
    assert!(obs(&out) == wrap_f64(v, fmt.copied(), is_1904));
}

/// [MS-XLS] 2.5.10 BErr code table (written out independently of parse_err)
fn berr_code(e: u8) -> Option<CellErrorType> {
    match e {
        0x00 => Some(CellErrorType::Null),
        0x07 => Some(CellErrorType::Div0),
        0x0F => Some(CellErrorType::Value),
        0x17 => Some(CellErrorType::Ref),
        0x1D => Some(CellErrorType::Name),
        0x24 => Some(CellErrorType::Num),
        0x2A => Some(CellErrorType::NA),
        0x2B => Some(CellErrorType::GettingData),
        _ => None,
    }
}

/// [MS-XLS] 2.5.133 FormulaValue (8 bytes): fExprO = bytes 6..8 == 0xFFFF marks a non-numeric cached result whose kind is byte 0:
/// 0 string (the value follows in a String record -> no cell yet), 1 boolean (byte 2), 2 error (byte 2, a BErr), 3 blank string;
/// otherwise the 8 bytes are an Xnum: the IEEE double itself. Complete over all 2^64 inputs.
#[kani::proof]
fn parse_formula_value_spec() {
    let r: [u8; 8] = kani::any();
    let out = parse_formula_value(&r);
    if r[6] == 0xFF && r[7] == 0xFF {
        match r[0] {
            0 => assert!(matches!(out, Ok(None))),
            1 => assert!(matches!(out, Ok(Some(Data::Bool(b))) if b == (r[2] != 0))),
            2 => match berr_code(r[2]) {
                Some(code) => assert!(matches!(out, Ok(Some(Data::Error(ref e))) if *e == code)),
                None => assert!(out.is_err()),
            },
            3 => assert!(matches!(out, Ok(Some(Data::String(ref s))) if s.is_empty())),
            _ => assert!(out.is_err()),
        }
        kani::cover!(r[0] == 2 && r[2] == 0x2A);
    } else {
        kani::cover!(r[0] == 2);
        assert!(matches!(out, Ok(Some(Data::Float(f))) if f.to_bits() == u64::from_le_bytes(r)));
    }
}

/// C02 "the same number encoded as NUMBER, RK or inside a MULRK run reads as a numerically equal value at the same cell":
/// n is written at (row, col) as RK integer, RK integer x100 (payload 100 n), RK float (when n's double has 34 zero low bits) and NUMBER;
/// the real parse_rk / parse_number must return the same position and numerically equal values. (MULRK entries go through the same
/// rk_num as parse_rk: Verus clause C02.mulrk_cells uses the same rk_value.) Formats table empty.
#[kani::proof]
fn rk_equivalence() {
    let n: i32 = kani::any();
    // 100 n must fit the signed 30-bit payload
    kani::assume(n >= -(1 << 29) / 100 && n <= ((1 << 29) - 1) / 100);
    let row: u16 = kani::any();
    let col: u16 = kani::any();
    let ixfe: u16 = kani::any();
    let formats: [CellFormat; 0] = [];
    let head = |rec: &mut [u8]| {
        rec[0..2].copy_from_slice(&row.to_le_bytes());
        rec[2..4].copy_from_slice(&col.to_le_bytes());
        rec[4..6].copy_from_slice(&ixfe.to_le_bytes());
    };
    let x = n as f64;

    // NUMBER (2.4.180): Xnum at offset 6
    let mut number = [0u8; 14];
    head(&mut number);
    number[6..14].copy_from_slice(&x.to_bits().to_le_bytes());
    let c_num = parse_number(&number, &formats, false).unwrap();

    // RK integer (2.5.217): fX100 = 0, fInt = 1, num = n
    let mut rk_i = [0u8; 10];
    head(&mut rk_i);
    rk_i[6..10].copy_from_slice(&((((n as u32) << 2) | 2).to_le_bytes()));
    let c_i = parse_rk(&rk_i, &formats, false).unwrap();

    // RK integer x100: fX100 = 1, fInt = 1, num = 100 n
    let mut rk_c = [0u8; 10];
    head(&mut rk_c);
    rk_c[6..10].copy_from_slice(&(((((n * 100) as u32) << 2) | 3).to_le_bytes()));
    let c_c = parse_rk(&rk_c, &formats, false).unwrap();

    let pos = (row as u32, col as u32);
    assert!(c_num.get_position() == pos && c_i.get_position() == pos && c_c.get_position() == pos);
    let as_num = |d: &Data| -> f64 {
        match d {
            Data::Int(v) => *v as f64,
            Data::Float(v) => *v,
            _ => f64::NAN,
        }
    };
    kani::cover!(n == -7);
    assert!(matches!(c_num.get_value(), Data::Float(_)));
    assert!(matches!(c_i.get_value(), Data::Int(v) if *v == n as i64));
    assert!(as_num(c_num.get_value()) == x);
    assert!(as_num(c_i.get_value()) == x);
    assert!(as_num(c_c.get_value()) == x);

    // RK float: the 30 high bits of the double, possible when the 34 low bits are zero
    if x.to_bits() & 0x3_FFFF_FFFF == 0 {
        let mut rk_f = [0u8; 10];
        head(&mut rk_f);
        rk_f[6..10].copy_from_slice(&(((x.to_bits() >> 32) as u32) & 0xFFFF_FFFC).to_le_bytes());
        let c_f = parse_rk(&rk_f, &formats, false).unwrap();
        kani::cover!(n == 3);
        assert!(c_f.get_position() == pos);
        assert!(as_num(c_f.get_value()) == x);
    }
}
