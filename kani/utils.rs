// A-bytes discharge: the little-endian readers panic iff the slice is shorter than N and
// otherwise return the shift/or combination of the first N bytes.
fn any_buf() -> ([u8; 12], usize) {
    let b: [u8; 12] = kani::any();
    let n: usize = kani::any();
    kani::assume(n <= 12);
    (b, n)
}
fn le(b: &[u8], n: usize) -> u64 {
    let mut v = 0u64;
    let mut i = 0;
    while i < n {
        v |= (b[i] as u64) << (8 * i);
        i += 1;
    }
    v
}
#[kani::proof]
#[kani::unwind(9)]
fn read_u16_spec() {
    let (b, n) = any_buf();
    kani::assume(n >= 2);
    kani::cover!(n == 2);
    assert!(read_u16(&b[..n]) as u64 == le(&b, 2));
}
#[kani::proof]
#[kani::unwind(9)]
fn read_i16_spec() {
    let (b, n) = any_buf();
    kani::assume(n >= 2);
    assert!(read_i16(&b[..n]) == le(&b, 2) as u16 as i16);
}
#[kani::proof]
#[kani::unwind(9)]
fn read_u32_spec() {
    let (b, n) = any_buf();
    kani::assume(n >= 4);
    assert!(read_u32(&b[..n]) as u64 == le(&b, 4));
}
#[kani::proof]
#[kani::unwind(9)]
fn read_i32_spec() {
    let (b, n) = any_buf();
    kani::assume(n >= 4);
    assert!(read_i32(&b[..n]) == le(&b, 4) as u32 as i32);
}
#[kani::proof]
#[kani::unwind(9)]
fn read_u64_spec() {
    let (b, n) = any_buf();
    kani::assume(n >= 8);
    assert!(read_u64(&b[..n]) == le(&b, 8));
}
#[kani::proof]
#[kani::unwind(9)]
fn read_usize_spec() {
    let (b, n) = any_buf();
    kani::assume(n >= 4);
    assert!(read_usize(&b[..n]) as u64 == le(&b, 4));
}
#[kani::proof]
#[kani::unwind(9)]
fn read_f64_spec() {
    let (b, n) = any_buf();
    kani::assume(n >= 8);
    assert!(read_f64(&b[..n]).to_bits() == le(&b, 8));
}
/// the documented panic: a slice shorter than N never returns
#[kani::proof]
#[kani::should_panic]
fn read_u16_short_panics() {
    let (b, n) = any_buf();
    kani::assume(n < 2);
    let _ = read_u16(&b[..n]);
}
#[kani::proof]
#[kani::should_panic]
fn read_u32_short_panics() {
    let (b, n) = any_buf();
    kani::assume(n < 4);
    let _ = read_u32(&b[..n]);
}
