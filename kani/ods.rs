// Kani module `ods` (appended to src/ods.rs): bounded stand-in for C04 on the real, generic `get_range::<T>`.
//
// ORACLE (written from the property, not from the code): the logical grid is the list of physical rows, each
// taken `rows_repeats[i]` times; a position holds the physical row's cell if the row is long enough, the default
// value otherwise.  The result must be the empty range iff no logical cell is non-default; otherwise
// start/end are the tight bounding box of the non-default logical cells, `inner.len() == height * width` and
// `get_value(p)` is the logical grid's value for every p of the box.
//
// Measured: with the emptiness of cells symbolic, `col_min/col_max/row_min` become symbolic slice bounds and
// CBMC's symbolic execution of `extend_from_slice` does not finish (shape [2,2,2], repeats [1,1,1]: > 330 s).
// Therefore per harness the shape (physical row lengths) and the repeat vector are CONCRETE, the harness walks
// through ALL emptiness masks of that shape (which cells are default) with concrete control flow, and only the
// payload of the non-default cells is symbolic (cell type `K`: `nz` concrete, `v` symbolic).

#[derive(Clone, Copy, Default, PartialEq, Debug)]
struct K {
    nz: bool,
    v: u8,
}
impl crate::CellType for K {}

const MAXW: usize = 3; // widest physical row of any shape below
const MAXH: usize = 6; // 3 physical rows, repeats <= 2
const MAXC: usize = 8; // cells per shape

/// cells of a concrete shape under a concrete emptiness mask (bit k set: cell k is non-default, payload pay[k])
fn mk_cells<const N: usize>(lens: [usize; N], mask: u32, pay: &[u8; MAXC]) -> (Vec<K>, [usize; 4]) {
    let mut cells: Vec<K> = Vec::new();
    let mut cols = [0usize; 4];
    let mut i = 0;
    while i < N {
        let mut j = 0;
        while j < lens[i] {
            let k = cells.len();
            if (mask >> k) & 1 == 1 {
                cells.push(K { nz: true, v: pay[k] });
            } else {
                cells.push(K::default());
            }
            j += 1;
        }
        cols[i + 1] = cells.len();
        i += 1;
    }
    (cells, cols)
}

/// the logical grid: rows expanded by their repeat counts, padded with the default value to MAXW columns;
/// returns (grid, logical height)
fn expand<const N: usize>(cells: &[K], cols: &[usize], reps: [usize; N]) -> ([[K; MAXW]; MAXH], usize) {
    let mut g = [[K::default(); MAXW]; MAXH];
    let mut h = 0;
    let mut i = 0;
    while i < N {
        let mut k = 0;
        while k < reps[i] {
            let mut c = 0;
            while c < cols[i + 1] - cols[i] {
                g[h][c] = cells[cols[i] + c];
                c += 1;
            }
            h += 1;
            k += 1;
        }
        i += 1;
    }
    (g, h)
}

/// tight bounding box (r0, r1, c0, c1) of the non-default logical cells, None if there is none
fn bbox(g: &[[K; MAXW]; MAXH], h: usize) -> Option<(usize, usize, usize, usize)> {
    let mut any = false;
    let (mut r0, mut r1, mut c0, mut c1) = (usize::MAX, 0usize, usize::MAX, 0usize);
    let mut r = 0;
    while r < h {
        let mut c = 0;
        while c < MAXW {
            if g[r][c].nz {
                any = true;
                if r < r0 { r0 = r; }
                if r > r1 { r1 = r; }
                if c < c0 { c0 = c; }
                if c > c1 { c1 = c; }
            }
            c += 1;
        }
        r += 1;
    }
    if any { Some((r0, r1, c0, c1)) } else { None }
}

fn row_blank(cells: &[K], cols: &[usize], i: usize) -> bool {
    let mut c = cols[i];
    while c < cols[i + 1] {
        if cells[c].nz { return false; }
        c += 1;
    }
    true
}

/// true iff the input is in the region hit by the known defect (findings/ods.json, interior blank row width): the
/// data does not start in column 0 and a blank physical row lies between two non-blank physical rows
fn in_known_defect_region<const N: usize>(cells: &[K], cols: &[usize], c0: usize) -> bool {
    let mut first = N;
    let mut last = 0;
    let mut i = 0;
    while i < N {
        if !row_blank(cells, cols, i) {
            if first == N { first = i; }
            last = i;
        }
        i += 1;
    }
    let mut interior_blank = false;
    let mut i = first;
    while i < last {
        if row_blank(cells, cols, i) { interior_blank = true; }
        i += 1;
    }
    c0 > 0 && interior_blank
}

#[derive(Clone, Copy, PartialEq)]
enum Fact { Bounds, Len, Placement }

/// `exclude_known`: skip the masks inside the known-defect region (these harnesses must pass; the unrestricted
/// ones carry the property as stated and are registered as known findings where the defect makes them fail)
fn check<const N: usize>(lens: [usize; N], reps: [usize; N], fact: Fact, exclude_known: bool) {
    check_masks(lens, reps, fact, exclude_known, 0, u32::MAX)
}

fn check_masks<const N: usize>(lens: [usize; N], reps: [usize; N], fact: Fact, exclude_known: bool, lo: u32, hi: u32) {
    let pay: [u8; MAXC] = kani::any();
    let mut total = 0;
    let mut i = 0;
    while i < N { total += lens[i]; i += 1; }
    let mut mask: u32 = lo;
    let end = if hi < (1u32 << total) { hi } else { 1u32 << total };
    while mask < end {
        let (cells, cols4) = mk_cells(lens, mask, &pay);
        let cols = &cols4[..N + 1];
        let (g, h) = expand(&cells, cols, reps);
        let bb = bbox(&g, h);
        let skip = match bb {
            Some((_, _, c0, _)) => exclude_known && in_known_defect_region::<N>(&cells, cols, c0),
            None => false,
        };
        if !skip {
            let r = get_range::<K>(cells.clone(), cols, &reps[..]);
            match bb {
                None => {
                    // C04.empty_iff: no non-default cell -> the empty range
                    assert!(r.inner.is_empty() && r.start == (0, 0) && r.end == (0, 0));
                }
                Some((r0, r1, c0, c1)) => match fact {
                    Fact::Bounds => {
                        // C04.bbox_tight (and not the empty range)
                        assert!(r.start == (r0 as u32, c0 as u32));
                        assert!(r.end == (r1 as u32, c1 as u32));
                        assert!(!r.inner.is_empty());
                    }
                    Fact::Len => {
                        // C04.len_is_h_times_w
                        assert!(r.inner.len() == (r1 - r0 + 1) * (c1 - c0 + 1));
                    }
                    Fact::Placement => {
                        // C04.placement (observed through the public accessor)
                        let mut rr = r0;
                        while rr <= r1 {
                            let mut cc = c0;
                            while cc <= c1 {
                                assert!(r.get_value((rr as u32, cc as u32)) == Some(&g[rr][cc]));
                                cc += 1;
                            }
                            rr += 1;
                        }
                    }
                },
            }
        }
        mask += 1;
    }
    kani::cover!(mask == end);
}

macro_rules! h {
    ($name:ident, $lens:expr, $reps:expr, $fact:expr, $excl:expr) => {
        #[kani::proof]
        fn $name() { check($lens, $reps, $fact, $excl) }
    };
}

// ---- probe harnesses (timing)
h!(ods_gr_222_r111_bounds, [2, 2, 2], [1, 1, 1], Fact::Bounds, false);
h!(ods_gr_222_r111_len, [2, 2, 2], [1, 1, 1], Fact::Len, false);
h!(ods_gr_222_r111_place, [2, 2, 2], [1, 1, 1], Fact::Placement, false);

#[kani::proof]
fn ods_gr_probe_one() { check_masks([2, 2, 2], [1, 1, 1], Fact::Bounds, false, 0b100110, 0b100111) }
#[kani::proof]
fn ods_gr_probe_four() { check_masks([2, 2, 2], [1, 1, 1], Fact::Bounds, false, 0b100100, 0b101000) }
