// Kani module `ods` (appended to src/ods.rs): bounded stand-in for C04 on the real `get_range::<usize>`.
//
// ORACLE (written from the property, not from the code): the logical grid is the list of physical rows, each
// taken `rows_repeats[i]` times; a position holds the physical row's cell if the row is long enough, the default
// value (0) otherwise.  The result must be the empty range iff no logical cell is non-default; otherwise
// start/end are the tight bounding box of the non-default logical cells, `inner.len() == height * width` and
// `get_value(p)` is the logical grid's value for every p of the box.
//
// Shapes (physical row lengths) and repeat vectors are CONCRETE per harness, cell values are symbolic in {0,1}
// (only "default / not default" matters to get_range; the value itself is only copied).

const MAXW: usize = 3; // widest physical row of any shape below
const MAXH: usize = 6; // 3 physical rows, repeats <= 2

/// symbolic cells for a concrete shape; returns (cells, cols)
fn any_cells<const N: usize>(lens: [usize; N]) -> (Vec<usize>, [usize; 4]) {
    let mut cells: Vec<usize> = Vec::new();
    let mut cols = [0usize; 4];
    let mut i = 0;
    while i < N {
        let mut j = 0;
        while j < lens[i] {
            let v: usize = kani::any();
            kani::assume(v <= 1);
            cells.push(v);
            j += 1;
        }
        cols[i + 1] = cells.len();
        i += 1;
    }
    (cells, cols)
}

/// the logical grid: rows expanded by their repeat counts, padded with the default value to MAXW columns;
/// returns (grid, logical height)
fn expand<const N: usize>(cells: &[usize], cols: &[usize], reps: [usize; N]) -> ([[usize; MAXW]; MAXH], usize) {
    let mut g = [[0usize; MAXW]; MAXH];
    let mut h = 0;
    let mut i = 0;
    while i < N {
        let mut k = 0;
        while k < reps[i] {
            let mut c = 0;
            while c < cols[i + 1] - cols[i] {
                g[h][c] = cells[cols[i] + c];
                c += 1;
            }
            h += 1;
            k += 1;
        }
        i += 1;
    }
    (g, h)
}

/// tight bounding box (r0, r1, c0, c1) of the non-default logical cells, None if there is none
fn bbox(g: &[[usize; MAXW]; MAXH], h: usize) -> Option<(usize, usize, usize, usize)> {
    let mut any = false;
    let (mut r0, mut r1, mut c0, mut c1) = (usize::MAX, 0usize, usize::MAX, 0usize);
    let mut r = 0;
    while r < h {
        let mut c = 0;
        while c < MAXW {
            if g[r][c] != 0 {
                any = true;
                if r < r0 { r0 = r; }
                if r > r1 { r1 = r; }
                if c < c0 { c0 = c; }
                if c > c1 { c1 = c; }
            }
            c += 1;
        }
        r += 1;
    }
    if any { Some((r0, r1, c0, c1)) } else { None }
}

/// true iff the input is in the region hit by the known defect (findings/ods.json #1): the data does not start in
/// column 0 and a blank physical row lies between two non-blank physical rows
fn in_known_defect_region<const N: usize>(cells: &[usize], cols: &[usize], c0: usize) -> bool {
    let mut first = N;
    let mut last = 0;
    let mut i = 0;
    while i < N {
        let mut ne = false;
        let mut c = cols[i];
        while c < cols[i + 1] { if cells[c] != 0 { ne = true; } c += 1; }
        if ne { if first == N { first = i; } last = i; }
        i += 1;
    }
    let mut interior_blank = false;
    let mut i = first;
    while i < last {
        let mut ne = false;
        let mut c = cols[i];
        while c < cols[i + 1] { if cells[c] != 0 { ne = true; } c += 1; }
        if !ne { interior_blank = true; }
        i += 1;
    }
    c0 > 0 && interior_blank
}

#[derive(Clone, Copy, PartialEq)]
enum Fact { Bounds, Len, Placement }

/// `exclude_known`: restrict to inputs outside the known-defect region (these harnesses must pass; the unrestricted
/// ones carry the property as stated and are registered as known findings where the defect makes them fail)
fn check<const N: usize>(lens: [usize; N], reps: [usize; N], fact: Fact, exclude_known: bool) {
    let (cells, cols4) = any_cells(lens);
    let cols = &cols4[..N + 1];
    let (g, h) = expand(&cells, cols, reps);
    let bb = bbox(&g, h);
    if exclude_known {
        if let Some((_, _, c0, _)) = bb {
            kani::assume(!in_known_defect_region::<N>(&cells, cols, c0));
        }
    }
    let r = get_range::<usize>(cells.clone(), cols, &reps[..]);
    match bb {
        None => {
            kani::cover!(true);
            // C04.empty_iff: no non-default cell -> the empty range
            assert!(r.inner.is_empty() && r.start == (0, 0) && r.end == (0, 0));
        }
        Some((r0, r1, c0, c1)) => {
            kani::cover!(r0 > 0);
            kani::cover!(c0 > 0 || MAXW_USED_1::<N>(lens));
            match fact {
                Fact::Bounds => {
                    // C04.bbox_tight
                    assert!(r.start == (r0 as u32, c0 as u32));
                    assert!(r.end == (r1 as u32, c1 as u32));
                }
                Fact::Len => {
                    // C04.len_is_h_times_w
                    assert!(r.inner.len() == (r1 - r0 + 1) * (c1 - c0 + 1));
                }
                Fact::Placement => {
                    // C04.placement (observed through the public accessor)
                    let mut rr = r0;
                    while rr <= r1 {
                        let mut cc = c0;
                        while cc <= c1 {
                            assert!(r.get_value((rr as u32, cc as u32)) == Some(&g[rr][cc]));
                            cc += 1;
                        }
                        rr += 1;
                    }
                }
            }
        }
    }
}

#[allow(non_snake_case)]
fn MAXW_USED_1<const N: usize>(lens: [usize; N]) -> bool {
    // shapes whose rows all have length <= 1 cannot have c0 > 0
    let mut i = 0;
    let mut m = 0;
    while i < N { if lens[i] > m { m = lens[i]; } i += 1; }
    m <= 1
}

macro_rules! h {
    ($name:ident, $lens:expr, $reps:expr, $fact:expr, $excl:expr) => {
        #[kani::proof]
        #[kani::unwind(8)]
        fn $name() { check($lens, $reps, $fact, $excl) }
    };
}

// ---- probe harnesses (timing)
h!(ods_gr_222_r111_bounds, [2, 2, 2], [1, 1, 1], Fact::Bounds, false);
h!(ods_gr_222_r111_len, [2, 2, 2], [1, 1, 1], Fact::Len, false);
h!(ods_gr_222_r111_place, [2, 2, 2], [1, 1, 1], Fact::Placement, false);
