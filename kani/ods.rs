// Kani module `ods` (appended to src/ods.rs): BOUNDED stand-in for C04 on the real, generic `get_range::<T>`.
// (The unbounded result is the Verus unit units/ods; these harnesses re-check the same oracle on the compiled code,
// bit-precisely, for a fixed list of shapes.)
//
// ORACLE (written from the property, not from the code): the logical grid is the list of physical rows, each
// taken `rows_repeats[i]` times; a position holds the physical row's cell if the row is long enough, the default
// value otherwise.  The result must be the empty range iff no logical cell is non-default; otherwise
// start/end are the tight bounding box of the non-default logical cells, `inner.len() == height * width` and
// `get_value(p)` is the logical grid's value for every p of the box.  Two encodings of the same logical grid must give
// the same range (run-length independence).
//
// Measured: with the emptiness of cells symbolic, `col_min/col_max/row_min` become symbolic slice bounds and
// CBMC's symbolic execution of `extend_from_slice` does not finish (shape [2,2,2], repeats [1,1,1]: > 330 s); even with
// fully concrete control flow one call of get_range costs ~14 s.  Therefore every harness runs a SHORT LIST OF CONCRETE
// CASES: shape (physical row lengths), repeat vector and emptiness pattern are concrete, only the payload of the
// non-default cells is symbolic (cell type `K`: `nz` concrete, `v` symbolic).

#[derive(Clone, Copy, Default, PartialEq, Debug)]
struct K {
    nz: bool,
    v: u8,
}
impl crate::CellType for K {}

const MAXW: usize = 3; // widest physical row used below
const MAXH: usize = 8; // most logical rows used below

const BOUNDS: u8 = 1;
const LEN: u8 = 2;
const PLACE: u8 = 4;
const ALL: u8 = 7;

/// cells of a concrete shape under a concrete emptiness mask (bit k set: cell k is non-default, payload pay[k]);
/// returns (cells, cols)
fn mk(lens: &[usize], mask: u32, pay: &[u8; 8]) -> (Vec<K>, Vec<usize>) {
    let mut cells: Vec<K> = Vec::new();
    let mut cols: Vec<usize> = Vec::new();
    cols.push(0);
    let mut i = 0;
    while i < lens.len() {
        let mut j = 0;
        while j < lens[i] {
            let k = cells.len();
            if (mask >> k) & 1 == 1 {
                cells.push(K { nz: true, v: pay[k] });
            } else {
                cells.push(K::default());
            }
            j += 1;
        }
        cols.push(cells.len());
        i += 1;
    }
    (cells, cols)
}

/// the logical grid: rows expanded by their repeat counts, padded with the default value to MAXW columns;
/// returns (grid, logical height)
fn expand(cells: &[K], cols: &[usize], reps: &[usize]) -> ([[K; MAXW]; MAXH], usize) {
    let mut g = [[K::default(); MAXW]; MAXH];
    let mut h = 0;
    let mut i = 0;
    while i < reps.len() {
        let mut k = 0;
        while k < reps[i] {
            let mut c = 0;
            while c < cols[i + 1] - cols[i] {
                g[h][c] = cells[cols[i] + c];
                c += 1;
            }
            h += 1;
            k += 1;
        }
        i += 1;
    }
    (g, h)
}

/// tight bounding box (r0, r1, c0, c1) of the non-default logical cells, None if there is none
fn bbox(g: &[[K; MAXW]; MAXH], h: usize) -> Option<(usize, usize, usize, usize)> {
    let mut any = false;
    let (mut r0, mut r1, mut c0, mut c1) = (usize::MAX, 0usize, usize::MAX, 0usize);
    let mut r = 0;
    while r < h {
        let mut c = 0;
        while c < MAXW {
            if g[r][c].nz {
                any = true;
                if r < r0 { r0 = r; }
                if r > r1 { r1 = r; }
                if c < c0 { c0 = c; }
                if c > c1 { c1 = c; }
            }
            c += 1;
        }
        r += 1;
    }
    if any { Some((r0, r1, c0, c1)) } else { None }
}

/// run the real function on one concrete case and compare with the oracle; returns the range
fn case(lens: &[usize], reps: &[usize], mask: u32, pay: &[u8; 8], facts: u8) -> Range<K> {
    let (cells, cols) = mk(lens, mask, pay);
    let (g, h) = expand(&cells, &cols, reps);
    let r = get_range::<K>(cells.clone(), &cols, reps);
    match bbox(&g, h) {
        None => {
            // C04.empty_iff: no non-default cell -> the empty range
            assert!(r.inner.is_empty() && r.start == (0, 0) && r.end == (0, 0));
        }
        Some((r0, r1, c0, c1)) => {
            if facts & BOUNDS != 0 {
                // C04.bbox_tight (and not the empty range)
                assert!(r.start == (r0 as u32, c0 as u32));
                assert!(r.end == (r1 as u32, c1 as u32));
                assert!(!r.inner.is_empty());
            }
            if facts & LEN != 0 {
                // C04.len_is_h_times_w
                assert!(r.inner.len() == (r1 - r0 + 1) * (c1 - c0 + 1));
            }
            if facts & PLACE != 0 {
                // C04.placement (observed through the public accessor)
                let mut rr = r0;
                while rr <= r1 {
                    let mut cc = c0;
                    while cc <= c1 {
                        assert!(r.get_value((rr as u32, cc as u32)) == Some(&g[rr][cc]));
                        cc += 1;
                    }
                    rr += 1;
                }
            }
        }
    }
    r
}

fn same(a: &Range<K>, b: &Range<K>) -> bool {
    a.start == b.start && a.end == b.end && a.inner == b.inner
}

// ---------------------------------------------------------------------------------------------------------------
// leading empty runs: TWO OR MORE leading empty physical rows (`first_empty_rows_repeated = sum(repeats before) - i`
// with i >= 2), against the same logical grid written with ONE leading empty row element
// ---------------------------------------------------------------------------------------------------------------
#[kani::proof]
fn ods_gr_leading_two_rows_vs_one() {
    let pay: [u8; 8] = kani::any();
    // [] x2, [] x3, [_, v]   ==   [] x5, [_, v]      (data in column B: col_min = 1)
    let a = case(&[0, 0, 2], &[2, 3, 1], 0b10, &pay, ALL);
    let b = case(&[0, 2], &[5, 1], 0b10, &pay, ALL);
    assert!(same(&a, &b));
    assert!(a.start == (5, 1) && a.end == (5, 1));
}
#[kani::proof]
fn ods_gr_leading_runs_mixtures() {
    let pay: [u8; 8] = kani::any();
    // explicit copies [] [] [] (1,1,1 then data) == one element repeated 3
    let a = case(&[0, 0, 0, 2], &[1, 1, 1, 1], 0b11, &pay, ALL);
    let b = case(&[0, 2], &[3, 1], 0b11, &pay, ALL);
    assert!(same(&a, &b));
    // mixture 2+3 against 5, data row itself repeated, non-empty first column
    let c = case(&[0, 0, 2], &[2, 3, 2], 0b01, &pay, ALL);
    let d = case(&[0, 2], &[5, 2], 0b01, &pay, ALL);
    assert!(same(&c, &d));
    assert!(c.start == (5, 0) && c.end == (6, 0));
    // leading empty rows that are not zero-length (explicit empty cells), three of them
    let e = case(&[1, 2, 1, 2], &[1, 2, 1, 1], 0b100000, &pay, ALL);
    assert!(e.start == (4, 1));
}

// ---------------------------------------------------------------------------------------------------------------
// trailing empty runs of any length never enlarge the range
// ---------------------------------------------------------------------------------------------------------------
#[kani::proof]
fn ods_gr_trailing_runs() {
    let pay: [u8; 8] = kani::any();
    let a = case(&[2, 0, 0], &[1, 2, 3], 0b10, &pay, ALL);
    assert!(a.start == (0, 1) && a.end == (0, 1));
    let b = case(&[2, 2, 0], &[2, 1, 4], 0b0001, &pay, ALL);
    assert!(b.start == (0, 0) && b.end == (1, 0));
    // trailing empty cells inside rows (covered / explicit empties) and a trailing row
    let c = case(&[3, 3, 1], &[1, 1, 2], 0b001001, &pay, ALL);
    assert!(c.end == (1, 0));
}

// ---------------------------------------------------------------------------------------------------------------
// interior empty runs with data starting in column A (col_min == 0): must pass
// ---------------------------------------------------------------------------------------------------------------
#[kani::proof]
fn ods_gr_interior_runs_col0() {
    let pay: [u8; 8] = kani::any();
    // [v,_] / [] x2 / [v,w]     and the same with explicit copies of the blank row
    let a = case(&[2, 0, 2], &[1, 2, 1], 0b1101, &pay, ALL);
    let b = case(&[2, 0, 0, 2], &[1, 1, 1, 1], 0b1101, &pay, ALL);
    assert!(same(&a, &b));
    assert!(a.start == (0, 0) && a.end == (3, 1));
    // blank row written with explicit empty cells, shorter and longer than the box
    let mut p2 = pay;
    p2[3] = pay[5];
    let c = case(&[2, 1, 2], &[1, 1, 1], 0b01001, &p2, ALL);
    let d = case(&[2, 3, 2], &[1, 1, 1], 0b0100001, &pay, ALL);
    assert!(same(&c, &d));
}

// ---------------------------------------------------------------------------------------------------------------
// repeated non-blank rows: one repeated element == explicit copies, in any mixture; rows shorter/longer than the box
// ---------------------------------------------------------------------------------------------------------------
#[kani::proof]
fn ods_gr_repeated_rows() {
    let mut pay: [u8; 8] = kani::any();
    // rows [v] x3 as 3 / 1+2 / 1+1+1 (same payload for the copies)
    pay[1] = pay[0];
    pay[2] = pay[0];
    let a = case(&[1], &[3], 0b1, &pay, ALL);
    let b = case(&[1, 1], &[1, 2], 0b11, &pay, ALL);
    let c = case(&[1, 1, 1], &[1, 1, 1], 0b111, &pay, ALL);
    assert!(same(&a, &b) && same(&b, &c));
    // shape [1,3,2]: a short row, a long row, a middle row; no blank row
    let pay2: [u8; 8] = kani::any();
    let d = case(&[1, 3, 2], &[2, 1, 2], 0b101001, &pay2, ALL);
    assert!(d.start == (0, 0) && d.end == (4, 2));
    let e = case(&[1, 3, 2], &[1, 2, 1], 0b101000, &pay2, ALL);
    assert!(e.start == (1, 1) && e.end == (3, 2));
}

// ---------------------------------------------------------------------------------------------------------------
// interior blank row while the data starts in column B / C (regression harnesses of the fixed defect: blank interior rows were emitted
// `col_max + 1` cells wide).  Facts are split (bounds / length / placement) so that a break of one does not mask the others.
// ---------------------------------------------------------------------------------------------------------------
#[kani::proof]
fn ods_gr_interior_blank_colB_bounds() {
    let pay: [u8; 8] = kani::any();
    let r = case(&[2, 2, 2], &[1, 1, 1], 0b100010, &pay, BOUNDS);
    assert!(r.start == (0, 1) && r.end == (2, 1));
}
#[kani::proof]
fn ods_gr_interior_blank_colB_len() {
    let pay: [u8; 8] = kani::any();
    let _ = case(&[2, 2, 2], &[1, 1, 1], 0b100010, &pay, LEN);
}
#[kani::proof]
fn ods_gr_interior_blank_colB_place() {
    let pay: [u8; 8] = kani::any();
    let _ = case(&[2, 2, 2], &[1, 1, 1], 0b100010, &pay, PLACE);
}
#[kani::proof]
fn ods_gr_interior_blank_repeated_colC_len() {
    let pay: [u8; 8] = kani::any();
    // [_,_,v] / [] x2 / [_,_,w]
    let _ = case(&[3, 0, 3], &[1, 2, 1], 0b100100, &pay, LEN);
}
