// Kani bounded stand-in for vba::VbaProject::from_cfb (C18) -- the function Verus cannot take (closures capturing `&mut cfb`,
// `collect::<Result<BTreeMap,_>>`).  One concrete project image is BUILT here from the file-format definitions
//   [MS-OVBA] 2.3.4.2 dir stream (PROJECTINFORMATION, PROJECTREFERENCES (empty), PROJECTMODULES), 2.4.1 compression container,
//   [MS-CFB] mini stream (64-byte mini sectors chained by the mini FAT),
// handed to the REAL `from_cfb`, and the result is compared with what the format says:
//   module MODULENAME(0x19) |-> decompress( stream named by MODULESTREAMNAME(0x1A) [ MODULEOFFSET(0x31).TextOffset .. ] ).
// Module names and stream names are CROSSED on purpose (module "A" lives in stream "SB", module "B" in stream "SA"), decoy streams
// named "A"/"B" exist, and the two text offsets differ (0 and 3).  The module source bytes are symbolic.
//
// The compression encoder below (Tok .. encode_compressed_chunk) is a copy of the one in kani/vbadec.rs (written from the writer
// side of [MS-OVBA] 2.4.1.3.7 / 2.4.1.3.19.3), only with a larger buffer.

#[derive(Clone, Copy)]
enum Tok {
    /// LiteralToken: one byte
    Lit(u8),
    /// CopyToken: copy `len` bytes starting `off` bytes back (3 <= len, 1 <= off <= bytes already decompressed in the chunk)
    Copy(u16, u16),
}

const CAP: usize = 1024;

/// a growable byte buffer without heap (CBMC friendly)
struct Buf {
    b: [u8; CAP],
    n: usize,
}
impl Buf {
    fn new() -> Buf {
        Buf { b: [0; CAP], n: 0 }
    }
    fn push(&mut self, x: u8) {
        self.b[self.n] = x;
        self.n += 1;
    }
    fn extend(&mut self, xs: &[u8]) {
        let mut k = 0;
        while k < xs.len() {
            self.push(xs[k]);
            k += 1;
        }
    }
    fn u16(&mut self, x: u16) {
        self.push((x & 0xFF) as u8);
        self.push((x >> 8) as u8);
    }
    fn u32(&mut self, x: u32) {
        self.u16((x & 0xFFFF) as u16);
        self.u16((x >> 16) as u16);
    }
    /// a record `Id(2) Size(4) payload(Size)`
    fn var(&mut self, id: u16, payload: &[u8]) {
        self.u16(id);
        self.u32(payload.len() as u32);
        self.extend(payload);
    }
}

/// [MS-OVBA] 2.4.1.3.19.1 CopyToken Help: BitCount = max(ceil(log2(difference)), 4)
fn bit_count(difference: usize) -> u32 {
    let mut b = 0u32;
    while (1usize << b) < difference {
        b += 1;
    }
    if b < 4 {
        4
    } else {
        b
    }
}

/// [MS-OVBA] 2.4.1.3.19.3 Pack CopyToken: temp1 = Offset - 1, temp2 = 16 - BitCount, temp3 = Length - 3, Token = (temp1 << temp2) | temp3
fn pack_copy_token(difference: usize, off: u16, len: u16) -> u16 {
    let bc = bit_count(difference);
    ((off - 1) << (16 - bc)) | (len - 3)
}

/// one CompressedChunk (2.4.1.1.4) with CompressedChunkFlag = 1: header, then TokenSequences = FlagByte + up to 8 tokens
fn encode_compressed_chunk(tokens: &[Tok], out: &mut Buf) {
    let header_at = out.n;
    out.push(0);
    out.push(0);
    let mut decompressed_in_chunk = 0usize;
    let mut t = 0;
    while t < tokens.len() {
        let flag_at = out.n;
        out.push(0);
        let mut flags = 0u8;
        let mut bit = 0;
        while bit < 8 && t < tokens.len() {
            match tokens[t] {
                Tok::Lit(x) => {
                    out.push(x);
                    decompressed_in_chunk += 1;
                }
                Tok::Copy(off, len) => {
                    flags |= 1 << bit;
                    let tok = pack_copy_token(decompressed_in_chunk, off, len);
                    out.push((tok & 0xFF) as u8);
                    out.push((tok >> 8) as u8);
                    decompressed_in_chunk += len as usize;
                }
            }
            bit += 1;
            t += 1;
        }
        out.b[flag_at] = flags;
    }
    // CompressedChunkSize = number of bytes of the chunk minus 3; signature 0b011; flag 1
    let size = (out.n - header_at - 3) as u16;
    let header = 0x8000u16 | (0b011 << 12) | size;
    out.b[header_at] = (header & 0xFF) as u8;
    out.b[header_at + 1] = (header >> 8) as u8;
}

/// CompressedContainer (2.4.1.1.1): SignatureByte 0x01 + one compressed chunk of literal tokens only
fn compress_literals(data: &[u8], out: &mut Buf) {
    let mut toks = [Tok::Lit(0); 400];
    let mut k = 0;
    while k < data.len() {
        toks[k] = Tok::Lit(data[k]);
        k += 1;
    }
    out.push(0x01);
    encode_compressed_chunk(&toks[..data.len()], out);
}

/// one MODULE record (2.3.4.2.3.2) of a procedural module without the optional READONLY/PRIVATE records
fn module_record(d: &mut Buf, name: &[u8], stream_name: &[u8], text_offset: u32) {
    d.var(0x0019, name); // MODULENAME
    d.var(0x0047, &[]); // MODULENAMEUNICODE
    d.var(0x001A, stream_name); // MODULESTREAMNAME.StreamName
    d.var(0x0032, &[]); // MODULESTREAMNAME.StreamNameUnicode
    d.var(0x001C, &[]); // MODULEDOCSTRING
    d.var(0x0048, &[]); // MODULEDOCSTRING unicode
    d.u16(0x0031); // MODULEOFFSET: Id, Size = 4, TextOffset
    d.u32(4);
    d.u32(text_offset);
    d.u16(0x001E); // MODULEHELPCONTEXT: Id, Size = 4, HelpContext
    d.u32(4);
    d.u32(0);
    d.u16(0x002C); // MODULECOOKIE: Id, Size = 2, Cookie
    d.u32(2);
    d.u16(0xFFFF);
    d.u16(0x0021); // MODULETYPE procedural: Id, Reserved(4)
    d.u32(0);
    d.u16(0x002B); // Terminator, Reserved(4)
    d.u32(0);
}

/// the decompressed `dir` stream (2.3.4.2): PROJECTINFORMATION, no references, PROJECTMODULES with the two given modules
fn dir_stream(d: &mut Buf, m0: (&[u8], &[u8], u32), m1: (&[u8], &[u8], u32)) {
    // PROJECTINFORMATION (2.3.4.2.1)
    d.u16(0x0001); // PROJECTSYSKIND
    d.u32(4);
    d.u32(1);
    d.u16(0x0002); // PROJECTLCID
    d.u32(4);
    d.u32(0x0409);
    d.u16(0x0014); // PROJECTLCIDINVOKE
    d.u32(4);
    d.u32(0x0409);
    d.u16(0x0003); // PROJECTCODEPAGE = 1252
    d.u32(2);
    d.u16(1252);
    d.var(0x0004, b"P"); // PROJECTNAME
    d.var(0x0005, &[]); // PROJECTDOCSTRING
    d.var(0x0040, &[]);
    d.var(0x0006, &[]); // PROJECTHELPFILEPATH
    d.var(0x003D, &[]);
    d.u16(0x0007); // PROJECTHELPCONTEXT
    d.u32(4);
    d.u32(0);
    d.u16(0x0008); // PROJECTLIBFLAGS
    d.u32(4);
    d.u32(0);
    d.u16(0x0009); // PROJECTVERSION: Id, Reserved = 4, VersionMajor(4), VersionMinor(2)
    d.u32(4);
    d.u32(1);
    d.u16(1);
    d.var(0x000C, &[]); // PROJECTCONSTANTS
    d.var(0x003C, &[]);
    // PROJECTREFERENCES (2.3.4.2.2): empty array
    // PROJECTMODULES (2.3.4.2.3): Id 0x000F, Size = 2, Count; PROJECTCOOKIE: Id 0x0013, Size = 2, Cookie
    d.u16(0x000F);
    d.u32(2);
    d.u16(2);
    d.u16(0x0013);
    d.u32(2);
    d.u16(0xFFFF);
    module_record(d, m0.0, m0.1, m0.2);
    module_record(d, m1.0, m1.1, m1.2);
    // Terminator of the dir stream
    d.u16(0x0010);
    d.u32(0);
}

/// mini stream + mini FAT under construction: every stream occupies consecutive 64-byte mini sectors chained in order
struct Mini {
    data: Buf,
    fat: [u32; CAP / 64],
    nfat: usize,
}
impl Mini {
    fn new() -> Mini {
        Mini { data: Buf::new(), fat: [0xFFFF_FFFF; CAP / 64], nfat: 0 }
    }
    /// store `bytes` as a new stream; returns its directory entry
    fn add(&mut self, name: &str, bytes: &[u8]) -> Directory {
        let first = self.nfat;
        let n = (bytes.len() + 63) / 64;
        let mut k = 0;
        while k < n {
            self.fat[self.nfat] = if k + 1 == n { ENDOFCHAIN } else { (self.nfat + 1) as u32 };
            self.nfat += 1;
            k += 1;
        }
        self.data.extend(bytes);
        self.data.n = self.nfat * 64; // pad to the mini sector boundary (buffer is zero filled)
        Directory { name: String::from(name), start: first as u32, len: bytes.len() }
    }
}

fn same(got: &[u8], want: &[u8]) -> bool {
    if got.len() != want.len() {
        return false;
    }
    let mut k = 0;
    while k < want.len() {
        if got[k] != want[k] {
            return false;
        }
        k += 1;
    }
    true
}

/// shared body: `src_a` is the source of module "A" (stored in stream "SB" at offset 0), `src_b` of module "B" ("SA", offset 3)
fn run_project(src_a: &[u8], src_b: &[u8], decoys: bool) {
    // (a) dir stream, compressed
    let mut dir = Buf::new();
    dir_stream(&mut dir, (b"A", b"SB", 0), (b"B", b"SA", 3));
    let mut dir_c = Buf::new();
    compress_literals(&dir.b[..dir.n], &mut dir_c);
    // (b) module streams: TextOffset bytes of "performance cache" junk, then the compressed source
    let mut sb = Buf::new();
    compress_literals(src_a, &mut sb);
    let mut sa = Buf::new();
    sa.extend(&[0xAA, 0x01, 0xCC]);
    compress_literals(src_b, &mut sa);
    // (c) compound file: everything in the mini stream
    let mut mini = Mini::new();
    let mut directories = Vec::with_capacity(6);
    directories.push(Directory { name: String::from("Root Entry"), start: ENDOFCHAIN, len: 0 });
    if decoys {
        // streams that carry the MODULE names: valid containers with other content; must not be used
        let mut dc = Buf::new();
        compress_literals(&[0x5A], &mut dc);
        directories.push(mini.add("A", &dc.b[..dc.n]));
        directories.push(mini.add("B", &dc.b[..dc.n]));
    }
    directories.push(mini.add("SA", &sa.b[..sa.n]));
    directories.push(mini.add("dir", &dir_c.b[..dir_c.n]));
    directories.push(mini.add("SB", &sb.b[..sb.n]));
    let mut cfb = Cfb {
        directories,
        sectors: Sectors::new(512, Vec::new()),
        fats: Vec::new(),
        mini_sectors: Sectors::new(64, mini.data.b[..mini.data.n].to_vec()),
        mini_fats: mini.fat[..mini.nfat].to_vec(),
    };
    let mut r: &[u8] = &[];
    let p = match crate::vba::VbaProject::from_cfb(&mut r, &mut cfb) {
        Ok(p) => p,
        Err(_) => {
            assert!(false, "from_cfb must accept the project");
            return;
        }
    };
    // exactly the project's modules, by MODULENAME
    let names = p.get_module_names();
    assert!(names.len() == 2);
    assert!(same(names[0].as_bytes(), b"A") && same(names[1].as_bytes(), b"B"));
    // each module's raw content = decompression of the stream named by MODULESTREAMNAME from TextOffset
    match p.get_module_raw("A") {
        Ok(m) => assert!(same(m, src_a), "module A = source stored in stream SB at offset 0"),
        Err(_) => assert!(false, "module A missing"),
    }
    match p.get_module_raw("B") {
        Ok(m) => assert!(same(m, src_b), "module B = source stored in stream SA at offset 3"),
        Err(_) => assert!(false, "module B missing"),
    }
    assert!(p.get_module_raw("SA").is_err() && p.get_module_raw("SB").is_err());
    assert!(p.get_references().is_empty());
}

/// 2 modules, crossed stream names, offsets 0 / 3, module sources of 3 and 2 SYMBOLIC bytes, no decoy streams
#[kani::proof]
#[kani::unwind(420)]
pub fn from_cfb_two_modules_crossed_streams() {
    let a: [u8; 3] = kani::any();
    let b: [u8; 2] = kani::any();
    kani::cover!(a[0] != b[0]);
    run_project(&a, &b, false);
}

/// same with decoy streams named like the modules ("A", "B") present in the compound file
#[kani::proof]
#[kani::unwind(420)]
pub fn from_cfb_two_modules_crossed_streams_decoys() {
    let a: [u8; 3] = kani::any();
    let b: [u8; 2] = kani::any();
    kani::cover!(a[0] != b[0]);
    run_project(&a, &b, true);
}

/// concrete-input run of the real code under Kani (cheap variant): module sources "abc" / "de"
#[kani::proof]
#[kani::unwind(420)]
pub fn from_cfb_two_modules_concrete() {
    run_project(b"abc", b"de", true);
}
