// Kani bounded stand-in for vba::VbaProject::from_cfb (C18) -- the function Verus cannot take (closures capturing `&mut cfb`,
// `collect::<Result<BTreeMap,_>>`).  Project images are BUILT here from the file-format definitions
//   [MS-OVBA] 2.3.4.2 dir stream (PROJECTINFORMATION, PROJECTREFERENCES (empty), PROJECTMODULES), 2.4.1 compression container,
//   [MS-CFB] sectors chained by the FAT / 64-byte mini sectors chained by the mini FAT,
// handed to the REAL `from_cfb`, and the result is compared with what the format says:
//   module MODULENAME(0x19) |-> decompress( stream named by MODULESTREAMNAME(0x1A) [ MODULEOFFSET(0x31).TextOffset .. ] ).
// Module names and stream names are CROSSED on purpose (module "A" lives in stream "SB", module "B" in stream "SA"), decoy streams
// named "A"/"B" can be present, and the two text offsets differ (0 and 3).  The module source bytes are symbolic.
//
// STATUS (measured, Kani 0.68 / CBMC 6.11, this sandbox): NONE of the harnesses below terminates within 10..40 minutes; they are
// therefore NOT registered in kani/vbaproj.json ("harnesses": []; the list with the measurements is under "unfinished").
// The image builders are also used by kani/vbaprojv.rs (same outcome) and were validated natively (cargo test: the real from_cfb
// returns exactly the expected modules on image_real; both mutants  get_stream(&m.name)  and  &s[..]  are rejected).
// What blocks CBMC, in the order met:
//  1. a literal-token container of the 299-byte dir stream: the FlagBytes read back from the heap are not constants for the symbolic
//     execution, the CopyToken branch (4096-byte `buf`, copy loop) is unrolled at each of ~300 token positions        (> 17 min);
//  2. dir stream as ONE RAW chunk (CompressedChunkFlag 0, 4096 bytes; image_real): the chunk flag is not a constant either, the
//     compressed branch is still explored for the dir stream; ~50 s of symbolic execution per `'chunk` iteration   (> 10 min, unwind 4);
//  3. `--max-field-sensitivity-array-size 1024` (cbmc_args) restores constant propagation through Vec<Directory>, the mini stream and
//     get_chain (memcmp of a String stored in a heap array of 40-byte structs otherwise has a non-constant length!), but it is lost
//     again behind read_dir_information (chained `*stream = &stream[n..]` + read_exact): every record alternative of
//     Reference::from_stream (set_libid / rsplit / PathBuf) and read_modules is unrolled  (from_cfb_wiring: > 40 min; _big: > 30 min);
//  4. with the three dir-stream parsers, decompress_stream and even Cfb::get_stream replaced by models (kani/vbaprojv.rs) the
//     in-place `collect::<Result<BTreeMap<..>>>` makes the number of collected pairs non-constant and the whole std stable sort
//     (driftsort / quicksort::stable_partition) inside BTreeMap::from_iter is unrolled                                 (> 10 min).
//
// The compression encoder (Tok .. encode_compressed_chunk) is a copy of the one in kani/vbadec.rs (written from the writer side of
// [MS-OVBA] 2.4.1.3.7 / 2.4.1.3.19.3).  The constant parts of the images are computed by `const fn`s at compile time.

#[derive(Clone, Copy)]
enum Tok {
    /// LiteralToken: one byte
    Lit(u8),
    /// CopyToken: copy `len` bytes starting `off` bytes back (3 <= len, 1 <= off <= bytes already decompressed in the chunk)
    Copy(u16, u16),
}

/// a growable byte buffer without heap (CBMC friendly, usable in const evaluation)
#[derive(Clone, Copy)]
struct Buf<const N: usize> {
    b: [u8; N],
    n: usize,
}
impl<const N: usize> Buf<N> {
    const fn new() -> Buf<N> {
        Buf { b: [0; N], n: 0 }
    }
    const fn push(&mut self, x: u8) {
        self.b[self.n] = x;
        self.n += 1;
    }
    const fn extend(&mut self, xs: &[u8]) {
        let mut k = 0;
        while k < xs.len() {
            self.push(xs[k]);
            k += 1;
        }
    }
    const fn u16(&mut self, x: u16) {
        self.push((x & 0xFF) as u8);
        self.push((x >> 8) as u8);
    }
    const fn u32(&mut self, x: u32) {
        self.u16((x & 0xFFFF) as u16);
        self.u16((x >> 16) as u16);
    }
    /// a record `Id(2) Size(4) payload(Size)`
    const fn var(&mut self, id: u16, payload: &[u8]) {
        self.u16(id);
        self.u32(payload.len() as u32);
        self.extend(payload);
    }
}

/// [MS-OVBA] 2.4.1.3.19.1 CopyToken Help: BitCount = max(ceil(log2(difference)), 4)
fn bit_count(difference: usize) -> u32 {
    let mut b = 0u32;
    while (1usize << b) < difference {
        b += 1;
    }
    if b < 4 {
        4
    } else {
        b
    }
}

/// [MS-OVBA] 2.4.1.3.19.3 Pack CopyToken: temp1 = Offset - 1, temp2 = 16 - BitCount, temp3 = Length - 3, Token = (temp1 << temp2) | temp3
fn pack_copy_token(difference: usize, off: u16, len: u16) -> u16 {
    let bc = bit_count(difference);
    ((off - 1) << (16 - bc)) | (len - 3)
}

/// one CompressedChunk (2.4.1.1.4) with CompressedChunkFlag = 1: header, then TokenSequences = FlagByte + up to 8 tokens
fn encode_compressed_chunk<const N: usize>(tokens: &[Tok], out: &mut Buf<N>) {
    let header_at = out.n;
    out.push(0);
    out.push(0);
    let mut decompressed_in_chunk = 0usize;
    let mut t = 0;
    while t < tokens.len() {
        let flag_at = out.n;
        out.push(0);
        let mut flags = 0u8;
        let mut bit = 0;
        while bit < 8 && t < tokens.len() {
            match tokens[t] {
                Tok::Lit(x) => {
                    out.push(x);
                    decompressed_in_chunk += 1;
                }
                Tok::Copy(off, len) => {
                    flags |= 1 << bit;
                    let tok = pack_copy_token(decompressed_in_chunk, off, len);
                    out.push((tok & 0xFF) as u8);
                    out.push((tok >> 8) as u8);
                    decompressed_in_chunk += len as usize;
                }
            }
            bit += 1;
            t += 1;
        }
        out.b[flag_at] = flags;
    }
    // CompressedChunkSize = number of bytes of the chunk minus 3; signature 0b011; flag 1
    let size = (out.n - header_at - 3) as u16;
    let header = 0x8000u16 | (0b011 << 12) | size;
    out.b[header_at] = (header & 0xFF) as u8;
    out.b[header_at + 1] = (header >> 8) as u8;
}

/// CompressedContainer (2.4.1.1.1): SignatureByte 0x01 + one compressed chunk
fn compress<const N: usize>(tokens: &[Tok], out: &mut Buf<N>) {
    out.push(0x01);
    encode_compressed_chunk(tokens, out);
}

/// one MODULE record (2.3.4.2.3.2) of a procedural module without the optional READONLY/PRIVATE records
const fn module_record<const N: usize>(d: &mut Buf<N>, name: &[u8], stream_name: &[u8], text_offset: u32) {
    d.var(0x0019, name); // MODULENAME
    d.var(0x0047, &[]); // MODULENAMEUNICODE
    d.var(0x001A, stream_name); // MODULESTREAMNAME.StreamName
    d.var(0x0032, &[]); // MODULESTREAMNAME.StreamNameUnicode
    d.var(0x001C, &[]); // MODULEDOCSTRING
    d.var(0x0048, &[]); // MODULEDOCSTRING unicode
    d.u16(0x0031); // MODULEOFFSET: Id, Size = 4, TextOffset
    d.u32(4);
    d.u32(text_offset);
    d.u16(0x001E); // MODULEHELPCONTEXT: Id, Size = 4, HelpContext
    d.u32(4);
    d.u32(0);
    d.u16(0x002C); // MODULECOOKIE: Id, Size = 2, Cookie
    d.u32(2);
    d.u16(0xFFFF);
    d.u16(0x0021); // MODULETYPE procedural: Id, Reserved(4)
    d.u32(0);
    d.u16(0x002B); // Terminator, Reserved(4)
    d.u32(0);
}

/// the decompressed `dir` stream (2.3.4.2): PROJECTINFORMATION, no references, PROJECTMODULES with the two given modules
const fn dir_stream<const N: usize>(d: &mut Buf<N>, m0: (&[u8], &[u8], u32), m1: (&[u8], &[u8], u32)) {
    // PROJECTINFORMATION (2.3.4.2.1)
    d.u16(0x0001); // PROJECTSYSKIND
    d.u32(4);
    d.u32(1);
    d.u16(0x0002); // PROJECTLCID
    d.u32(4);
    d.u32(0x0409);
    d.u16(0x0014); // PROJECTLCIDINVOKE
    d.u32(4);
    d.u32(0x0409);
    d.u16(0x0003); // PROJECTCODEPAGE = 1252
    d.u32(2);
    d.u16(1252);
    d.var(0x0004, b"P"); // PROJECTNAME
    d.var(0x0005, &[]); // PROJECTDOCSTRING
    d.var(0x0040, &[]);
    d.var(0x0006, &[]); // PROJECTHELPFILEPATH
    d.var(0x003D, &[]);
    d.u16(0x0007); // PROJECTHELPCONTEXT
    d.u32(4);
    d.u32(0);
    d.u16(0x0008); // PROJECTLIBFLAGS
    d.u32(4);
    d.u32(0);
    d.u16(0x0009); // PROJECTVERSION: Id, Reserved = 4, VersionMajor(4), VersionMinor(2)
    d.u32(4);
    d.u32(1);
    d.u16(1);
    d.var(0x000C, &[]); // PROJECTCONSTANTS
    d.var(0x003C, &[]);
    // PROJECTREFERENCES (2.3.4.2.2): empty array
    // PROJECTMODULES (2.3.4.2.3): Id 0x000F, Size = 2, Count; PROJECTCOOKIE: Id 0x0013, Size = 2, Cookie
    d.u16(0x000F);
    d.u32(2);
    d.u16(2);
    d.u16(0x0013);
    d.u32(2);
    d.u16(0xFFFF);
    module_record(d, m0.0, m0.1, m0.2);
    module_record(d, m1.0, m1.1, m1.2);
    // Terminator of the dir stream
    d.u16(0x0010);
    d.u32(0);
}

const SECTOR: usize = 4096;

/// compile-time part of the image: the regular sectors of the compound file = the `dir` stream as a container with one RAW chunk
/// (SignatureByte 0x01; header: CompressedChunkSize = 4095, signature 0b011, CompressedChunkFlag 0; 4096 data bytes, zero padded)
const DIR_SECTORS: Buf<{ 2 * SECTOR }> = {
    let mut d: Buf<4096> = Buf::new();
    dir_stream(&mut d, (b"A", b"SB", 0), (b"B", b"SA", 3));
    let mut s: Buf<{ 2 * SECTOR }> = Buf::new();
    s.push(0x01);
    s.u16(0x3FFF);
    s.extend(&d.b);
    s
};
/// length of the `dir` stream (container) in the compound file
const DIR_LEN: usize = 1 + 2 + 4096;

/// mini stream + mini FAT under construction: every stream occupies consecutive 64-byte mini sectors chained in order
struct Mini {
    data: Buf<640>,
    fat: [u32; 10],
    nfat: usize,
}
impl Mini {
    fn new() -> Mini {
        Mini { data: Buf::new(), fat: [0xFFFF_FFFF; 10], nfat: 0 }
    }
    /// store `bytes` as a new stream; returns its directory entry
    fn add(&mut self, name: &str, bytes: &[u8]) -> Directory {
        let first = self.nfat;
        let n = (bytes.len() + 63) / 64;
        let mut k = 0;
        while k < n {
            self.fat[self.nfat] = if k + 1 == n { ENDOFCHAIN } else { (self.nfat + 1) as u32 };
            self.nfat += 1;
            k += 1;
        }
        self.data.b[first * 64..first * 64 + bytes.len()].copy_from_slice(bytes);
        self.data.n = self.nfat * 64; // padded to the mini sector boundary (buffer is zero filled)
        Directory { name: String::from(name), start: first as u32, len: bytes.len() }
    }
}

/// loop-free slice comparison for expected values of at most 4 bytes (keeps the global unwind bound small)
fn same(got: &[u8], want: &[u8]) -> bool {
    assert!(want.len() <= 4);
    got.len() == want.len()
        && (want.len() < 1 || got[0] == want[0])
        && (want.len() < 2 || got[1] == want[1])
        && (want.len() < 3 || got[2] == want[2])
        && (want.len() < 4 || got[3] == want[3])
}

/// TRUSTED stub of `encoding_rs::Encoding::decode` (dependency, not under verification): for the windows-1252 encoding and input
/// bytes that are all < 0x80 the decoded text consists of the same ASCII characters (WHATWG single-byte decoder; no BOM is ASCII).
/// The stub ASSERTS that it is used only in that domain.
pub(crate) fn decode_ascii_1252_stub<'a>(e: &'static Encoding, bytes: &'a [u8]) -> (Cow<'a, str>, &'static Encoding, bool) {
    assert!(e == encoding_rs::WINDOWS_1252);
    let mut k = 0;
    while k < bytes.len() {
        assert!(bytes[k] < 0x80);
        k += 1;
    }
    (Cow::Borrowed(unsafe { std::str::from_utf8_unchecked(bytes) }), e, false)
}

/// TRUSTED stub of `codepage::to_encoding` (dependency): code page 1252 is windows-1252.  Asserts it is asked for 1252 only.
pub(crate) fn to_encoding_1252_stub(cp: u16) -> Option<&'static Encoding> {
    assert!(cp == 1252);
    Some(encoding_rs::WINDOWS_1252)
}

/// image 1 (REAL decompress_stream): `toks_a` encodes the source of module "A" (stored in stream "SB" at offset 0), `toks_b` that of
/// module "B" (stream "SA", offset 3).  Module streams in the mini stream, dir stream (raw chunk) in two regular 4096-byte sectors.
fn image_real(toks_a: &[Tok], toks_b: &[Tok], decoys: bool) -> Cfb {
    // module streams: TextOffset bytes of "performance cache" junk, then the compressed source
    let mut sb: Buf<32> = Buf::new();
    compress(toks_a, &mut sb);
    let mut sa: Buf<32> = Buf::new();
    sa.push(0xAA);
    sa.push(0x01);
    sa.push(0xCC);
    compress(toks_b, &mut sa);
    let mut mini = Mini::new();
    // (the directory Vec is made with Vec::from(array): CBMC's symbolic execution keeps the entries' names constant that way,
    // it does not for Vec::with_capacity + push)
    let directories = if decoys {
        // streams that carry the MODULE names: valid containers with other content; must not be used
        let mut dc: Buf<32> = Buf::new();
        compress(&[Tok::Lit(0x5A)], &mut dc);
        let d_a = mini.add("A", &dc.b[..dc.n]);
        let d_b = mini.add("B", &dc.b[..dc.n]);
        let d_sa = mini.add("SA", &sa.b[..sa.n]);
        let d_sb = mini.add("SB", &sb.b[..sb.n]);
        Vec::from([d_a, d_b, d_sa, Directory { name: String::from("dir"), start: 0, len: DIR_LEN }, d_sb])
    } else {
        let d_sa = mini.add("SA", &sa.b[..sa.n]);
        let d_sb = mini.add("SB", &sb.b[..sb.n]);
        Vec::from([d_sa, Directory { name: String::from("dir"), start: 0, len: DIR_LEN }, d_sb])
    };
    Cfb {
        directories,
        sectors: Sectors::new(SECTOR, DIR_SECTORS.b.to_vec()),
        fats: [1, ENDOFCHAIN].to_vec(),
        mini_sectors: Sectors::new(64, mini.data.b[..mini.data.n].to_vec()),
        mini_fats: mini.fat[..mini.nfat].to_vec(),
    }
}

/// MODEL of `decompress_stream` for the wiring harnesses: a container is SignatureByte 0x01 followed by the data "stored" as is,
/// D(0x01 ++ d) = d, anything else is an error.  from_cfb is parametric in the decompression function (it only passes slices to it
/// and stores/parses what comes back); decompress_stream itself is covered by the Verus unit `vbadec` and kani/vbadec.rs.
pub(crate) fn decompress_model(s: &[u8]) -> Result<Vec<u8>, CfbError> {
    if s[0] != 0x01 {
        return Err(CfbError::Invalid { name: "signature", expected: "0x01", found: s[0] as u16 });
    }
    Ok(s[1..].to_vec())
}

/// the `dir` stream in the compound file under the model: 0x01 ++ records
const DIR_MODEL: Buf<320> = {
    let mut d: Buf<320> = Buf::new();
    d.push(0x01);
    dir_stream(&mut d, (b"A", b"SB", 0), (b"B", b"SA", 3));
    d
};

/// image 2 (decompress_stream replaced by the model D): stream "SB" = 0x01 ++ src_a, stream "SA" = 3 junk bytes ++ 0x01 ++ src_b,
/// stream "dir" = 0x01 ++ records; all three (and the decoys) in the mini stream, "dir" spans 5 mini sectors
pub(crate) fn image_model(src_a: &[u8; 3], src_b: &[u8; 2], junk: &[u8; 3], decoys: bool) -> Cfb {
    let sb = [0x01, src_a[0], src_a[1], src_a[2]];
    let sa = [junk[0], junk[1], junk[2], 0x01, src_b[0], src_b[1]];
    let mut mini = Mini::new();
    let root = Directory { name: String::from("Root Entry"), start: ENDOFCHAIN, len: 0 };
    let directories = if decoys {
        let d_a = mini.add("A", &[0x01, 0x5A]);
        let d_b = mini.add("B", &[0x01, 0x5B]);
        let d_sa = mini.add("SA", &sa);
        let d_dir = mini.add("dir", &DIR_MODEL.b[..DIR_MODEL.n]);
        let d_sb = mini.add("SB", &sb);
        Vec::from([root, d_a, d_b, d_sa, d_dir, d_sb])
    } else {
        let d_sa = mini.add("SA", &sa);
        let d_dir = mini.add("dir", &DIR_MODEL.b[..DIR_MODEL.n]);
        let d_sb = mini.add("SB", &sb);
        Vec::from([root, d_sa, d_dir, d_sb])
    };
    Cfb {
        directories,
        sectors: Sectors::new(512, Vec::new()),
        fats: Vec::new(),
        mini_sectors: Sectors::new(64, mini.data.b[..mini.data.n].to_vec()),
        mini_fats: mini.fat[..mini.nfat].to_vec(),
    }
}

/// the `dir` stream under the model, zero padded to 4100 bytes (>= 4096: such a stream lives in regular sectors) -- two 4096-byte sectors
const DIR_MODEL_BIG: Buf<{ 2 * SECTOR }> = {
    let mut d: Buf<{ 2 * SECTOR }> = Buf::new();
    d.push(0x01);
    dir_stream(&mut d, (b"A", b"SB", 0), (b"B", b"SA", 3));
    d
};
const DIR_MODEL_BIG_LEN: usize = 4100;

/// image 3 (model D): as image 2, but the `dir` stream is padded to 4100 bytes and stored in two regular 4096-byte sectors chained by
/// the FAT (every loop of the run then has at most 3 iterations)
pub(crate) fn image_model_big(src_a: &[u8; 3], src_b: &[u8; 2], junk: &[u8; 3]) -> Cfb {
    let sb = [0x01, src_a[0], src_a[1], src_a[2]];
    let sa = [junk[0], junk[1], junk[2], 0x01, src_b[0], src_b[1]];
    let mut mini = Mini::new();
    let d_sa = mini.add("SA", &sa);
    let d_sb = mini.add("SB", &sb);
    let directories = Vec::from([d_sa, Directory { name: String::from("dir"), start: 0, len: DIR_MODEL_BIG_LEN }, d_sb]);
    Cfb {
        directories,
        sectors: Sectors::new(SECTOR, DIR_MODEL_BIG.b.to_vec()),
        fats: [1, ENDOFCHAIN].to_vec(),
        mini_sectors: Sectors::new(64, mini.data.b[..mini.data.n].to_vec()),
        mini_fats: mini.fat[..mini.nfat].to_vec(),
    }
}

/// image 4 (for the glue harnesses of kani/vbaprojv.rs, REAL decompress_stream, dir-stream parsers modelled): stream "dir" = an empty
/// container (SignatureByte only), stream "SB" = container of L(a0) L(a1) L(a2), stream "SA" = 3 junk bytes ++ container of
/// L(b0) L(b1) C(2,3); decoy streams "A"/"B" = containers of other content.  All in the mini stream, one mini sector each.
pub(crate) fn image_glue(src_a: &[u8; 3], src_b: &[u8; 2], junk: &[u8; 3], decoys: bool) -> Cfb {
    let mut sb: Buf<32> = Buf::new();
    compress(&[Tok::Lit(src_a[0]), Tok::Lit(src_a[1]), Tok::Lit(src_a[2])], &mut sb);
    let mut sa: Buf<32> = Buf::new();
    sa.push(junk[0]);
    sa.push(junk[1]);
    sa.push(junk[2]);
    compress(&[Tok::Lit(src_b[0]), Tok::Lit(src_b[1]), Tok::Copy(2, 3)], &mut sa);
    let mut mini = Mini::new();
    let root = Directory { name: String::from("Root Entry"), start: ENDOFCHAIN, len: 0 };
    let directories = if decoys {
        let mut dc: Buf<32> = Buf::new();
        compress(&[Tok::Lit(0x5A)], &mut dc);
        let d_a = mini.add("A", &dc.b[..dc.n]);
        let d_b = mini.add("B", &dc.b[..dc.n]);
        let d_sa = mini.add("SA", &sa.b[..sa.n]);
        let d_dir = mini.add("dir", &[0x01]);
        let d_sb = mini.add("SB", &sb.b[..sb.n]);
        Vec::from([root, d_a, d_b, d_sa, d_dir, d_sb])
    } else {
        let d_sa = mini.add("SA", &sa.b[..sa.n]);
        let d_dir = mini.add("dir", &[0x01]);
        let d_sb = mini.add("SB", &sb.b[..sb.n]);
        Vec::from([root, d_sa, d_dir, d_sb])
    };
    Cfb {
        directories,
        sectors: Sectors::new(512, Vec::new()),
        fats: Vec::new(),
        mini_sectors: Sectors::new(64, mini.data.b[..mini.data.n].to_vec()),
        mini_fats: mini.fat[..mini.nfat].to_vec(),
    }
}

/// image 5 (smallest; model D, dir-stream parsers modelled): three streams of one mini sector each, "SA" = junk ++ 0x01 ++ src_b,
/// "dir" = 0x01 (empty), "SB" = 0x01 ++ src_a
pub(crate) fn image_model_min(src_a: &[u8; 3], src_b: &[u8; 2], junk: &[u8; 3]) -> Cfb {
    let sb = [0x01, src_a[0], src_a[1], src_a[2]];
    let sa = [junk[0], junk[1], junk[2], 0x01, src_b[0], src_b[1]];
    let mut mini = Mini::new();
    let d_sa = mini.add("SA", &sa);
    let d_dir = mini.add("dir", &[0x01]);
    let d_sb = mini.add("SB", &sb);
    Cfb {
        directories: Vec::from([d_sa, d_dir, d_sb]),
        sectors: Sectors::new(512, Vec::new()),
        fats: Vec::new(),
        mini_sectors: Sectors::new(64, mini.data.b[..mini.data.n].to_vec()),
        mini_fats: mini.fat[..mini.nfat].to_vec(),
    }
}

/// MODEL of Cfb::get_stream for the closure harnesses of kani/vbaprojv.rs: the stream of the FIRST directory entry with that name =
/// `len` bytes of the mini stream from mini sector `start` (the images store every stream in consecutive mini sectors), else
/// StreamNotFound.  (The real get_stream / get_chain / get are covered by the Verus unit `cfb`.)
pub(crate) fn get_stream_model<R: Read>(cfb: &mut Cfb, name: &str, _r: &mut R) -> Result<Vec<u8>, CfbError> {
    for d in cfb.directories.iter() {
        if &*d.name == name {
            let s = d.start as usize * 64;
            return Ok(cfb.mini_sectors.data[s..s + d.len].to_vec());
        }
    }
    Err(CfbError::StreamNotFound(String::new()))
}

/// run the REAL from_cfb and compare with the format's meaning
fn check_project(mut cfb: Cfb, src_a: &[u8], src_b: &[u8]) {
    let mut r: &[u8] = &[];
    let p = match crate::vba::VbaProject::from_cfb(&mut r, &mut cfb) {
        Ok(p) => p,
        Err(_) => {
            assert!(false, "from_cfb must accept the project");
            return;
        }
    };
    // exactly the project's modules, by MODULENAME
    let names = p.get_module_names();
    assert!(names.len() == 2);
    assert!(same(names[0].as_bytes(), b"A") && same(names[1].as_bytes(), b"B"));
    // each module's raw content = decompression of the stream named by MODULESTREAMNAME from TextOffset
    match p.get_module_raw("A") {
        Ok(m) => assert!(same(m, src_a), "module A = source stored in stream SB at offset 0"),
        Err(_) => assert!(false, "module A missing"),
    }
    match p.get_module_raw("B") {
        Ok(m) => assert!(same(m, src_b), "module B = source stored in stream SA at offset 3"),
        Err(_) => assert!(false, "module B missing"),
    }
    assert!(p.get_module_raw("SA").is_err() && p.get_module_raw("SB").is_err());
    assert!(p.get_references().is_empty());
}

// ---------------------------------------------------------------------------------------------------------------------------
// wiring harnesses: decompress_stream = model D, Encoding::decode = ASCII/1252 stub; stream contents symbolic

fn wiring_case(decoys: bool) {
    let x: [u8; 3] = kani::any();
    let y: [u8; 2] = kani::any();
    let junk: [u8; 3] = kani::any();
    kani::cover!(x[0] != y[0] && junk[0] == 0x01);
    check_project(image_model(&x, &y, &junk, decoys), &x, &y);
}

#[kani::proof]
#[kani::unwind(7)]
#[kani::stub(encoding_rs::Encoding::decode, decode_ascii_1252_stub)]
#[kani::stub(decompress_stream, decompress_model)]
#[kani::stub(codepage::to_encoding, to_encoding_1252_stub)]
pub fn from_cfb_wiring() {
    wiring_case(false);
}

#[kani::proof]
#[kani::unwind(4)]
#[kani::stub(encoding_rs::Encoding::decode, decode_ascii_1252_stub)]
#[kani::stub(codepage::to_encoding, to_encoding_1252_stub)]
#[kani::stub(decompress_stream, decompress_model)]
pub fn from_cfb_wiring_big() {
    let x: [u8; 3] = kani::any();
    let y: [u8; 2] = kani::any();
    let junk: [u8; 3] = kani::any();
    kani::cover!(x[0] != y[0] && junk[0] == 0x01);
    check_project(image_model_big(&x, &y, &junk), &x, &y);
}

// ---------------------------------------------------------------------------------------------------------------------------
// end-to-end harnesses: REAL decompress_stream

fn real_case(decoys: bool) {
    let x: [u8; 2] = kani::any();
    let y: u8 = kani::any();
    kani::cover!(x[0] != y);
    // module A: 2 literals;  module B: 1 literal and a copy token (offset 1, length 3)
    let ta = [Tok::Lit(x[0]), Tok::Lit(x[1])];
    let tb = [Tok::Lit(y), Tok::Copy(1, 3)];
    check_project(image_real(&ta, &tb, decoys), &x, &[y, y, y, y]);
}

/// `encoding_rs::Encoding::decode` stubbed, real decompress_stream
#[kani::proof]
#[kani::unwind(4)]
#[kani::stub(encoding_rs::Encoding::decode, decode_ascii_1252_stub)]
pub fn from_cfb_two_modules_crossed_streams() {
    real_case(false);
}

/// concrete-input run of the real code under Kani
#[kani::proof]
#[kani::unwind(4)]
#[kani::stub(encoding_rs::Encoding::decode, decode_ascii_1252_stub)]
pub fn from_cfb_two_modules_concrete() {
    let ta = [Tok::Lit(b'a'), Tok::Lit(b'b')];
    let tb = [Tok::Lit(b'd'), Tok::Copy(1, 3)];
    check_project(image_real(&ta, &tb, false), b"ab", b"dddd");
}
