// Kani harnesses for src/cfb.rs (unit cfb): what Verus cannot take of Directory::from_slice / to_u32 / Cfb::new.
// `encoding_rs::Encoding::decode` is stubbed (A-enc: the name is an uninterpreted function of the 64 name bytes in the Verus
// contract); everything else is the real code.
fn decode_stub<'a>(e: &'static Encoding, _bytes: &'a [u8]) -> (Cow<'a, str>, &'static Encoding, bool) {
    (Cow::Borrowed(""), e, false)
}
fn le(b: &[u8], off: usize, n: usize) -> u64 {
    let mut v = 0u64;
    let mut i = 0;
    while i < n {
        v |= (b[off + i] as u64) << (8 * i);
        i += 1;
    }
    v
}

/// [MS-CFB] 2.6.1: starting sector location @116 (u32), stream size @120 (u64; for 512-byte sectors only the low 32 bits)
/// -- discharges the start/len part of the Verus contract C13.dir_entry_fields on the real function, full domain.
#[kani::proof]
#[kani::stub(encoding_rs::Encoding::decode, decode_stub)]
#[kani::unwind(10)]
fn from_slice_fields() {
    let b: [u8; 128] = kani::any();
    let ss: usize = kani::any();
    let d = Directory::from_slice(&b, ss);
    assert!(d.start as u64 == le(&b, 116, 4));
    if ss == 512 {
        assert!(d.len as u64 == le(&b, 120, 4));
    } else {
        assert!(d.len as u64 == le(&b, 120, 8));
    }
    kani::cover!(ss == 512 && d.len > 4096);
    kani::cover!(ss == 4096 && d.len > u32::MAX as usize);
}

/// C06 obligation: `from_slice` must not panic on any chunk `dirs.chunks(128)` can produce (1..=128 bytes).
/// EXPECTED TO FAIL (known finding): a directory stream whose length is not a multiple of 128 yields a short last chunk.
#[kani::proof]
#[kani::stub(encoding_rs::Encoding::decode, decode_stub)]
#[kani::unwind(10)]
fn from_slice_total() {
    let b: [u8; 128] = kani::any();
    let n: usize = kani::any();
    kani::assume(1 <= n && n <= 128);
    let ss: usize = kani::any();
    kani::assume(ss == 512 || ss == 4096);
    let _ = Directory::from_slice(&b[..n], ss);
}

/// the panic is exactly "chunk shorter than the fields read": with 128 bytes there is none (complete), see from_slice_fields;
/// below 124 bytes (512-byte sectors) / 128 bytes (4096) it always panics
#[kani::proof]
#[kani::should_panic]
#[kani::stub(encoding_rs::Encoding::decode, decode_stub)]
#[kani::unwind(10)]
fn from_slice_short_panics() {
    let b: [u8; 128] = kani::any();
    let n: usize = kani::any();
    let ss: usize = kani::any();
    kani::assume(ss == 512 || ss == 4096);
    kani::assume(n < if ss == 512 { 124 } else { 128 });
    let _ = Directory::from_slice(&b[..n], ss);
}

/// `to_u32` contract used by Verus (requires len % 4 == 0; yields the little-endian words in order)
#[kani::proof]
#[kani::unwind(6)]
fn to_u32_words() {
    let b: [u8; 12] = kani::any();
    let k: usize = kani::any();
    kani::assume(k <= 3);
    let mut it = to_u32(&b[..4 * k]);
    assert!(it.len() == k);
    let mut i = 0;
    while i < k {
        assert!(it.next() == Some(le(&b, 4 * i, 4) as u32));
        i += 1;
    }
    assert!(it.next().is_none());
    kani::cover!(k == 3);
}
/// the documented panic of `to_u32` (its `assert_eq!(s.len() % 4, 0)`): the precondition in the Verus contract is necessary
#[kani::proof]
#[kani::should_panic]
fn to_u32_unaligned_panics() {
    let b: [u8; 12] = kani::any();
    let n: usize = kani::any();
    kani::assume(n <= 12 && n % 4 != 0);
    let _ = to_u32(&b[..n]);
}

const FREE: u32 = 0xFFFF_FFFF;
fn put32(img: &mut [u8], off: usize, v: u32) {
    let b = v.to_le_bytes();
    img[off] = b[0];
    img[off + 1] = b[1];
    img[off + 2] = b[2];
    img[off + 3] = b[3];
}
/// BOUNDED exploration of `Cfb::new` (assumed contract in Verus): a 512-byte-sector image of header + 3 sectors
/// (sector 0 = FAT, sectors 1..2 = directory/data), symbolic first-directory sector and symbolic FAT entries restricted to
/// acyclic in-file chains, no DIFAT chain, no mini FAT. Checked: no panic, Ok, and the directory list has 4 entries per
/// directory sector with start/len decoded from the right offsets.
#[kani::proof]
#[kani::stub(encoding_rs::Encoding::decode, decode_stub)]
#[kani::unwind(132)]
fn new_small_image() {
    let mut img = [0u8; 2048];
    let sig = [0xD0u8, 0xCF, 0x11, 0xE0, 0xA1, 0xB1, 0x1A, 0xE1];
    let mut i = 0;
    while i < 8 {
        img[i] = sig[i];
        i += 1;
    }
    img[26] = 3; // major version 3
    img[30] = 9; // sector shift
    img[32] = 6; // mini sector shift
    put32(&mut img, 44, 1); // one FAT sector
    let dir_start: u32 = kani::any();
    kani::assume(dir_start == 1 || dir_start == 2);
    put32(&mut img, 48, dir_start);
    put32(&mut img, 60, ENDOFCHAIN); // no mini FAT
    put32(&mut img, 68, ENDOFCHAIN); // no DIFAT sector
    put32(&mut img, 76, 0); // DIFAT[0] = sector 0
    let mut k = 1;
    while k < 109 {
        put32(&mut img, 76 + 4 * k, FREE);
        k += 1;
    }
    // FAT (sector 0 at offset 512): entry 0 = FATSECT, entries 1, 2 symbolic (forward or end), rest free
    put32(&mut img, 512, 0xFFFF_FFFD);
    let f1: u32 = kani::any();
    let f2: u32 = kani::any();
    kani::assume(f1 == ENDOFCHAIN || f1 == 2);
    kani::assume(f2 == ENDOFCHAIN);
    put32(&mut img, 516, f1);
    put32(&mut img, 520, f2);
    let mut k = 3;
    while k < 128 {
        put32(&mut img, 512 + 4 * k, FREE);
        k += 1;
    }
    // directory entry 0 of the first directory sector: symbolic start / size fields
    let base = 512 + 512 * dir_start as usize;
    let st: u32 = kani::any();
    let ln: u32 = kani::any();
    put32(&mut img, base + 116, st);
    put32(&mut img, base + 120, ln);
    let mut rdr: &[u8] = &img;
    let r = Cfb::new(&mut rdr, 2048);
    match r {
        Ok(c) => {
            let nsect = if dir_start == 1 && f1 == 2 { 2 } else { 1 };
            assert!(c.directories.len() == 4 * nsect);
            assert!(c.directories[0].start == st);
            assert!(c.directories[0].len == ln as usize);
            assert!(c.fats.len() == 128);
            assert!(c.fats[1] == f1 && c.fats[2] == f2);
            assert!(c.mini_fats.is_empty());
        }
        Err(_) => assert!(false),
    }
    kani::cover!(dir_start == 1 && f1 == 2);
}
