// Kani harnesses for src/cfb.rs (unit cfb): what Verus cannot take of Directory::from_slice / to_u32 / Cfb::new.
// `encoding_rs::Encoding::decode` is stubbed (A-enc: the name is an uninterpreted function of the 64 name bytes in the Verus
// contract); everything else is the real code.
fn decode_stub<'a>(e: &'static Encoding, _bytes: &'a [u8]) -> (Cow<'a, str>, &'static Encoding, bool) {
    (Cow::Borrowed(""), e, false)
}
fn le(b: &[u8], off: usize, n: usize) -> u64 {
    let mut v = 0u64;
    let mut i = 0;
    while i < n {
        v |= (b[off + i] as u64) << (8 * i);
        i += 1;
    }
    v
}

/// [MS-CFB] 2.6.1: starting sector location @116 (u32), stream size @120 (u64; for 512-byte sectors only the low 32 bits)
/// -- discharges the start/len part of the Verus contract C13.dir_entry_fields on the real function, full domain.
#[kani::proof]
#[kani::stub(encoding_rs::Encoding::decode, decode_stub)]
#[kani::unwind(10)]
fn from_slice_fields() {
    let b: [u8; 128] = kani::any();
    let ss: usize = kani::any();
    let d = Directory::from_slice(&b, ss);
    assert!(d.start as u64 == le(&b, 116, 4));
    if ss == 512 {
        assert!(d.len as u64 == le(&b, 120, 4));
    } else {
        assert!(d.len as u64 == le(&b, 120, 8));
    }
    kani::cover!(ss == 512 && d.len > 4096);
    kani::cover!(ss == 4096 && d.len > u32::MAX as usize);
}

/// the `requires buf.len() >= 128` of the Verus contract is necessary: with 128 bytes there is no panic (from_slice_fields),
/// below 124 bytes (512-byte sectors) / 128 bytes (4096) it always panics. (Cfb::new now feeds it `chunks_exact(128)`.)
#[kani::proof]
#[kani::should_panic]
#[kani::stub(encoding_rs::Encoding::decode, decode_stub)]
#[kani::unwind(10)]
fn from_slice_short_panics() {
    let b: [u8; 128] = kani::any();
    let n: usize = kani::any();
    let ss: usize = kani::any();
    kani::assume(ss == 512 || ss == 4096);
    kani::assume(n < if ss == 512 { 124 } else { 128 });
    let _ = Directory::from_slice(&b[..n], ss);
}

/// `to_u32` contract used by Verus (no precondition; yields the complete little-endian words in order, a trailing remainder is ignored)
#[kani::proof]
#[kani::unwind(6)]
fn to_u32_words() {
    let b: [u8; 12] = kani::any();
    let n: usize = kani::any();
    kani::assume(n <= 12);
    let k = n / 4;
    let mut it = to_u32(&b[..n]);
    assert!(it.len() == k);
    let mut i = 0;
    while i < k {
        assert!(it.next() == Some(le(&b, 4 * i, 4) as u32));
        i += 1;
    }
    assert!(it.next().is_none());
    kani::cover!(k == 3);
    kani::cover!(n % 4 != 0 && k == 2);
}
