// Kani bounded twin of cfb::decompress_stream (C18): containers are BUILT by an encoder written from [MS-OVBA] 2.4.1
// (writer side: 2.4.1.3.7 "Compressing a Token Sequence", 2.4.1.3.19.3 "Pack CopyToken"), decompressed by the REAL
// function and compared with the plain expansion of the token list.  Token *shapes* are concrete (CBMC cannot cope with
// symbolic control flow through this function), literal byte values are symbolic.

#[derive(Clone, Copy)]
enum Tok {
    /// LiteralToken: one byte
    Lit(u8),
    /// CopyToken: copy `len` bytes starting `off` bytes back (3 <= len, 1 <= off <= bytes already decompressed in the chunk)
    Copy(u16, u16),
}

const CAP: usize = 48;

/// a growable byte buffer without heap (CBMC friendly)
struct Buf {
    b: [u8; CAP],
    n: usize,
}
impl Buf {
    fn new() -> Buf {
        Buf { b: [0; CAP], n: 0 }
    }
    fn push(&mut self, x: u8) {
        self.b[self.n] = x;
        self.n += 1;
    }
}

/// [MS-OVBA] 2.4.1.3.19.1 CopyToken Help: BitCount = max(ceil(log2(difference)), 4)
fn bit_count(difference: usize) -> u32 {
    let mut b = 0u32;
    while (1usize << b) < difference {
        b += 1;
    }
    if b < 4 {
        4
    } else {
        b
    }
}

/// [MS-OVBA] 2.4.1.3.19.3 Pack CopyToken: temp1 = Offset - 1, temp2 = 16 - BitCount, temp3 = Length - 3, Token = (temp1 << temp2) | temp3
fn pack_copy_token(difference: usize, off: u16, len: u16) -> u16 {
    let bc = bit_count(difference);
    ((off - 1) << (16 - bc)) | (len - 3)
}

/// one CompressedChunk (2.4.1.1.4) with CompressedChunkFlag = 1: header, then TokenSequences = FlagByte + up to 8 tokens
fn encode_compressed_chunk(tokens: &[Tok], out: &mut Buf) {
    let header_at = out.n;
    out.push(0);
    out.push(0);
    let mut decompressed_in_chunk = 0usize;
    let mut t = 0;
    while t < tokens.len() {
        let flag_at = out.n;
        out.push(0);
        let mut flags = 0u8;
        let mut bit = 0;
        while bit < 8 && t < tokens.len() {
            match tokens[t] {
                Tok::Lit(x) => {
                    out.push(x);
                    decompressed_in_chunk += 1;
                }
                Tok::Copy(off, len) => {
                    flags |= 1 << bit;
                    let tok = pack_copy_token(decompressed_in_chunk, off, len);
                    out.push((tok & 0xFF) as u8);
                    out.push((tok >> 8) as u8);
                    decompressed_in_chunk += len as usize;
                }
            }
            bit += 1;
            t += 1;
        }
        out.b[flag_at] = flags;
    }
    // CompressedChunkSize = number of bytes of the chunk minus 3; signature 0b011; flag 1
    let size = (out.n - header_at - 3) as u16;
    let header = 0x8000u16 | (0b011 << 12) | size;
    out.b[header_at] = (header & 0xFF) as u8;
    out.b[header_at + 1] = (header >> 8) as u8;
}

/// what the token list means: literals are appended, copies are byte-by-byte (overlap repeats) -- 2.4.1.3.11 Byte Copy
fn expand(tokens: &[Tok], out: &mut Buf) {
    let mut t = 0;
    while t < tokens.len() {
        match tokens[t] {
            Tok::Lit(x) => out.push(x),
            Tok::Copy(off, len) => {
                let mut k = 0;
                while k < len {
                    let x = out.b[out.n - off as usize];
                    out.push(x);
                    k += 1;
                }
            }
        }
        t += 1;
    }
}

fn check(container: &Buf, expected: &Buf) {
    let r = decompress_stream(&container.b[..container.n]);
    match r {
        Ok(v) => {
            assert!(v.len() == expected.n);
            let mut k = 0;
            while k < expected.n {
                assert!(v[k] == expected.b[k]);
                k += 1;
            }
        }
        Err(_) => assert!(false),
    }
}

/// one compressed chunk, 10 tokens = one full group of 8 + a second group of 2; literals symbolic; copies with and without overlap
#[kani::proof]
#[kani::unwind(24)]
pub fn decompress_one_chunk_10_tokens() {
    let a: u8 = kani::any();
    let b: u8 = kani::any();
    let c: u8 = kani::any();
    let d: u8 = kani::any();
    let toks = [
        Tok::Lit(a), Tok::Lit(b), Tok::Copy(2, 5), Tok::Lit(c), Tok::Copy(1, 3), Tok::Lit(d), Tok::Copy(11, 4), Tok::Lit(a),
        Tok::Copy(16, 3), Tok::Lit(b),
    ];
    let mut cont = Buf::new();
    cont.push(0x01);
    encode_compressed_chunk(&toks, &mut cont);
    let mut exp = Buf::new();
    expand(&toks, &mut exp);
    kani::cover!(exp.n == 21);
    check(&cont, &exp);
}

/// copy tokens on both sides of the BitCount change (difference 16 -> 4 bits, 17 -> 5 bits): offset/length split moves
#[kani::proof]
#[kani::unwind(29)]
pub fn decompress_bit_count_change() {
    let a: u8 = kani::any();
    let b: u8 = kani::any();
    let toks = [
        Tok::Lit(a), Tok::Lit(b), Tok::Copy(2, 14),  // 16 bytes decompressed
        Tok::Copy(16, 3),                            // difference = 16: BitCount 4, offset 16 is the largest
        Tok::Copy(19, 3),                            // difference = 19: BitCount 5
        Tok::Copy(1, 4),
    ];
    let mut cont = Buf::new();
    cont.push(0x01);
    encode_compressed_chunk(&toks, &mut cont);
    let mut exp = Buf::new();
    expand(&toks, &mut exp);
    kani::cover!(exp.n == 26);
    check(&cont, &exp);
}

/// two compressed chunks; the first ends in a PARTIAL group (3 tokens)
#[kani::proof]
#[kani::unwind(20)]
pub fn decompress_two_chunks_partial_group() {
    let a: u8 = kani::any();
    let b: u8 = kani::any();
    let c: u8 = kani::any();
    let t1 = [Tok::Lit(a), Tok::Copy(1, 3), Tok::Lit(b)];
    let t2 = [Tok::Lit(c), Tok::Lit(a)];
    let mut cont = Buf::new();
    cont.push(0x01);
    encode_compressed_chunk(&t1, &mut cont);
    encode_compressed_chunk(&t2, &mut cont);
    let mut exp = Buf::new();
    expand(&t1, &mut exp);
    expand(&t2, &mut exp);
    kani::cover!(exp.n == 7);
    check(&cont, &exp);
}

/// two compressed chunks; the first ends exactly after a FULL group of 8 tokens (the shape of the fixed C18 defect:
/// the real function used to eat the low byte of the second chunk header)
#[kani::proof]
#[kani::unwind(20)]
pub fn decompress_two_chunks_full_group() {
    let a: u8 = kani::any();
    let b: u8 = kani::any();
    let c: u8 = kani::any();
    let t1 = [Tok::Lit(a), Tok::Lit(b), Tok::Copy(2, 3), Tok::Lit(c), Tok::Lit(a), Tok::Lit(b), Tok::Lit(c), Tok::Lit(a)];
    let t2 = [Tok::Lit(c), Tok::Lit(b)];
    let mut cont = Buf::new();
    cont.push(0x01);
    encode_compressed_chunk(&t1, &mut cont);
    encode_compressed_chunk(&t2, &mut cont);
    let mut exp = Buf::new();
    expand(&t1, &mut exp);
    expand(&t2, &mut exp);
    kani::cover!(exp.n == 12);
    check(&cont, &exp);
}
