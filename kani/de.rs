// C09 -- serde deserialization of ranges (Kani, on the real crate; appended to src/de.rs).
//
// Part 1  DataDeserializer::deserialize_* -- one harness per method (`de_*`), complete over all non-String
//         cells (Int(i64) | Float(f64) | Bool | Empty | DateTime | Error(kind)) and all positions, observed
//         with a recording Visitor; Part 1b: the same table through serde's own impls for i64/u8/f64/bool/
//         Option<i64>/Data (`typed_*`), Empty as "", error cells under every method, tiny String cells.
// Part 2a RowDeserializer as SeqAccess / MapAccess (`row_*`): one row, everything symbolic.
// Part 2b RangeDeserializer::{new,next,size_hint}, Headers::None, 3 x 2 (`range_*`), one fact per harness.
// Part 2c Headers::All (`headers_all_*`, `headers_only_*`) and Headers::Custom (`headers_custom_*`, thorough tier).
// Part 2d Range built with Range::new + set_value; records through serde's tuple impl (thorough tier).
//
// The oracle is the conversion table of the property statement:
//   Int(v)/Float(v) -> `v as T` delivered through visit_T       (numeric casts)
//   Bool(b) -> b ; Empty -> None / unit / false / ""             (Empty as None/false/"")
//   Error(k) -> Err(CellError { err: k, pos }) with pos = the absolute position of that cell
//   anything else into a typed numeric/unit target -> an error that is NOT a CellError
//
// CBMC facts that shape the harnesses (see kani/de.json "cbmc_args" / "stubs"):
//   * --max-field-sensitivity-array-size 1024: without it symex loses every constant stored in a heap object
//     larger than 64 bytes (a Vec<Data> with more than 2 cells), every cell's variant becomes symbolic and the
//     String arms (str::parse, float rendering) are explored for every cell.
//   * `Range::width()` must fold to a constant (chunk size of rows(), length of column_indexes): the column
//     origin is concrete, the row origin is symbolic.
//   * stubs: alloc::fmt::format and <T as ToString>::to_string (message texts), str::trim (headers_custom_* only).
use crate::datatype::{ExcelDateTime, ExcelDateTimeType};
use serde::de::MapAccess;

// ---------------------------------------------------------------------------------------------
// observation types
// ---------------------------------------------------------------------------------------------

/// which `visit_*` was called, with which payload (floats by bit pattern)
#[derive(Clone, Copy, PartialEq)]
pub(crate) enum Got {
    Bool(bool),
    I8(i8),
    I16(i16),
    I32(i32),
    I64(i64),
    U8(u8),
    U16(u16),
    U32(u32),
    U64(u64),
    F32(u32),
    F64(u64),
    Unit,
    NoneV,
    EmptyStr,
    EmptyBytes,
    Other,
}

/// outcome of one `deserialize_*` call
#[derive(Clone, Copy, PartialEq)]
pub(crate) enum Out {
    /// visitor called directly
    Ok(Got),
    /// `visit_some(d)` called and `d.deserialize_any` then behaved like this
    Some(Got),
    /// `visit_some(d)` called and `d.deserialize_any` failed with CellError
    SomeCellErr(u8, (u32, u32)),
    /// `visit_newtype_struct(d)` called and `d.deserialize_any` then behaved like this
    Newtype(Got),
    CellErr(u8, (u32, u32)),
    OtherErr,
}

/// error kind numbering written here (independent of the declaration order in lib.rs)
fn kind_no(k: &CellErrorType) -> u8 {
    match k {
        CellErrorType::Div0 => 0,
        CellErrorType::NA => 1,
        CellErrorType::Name => 2,
        CellErrorType::Null => 3,
        CellErrorType::Num => 4,
        CellErrorType::Ref => 5,
        CellErrorType::Value => 6,
        CellErrorType::GettingData => 7,
    }
}
fn any_kind() -> CellErrorType {
    let k: u8 = kani::any();
    kani::assume(k < 8);
    match k {
        0 => CellErrorType::Div0,
        1 => CellErrorType::NA,
        2 => CellErrorType::Name,
        3 => CellErrorType::Null,
        4 => CellErrorType::Num,
        5 => CellErrorType::Ref,
        6 => CellErrorType::Value,
        _ => CellErrorType::GettingData,
    }
}

/// inner visitor (used behind visit_some / visit_newtype_struct): records the direct visit
struct Leaf;
macro_rules! leaf_visits {
    ($wrap:expr) => {
        fn expecting(&self, _f: &mut fmt::Formatter<'_>) -> fmt::Result {
            Ok(())
        }
        fn visit_bool<E>(self, v: bool) -> Result<Self::Value, E> {
            Ok($wrap(Got::Bool(v)))
        }
        fn visit_i8<E>(self, v: i8) -> Result<Self::Value, E> {
            Ok($wrap(Got::I8(v)))
        }
        fn visit_i16<E>(self, v: i16) -> Result<Self::Value, E> {
            Ok($wrap(Got::I16(v)))
        }
        fn visit_i32<E>(self, v: i32) -> Result<Self::Value, E> {
            Ok($wrap(Got::I32(v)))
        }
        fn visit_i64<E>(self, v: i64) -> Result<Self::Value, E> {
            Ok($wrap(Got::I64(v)))
        }
        fn visit_u8<E>(self, v: u8) -> Result<Self::Value, E> {
            Ok($wrap(Got::U8(v)))
        }
        fn visit_u16<E>(self, v: u16) -> Result<Self::Value, E> {
            Ok($wrap(Got::U16(v)))
        }
        fn visit_u32<E>(self, v: u32) -> Result<Self::Value, E> {
            Ok($wrap(Got::U32(v)))
        }
        fn visit_u64<E>(self, v: u64) -> Result<Self::Value, E> {
            Ok($wrap(Got::U64(v)))
        }
        fn visit_f32<E>(self, v: f32) -> Result<Self::Value, E> {
            Ok($wrap(Got::F32(v.to_bits())))
        }
        fn visit_f64<E>(self, v: f64) -> Result<Self::Value, E> {
            Ok($wrap(Got::F64(v.to_bits())))
        }
        fn visit_char<E>(self, _v: char) -> Result<Self::Value, E> {
            Ok($wrap(Got::Other))
        }
        fn visit_str<E>(self, v: &str) -> Result<Self::Value, E> {
            Ok($wrap(if v.is_empty() { Got::EmptyStr } else { Got::Other }))
        }
        fn visit_bytes<E>(self, v: &[u8]) -> Result<Self::Value, E> {
            Ok($wrap(if v.is_empty() { Got::EmptyBytes } else { Got::Other }))
        }
        fn visit_unit<E>(self) -> Result<Self::Value, E> {
            Ok($wrap(Got::Unit))
        }
        fn visit_none<E>(self) -> Result<Self::Value, E> {
            Ok($wrap(Got::NoneV))
        }
        fn visit_seq<A: SeqAccess<'de>>(self, _a: A) -> Result<Self::Value, A::Error> {
            Ok($wrap(Got::Other))
        }
        fn visit_map<A: MapAccess<'de>>(self, _a: A) -> Result<Self::Value, A::Error> {
            Ok($wrap(Got::Other))
        }
        fn visit_enum<A: de::EnumAccess<'de>>(self, _a: A) -> Result<Self::Value, A::Error> {
            Ok($wrap(Got::Other))
        }
    };
}
impl<'de> Visitor<'de> for Leaf {
    type Value = Got;
    leaf_visits!(|g| g);
    fn visit_some<D: Deserializer<'de>>(self, _d: D) -> Result<Got, D::Error> {
        Ok(Got::Other)
    }
    fn visit_newtype_struct<D: Deserializer<'de>>(self, _d: D) -> Result<Got, D::Error> {
        Ok(Got::Other)
    }
}

/// outer recording visitor. `visit_some` / `visit_newtype_struct` probe the deserializer they are
/// handed with `deserialize_any(Leaf)` so that "it is the same cell at the same position" is observable.
/// An inner CellError is reported as Ok(Out::SomeCellErr) so that it is distinguishable from a direct one.
struct RecV;
impl<'de> Visitor<'de> for RecV {
    type Value = Out;
    leaf_visits!(|g| Out::Ok(g));
    fn visit_some<D: Deserializer<'de>>(self, d: D) -> Result<Out, D::Error> {
        // D::Error is opaque here; DataDeserializer's is DeError -- map through a side channel:
        // we keep the error as is and let `observe` classify it; a flag tells observe it came from inside Some.
        match d.deserialize_any(Leaf) {
            Ok(g) => Ok(Out::Some(g)),
            Err(e) => {
                unsafe { INNER_ERR = true };
                Err(e)
            }
        }
    }
    fn visit_newtype_struct<D: Deserializer<'de>>(self, d: D) -> Result<Out, D::Error> {
        Ok(Out::Newtype(d.deserialize_any(Leaf)?))
    }
}
static mut INNER_ERR: bool = false;

fn observe(r: Result<Out, DeError>) -> Out {
    match r {
        Ok(o) => o,
        Err(DeError::CellError { err, pos }) => {
            if unsafe { INNER_ERR } {
                Out::SomeCellErr(kind_no(&err), pos)
            } else {
                Out::CellErr(kind_no(&err), pos)
            }
        }
        Err(_) => Out::OtherErr,
    }
}

/// replaces `alloc::fmt::format` (error-message strings only; their text is not part of the property)
fn format_stub(_args: fmt::Arguments<'_>) -> String {
    String::new()
}

// ---------------------------------------------------------------------------------------------
// symbolic cells
// ---------------------------------------------------------------------------------------------

/// tags: 0 Int, 1 Float, 2 Bool, 3 Empty, 4 DateTime, 5 Error
fn cell_of(tag: u8) -> Data {
    match tag {
        0 => Data::Int(kani::any()),
        1 => Data::Float(kani::any()),
        2 => Data::Bool(kani::any()),
        3 => Data::Empty,
        4 => {
            let t = if kani::any() { ExcelDateTimeType::DateTime } else { ExcelDateTimeType::TimeDelta };
            Data::DateTime(ExcelDateTime::new(kani::any(), t, kani::any()))
        }
        _ => Data::Error(any_kind()),
    }
}
/// run `f` on a fully symbolic cell of every non-String variant. The variant tag is concrete in each call
/// (the payload and the position are symbolic), so CBMC does not explore the String arms of the real code
/// with an invalid symbolic String; the union of the six calls is the whole non-String domain.
fn for_all_cells(f: fn(Data, (u32, u32))) {
    let mut tag = 0u8;
    while tag < 6 {
        let pos: (u32, u32) = kani::any();
        f(cell_of(tag), pos);
        tag += 1;
    }
    kani::cover!(tag == 6); // all six calls returned
}
/// the number carried by a DateTime cell (its serial value), read through the public accessor
fn dt_value(d: &Data) -> f64 {
    match d {
        Data::DateTime(e) => e.as_f64(),
        _ => 0.0,
    }
}

// ---------------------------------------------------------------------------------------------
// Part 1 -- conversion table, one harness per method
// ---------------------------------------------------------------------------------------------

/// numeric targets: Int(v)/Float(v) -> visit_T(v as T); Error(k) -> CellError{k,pos}; others rejected (not CellError)
macro_rules! num_harness {
    ($name:ident, $method:ident, $t:ty, $got:expr) => {
        #[kani::proof]
        #[kani::stub(alloc::fmt::format, format_stub)]
        fn $name() {
            for_all_cells(|d, pos| {
            let out = observe(d.to_cell_deserializer(pos).$method(RecV));
            let expect = match &d {
                Data::Int(v) => Out::Ok(($got)(*v as $t)),
                Data::Float(v) => Out::Ok(($got)(*v as $t)),
                Data::Error(k) => Out::CellErr(kind_no(k), pos),
                _ => Out::OtherErr,
            };
            assert!(out == expect);
            });
        }
    };
}
num_harness!(de_i64, deserialize_i64, i64, Got::I64);
num_harness!(de_i32, deserialize_i32, i32, Got::I32);
num_harness!(de_i16, deserialize_i16, i16, Got::I16);
num_harness!(de_i8, deserialize_i8, i8, Got::I8);
num_harness!(de_u64, deserialize_u64, u64, Got::U64);
num_harness!(de_u32, deserialize_u32, u32, Got::U32);
num_harness!(de_u16, deserialize_u16, u16, Got::U16);
num_harness!(de_u8, deserialize_u8, u8, Got::U8);
num_harness!(de_f64, deserialize_f64, f64, |v: f64| Got::F64(v.to_bits()));
num_harness!(de_f32, deserialize_f32, f32, |v: f32| Got::F32(v.to_bits()));

/// bool: Bool(b) -> b; Empty -> false; a number is true iff it is not zero; Error -> CellError
#[kani::proof]
#[kani::stub(alloc::fmt::format, format_stub)]
fn de_bool() {
    for_all_cells(|d, pos| {
    let out = observe(d.to_cell_deserializer(pos).deserialize_bool(RecV));
    let expect = match &d {
        Data::Bool(b) => Out::Ok(Got::Bool(*b)),
        Data::Empty => Out::Ok(Got::Bool(false)),
        Data::Int(v) => Out::Ok(Got::Bool(*v != 0)),
        Data::Float(v) => Out::Ok(Got::Bool(!(*v == 0.0))),
        Data::DateTime(_) => Out::Ok(Got::Bool(!(dt_value(&d) == 0.0))),
        Data::Error(k) => Out::CellErr(kind_no(k), pos),
        _ => Out::OtherErr,
    };
    assert!(out == expect);
    });
}

/// option: Empty -> None; every other cell -> Some(the same cell at the same position)
#[kani::proof]
#[kani::stub(alloc::fmt::format, format_stub)]
fn de_option() {
    for_all_cells(|d, pos| {
    unsafe { INNER_ERR = false };
    let out = observe(d.to_cell_deserializer(pos).deserialize_option(RecV));
    let expect = match &d {
        Data::Empty => Out::Ok(Got::NoneV),
        Data::Int(v) => Out::Some(Got::I64(*v)),
        Data::Float(v) => Out::Some(Got::F64(v.to_bits())),
        Data::Bool(b) => Out::Some(Got::Bool(*b)),
        Data::DateTime(_) => Out::Some(Got::F64(dt_value(&d).to_bits())),
        Data::Error(k) => Out::SomeCellErr(kind_no(k), pos),
        _ => Out::OtherErr,
    };
    assert!(out == expect);
    });
}

/// unit: Empty -> unit; Error -> CellError; everything else is rejected
#[kani::proof]
#[kani::stub(alloc::fmt::format, format_stub)]
fn de_unit() {
    for_all_cells(|d, pos| {
    let out = observe(d.to_cell_deserializer(pos).deserialize_unit(RecV));
    let expect = match &d {
        Data::Empty => Out::Ok(Got::Unit),
        Data::Error(k) => Out::CellErr(kind_no(k), pos),
        _ => Out::OtherErr,
    };
    assert!(out == expect);
    });
}

/// any (self-describing): the cell's own type; DateTime as its serial number; Empty as unit
#[kani::proof]
#[kani::stub(alloc::fmt::format, format_stub)]
fn de_any() {
    for_all_cells(|d, pos| {
    let out = observe(d.to_cell_deserializer(pos).deserialize_any(RecV));
    let expect = match &d {
        Data::Int(v) => Out::Ok(Got::I64(*v)),
        Data::Float(v) => Out::Ok(Got::F64(v.to_bits())),
        Data::Bool(b) => Out::Ok(Got::Bool(*b)),
        Data::Empty => Out::Ok(Got::Unit),
        Data::DateTime(_) => Out::Ok(Got::F64(dt_value(&d).to_bits())),
        Data::Error(k) => Out::CellErr(kind_no(k), pos),
        _ => Out::OtherErr,
    };
    assert!(out == expect);
    });
}

// ---------------------------------------------------------------------------------------------
// Part 2a -- RowDeserializer (SeqAccess / MapAccess), everything symbolic, containers of fixed shape
// ---------------------------------------------------------------------------------------------

/// replaces `<T as ToString>::to_string` (used for error messages by `DeError::custom`, and by
/// `deserialize_str` to render numbers -- no harness that uses this stub asserts anything about rendered numbers)
fn to_string_stub<T: fmt::Display + ?Sized>(_v: &T) -> String {
    String::new()
}

/// element type for records: whatever the cell says about itself through `deserialize_any`
/// (Int(v) -> I64(v), Empty -> Unit, Error -> the record fails)
impl<'de> Deserialize<'de> for Got {
    fn deserialize<D: Deserializer<'de>>(d: D) -> Result<Self, D::Error> {
        d.deserialize_any(Leaf)
    }
}

/// a record that pulls up to 3 elements of type E from the row and remembers how many there were
struct Row3<E> {
    n: u8,
    e: [Option<E>; 3],
}
struct Row3V<E>(PhantomData<E>);
impl<'de, E: Deserialize<'de>> Visitor<'de> for Row3V<E> {
    type Value = Row3<E>;
    fn expecting(&self, _f: &mut fmt::Formatter<'_>) -> fmt::Result {
        Ok(())
    }
    fn visit_seq<A: SeqAccess<'de>>(self, mut a: A) -> Result<Row3<E>, A::Error> {
        let mut r = Row3 { n: 0, e: [None, None, None] };
        while r.n < 3 {
            match a.next_element::<E>()? {
                Some(x) => r.e[r.n as usize] = Some(x),
                None => break,
            }
            r.n += 1;
        }
        Ok(r)
    }
}
impl<'de, E: Deserialize<'de>> Deserialize<'de> for Row3<E> {
    fn deserialize<D: Deserializer<'de>>(d: D) -> Result<Self, D::Error> {
        d.deserialize_seq(Row3V(PhantomData))
    }
}

/// cell model used by the bounded harnesses: tag 0 Int(v), 1 Empty, 2 Error(k)
fn mk_cell(tag: u8, v: i64, k: &CellErrorType) -> Data {
    match tag {
        0 => Data::Int(v),
        1 => Data::Empty,
        _ => Data::Error(k.clone()),
    }
}
/// what a consumer must see for a non-error cell
fn seen(tag: u8, v: i64) -> Got {
    if tag == 0 {
        Got::I64(v)
    } else {
        Got::Unit
    }
}

/// absolute position of the first cell of a row: the (at most 3) cells of the row have u32 coordinates
fn any_row_pos() -> (u32, u32) {
    let pos: (u32, u32) = kani::any();
    kani::assume(pos.1 <= u32::MAX - 3);
    pos
}

/// SeqAccess: the record is the selected columns, in the order of `column_indexes`
#[kani::proof]
#[kani::unwind(5)]
#[kani::stub(alloc::fmt::format, format_stub)]
fn row_seq_selects_columns() {
    let tag: [u8; 3] = kani::any();
    let v: [i64; 3] = kani::any();
    kani::assume(tag[0] < 2 && tag[1] < 2 && tag[2] < 2);
    let k = CellErrorType::NA;
    let cells = [mk_cell(tag[0], v[0], &k), mk_cell(tag[1], v[1], &k), mk_cell(tag[2], v[2], &k)];
    let idx: [usize; 2] = kani::any();
    kani::assume(idx[0] < 3 && idx[1] < 3);
    let pos = any_row_pos();
    kani::cover!(idx[0] == 2 && idx[1] == 0 && tag[2] == 1);
    let de = RowDeserializer::new(&idx, None, &cells, pos);
    match Row3::<Got>::deserialize(de) {
        Ok(r) => {
            assert!(r.n == 2);
            assert!(r.e[0] == Some(seen(tag[idx[0]], v[idx[0]])));
            assert!(r.e[1] == Some(seen(tag[idx[1]], v[idx[1]])));
        }
        Err(_) => assert!(false),
    }
}

/// SeqAccess::size_hint is the exact number of elements still to come
#[kani::proof]
#[kani::unwind(5)]
#[kani::stub(alloc::fmt::format, format_stub)]
fn row_seq_size_hint() {
    let v: [i64; 2] = kani::any();
    let cells = [Data::Int(v[0]), Data::Int(v[1])];
    let idx = [1usize, 0];
    let mut de = RowDeserializer::new(&idx, None, &cells, any_row_pos());
    assert!(SeqAccess::size_hint(&de) == Some(2));
    assert!(matches!(de.next_element::<Got>(), Ok(Some(_))));
    assert!(SeqAccess::size_hint(&de) == Some(1));
    assert!(matches!(de.next_element::<Got>(), Ok(Some(_))));
    assert!(SeqAccess::size_hint(&de) == Some(0));
    assert!(matches!(de.next_element::<Got>(), Ok(None)));
    assert!(SeqAccess::size_hint(&de) == Some(0));
}

fn row_with_error() -> ([Data; 3], usize, u8, (u32, u32), Result<Row3<Got>, DeError>) {
    let j: usize = kani::any();
    kani::assume(j < 3);
    let v: [i64; 3] = kani::any();
    let k = any_kind();
    let cells = [
        mk_cell(if j == 0 { 2 } else { 0 }, v[0], &k),
        mk_cell(if j == 1 { 2 } else { 0 }, v[1], &k),
        mk_cell(if j == 2 { 2 } else { 0 }, v[2], &k),
    ];
    // the row starts at absolute position `base`
    let base: (u32, u32) = kani::any();
    kani::assume(base.1 <= u32::MAX - 3);
    let idx = [0usize, 1, 2];
    let r = Row3::<Got>::deserialize(RowDeserializer::new(&idx, None, &cells, base));
    (cells, j, kind_no(&k), base, r)
}
/// an error cell in a row fails the record with CellError of that kind
#[kani::proof]
#[kani::unwind(5)]
#[kani::stub(alloc::fmt::format, format_stub)]
fn row_error_kind() {
    let (_c, _j, k, _base, r) = row_with_error();
    match r {
        Err(DeError::CellError { err, .. }) => assert!(kind_no(&err) == k),
        _ => assert!(false),
    }
}
/// ... reported in the row it was given
#[kani::proof]
#[kani::unwind(5)]
#[kani::stub(alloc::fmt::format, format_stub)]
fn row_error_row() {
    let (_c, _j, _k, base, r) = row_with_error();
    match r {
        Err(DeError::CellError { pos, .. }) => assert!(pos.0 == base.0),
        _ => assert!(false),
    }
}
/// ... and in the column of the failing cell (row start column + column index)
#[kani::proof]
#[kani::unwind(5)]
#[kani::stub(alloc::fmt::format, format_stub)]
fn row_error_col() {
    let (_c, j, _k, base, r) = row_with_error();
    kani::cover!(j == 2);
    match r {
        Err(DeError::CellError { pos, .. }) => assert!(pos.1 == base.1 + j as u32),
        _ => assert!(false),
    }
}

// ----- MapAccess ------------------------------------------------------------------------------

/// a map key as seen by a consumer: first byte and length of the header string
#[derive(Clone, Copy, PartialEq)]
struct Key(u8, usize);
impl<'de> Deserialize<'de> for Key {
    fn deserialize<D: Deserializer<'de>>(d: D) -> Result<Self, D::Error> {
        struct KV;
        impl<'de> Visitor<'de> for KV {
            type Value = Key;
            fn expecting(&self, _f: &mut fmt::Formatter<'_>) -> fmt::Result {
                Ok(())
            }
            fn visit_str<E>(self, v: &str) -> Result<Key, E> {
                Ok(Key(if v.is_empty() { 0 } else { v.as_bytes()[0] }, v.len()))
            }
        }
        d.deserialize_identifier(KV)
    }
}
/// records up to 3 (key, value) entries of a map, or that the row was offered as a sequence
struct Map3 {
    as_seq: bool,
    n: u8,
    k: [Option<Key>; 3],
    v: [Option<Got>; 3],
}
struct Map3V;
impl<'de> Visitor<'de> for Map3V {
    type Value = Map3;
    fn expecting(&self, _f: &mut fmt::Formatter<'_>) -> fmt::Result {
        Ok(())
    }
    fn visit_map<A: MapAccess<'de>>(self, mut a: A) -> Result<Map3, A::Error> {
        let mut r = Map3 { as_seq: false, n: 0, k: [None; 3], v: [None; 3] };
        while r.n < 3 {
            match a.next_key::<Key>()? {
                Some(k) => {
                    r.k[r.n as usize] = Some(k);
                    r.v[r.n as usize] = Some(a.next_value::<Got>()?);
                }
                None => break,
            }
            r.n += 1;
        }
        Ok(r)
    }
    fn visit_seq<A: SeqAccess<'de>>(self, _a: A) -> Result<Map3, A::Error> {
        Ok(Map3 { as_seq: true, n: 0, k: [None; 3], v: [None; 3] })
    }
}
fn hdr_ab() -> [String; 2] {
    [String::from("a"), String::from("b")]
}

/// coordinator case: row [Empty, Int(x)] under headers ["a","b"] yields exactly the entry "b" -> x
/// (an empty cell is absent; it does not end the record)
#[kani::proof]
#[kani::unwind(5)]
#[kani::stub(alloc::fmt::format, format_stub)]
fn row_map_skips_leading_empty() {
    let x: i64 = kani::any();
    let cells = [Data::Empty, Data::Int(x)];
    let h = hdr_ab();
    let idx = [0usize, 1];
    let de = RowDeserializer::new(&idx, Some(&h), &cells, any_row_pos());
    match de.deserialize_map(Map3V) {
        Ok(m) => {
            assert!(!m.as_seq && m.n == 1);
            assert!(m.k[0] == Some(Key(b'b', 1)));
            assert!(m.v[0] == Some(Got::I64(x)));
        }
        Err(_) => assert!(false),
    }
}
/// every combination of present/empty cells: the entries are exactly the non-empty cells, in column order,
/// each bound to the header of its own column
#[kani::proof]
#[kani::unwind(5)]
#[kani::stub(alloc::fmt::format, format_stub)]
fn row_map_binds_by_header() {
    let tag: [u8; 2] = kani::any();
    kani::assume(tag[0] < 2 && tag[1] < 2);
    let v: [i64; 2] = kani::any();
    let k = CellErrorType::NA;
    let cells = [mk_cell(tag[0], v[0], &k), mk_cell(tag[1], v[1], &k)];
    let h = hdr_ab();
    let idx = [0usize, 1];
    kani::cover!(tag[0] == 0 && tag[1] == 1);
    kani::cover!(tag[0] == 1 && tag[1] == 1);
    let de = RowDeserializer::new(&idx, Some(&h), &cells, any_row_pos());
    match de.deserialize_struct("R", &["a", "b"], Map3V) {
        Ok(m) => {
            assert!(!m.as_seq);
            let present = (tag[0] == 0) as u8 + (tag[1] == 0) as u8;
            assert!(m.n == present);
            if tag[0] == 0 {
                assert!(m.k[0] == Some(Key(b'a', 1)) && m.v[0] == Some(Got::I64(v[0])));
            }
            if tag[1] == 0 {
                let at = if tag[0] == 0 { 1 } else { 0 };
                assert!(m.k[at] == Some(Key(b'b', 1)) && m.v[at] == Some(Got::I64(v[1])));
            }
        }
        Err(_) => assert!(false),
    }
}
/// with selected columns [1, 0] the entries come in the selected order, still bound to their own header
#[kani::proof]
#[kani::unwind(5)]
#[kani::stub(alloc::fmt::format, format_stub)]
fn row_map_selected_order() {
    let v: [i64; 2] = kani::any();
    let cells = [Data::Int(v[0]), Data::Int(v[1])];
    let h = hdr_ab();
    let idx = [1usize, 0];
    let de = RowDeserializer::new(&idx, Some(&h), &cells, any_row_pos());
    match de.deserialize_map(Map3V) {
        Ok(m) => {
            assert!(m.n == 2);
            assert!(m.k[0] == Some(Key(b'b', 1)) && m.v[0] == Some(Got::I64(v[1])));
            assert!(m.k[1] == Some(Key(b'a', 1)) && m.v[1] == Some(Got::I64(v[0])));
        }
        Err(_) => assert!(false),
    }
}
/// an error cell as a map value fails the record with its kind
#[kani::proof]
#[kani::unwind(5)]
#[kani::stub(alloc::fmt::format, format_stub)]
fn row_map_error_value() {
    let x: i64 = kani::any();
    let k = any_kind();
    let cells = [Data::Int(x), Data::Error(k.clone())];
    let h = hdr_ab();
    let idx = [0usize, 1];
    let de = RowDeserializer::new(&idx, Some(&h), &cells, any_row_pos());
    match de.deserialize_map(Map3V) {
        Err(DeError::CellError { err, .. }) => assert!(kind_no(&err) == kind_no(&k)),
        _ => assert!(false),
    }
}
/// ... and the absolute position of that cell (row of the record, start column + column index)
#[kani::proof]
#[kani::unwind(5)]
#[kani::stub(alloc::fmt::format, format_stub)]
fn row_map_error_pos() {
    let j: usize = kani::any();
    kani::assume(j < 2);
    let k = any_kind();
    let cells = [mk_cell(if j == 0 { 2 } else { 0 }, kani::any(), &k), mk_cell(if j == 1 { 2 } else { 0 }, kani::any(), &k)];
    let h = hdr_ab();
    let idx = [0usize, 1];
    let base = any_row_pos();
    kani::cover!(j == 1);
    let de = RowDeserializer::new(&idx, Some(&h), &cells, base);
    match de.deserialize_map(Map3V) {
        Err(DeError::CellError { pos, .. }) => assert!(pos == (base.0, base.1 + j as u32)),
        _ => assert!(false),
    }
}
/// asking for a value when no key is pending is UnexpectedEndOfRow at the row position, not a panic
#[kani::proof]
#[kani::unwind(5)]
#[kani::stub(alloc::fmt::format, format_stub)]
fn row_map_value_without_key() {
    let cells = [Data::Int(kani::any())];
    let h = hdr_ab();
    let idx = [0usize];
    let pos = any_row_pos();
    let mut de = RowDeserializer::new(&idx, Some(&h), &cells, pos);
    match de.next_value::<Got>() {
        Err(DeError::UnexpectedEndOfRow { pos: p }) => assert!(p == pos),
        _ => assert!(false),
    }
}
/// struct / map targets get a map exactly when there are headers; any other target gets the sequence
#[kani::proof]
#[kani::unwind(5)]
#[kani::stub(alloc::fmt::format, format_stub)]
fn row_dispatch_map_iff_headers() {
    let cells = [Data::Int(kani::any()), Data::Int(kani::any())];
    let h = hdr_ab();
    let idx = [0usize, 1];
    let pos = any_row_pos();
    let with = |hh: bool| RowDeserializer::new(&idx, if hh { Some(&h[..]) } else { None }, &cells, pos);
    assert!(matches!(with(true).deserialize_map(Map3V), Ok(m) if !m.as_seq));
    assert!(matches!(with(true).deserialize_struct("R", &["a", "b"], Map3V), Ok(m) if !m.as_seq));
    assert!(matches!(with(false).deserialize_map(Map3V), Ok(m) if m.as_seq));
    assert!(matches!(with(false).deserialize_struct("R", &["a", "b"], Map3V), Ok(m) if m.as_seq));
    assert!(matches!(with(true).deserialize_any(Map3V), Ok(m) if m.as_seq));
    assert!(matches!(with(true).deserialize_tuple(2, Map3V), Ok(m) if m.as_seq));
    assert!(matches!(with(true).deserialize_seq(Map3V), Ok(m) if m.as_seq));
}

// ---------------------------------------------------------------------------------------------
// Part 2b -- RangeDeserializer::{new,next,size_hint}, Headers::None, 3 x 2 cells
// ---------------------------------------------------------------------------------------------
// Shape: the row origin is symbolic (any u32 such that the range fits); the column origin is the concrete
// constant C0, because `Range::width()` = end.1 - start.1 + 1 has to be a constant for CBMC (it is the chunk
// size of `rows()` and the length of `column_indexes`).  The Range is built from its fields (row-major `inner`,
// which is the representation invariant C05 is about); `range_api_built_rows_in_order` goes through
// `Range::new` + `set_value` instead.

const C0: u32 = 2;
const H: usize = 3;
const W: usize = 2;

struct Sheet {
    start: (u32, u32),
    range: Range<Data>,
}
fn sheet(tag: &[[u8; W]; H], v: &[[i64; W]; H], k: &CellErrorType) -> Sheet {
    let r0: u32 = kani::any();
    kani::assume(r0 <= u32::MAX - H as u32);
    let start = (r0, C0);
    let inner = vec![
        mk_cell(tag[0][0], v[0][0], k),
        mk_cell(tag[0][1], v[0][1], k),
        mk_cell(tag[1][0], v[1][0], k),
        mk_cell(tag[1][1], v[1][1], k),
        mk_cell(tag[2][0], v[2][0], k),
        mk_cell(tag[2][1], v[2][1], k),
    ];
    Sheet { start, range: Range { start, end: (r0 + H as u32 - 1, C0 + W as u32 - 1), inner } }
}
fn no_headers() -> RangeDeserializerBuilder<'static, &'static str> {
    let mut b = RangeDeserializerBuilder::new();
    b.has_headers(false);
    b
}
/// a record that does not look at its row at all (for the harnesses that only count items)
struct Skip;
impl<'de> Deserialize<'de> for Skip {
    fn deserialize<D: Deserializer<'de>>(_d: D) -> Result<Self, D::Error> {
        Ok(Skip)
    }
}
fn count_iter_of<'a>(range: &'a Range<Data>) -> RangeDeserializer<'a, Data, Skip> {
    match no_headers().from_range::<Data, Skip>(range) {
        Ok(it) => it,
        Err(_) => {
            assert!(false);
            unreachable!()
        }
    }
}
type It<'a> = RangeDeserializer<'a, Data, Row3<Got>>;
fn iter_of<'a>(range: &'a Range<Data>) -> It<'a> {
    match no_headers().from_range::<Data, Row3<Got>>(range) {
        Ok(it) => it,
        Err(_) => {
            assert!(false);
            unreachable!()
        }
    }
}
const INTS: [[u8; W]; H] = [[0; W]; H];

/// exactly one item per row: H times Some, then None
#[kani::proof]
#[kani::unwind(8)]
#[kani::stub(alloc::fmt::format, format_stub)]
#[kani::stub(<f64 as alloc::string::ToString>::to_string, to_string_stub)]
fn range_one_item_per_row() {
    let v: [[i64; W]; H] = kani::any();
    let s = sheet(&INTS, &v, &CellErrorType::NA);
    let mut it = count_iter_of(&s.range);
    let mut n = 0;
    while n < H {
        assert!(it.next().is_some());
        n += 1;
    }
    assert!(it.next().is_none());
}

/// item n is row n: the record is the row's cells by position
#[kani::proof]
#[kani::unwind(8)]
#[kani::stub(alloc::fmt::format, format_stub)]
#[kani::stub(<f64 as alloc::string::ToString>::to_string, to_string_stub)]
fn range_rows_in_order() {
    let v: [[i64; W]; H] = kani::any();
    let s = sheet(&INTS, &v, &CellErrorType::NA);
    let mut it = iter_of(&s.range);
    let mut n = 0;
    while n < H {
        match it.next() {
            Some(Ok(r)) => {
                assert!(r.n as usize == W);
                assert!(r.e[0] == Some(Got::I64(v[n][0])) && r.e[1] == Some(Got::I64(v[n][1])));
            }
            _ => assert!(false),
        }
        n += 1;
    }
}

/// empty cells stay in their position (seen as unit / None), they do not shift or end the record
#[kani::proof]
#[kani::unwind(8)]
#[kani::stub(alloc::fmt::format, format_stub)]
#[kani::stub(<f64 as alloc::string::ToString>::to_string, to_string_stub)]
fn range_empty_cells_by_position() {
    let v: [[i64; W]; H] = kani::any();
    let tag: [[u8; W]; H] = kani::any();
    let mut n = 0;
    while n < H {
        kani::assume(tag[n][0] < 2 && tag[n][1] < 2);
        n += 1;
    }
    kani::cover!(tag[0][0] == 1 && tag[1][1] == 1 && tag[2][0] == 0);
    let s = sheet(&tag, &v, &CellErrorType::NA);
    let mut it = iter_of(&s.range);
    let mut n = 0;
    while n < H {
        match it.next() {
            Some(Ok(r)) => {
                assert!(r.n as usize == W);
                assert!(r.e[0] == Some(seen(tag[n][0], v[n][0])) && r.e[1] == Some(seen(tag[n][1], v[n][1])));
            }
            _ => assert!(false),
        }
        n += 1;
    }
}

/// size_hint after `k` calls of next(), together with the number of items that are really still to come
fn hint_after(k: usize) -> ((usize, Option<usize>), usize) {
    let v: [[i64; W]; H] = kani::any();
    let s = sheet(&INTS, &v, &CellErrorType::NA);
    let mut it = count_iter_of(&s.range);
    let mut n = 0;
    while n < k {
        let _ = it.next();
        n += 1;
    }
    let hint = it.size_hint();
    // the items that are really still to come: exactly H - k
    let mut m = 0;
    while m < H - k {
        assert!(it.next().is_some());
        m += 1;
    }
    assert!(it.next().is_none());
    (hint, H - k)
}
/// lower bound, fresh iterator
#[kani::proof]
#[kani::unwind(8)]
#[kani::stub(alloc::fmt::format, format_stub)]
#[kani::stub(<f64 as alloc::string::ToString>::to_string, to_string_stub)]
fn range_size_hint_lower_k0() {
    let ((lo, _), remaining) = hint_after(0);
    assert!(remaining == H);
    assert!(lo <= remaining);
}
#[kani::proof]
#[kani::unwind(8)]
#[kani::stub(alloc::fmt::format, format_stub)]
#[kani::stub(<f64 as alloc::string::ToString>::to_string, to_string_stub)]
fn range_size_hint_lower_k1() {
    let ((lo, _), remaining) = hint_after(1);
    assert!(remaining == H - 1);
    assert!(lo <= remaining);
}
#[kani::proof]
#[kani::unwind(8)]
#[kani::stub(alloc::fmt::format, format_stub)]
#[kani::stub(<f64 as alloc::string::ToString>::to_string, to_string_stub)]
fn range_size_hint_lower_k2() {
    let ((lo, _), remaining) = hint_after(2);
    assert!(remaining == H - 2);
    assert!(lo <= remaining);
}
#[kani::proof]
#[kani::unwind(8)]
#[kani::stub(alloc::fmt::format, format_stub)]
#[kani::stub(<f64 as alloc::string::ToString>::to_string, to_string_stub)]
fn range_size_hint_lower_k3() {
    let ((lo, _), remaining) = hint_after(3);
    assert!(remaining == 0);
    assert!(lo <= remaining);
}
fn upper_ok(hi: Option<usize>, remaining: usize) -> bool {
    match hi {
        None => true,
        Some(u) => remaining <= u,
    }
}
#[kani::proof]
#[kani::unwind(8)]
#[kani::stub(alloc::fmt::format, format_stub)]
#[kani::stub(<f64 as alloc::string::ToString>::to_string, to_string_stub)]
fn range_size_hint_upper_k0() {
    let ((_, hi), remaining) = hint_after(0);
    assert!(upper_ok(hi, remaining));
}
#[kani::proof]
#[kani::unwind(8)]
#[kani::stub(alloc::fmt::format, format_stub)]
#[kani::stub(<f64 as alloc::string::ToString>::to_string, to_string_stub)]
fn range_size_hint_upper_k1() {
    let ((_, hi), remaining) = hint_after(1);
    assert!(upper_ok(hi, remaining));
}
#[kani::proof]
#[kani::unwind(8)]
#[kani::stub(alloc::fmt::format, format_stub)]
#[kani::stub(<f64 as alloc::string::ToString>::to_string, to_string_stub)]
fn range_size_hint_upper_k2() {
    let ((_, hi), remaining) = hint_after(2);
    assert!(upper_ok(hi, remaining));
}
#[kani::proof]
#[kani::unwind(8)]
#[kani::stub(alloc::fmt::format, format_stub)]
#[kani::stub(<f64 as alloc::string::ToString>::to_string, to_string_stub)]
fn range_size_hint_upper_k3() {
    let ((_, hi), remaining) = hint_after(3);
    assert!(upper_ok(hi, remaining));
}

/// an empty range: nothing to come, size_hint (0, Some(0)), no panic
#[kani::proof]
#[kani::unwind(8)]
#[kani::stub(alloc::fmt::format, format_stub)]
#[kani::stub(<f64 as alloc::string::ToString>::to_string, to_string_stub)]
fn range_empty_range() {
    let range: Range<Data> = Range::empty();
    let mut it = iter_of(&range);
    let (lo, hi) = it.size_hint();
    assert!(lo == 0 && upper_ok(hi, 0));
    assert!(it.next().is_none());
}

/// sheet with one error cell at symbolic (ei, ej); returns the H items
struct ErrCase {
    start: (u32, u32),
    ei: usize,
    ej: usize,
    k: u8,
    v: [[i64; W]; H],
    items: [Option<Result<Row3<Got>, DeError>>; H],
}
fn error_case() -> ErrCase {
    let v: [[i64; W]; H] = kani::any();
    let ei: usize = kani::any();
    let ej: usize = kani::any();
    kani::assume(ei < H && ej < W);
    let k = any_kind();
    let mut tag = INTS;
    tag[ei][ej] = 2;
    let s = sheet(&tag, &v, &k);
    let mut it = iter_of(&s.range);
    let items = [it.next(), it.next(), it.next()];
    ErrCase { start: s.start, ei, ej, k: kind_no(&k), v, items }
}
/// the row of the error cell fails with CellError carrying that cell's error kind
#[kani::proof]
#[kani::unwind(8)]
#[kani::stub(alloc::fmt::format, format_stub)]
#[kani::stub(<f64 as alloc::string::ToString>::to_string, to_string_stub)]
fn range_error_kind() {
    let c = error_case();
    kani::cover!(c.ei == 2 && c.ej == 1);
    match &c.items[c.ei] {
        Some(Err(DeError::CellError { err, .. })) => assert!(kind_no(err) == c.k),
        _ => assert!(false),
    }
}
/// ... and the absolute row of that cell
#[kani::proof]
#[kani::unwind(8)]
#[kani::stub(alloc::fmt::format, format_stub)]
#[kani::stub(<f64 as alloc::string::ToString>::to_string, to_string_stub)]
fn range_error_row() {
    let c = error_case();
    kani::cover!(c.ei == 2 && c.ej == 1);
    match &c.items[c.ei] {
        Some(Err(DeError::CellError { pos, .. })) => assert!(pos.0 == c.start.0 + c.ei as u32),
        _ => assert!(false),
    }
}
/// ... and the absolute column of that cell
#[kani::proof]
#[kani::unwind(8)]
#[kani::stub(alloc::fmt::format, format_stub)]
#[kani::stub(<f64 as alloc::string::ToString>::to_string, to_string_stub)]
fn range_error_col() {
    let c = error_case();
    kani::cover!(c.ei == 2 && c.ej == 1);
    match &c.items[c.ei] {
        Some(Err(DeError::CellError { pos, .. })) => assert!(pos.1 == c.start.1 + c.ej as u32),
        _ => assert!(false),
    }
}
/// the other rows are not affected: they are Ok and carry their own cells
#[kani::proof]
#[kani::unwind(8)]
#[kani::stub(alloc::fmt::format, format_stub)]
#[kani::stub(<f64 as alloc::string::ToString>::to_string, to_string_stub)]
fn range_error_isolated() {
    let c = error_case();
    kani::cover!(c.ei == 1);
    let mut n = 0;
    while n < H {
        if n != c.ei {
            match &c.items[n] {
                Some(Ok(r)) => {
                    assert!(r.n as usize == W);
                    assert!(r.e[0] == Some(Got::I64(c.v[n][0])) && r.e[1] == Some(Got::I64(c.v[n][1])));
                }
                _ => assert!(false),
            }
        }
        n += 1;
    }
}

// ---------------------------------------------------------------------------------------------
// Part 2c -- header modes (Headers::All / Headers::Custom), concrete 1-3 byte header strings
// ---------------------------------------------------------------------------------------------
// 2 rows x 2 cols: header row [h0, h1] (concrete strings), data row [x, y]; row origin symbolic.

fn hsheet(h0: &str, h1: &str, x: Data, y: Data) -> Sheet {
    let r0: u32 = kani::any();
    kani::assume(r0 <= u32::MAX - 2);
    let start = (r0, C0);
    let inner = vec![Data::String(String::from(h0)), Data::String(String::from(h1)), x, y];
    Sheet { start, range: Range { start, end: (r0 + 1, C0 + 1), inner } }
}
/// a record read through deserialize_struct: a map when there are headers
impl<'de> Deserialize<'de> for Map3 {
    fn deserialize<D: Deserializer<'de>>(d: D) -> Result<Self, D::Error> {
        d.deserialize_struct("R", &["a", "b"], Map3V)
    }
}
/// model of `str::trim` for the ASCII strings used by the header harnesses: drops leading/trailing b' '
fn trim_stub(s: &str) -> &str {
    let b = s.as_bytes();
    let mut i = 0;
    let mut j = b.len();
    while i < j && b[i] == b' ' {
        i += 1;
    }
    while j > i && b[j - 1] == b' ' {
        j -= 1;
    }
    unsafe { str::from_utf8_unchecked(&b[i..j]) }
}
/// same models for the one-sided variants, so that a change from `trim` to `trim_start` / `trim_end` in the code under
/// test is decided quickly (the real Unicode-aware functions over copied strings are what makes CBMC slow here)
fn trim_start_stub(s: &str) -> &str {
    let b = s.as_bytes();
    let mut i = 0;
    while i < b.len() && b[i] == b' ' {
        i += 1;
    }
    unsafe { str::from_utf8_unchecked(&b[i..]) }
}
fn trim_end_stub(s: &str) -> &str {
    let b = s.as_bytes();
    let mut j = b.len();
    while j > 0 && b[j - 1] == b' ' {
        j -= 1;
    }
    unsafe { str::from_utf8_unchecked(&b[..j]) }
}
macro_rules! hdr_harness {
    ($(#[$m:meta])* fn $name:ident() $body:block) => {
        $(#[$m])*
        #[kani::proof]
        #[kani::unwind(5)]
        #[kani::stub(alloc::fmt::format, format_stub)]
        #[kani::stub(<f64 as alloc::string::ToString>::to_string, to_string_stub)]
        #[kani::stub(str::trim, trim_stub)]
        fn $name() $body
    };
}

/// loop-free record: the first two elements and whether the row ended after them
struct Row2 {
    a: Option<Got>,
    b: Option<Got>,
    ended: bool,
}
impl<'de> Deserialize<'de> for Row2 {
    fn deserialize<D: Deserializer<'de>>(d: D) -> Result<Self, D::Error> {
        struct V;
        impl<'de> Visitor<'de> for V {
            type Value = Row2;
            fn expecting(&self, _f: &mut fmt::Formatter<'_>) -> fmt::Result {
                Ok(())
            }
            fn visit_seq<A: SeqAccess<'de>>(self, mut s: A) -> Result<Row2, A::Error> {
                let a = s.next_element::<Got>()?;
                let b = s.next_element::<Got>()?;
                let ended = s.next_element::<Got>()?.is_none();
                Ok(Row2 { a, b, ended })
            }
        }
        d.deserialize_seq(V)
    }
}
macro_rules! custom_harness {
    ($(#[$m:meta])* fn $name:ident() $body:block) => {
        $(#[$m])*
        #[kani::proof]
        #[kani::unwind(3)]
        #[kani::stub(alloc::fmt::format, format_stub)]
        #[kani::stub(<f64 as alloc::string::ToString>::to_string, to_string_stub)]
        #[kani::stub(str::trim, trim_stub)]
        #[kani::stub(str::trim_start, trim_start_stub)]
        #[kani::stub(str::trim_end, trim_end_stub)]
        fn $name() $body
    };
}
custom_harness! {
/// selecting ["b","a"] on header cells " a", "b " (matched after trimming) selects columns [1, 0];
/// that the record then carries these columns in this order is `row_seq_selects_columns` / `row_map_selected_order`
/// (the end-to-end variant with two requested names runs CBMC out of memory)
fn headers_custom_column_indexes() {
    let s = std::mem::ManuallyDrop::new(hsheet(" a", "b ", Data::Int(kani::any()), Data::Int(kani::any()))); // not dropped: keeps the unwind bound at 3
    let req = ["b", "a"];
    match RangeDeserializerBuilder::with_headers(&req).from_range::<Data, Skip>(&s.range) {
        Ok(it) => assert!(it.column_indexes.len() == 2 && it.column_indexes[0] == 1 && it.column_indexes[1] == 0),
        Err(_) => assert!(false),
    }
}
}
custom_harness! {
/// header cells are matched after trimming: " a", "b " and the request ["b"] select column [1]
fn headers_custom_header_cells_trimmed() {
    let s = std::mem::ManuallyDrop::new(hsheet(" a", "b ", Data::Int(kani::any()), Data::Int(kani::any())));
    let req = ["b"];
    match RangeDeserializerBuilder::with_headers(&req).from_range::<Data, Skip>(&s.range) {
        Ok(it) => assert!(it.column_indexes.len() == 1 && it.column_indexes[0] == 1),
        Err(_) => assert!(false),
    }
}
}
custom_harness! {
/// leading white space on the sheet side: " a", "b " and the request ["a"] select column [0]
fn headers_custom_header_cell_leading_space() {
    let s = std::mem::ManuallyDrop::new(hsheet(" a", "b ", Data::Int(kani::any()), Data::Int(kani::any())));
    let req = ["a"];
    match RangeDeserializerBuilder::with_headers(&req).from_range::<Data, Skip>(&s.range) {
        Ok(it) => assert!(it.column_indexes.len() == 1 && it.column_indexes[0] == 0),
        Err(_) => assert!(false),
    }
}
}
custom_harness! {
/// padding on both sides of the requested name: "a", "b" and the request [" a "] select column [0]
fn headers_custom_request_padded_both_sides() {
    let s = std::mem::ManuallyDrop::new(hsheet("a", "b", Data::Int(kani::any()), Data::Int(kani::any())));
    let req = [" a "];
    match RangeDeserializerBuilder::with_headers(&req).from_range::<Data, Skip>(&s.range) {
        Ok(it) => assert!(it.column_indexes.len() == 1 && it.column_indexes[0] == 0),
        Err(_) => assert!(false),
    }
}
}
custom_harness! {
/// the requested names are trimmed too, and a subset may be selected
fn headers_custom_request_trimmed_subset() {
    let (x, y): (i64, i64) = kani::any();
    let s = std::mem::ManuallyDrop::new(hsheet("a", "b", Data::Int(x), Data::Int(y))); // not dropped: keeps the unwind bound at 3
    let req = [" b "];
    match RangeDeserializerBuilder::with_headers(&req).from_range::<Data, Row2>(&s.range) {
        Ok(mut it) => match it.next() {
            Some(Ok(r)) => assert!(r.a == Some(Got::I64(y)) && r.b.is_none()),
            _ => assert!(false),
        },
        Err(_) => assert!(false),
    }
}
}
custom_harness! {
/// a requested name that is not a header is HeaderNotFound(that name)
fn headers_custom_not_found() {
    let s = std::mem::ManuallyDrop::new(hsheet(" a", "b ", Data::Int(kani::any()), Data::Int(kani::any())));
    let req = ["c"];
    match RangeDeserializerBuilder::with_headers(&req).from_range::<Data, Skip>(&s.range) {
        Err(DeError::HeaderNotFound(h)) => assert!(h.as_bytes() == b"c"),
        _ => assert!(false),
    }
}
}
custom_harness! {
/// ... also when an earlier requested name was found
fn headers_custom_not_found_after_found() {
    let s = std::mem::ManuallyDrop::new(hsheet(" a", "b ", Data::Int(kani::any()), Data::Int(kani::any())));
    let req = ["b", "c"];
    match RangeDeserializerBuilder::with_headers(&req).from_range::<Data, Skip>(&s.range) {
        Err(DeError::HeaderNotFound(h)) => assert!(h.as_bytes() == b"c"),
        _ => assert!(false),
    }
}
}
custom_harness! {
/// an error cell under Headers::Custom is reported at its own ABSOLUTE position: the row after the header row, the selected column
fn headers_custom_error_pos() {
    let s = std::mem::ManuallyDrop::new(hsheet("a", "b", Data::Int(kani::any()), Data::Error(crate::CellErrorType::Div0)));
    let req = ["b"];
    match RangeDeserializerBuilder::with_headers(&req).from_range::<Data, Row3<Got>>(&s.range) {
        Ok(mut it) => match it.next() {
            Some(Err(DeError::CellError { err: crate::CellErrorType::Div0, pos })) => assert!(pos.0 == s.start.0 + 1 && pos.1 == s.start.1 + 1),
            _ => assert!(false),
        },
        Err(_) => assert!(false),
    }
}
}
custom_harness! {
/// the header row is not an item: one data row gives exactly one item (Headers::Custom)
fn headers_custom_one_item_per_data_row() {
    let s = std::mem::ManuallyDrop::new(hsheet("a", "b", Data::Int(kani::any()), Data::Int(kani::any())));
    let req = ["a"];
    match RangeDeserializerBuilder::with_headers(&req).from_range::<Data, Skip>(&s.range) {
        Ok(mut it) => {
            assert!(it.next().is_some());
            assert!(it.next().is_none());
        }
        Err(_) => assert!(false),
    }
}
}
hdr_harness! {
/// Headers::All: the header row is not an item, the data row is the record, cells by position
fn headers_all_one_item_per_data_row() {
    let (x, y): (i64, i64) = kani::any();
    let s = hsheet("a", "b", Data::Int(x), Data::Int(y));
    match RangeDeserializerBuilder::new().from_range::<Data, Row3<Got>>(&s.range) {
        Ok(mut it) => {
            match it.next() {
                Some(Ok(r)) => assert!(r.n == 2 && r.e[0] == Some(Got::I64(x)) && r.e[1] == Some(Got::I64(y))),
                _ => assert!(false),
            }
            assert!(it.next().is_none());
        }
        Err(_) => assert!(false),
    }
}
}
/// Headers::All, struct-like target: fields are bound by header name, whatever the column order
fn bind_by_name(swap: bool) {
    let (x, y): (i64, i64) = kani::any();
    let s = if swap { hsheet("b", "a", Data::Int(x), Data::Int(y)) } else { hsheet("a", "b", Data::Int(x), Data::Int(y)) };
    match RangeDeserializerBuilder::new().from_range::<Data, Map3>(&s.range) {
        Ok(mut it) => match it.next() {
            Some(Ok(m)) => {
                assert!(!m.as_seq && m.n == 2);
                // the value bound to name "a" / "b"
                let a = if m.k[0] == Some(Key(b'a', 1)) { m.v[0] } else { m.v[1] };
                let b = if m.k[0] == Some(Key(b'b', 1)) { m.v[0] } else { m.v[1] };
                assert!(m.k[0] != m.k[1]);
                assert!(a == Some(Got::I64(if swap { y } else { x })));
                assert!(b == Some(Got::I64(if swap { x } else { y })));
            }
            _ => assert!(false),
        },
        Err(_) => assert!(false),
    }
}
hdr_harness! {
fn headers_all_binds_by_name() {
    bind_by_name(false);
    bind_by_name(true);
}
}
hdr_harness! {
/// Headers::All, struct-like target: an empty cell is absent from the record
fn headers_all_empty_cell_absent() {
    let y: i64 = kani::any();
    let s = hsheet("a", "b", Data::Empty, Data::Int(y));
    match RangeDeserializerBuilder::new().from_range::<Data, Map3>(&s.range) {
        Ok(mut it) => match it.next() {
            Some(Ok(m)) => assert!(!m.as_seq && m.n == 1 && m.k[0] == Some(Key(b'b', 1)) && m.v[0] == Some(Got::I64(y))),
            _ => assert!(false),
        },
        Err(_) => assert!(false),
    }
}
}
/// Headers::All, error cell in the data row (absolute row start.0 + 1, column start.1 + j)
fn hdr_error_case() -> ((u32, u32), usize, Option<Result<Row3<Got>, DeError>>) {
    let j: usize = kani::any();
    kani::assume(j < 2);
    let k = any_kind();
    let s = hsheet("a", "b", mk_cell(if j == 0 { 2 } else { 0 }, kani::any(), &k), mk_cell(if j == 1 { 2 } else { 0 }, kani::any(), &k));
    match RangeDeserializerBuilder::new().from_range::<Data, Row3<Got>>(&s.range) {
        Ok(mut it) => (s.start, j, it.next()),
        Err(_) => {
            assert!(false);
            unreachable!()
        }
    }
}
hdr_harness! {
fn headers_all_error_row() {
    let (start, _j, item) = hdr_error_case();
    match item {
        Some(Err(DeError::CellError { pos, .. })) => assert!(pos.0 == start.0 + 1),
        _ => assert!(false),
    }
}
}
hdr_harness! {
fn headers_all_error_col() {
    let (start, j, item) = hdr_error_case();
    kani::cover!(j == 1);
    match item {
        Some(Err(DeError::CellError { pos, .. })) => assert!(pos.1 == start.1 + j as u32),
        _ => assert!(false),
    }
}
}
/// size_hint with a header row: (hint after k next, items really to come)
fn hdr_hint_after(k: usize) -> ((usize, Option<usize>), usize) {
    let s = hsheet("a", "b", Data::Int(kani::any()), Data::Int(kani::any()));
    match RangeDeserializerBuilder::new().from_range::<Data, Skip>(&s.range) {
        Ok(mut it) => {
            if k == 1 {
                assert!(it.next().is_some());
            }
            let hint = it.size_hint();
            if k == 0 {
                assert!(it.next().is_some());
            }
            assert!(it.next().is_none());
            (hint, 1 - k)
        }
        Err(_) => {
            assert!(false);
            unreachable!()
        }
    }
}
hdr_harness! {
fn headers_all_size_hint_lower_k0() {
    let ((lo, _), remaining) = hdr_hint_after(0);
    assert!(lo <= remaining);
}
}
hdr_harness! {
fn headers_all_size_hint_upper_k0() {
    let ((_, hi), remaining) = hdr_hint_after(0);
    assert!(upper_ok(hi, remaining));
}
}
hdr_harness! {
fn headers_all_size_hint_lower_k1() {
    let ((lo, _), remaining) = hdr_hint_after(1);
    assert!(lo <= remaining);
}
}
hdr_harness! {
fn headers_all_size_hint_upper_k1() {
    let ((_, hi), remaining) = hdr_hint_after(1);
    assert!(upper_ok(hi, remaining));
}
}
hdr_harness! {
/// a sheet that has only the header row: nothing to come; size_hint must say (0, _) and must not panic
fn headers_only_size_hint() {
    let r0: u32 = kani::any();
    kani::assume(r0 <= u32::MAX - 2);
    let start = (r0, C0);
    let range = Range { start, end: (r0, C0), inner: vec![Data::String(String::from("a"))] };
    match RangeDeserializerBuilder::new().from_range::<Data, Skip>(&range) {
        Ok(mut it) => {
            let (lo, hi) = it.size_hint();
            assert!(lo == 0 && upper_ok(hi, 0));
            assert!(it.next().is_none());
        }
        Err(_) => assert!(false),
    }
}
}

// ---------------------------------------------------------------------------------------------
// Part 1b -- the same table seen through serde's own impls for the target types (what a user's
// record field of that type receives), and the remaining per-cell facts
// ---------------------------------------------------------------------------------------------

fn cell_err<T>(r: &Result<T, DeError>) -> Option<(u8, (u32, u32))> {
    match r {
        Err(DeError::CellError { err, pos }) => Some((kind_no(err), *pos)),
        _ => None,
    }
}
/// field of type T: Int(v)/Float(v) -> v as T; Error -> CellError; anything else -> some other error
macro_rules! typed_num {
    ($name:ident, $t:ty, $eq:expr) => {
        #[kani::proof]
        #[kani::stub(alloc::fmt::format, format_stub)]
        #[kani::stub(<f64 as alloc::string::ToString>::to_string, to_string_stub)]
        fn $name() {
            for_all_cells(|d, pos| {
                let r = <$t as Deserialize>::deserialize(d.to_cell_deserializer(pos));
                match &d {
                    Data::Int(v) => assert!(matches!(r, Ok(x) if ($eq)(x, *v as $t))),
                    Data::Float(v) => assert!(matches!(r, Ok(x) if ($eq)(x, *v as $t))),
                    Data::Error(k) => assert!(cell_err(&r) == Some((kind_no(k), pos))),
                    _ => assert!(r.is_err() && cell_err(&r).is_none()),
                }
            });
        }
    };
}
typed_num!(typed_i64, i64, |a: i64, b: i64| a == b);
typed_num!(typed_u8, u8, |a: u8, b: u8| a == b);
typed_num!(typed_f64, f64, |a: f64, b: f64| a.to_bits() == b.to_bits());

/// Option<i64> field: Empty -> None; Int/Float -> Some(v as i64); Error -> CellError at the cell
#[kani::proof]
#[kani::stub(alloc::fmt::format, format_stub)]
#[kani::stub(<f64 as alloc::string::ToString>::to_string, to_string_stub)]
fn typed_option_i64() {
    for_all_cells(|d, pos| {
        let r = <Option<i64> as Deserialize>::deserialize(d.to_cell_deserializer(pos));
        match &d {
            Data::Empty => assert!(matches!(r, Ok(None))),
            Data::Int(v) => assert!(matches!(r, Ok(Some(x)) if x == *v)),
            Data::Float(v) => assert!(matches!(r, Ok(Some(x)) if x == *v as i64)),
            Data::Error(k) => assert!(cell_err(&r) == Some((kind_no(k), pos))),
            _ => assert!(r.is_err() && cell_err(&r).is_none()),
        }
    });
}
/// bool field: Bool(b) -> b; Empty -> false
#[kani::proof]
#[kani::stub(alloc::fmt::format, format_stub)]
#[kani::stub(<f64 as alloc::string::ToString>::to_string, to_string_stub)]
fn typed_bool() {
    for_all_cells(|d, pos| {
        let r = <bool as Deserialize>::deserialize(d.to_cell_deserializer(pos));
        match &d {
            Data::Bool(b) => assert!(matches!(r, Ok(x) if x == *b)),
            Data::Empty => assert!(matches!(r, Ok(false))),
            Data::Error(k) => assert!(cell_err(&r) == Some((kind_no(k), pos))),
            _ => assert!(cell_err(&r).is_none()),
        }
    });
}
/// Data field (Vec<Data> records): the cell itself; a DateTime arrives as its serial number; Error fails
#[kani::proof]
#[kani::stub(alloc::fmt::format, format_stub)]
#[kani::stub(<f64 as alloc::string::ToString>::to_string, to_string_stub)]
fn typed_data() {
    for_all_cells(|d, pos| {
        let r = <Data as Deserialize>::deserialize(d.to_cell_deserializer(pos));
        match &d {
            Data::Int(v) => assert!(matches!(r, Ok(Data::Int(x)) if x == *v)),
            Data::Float(v) => assert!(matches!(r, Ok(Data::Float(x)) if x.to_bits() == v.to_bits())),
            Data::Bool(b) => assert!(matches!(r, Ok(Data::Bool(x)) if x == *b)),
            Data::Empty => assert!(matches!(r, Ok(Data::Empty))),
            Data::DateTime(_) => assert!(matches!(r, Ok(Data::Float(x)) if x.to_bits() == dt_value(&d).to_bits())),
            Data::Error(k) => assert!(cell_err(&r) == Some((kind_no(k), pos))),
            _ => assert!(false),
        }
    });
}

/// Empty as "": str / string targets see the empty string, bytes targets the empty slice
#[kani::proof]
#[kani::stub(alloc::fmt::format, format_stub)]
fn de_empty_as_empty_string() {
    let d = Data::Empty;
    let pos: (u32, u32) = kani::any();
    assert!(observe(d.to_cell_deserializer(pos).deserialize_str(RecV)) == Out::Ok(Got::EmptyStr));
    assert!(observe(d.to_cell_deserializer(pos).deserialize_string(RecV)) == Out::Ok(Got::EmptyStr));
    assert!(observe(d.to_cell_deserializer(pos).deserialize_bytes(RecV)) == Out::Ok(Got::EmptyBytes));
    assert!(observe(d.to_cell_deserializer(pos).deserialize_byte_buf(RecV)) == Out::Ok(Got::EmptyBytes));
}

/// an error cell fails with CellError{kind, pos} whatever the target asks for
#[kani::proof]
#[kani::stub(alloc::fmt::format, format_stub)]
#[kani::stub(<f64 as alloc::string::ToString>::to_string, to_string_stub)]
fn de_error_cell_every_method() {
    let k = any_kind();
    let d = Data::Error(k.clone());
    let pos: (u32, u32) = kani::any();
    let want = Out::CellErr(kind_no(&k), pos);
    let de = || d.to_cell_deserializer(pos);
    assert!(observe(de().deserialize_any(RecV)) == want);
    assert!(observe(de().deserialize_bool(RecV)) == want);
    assert!(observe(de().deserialize_i8(RecV)) == want);
    assert!(observe(de().deserialize_i16(RecV)) == want);
    assert!(observe(de().deserialize_i32(RecV)) == want);
    assert!(observe(de().deserialize_i64(RecV)) == want);
    assert!(observe(de().deserialize_u8(RecV)) == want);
    assert!(observe(de().deserialize_u16(RecV)) == want);
    assert!(observe(de().deserialize_u32(RecV)) == want);
    assert!(observe(de().deserialize_u64(RecV)) == want);
    assert!(observe(de().deserialize_f32(RecV)) == want);
    assert!(observe(de().deserialize_f64(RecV)) == want);
    assert!(observe(de().deserialize_char(RecV)) == want);
    assert!(observe(de().deserialize_str(RecV)) == want);
    assert!(observe(de().deserialize_string(RecV)) == want);
    assert!(observe(de().deserialize_bytes(RecV)) == want);
    assert!(observe(de().deserialize_byte_buf(RecV)) == want);
    assert!(observe(de().deserialize_unit(RecV)) == want);
    assert!(observe(de().deserialize_unit_struct("U", RecV)) == want);
    assert!(observe(de().deserialize_seq(RecV)) == want);
    assert!(observe(de().deserialize_tuple(2, RecV)) == want);
    assert!(observe(de().deserialize_map(RecV)) == want);
    assert!(observe(de().deserialize_struct("S", &["a"], RecV)) == want);
    assert!(observe(de().deserialize_enum("E", &["A"], RecV)) == want);
    assert!(observe(de().deserialize_identifier(RecV)) == want);
    assert!(observe(de().deserialize_ignored_any(RecV)) == want);
}

/// boolean strings: exactly TRUE/true/True and FALSE/false/False are accepted
#[kani::proof]
#[kani::unwind(7)]
#[kani::stub(alloc::fmt::format, format_stub)]
fn de_bool_strings() {
    let pos: (u32, u32) = kani::any();
    let t = |s: &str| observe(Data::String(String::from(s)).to_cell_deserializer(pos).deserialize_bool(RecV));
    assert!(t("TRUE") == Out::Ok(Got::Bool(true)));
    assert!(t("true") == Out::Ok(Got::Bool(true)));
    assert!(t("True") == Out::Ok(Got::Bool(true)));
    assert!(t("FALSE") == Out::Ok(Got::Bool(false)));
    assert!(t("false") == Out::Ok(Got::Bool(false)));
    assert!(t("False") == Out::Ok(Got::Bool(false)));
    assert!(t("yes") == Out::OtherErr);
    assert!(t("") == Out::OtherErr);
}

/// numeric strings of one or two bytes: accepted exactly when they are [+-]?digit+, with the decimal value
#[kani::proof]
#[kani::unwind(4)]
#[kani::stub(alloc::fmt::format, format_stub)]
fn de_i64_short_strings() {
    let b: [u8; 2] = kani::any();
    let n: usize = kani::any();
    kani::assume(n == 1 || n == 2);
    kani::assume(b[0] < 0x80 && b[1] < 0x80);
    let mut s = String::new();
    s.push(b[0] as char);
    if n == 2 {
        s.push(b[1] as char);
    }
    let pos: (u32, u32) = kani::any();
    let out = observe(Data::String(s).to_cell_deserializer(pos).deserialize_i64(RecV));
    let dig = |c: u8| c >= b'0' && c <= b'9';
    let val = |c: u8| (c - b'0') as i64;
    let expect = if n == 1 {
        if dig(b[0]) { Out::Ok(Got::I64(val(b[0]))) } else { Out::OtherErr }
    } else if dig(b[0]) && dig(b[1]) {
        Out::Ok(Got::I64(10 * val(b[0]) + val(b[1])))
    } else if b[0] == b'-' && dig(b[1]) {
        Out::Ok(Got::I64(-val(b[1])))
    } else if b[0] == b'+' && dig(b[1]) {
        Out::Ok(Got::I64(val(b[1])))
    } else {
        Out::OtherErr
    };
    kani::cover!(n == 2 && b[0] == b'-' && b[1] == b'7');
    assert!(out == expect);
}

/// numeric strings convert by the target type's own decimal parser (documented rule "numeric strings"): the exact integer or the record
/// fails -- never a value rounded through f64, saturated to the target's range, or truncated from a decimal fraction (concrete strings)
#[kani::proof]
#[kani::unwind(22)]
#[kani::stub(alloc::fmt::format, format_stub)]
fn de_int_strings_exact() {
    let pos: (u32, u32) = kani::any();
    // 2^53 + 1: not representable as f64
    let out = observe(Data::String(String::from("9007199254740993")).to_cell_deserializer(pos).deserialize_i64(RecV));
    assert!(out == Out::Ok(Got::I64(9007199254740993)));
    let out = observe(Data::String(String::from("9007199254740993")).to_cell_deserializer(pos).deserialize_u64(RecV));
    assert!(out == Out::Ok(Got::U64(9007199254740993)));
    // out of the target's range: the record fails
    let out = observe(Data::String(String::from("256")).to_cell_deserializer(pos).deserialize_u8(RecV));
    assert!(out == Out::OtherErr);
    let out = observe(Data::String(String::from("-1")).to_cell_deserializer(pos).deserialize_u16(RecV));
    assert!(out == Out::OtherErr);
    let out = observe(Data::String(String::from("255")).to_cell_deserializer(pos).deserialize_u8(RecV));
    assert!(out == Out::Ok(Got::U8(255)));
    // a decimal fraction is not an integer string
    let out = observe(Data::String(String::from("1.5")).to_cell_deserializer(pos).deserialize_i32(RecV));
    assert!(out == Out::OtherErr);
    let out = observe(Data::String(String::from("-128")).to_cell_deserializer(pos).deserialize_i8(RecV));
    assert!(out == Out::Ok(Got::I8(-128)));
}

// ---------------------------------------------------------------------------------------------
// Part 2d -- same range facts through the public Range API and through serde's tuple impl
// ---------------------------------------------------------------------------------------------

/// Range built with Range::new + set_value at a concrete origin: rows come in order, cells by position
#[kani::proof]
#[kani::unwind(8)]
#[kani::stub(alloc::fmt::format, format_stub)]
#[kani::stub(<f64 as alloc::string::ToString>::to_string, to_string_stub)]
fn range_api_built_rows_in_order() {
    let v: [[i64; W]; H] = kani::any();
    let start = (3u32, C0);
    let mut range: Range<Data> = Range::new(start, (start.0 + H as u32 - 1, start.1 + W as u32 - 1));
    let mut i = 0;
    while i < H {
        range.set_value((start.0 + i as u32, start.1), Data::Int(v[i][0]));
        range.set_value((start.0 + i as u32, start.1 + 1), Data::Int(v[i][1]));
        i += 1;
    }
    let mut it = iter_of(&range);
    let mut n = 0;
    while n < H {
        match it.next() {
            Some(Ok(r)) => assert!(r.n as usize == W && r.e[0] == Some(Got::I64(v[n][0])) && r.e[1] == Some(Got::I64(v[n][1]))),
            _ => assert!(false),
        }
        n += 1;
    }
    assert!(it.next().is_none());
}

/// records of type (i64, Option<i64>) through serde's own tuple / Option / i64 impls, 2 x 2
#[kani::proof]
#[kani::unwind(12)]
#[kani::stub(alloc::fmt::format, format_stub)]
#[kani::stub(<f64 as alloc::string::ToString>::to_string, to_string_stub)]
fn range_typed_tuple_records() {
    let v: [[i64; 2]; 2] = kani::any();
    let e: bool = kani::any();
    let r0: u32 = kani::any();
    kani::assume(r0 <= u32::MAX - 2);
    let inner = vec![Data::Int(v[0][0]), Data::Int(v[0][1]), Data::Int(v[1][0]), if e { Data::Empty } else { Data::Int(v[1][1]) }];
    let range = Range { start: (r0, C0), end: (r0 + 1, C0 + 1), inner };
    match no_headers().from_range::<Data, (i64, Option<i64>)>(&range) {
        Ok(mut it) => {
            assert!(matches!(it.next(), Some(Ok((a, Some(b)))) if a == v[0][0] && b == v[0][1]));
            assert!(matches!(it.next(), Some(Ok((a, b))) if a == v[1][0] && b == if e { None } else { Some(v[1][1]) }));
            assert!(it.next().is_none());
        }
        Err(_) => assert!(false),
    }
}

/// with_deserialize_headers::<T>() selects exactly the field names T asks for in deserialize_struct, in that order
#[kani::proof]
#[kani::unwind(4)]
#[kani::stub(alloc::fmt::format, format_stub)]
#[kani::stub(<f64 as alloc::string::ToString>::to_string, to_string_stub)]
fn builder_deserialize_headers_are_struct_fields() {
    let b = RangeDeserializerBuilder::with_deserialize_headers::<Map3>();
    match b.headers {
        Headers::Custom(h) => assert!(h.len() == 2 && h[0].as_bytes() == b"a" && h[1].as_bytes() == b"b"),
        _ => assert!(false),
    }
    // a target that is not a struct selects nothing
    let b = RangeDeserializerBuilder::with_deserialize_headers::<i64>();
    assert!(matches!(b.headers, Headers::Custom(h) if h.is_empty()));
    // has_headers switches between the whole header row and no header row
    let mut b = RangeDeserializerBuilder::new();
    assert!(matches!(b.headers, Headers::All));
    b.has_headers(false);
    assert!(matches!(b.headers, Headers::None));
    b.has_headers(true);
    assert!(matches!(b.headers, Headers::All));
}

// ---------------------------------------------------------------------------------------------
// Part 3 -- fallback helpers (src/lib.rs deserialize_as_*): see the oracle in the comment below
// ---------------------------------------------------------------------------------------------
// C09 -- "fallback helpers" of the property's mechanism list: src/lib.rs deserialize_as_{i64,f64}_or_{none,string} on top of
// DataType::as_i64 / as_f64 (src/datatype.rs), driven through the crate's own cell deserializer (Kani, real crate; appended to src/de.rs).
// Oracle = the documented rule "applies as_i64 / as_f64 to the cell value; Some/Ok(value) if it converts, None / Err(text) otherwise,
// never failing": Int(v) -> v | v as f64; Float(v) -> `v as i64` (toward zero, saturating) | v; Bool -> 0/1; Empty -> None.
// An error cell is the one case that fails the record (CellError from the cell deserializer), as everywhere else in C09.

#[kani::proof]
#[kani::unwind(4)]
#[kani::stub(alloc::fmt::format, format_stub)]
fn dehelp_i64_or_none() {
    let pos: (u32, u32) = kani::any();
    let v: i64 = kani::any();
    let f: f64 = kani::any();
    let b: bool = kani::any();
    let r = crate::deserialize_as_i64_or_none(Data::Int(v).to_cell_deserializer(pos));
    assert!(matches!(r, Ok(Some(x)) if x == v));
    let r = crate::deserialize_as_i64_or_none(Data::Float(f).to_cell_deserializer(pos));
    assert!(matches!(r, Ok(Some(x)) if x == f as i64));
    let r = crate::deserialize_as_i64_or_none(Data::Bool(b).to_cell_deserializer(pos));
    assert!(matches!(r, Ok(Some(x)) if x == b as i64));
    let r = crate::deserialize_as_i64_or_none(Data::Empty.to_cell_deserializer(pos));
    assert!(matches!(r, Ok(None)));
    let r = crate::deserialize_as_i64_or_none(Data::Error(crate::CellErrorType::Div0).to_cell_deserializer(pos));
    assert!(matches!(r, Err(DeError::CellError { err: crate::CellErrorType::Div0, pos: p }) if p == pos));
}

#[kani::proof]
#[kani::unwind(4)]
#[kani::stub(alloc::fmt::format, format_stub)]
fn dehelp_f64_or_none() {
    let pos: (u32, u32) = kani::any();
    let v: i64 = kani::any();
    let f: f64 = kani::any();
    let b: bool = kani::any();
    let r = crate::deserialize_as_f64_or_none(Data::Int(v).to_cell_deserializer(pos));
    assert!(matches!(r, Ok(Some(x)) if x.to_bits() == (v as f64).to_bits()));
    let r = crate::deserialize_as_f64_or_none(Data::Float(f).to_cell_deserializer(pos));
    assert!(matches!(r, Ok(Some(x)) if x.to_bits() == f.to_bits()));
    let r = crate::deserialize_as_f64_or_none(Data::Bool(b).to_cell_deserializer(pos));
    assert!(matches!(r, Ok(Some(x)) if x == if b { 1.0 } else { 0.0 }));
    let r = crate::deserialize_as_f64_or_none(Data::Empty.to_cell_deserializer(pos));
    assert!(matches!(r, Ok(None)));
}

#[kani::proof]
#[kani::unwind(4)]
#[kani::stub(alloc::fmt::format, format_stub)]
#[kani::stub(<f64 as alloc::string::ToString>::to_string, to_string_stub)]
fn dehelp_or_string_numeric() {
    let pos: (u32, u32) = kani::any();
    let v: i64 = kani::any();
    let f: f64 = kani::any();
    let r = crate::deserialize_as_i64_or_string(Data::Int(v).to_cell_deserializer(pos));
    assert!(matches!(r, Ok(Ok(x)) if x == v));
    let r = crate::deserialize_as_i64_or_string(Data::Float(f).to_cell_deserializer(pos));
    assert!(matches!(r, Ok(Ok(x)) if x == f as i64));
    let r = crate::deserialize_as_f64_or_string(Data::Int(v).to_cell_deserializer(pos));
    assert!(matches!(r, Ok(Ok(x)) if x.to_bits() == (v as f64).to_bits()));
    let r = crate::deserialize_as_f64_or_string(Data::Float(f).to_cell_deserializer(pos));
    assert!(matches!(r, Ok(Ok(x)) if x.to_bits() == f.to_bits()));
    // what does not convert is handed back as Err(text), the record itself does not fail
    let r = crate::deserialize_as_i64_or_string(Data::Empty.to_cell_deserializer(pos));
    assert!(matches!(r, Ok(Err(_))));
    let r = crate::deserialize_as_f64_or_string(Data::Empty.to_cell_deserializer(pos));
    assert!(matches!(r, Ok(Err(_))));
}
