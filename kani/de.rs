// C09 -- serde deserialization of ranges (Kani, on the real crate; appended to src/de.rs).
//
// Part 1: DataDeserializer::deserialize_* -- one harness per method, complete over all non-String
//         cells (Int(i64) | Float(f64) | Bool | Empty | DateTime | Error(kind)) and all positions.
// Part 2: RangeDeserializer::{new,next,size_hint} + RowDeserializer -- bounded (concrete shapes).
//
// The oracle is the conversion table of the property statement:
//   Int(v)/Float(v) -> `v as T` delivered through visit_T       (numeric casts)
//   Bool(b) -> b ; Empty -> None / unit / false                  (Empty as None/false/"")
//   Error(k) -> Err(CellError { err: k, pos }) with pos passed through unchanged
//   anything else into a typed numeric/unit target -> an error that is NOT a CellError
use crate::datatype::{ExcelDateTime, ExcelDateTimeType};
use serde::de::MapAccess;

// ---------------------------------------------------------------------------------------------
// observation types
// ---------------------------------------------------------------------------------------------

/// which `visit_*` was called, with which payload (floats by bit pattern)
#[derive(Clone, Copy, PartialEq)]
pub(crate) enum Got {
    Bool(bool),
    I8(i8),
    I16(i16),
    I32(i32),
    I64(i64),
    U8(u8),
    U16(u16),
    U32(u32),
    U64(u64),
    F32(u32),
    F64(u64),
    Unit,
    NoneV,
    EmptyStr,
    EmptyBytes,
    Other,
}

/// outcome of one `deserialize_*` call
#[derive(Clone, Copy, PartialEq)]
pub(crate) enum Out {
    /// visitor called directly
    Ok(Got),
    /// `visit_some(d)` called and `d.deserialize_any` then behaved like this
    Some(Got),
    /// `visit_some(d)` called and `d.deserialize_any` failed with CellError
    SomeCellErr(u8, (u32, u32)),
    /// `visit_newtype_struct(d)` called and `d.deserialize_any` then behaved like this
    Newtype(Got),
    CellErr(u8, (u32, u32)),
    OtherErr,
}

/// error kind numbering written here (independent of the declaration order in lib.rs)
fn kind_no(k: &CellErrorType) -> u8 {
    match k {
        CellErrorType::Div0 => 0,
        CellErrorType::NA => 1,
        CellErrorType::Name => 2,
        CellErrorType::Null => 3,
        CellErrorType::Num => 4,
        CellErrorType::Ref => 5,
        CellErrorType::Value => 6,
        CellErrorType::GettingData => 7,
    }
}
fn any_kind() -> CellErrorType {
    let k: u8 = kani::any();
    kani::assume(k < 8);
    match k {
        0 => CellErrorType::Div0,
        1 => CellErrorType::NA,
        2 => CellErrorType::Name,
        3 => CellErrorType::Null,
        4 => CellErrorType::Num,
        5 => CellErrorType::Ref,
        6 => CellErrorType::Value,
        _ => CellErrorType::GettingData,
    }
}

/// inner visitor (used behind visit_some / visit_newtype_struct): records the direct visit
struct Leaf;
macro_rules! leaf_visits {
    ($wrap:expr) => {
        fn expecting(&self, _f: &mut fmt::Formatter<'_>) -> fmt::Result {
            Ok(())
        }
        fn visit_bool<E>(self, v: bool) -> Result<Self::Value, E> {
            Ok($wrap(Got::Bool(v)))
        }
        fn visit_i8<E>(self, v: i8) -> Result<Self::Value, E> {
            Ok($wrap(Got::I8(v)))
        }
        fn visit_i16<E>(self, v: i16) -> Result<Self::Value, E> {
            Ok($wrap(Got::I16(v)))
        }
        fn visit_i32<E>(self, v: i32) -> Result<Self::Value, E> {
            Ok($wrap(Got::I32(v)))
        }
        fn visit_i64<E>(self, v: i64) -> Result<Self::Value, E> {
            Ok($wrap(Got::I64(v)))
        }
        fn visit_u8<E>(self, v: u8) -> Result<Self::Value, E> {
            Ok($wrap(Got::U8(v)))
        }
        fn visit_u16<E>(self, v: u16) -> Result<Self::Value, E> {
            Ok($wrap(Got::U16(v)))
        }
        fn visit_u32<E>(self, v: u32) -> Result<Self::Value, E> {
            Ok($wrap(Got::U32(v)))
        }
        fn visit_u64<E>(self, v: u64) -> Result<Self::Value, E> {
            Ok($wrap(Got::U64(v)))
        }
        fn visit_f32<E>(self, v: f32) -> Result<Self::Value, E> {
            Ok($wrap(Got::F32(v.to_bits())))
        }
        fn visit_f64<E>(self, v: f64) -> Result<Self::Value, E> {
            Ok($wrap(Got::F64(v.to_bits())))
        }
        fn visit_char<E>(self, _v: char) -> Result<Self::Value, E> {
            Ok($wrap(Got::Other))
        }
        fn visit_str<E>(self, v: &str) -> Result<Self::Value, E> {
            Ok($wrap(if v.is_empty() { Got::EmptyStr } else { Got::Other }))
        }
        fn visit_bytes<E>(self, v: &[u8]) -> Result<Self::Value, E> {
            Ok($wrap(if v.is_empty() { Got::EmptyBytes } else { Got::Other }))
        }
        fn visit_unit<E>(self) -> Result<Self::Value, E> {
            Ok($wrap(Got::Unit))
        }
        fn visit_none<E>(self) -> Result<Self::Value, E> {
            Ok($wrap(Got::NoneV))
        }
        fn visit_seq<A: SeqAccess<'de>>(self, _a: A) -> Result<Self::Value, A::Error> {
            Ok($wrap(Got::Other))
        }
        fn visit_map<A: MapAccess<'de>>(self, _a: A) -> Result<Self::Value, A::Error> {
            Ok($wrap(Got::Other))
        }
        fn visit_enum<A: de::EnumAccess<'de>>(self, _a: A) -> Result<Self::Value, A::Error> {
            Ok($wrap(Got::Other))
        }
    };
}
impl<'de> Visitor<'de> for Leaf {
    type Value = Got;
    leaf_visits!(|g| g);
    fn visit_some<D: Deserializer<'de>>(self, _d: D) -> Result<Got, D::Error> {
        Ok(Got::Other)
    }
    fn visit_newtype_struct<D: Deserializer<'de>>(self, _d: D) -> Result<Got, D::Error> {
        Ok(Got::Other)
    }
}

/// outer recording visitor. `visit_some` / `visit_newtype_struct` probe the deserializer they are
/// handed with `deserialize_any(Leaf)` so that "it is the same cell at the same position" is observable.
/// An inner CellError is reported as Ok(Out::SomeCellErr) so that it is distinguishable from a direct one.
struct RecV;
impl<'de> Visitor<'de> for RecV {
    type Value = Out;
    leaf_visits!(|g| Out::Ok(g));
    fn visit_some<D: Deserializer<'de>>(self, d: D) -> Result<Out, D::Error> {
        // D::Error is opaque here; DataDeserializer's is DeError -- map through a side channel:
        // we keep the error as is and let `observe` classify it; a flag tells observe it came from inside Some.
        match d.deserialize_any(Leaf) {
            Ok(g) => Ok(Out::Some(g)),
            Err(e) => {
                unsafe { INNER_ERR = true };
                Err(e)
            }
        }
    }
    fn visit_newtype_struct<D: Deserializer<'de>>(self, d: D) -> Result<Out, D::Error> {
        Ok(Out::Newtype(d.deserialize_any(Leaf)?))
    }
}
static mut INNER_ERR: bool = false;

fn observe(r: Result<Out, DeError>) -> Out {
    match r {
        Ok(o) => o,
        Err(DeError::CellError { err, pos }) => {
            if unsafe { INNER_ERR } {
                Out::SomeCellErr(kind_no(&err), pos)
            } else {
                Out::CellErr(kind_no(&err), pos)
            }
        }
        Err(_) => Out::OtherErr,
    }
}

/// replaces `alloc::fmt::format` (error-message strings only; their text is not part of the property)
fn format_stub(_args: fmt::Arguments<'_>) -> String {
    String::new()
}

// ---------------------------------------------------------------------------------------------
// symbolic cells
// ---------------------------------------------------------------------------------------------

/// tags: 0 Int, 1 Float, 2 Bool, 3 Empty, 4 DateTime, 5 Error
fn cell_of(tag: u8) -> Data {
    match tag {
        0 => Data::Int(kani::any()),
        1 => Data::Float(kani::any()),
        2 => Data::Bool(kani::any()),
        3 => Data::Empty,
        4 => {
            let t = if kani::any() { ExcelDateTimeType::DateTime } else { ExcelDateTimeType::TimeDelta };
            Data::DateTime(ExcelDateTime::new(kani::any(), t, kani::any()))
        }
        _ => Data::Error(any_kind()),
    }
}
/// run `f` on a fully symbolic cell of every non-String variant. The variant tag is concrete in each call
/// (the payload and the position are symbolic), so CBMC does not explore the String arms of the real code
/// with an invalid symbolic String; the union of the six calls is the whole non-String domain.
fn for_all_cells(f: fn(Data, (u32, u32))) {
    let mut tag = 0u8;
    while tag < 6 {
        let pos: (u32, u32) = kani::any();
        f(cell_of(tag), pos);
        tag += 1;
    }
    kani::cover!(tag == 6); // all six calls returned
}
/// the number carried by a DateTime cell (its serial value), read through the public accessor
fn dt_value(d: &Data) -> f64 {
    match d {
        Data::DateTime(e) => e.as_f64(),
        _ => 0.0,
    }
}

// ---------------------------------------------------------------------------------------------
// Part 1 -- conversion table, one harness per method
// ---------------------------------------------------------------------------------------------

/// numeric targets: Int(v)/Float(v) -> visit_T(v as T); Error(k) -> CellError{k,pos}; others rejected (not CellError)
macro_rules! num_harness {
    ($name:ident, $method:ident, $t:ty, $got:expr) => {
        #[kani::proof]
        #[kani::stub(alloc::fmt::format, format_stub)]
        fn $name() {
            for_all_cells(|d, pos| {
            let out = observe(d.to_cell_deserializer(pos).$method(RecV));
            let expect = match &d {
                Data::Int(v) => Out::Ok(($got)(*v as $t)),
                Data::Float(v) => Out::Ok(($got)(*v as $t)),
                Data::Error(k) => Out::CellErr(kind_no(k), pos),
                _ => Out::OtherErr,
            };
            assert!(out == expect);
            });
        }
    };
}
num_harness!(de_i64, deserialize_i64, i64, Got::I64);
num_harness!(de_i32, deserialize_i32, i32, Got::I32);
num_harness!(de_i16, deserialize_i16, i16, Got::I16);
num_harness!(de_i8, deserialize_i8, i8, Got::I8);
num_harness!(de_u64, deserialize_u64, u64, Got::U64);
num_harness!(de_u32, deserialize_u32, u32, Got::U32);
num_harness!(de_u16, deserialize_u16, u16, Got::U16);
num_harness!(de_u8, deserialize_u8, u8, Got::U8);
num_harness!(de_f64, deserialize_f64, f64, |v: f64| Got::F64(v.to_bits()));
num_harness!(de_f32, deserialize_f32, f32, |v: f32| Got::F32(v.to_bits()));

/// bool: Bool(b) -> b; Empty -> false; a number is true iff it is not zero; Error -> CellError
#[kani::proof]
#[kani::stub(alloc::fmt::format, format_stub)]
fn de_bool() {
    for_all_cells(|d, pos| {
    let out = observe(d.to_cell_deserializer(pos).deserialize_bool(RecV));
    let expect = match &d {
        Data::Bool(b) => Out::Ok(Got::Bool(*b)),
        Data::Empty => Out::Ok(Got::Bool(false)),
        Data::Int(v) => Out::Ok(Got::Bool(*v != 0)),
        Data::Float(v) => Out::Ok(Got::Bool(!(*v == 0.0))),
        Data::DateTime(_) => Out::Ok(Got::Bool(!(dt_value(&d) == 0.0))),
        Data::Error(k) => Out::CellErr(kind_no(k), pos),
        _ => Out::OtherErr,
    };
    assert!(out == expect);
    });
}

/// option: Empty -> None; every other cell -> Some(the same cell at the same position)
#[kani::proof]
#[kani::stub(alloc::fmt::format, format_stub)]
fn de_option() {
    for_all_cells(|d, pos| {
    unsafe { INNER_ERR = false };
    let out = observe(d.to_cell_deserializer(pos).deserialize_option(RecV));
    let expect = match &d {
        Data::Empty => Out::Ok(Got::NoneV),
        Data::Int(v) => Out::Some(Got::I64(*v)),
        Data::Float(v) => Out::Some(Got::F64(v.to_bits())),
        Data::Bool(b) => Out::Some(Got::Bool(*b)),
        Data::DateTime(_) => Out::Some(Got::F64(dt_value(&d).to_bits())),
        Data::Error(k) => Out::SomeCellErr(kind_no(k), pos),
        _ => Out::OtherErr,
    };
    assert!(out == expect);
    });
}

/// unit: Empty -> unit; Error -> CellError; everything else is rejected
#[kani::proof]
#[kani::stub(alloc::fmt::format, format_stub)]
fn de_unit() {
    for_all_cells(|d, pos| {
    let out = observe(d.to_cell_deserializer(pos).deserialize_unit(RecV));
    let expect = match &d {
        Data::Empty => Out::Ok(Got::Unit),
        Data::Error(k) => Out::CellErr(kind_no(k), pos),
        _ => Out::OtherErr,
    };
    assert!(out == expect);
    });
}

/// any (self-describing): the cell's own type; DateTime as its serial number; Empty as unit
#[kani::proof]
#[kani::stub(alloc::fmt::format, format_stub)]
fn de_any() {
    for_all_cells(|d, pos| {
    let out = observe(d.to_cell_deserializer(pos).deserialize_any(RecV));
    let expect = match &d {
        Data::Int(v) => Out::Ok(Got::I64(*v)),
        Data::Float(v) => Out::Ok(Got::F64(v.to_bits())),
        Data::Bool(b) => Out::Ok(Got::Bool(*b)),
        Data::Empty => Out::Ok(Got::Unit),
        Data::DateTime(_) => Out::Ok(Got::F64(dt_value(&d).to_bits())),
        Data::Error(k) => Out::CellErr(kind_no(k), pos),
        _ => Out::OtherErr,
    };
    assert!(out == expect);
    });
}

// ---------------------------------------------------------------------------------------------
// Part 2 -- RangeDeserializer::{new,next,size_hint} + RowDeserializer (bounded)
// ---------------------------------------------------------------------------------------------

/// symbolic origin; the only constraint is that the range fits into u32 coordinates
fn any_origin() -> (u32, u32) {
    let r: u32 = kani::any();
    let c: u32 = kani::any();
    kani::assume(r <= u32::MAX - 4 && c <= u32::MAX - 4);
    (r, c)
}

/// H x W range at `start` built through the public API; cell (i, j) is `cell(i, j)`
fn build_range<const H: usize, const W: usize>(start: (u32, u32), cells: &[[Data; W]; H]) -> Range<Data> {
    let mut r: Range<Data> = Range::new(start, (start.0 + H as u32 - 1, start.1 + W as u32 - 1));
    let mut i = 0;
    while i < H {
        let mut j = 0;
        while j < W {
            r.set_value((start.0 + i as u32, start.1 + j as u32), cells[i][j].clone());
            j += 1;
        }
        i += 1;
    }
    r
}

fn no_headers() -> RangeDeserializerBuilder<'static, &'static str> {
    let mut b = RangeDeserializerBuilder::new();
    b.has_headers(false);
    b
}

/// a record that pulls up to 3 elements of type E from the row and remembers how many there were
struct Row3<E> {
    n: u8,
    e: [Option<E>; 3],
}
impl<'de, E: Deserialize<'de>> Deserialize<'de> for Row3<E> {
    fn deserialize<D: Deserializer<'de>>(d: D) -> Result<Self, D::Error> {
        struct V<E>(PhantomData<E>);
        impl<'de, E: Deserialize<'de>> Visitor<'de> for V<E> {
            type Value = Row3<E>;
            fn expecting(&self, _f: &mut fmt::Formatter<'_>) -> fmt::Result {
                Ok(())
            }
            fn visit_seq<A: SeqAccess<'de>>(self, mut a: A) -> Result<Row3<E>, A::Error> {
                let mut r = Row3 { n: 0, e: [None, None, None] };
                while r.n < 3 {
                    match a.next_element::<E>()? {
                        Some(x) => r.e[r.n as usize] = Some(x),
                        None => break,
                    }
                    r.n += 1;
                }
                Ok(r)
            }
        }
        d.deserialize_seq(V(PhantomData))
    }
}
/// element type for records: whatever the cell says about itself through `deserialize_any`
impl<'de> Deserialize<'de> for Got {
    fn deserialize<D: Deserializer<'de>>(d: D) -> Result<Self, D::Error> {
        d.deserialize_any(Leaf)
    }
}



fn to_string_stub<T: fmt::Display + ?Sized>(_v: &T) -> String { String::new() }
#[kani::proof]
#[kani::unwind(8)]
#[kani::stub(alloc::fmt::format, format_stub)]
fn probe_y1() {
    let v: [i64; 2] = kani::any();
    let range = Range { start: (3, 2), end: (3, 3), inner: vec![Data::Int(v[0]), Data::Int(v[1])] };
    let b = no_headers();
    let Ok(mut it) = b.from_range::<Data, Row3<i64>>(&range) else {
        assert!(false);
        return;
    };
    match it.next() {
        Some(Ok(r)) => assert!(r.n == 2 && r.e[0] == Some(v[0]) && r.e[1] == Some(v[1])),
        _ => assert!(false),
    }
}
#[kani::proof]
#[kani::unwind(8)]
#[kani::stub(alloc::fmt::format, format_stub)]
fn probe_y2() {
    let v: [i64; 2] = kani::any();
    let range = Range { start: (3, 2), end: (3, 3), inner: vec![Data::Int(v[0]), Data::Int(v[1])] };
    let mut rows = range.rows();
    let idx: Vec<usize> = (0..range.width()).collect();
    let Some(row) = rows.next() else { assert!(false); return; };
    let pos: (u32, u32) = kani::any();
    let de = RowDeserializer::new(&idx, None, row, pos);
    match Row3::<i64>::deserialize(de) {
        Ok(r) => assert!(r.n == 2 && r.e[0] == Some(v[0]) && r.e[1] == Some(v[1])),
        _ => assert!(false),
    }
}
#[kani::proof]
#[kani::unwind(8)]
#[kani::stub(alloc::fmt::format, format_stub)]
fn probe_y3() {
    let v: [i64; 4] = kani::any();
    let range = Range { start: (3, 2), end: (4, 3), inner: vec![Data::Int(v[0]), Data::Int(v[1]), Data::Int(v[2]), Data::Int(v[3])] };
    let b = no_headers();
    let Ok(mut it) = b.from_range::<Data, Row3<i64>>(&range) else {
        assert!(false);
        return;
    };
    match it.next() {
        Some(Ok(r)) => assert!(r.n == 2 && r.e[0] == Some(v[0]) && r.e[1] == Some(v[1])),
        _ => assert!(false),
    }
    match it.next() {
        Some(Ok(r)) => assert!(r.n == 2 && r.e[0] == Some(v[2]) && r.e[1] == Some(v[3])),
        _ => assert!(false),
    }
}
