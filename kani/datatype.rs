// helpers: expose private fields of ExcelDateTime to sibling harness modules (cfg(kani) only)
pub(crate) fn edt_parts(e: &ExcelDateTime) -> (u64, u8, bool) {
    (
        e.value.to_bits(),
        match e.datetime_type {
            ExcelDateTimeType::DateTime => 1,
            ExcelDateTimeType::TimeDelta => 2,
        },
        e.is_1904,
    )
}
