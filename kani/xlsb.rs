// Discharge of the contract assumed in Verus (units/xlsbrec) for the wrapper that stands for `u32::from_le_bytes`
// (std signature not nameable in `assume_specification`), and the 24-bit iStyleRef reading of `cell_format` on the real function.
#[kani::proof]
fn u32_from_le_bytes_spec() {
    let b: [u8; 4] = kani::any();
    let r = u32::from_le_bytes(b);
    assert!(r as u64 == b[0] as u64 + 256 * (b[1] as u64) + 65536 * (b[2] as u64) + 16777216 * (b[3] as u64));
}
/// [MS-XLSB] 2.5.9 Cell: iStyleRef is the 24-bit integer at bytes 4..7; byte 7 (fPhShow + reserved) is not part of it.
/// formats: up to 4 entries (symbolic content and length); buf: symbolic 7..=12 bytes.
#[kani::proof]
fn cell_format_24bit() {
    let fmts: [CellFormat; 4] = [any_fmt(), any_fmt(), any_fmt(), any_fmt()];
    let nf: usize = kani::any();
    kani::assume(nf <= 4);
    let b: [u8; 12] = kani::any();
    let n: usize = kani::any();
    kani::assume(7 <= n && n <= 12);
    let idx = b[4] as usize + 256 * (b[5] as usize) + 65536 * (b[6] as usize);
    kani::cover!(idx < nf && b[7] != 0);
    let r = cell_format(&fmts[..nf], &b[..n]);
    if idx < nf {
        assert!(r.is_some() && *r.unwrap() == fmts[idx]);
    } else {
        assert!(r.is_none());
    }
}
fn any_fmt() -> CellFormat {
    let k: u8 = kani::any();
    if k == 0 { CellFormat::Other } else if k == 1 { CellFormat::DateTime } else { CellFormat::TimeDelta }
}
