// Kani harnesses for the xlsx shared-formula rewriting (src/xlsx/mod.rs): coordinate_to_name, replace_cell_names.
// Oracles are written here from the property text (C15) / the A1 notation, never from the code under test.

/// spreadsheet column letters of a 0-based column < 16384: closed form of bijective base-26 (A..Z, AA..ZZ, AAA..XFD)
fn o_letters(col: u32, out: &mut [u8; 3]) -> usize {
    if col < 26 {
        out[0] = b'A' + col as u8;
        1
    } else if col < 26 + 676 {
        let c = col - 26;
        out[0] = b'A' + (c / 26) as u8;
        out[1] = b'A' + (c % 26) as u8;
        2
    } else {
        let c = col - 702;
        out[0] = b'A' + (c / 676) as u8;
        out[1] = b'A' + ((c / 26) % 26) as u8;
        out[2] = b'A' + (c % 26) as u8;
        3
    }
}
/// decimal digits of v (1..=9999999), most significant first
fn o_decimal(v: u32, out: &mut [u8; 10]) -> usize {
    let mut n = 1;
    let mut p = 10u64;
    while (v as u64) >= p {
        n += 1;
        p *= 10;
    }
    let mut i = 0;
    let mut x = v;
    while i < n {
        out[n - 1 - i] = b'0' + (x % 10) as u8;
        x /= 10;
        i += 1;
    }
    n
}

fn check_name(row: u32, col: u32) {
    let v = coordinate_to_name((row, col)).unwrap();
    let mut l = [0u8; 3];
    let nl = o_letters(col, &mut l);
    let mut d = [0u8; 10];
    let nd = o_decimal(row + 1, &mut d);
    assert!(v.len() == nl + nd);
    let mut i = 0;
    while i < nl {
        assert!(v[i] == l[i]);
        i += 1;
    }
    let mut j = 0;
    while j < nd {
        assert!(v[nl + j] == d[j]);
        j += 1;
    }
}
// coordinate_to_name = concat(letters(col), decimal(row + 1)): the two halves are independent, and a harness symbolic in both
// does not finish (7 min probe), so each axis is swept separately.
#[kani::proof]
#[kani::unwind(12)]
fn coordinate_to_name_rows() {
    let row: u32 = kani::any();
    kani::assume(row < 100);
    kani::cover!(row == 99);
    check_name(row, 27);
}
#[kani::proof]
#[kani::unwind(12)]
fn coordinate_to_name_cols() {
    let col: u32 = kani::any();
    kani::assume(col < 16384);
    kani::cover!(col == 16383);
    kani::cover!(col == 26);
    check_name(7, col);
}
// (Err for col >= 16384: a harness with a symbolic out-of-range column did not finish in 7 min; the clause is carried by the Verus unit
// `shared` through column_number_to_name's contract proved in unit a1.)
/// C06: no panic for any coordinate (fails: `cell.0 + 1` overflows for row == u32::MAX, which offset_cell_name produces from a negative offset)
#[kani::proof]
#[kani::unwind(12)]
fn coordinate_to_name_total() {
    let row: u32 = kani::any();
    kani::assume(row >= 0xFFFF_FFF0);
    let _ = coordinate_to_name((row, 0));
}
